(* Compaction of the storage-engine model (Model/Store.v) makes progress and terminates.
   Measure: the number of tables that qualify for compaction ([compactable]: garbage ratio reached). *)
From Coq Require Import List NArith ZArith Lia Bool Permutation Sorted.
From Coq Require Import ZifyN ZifyNat ZifyBool.
Require Import Olric.Gen.Consts Olric.Model.Codec Olric.Model.Store Olric.Proofs.StoreProofs Olric.Proofs.ScanProofs.
Import ListNotations.
Local Open Scope N_scope.

(* ------------------------------------------------------------------ the measure ------------- *)

Definition ccount (ts : list table) : nat := length (filter compactable ts).
(* a table that qualifies can be drained by one evictTable call (at most 1001 moves per call) *)
Definition smallc (t : table) : Prop := compactable t = true -> (length (trecs t) <= 1001)%nat.
(* the table being written does not qualify (it would once it is sealed, and it grows until then) *)
Definition head_quiet (s : store) : Prop :=
  match stabs s with [] => True | hd :: _ => compactable hd = false end.
Definition quiet (s : store) : Prop := Forall smallc (stabs s) /\ head_quiet s.

Lemma compactable_eq t t' : talloc t' = talloc t -> tgarb t' = tgarb t -> tinuse t' = tinuse t -> compactable t' = compactable t.
Proof. unfold compactable. now intros -> -> ->. Qed.

Lemma compactable_mono t t' :
  talloc t' = talloc t -> tgarb t <= tgarb t' -> tinuse t' <= tinuse t -> compactable t = true -> compactable t' = true.
Proof.
  unfold compactable, max_garbage_ratio_num, max_garbage_ratio_den. intros -> Hg Hi H.
  apply orb_true_iff in H. apply orb_true_iff. destruct H as [H|H].
  - left. apply andb_true_iff in H as [H1 H2]. apply andb_true_iff. split; lia.
  - right. apply N.leb_le in H. apply N.leb_le. lia.
Qed.

Lemma not_compactable_zero t : 0 < talloc t -> tgarb t = 0 -> compactable t = false.
Proof.
  unfold compactable, max_garbage_ratio_num, max_garbage_ratio_den. intros Ha ->.
  apply orb_false_iff. split; [apply andb_false_iff; right; lia|apply N.leb_gt; lia].
Qed.

Lemma compactable_garb t : 0 < talloc t -> compactable t = true -> 0 < tgarb t.
Proof.
  intros Ha Hc. destruct (N.eq_dec (tgarb t) 0) as [E|E]; [|lia].
  rewrite (not_compactable_zero _ Ha E) in Hc. discriminate.
Qed.

Lemma compactable_live size t : twf size t -> 0 < size -> compactable t = true -> live t = true.
Proof.
  intros Ht Hs Hc. unfold live. destruct (is_recycled t) eqn:E; [|reflexivity]. exfalso.
  pose proof (twf_rec _ _ Ht E) as Ho. pose proof (twf_acc _ _ Ht) as Ha. pose proof (twf_alloc _ _ Ht) as Hal.
  rewrite not_compactable_zero in Hc; [discriminate|lia|lia].
Qed.

Lemma ccount_cons t ts : ccount (t :: ts) = ((if compactable t then 1 else 0) + ccount ts)%nat.
Proof. unfold ccount. cbn. destruct (compactable t); reflexivity. Qed.

Lemma ccount_perm l l' : Permutation l l' -> ccount l = ccount l'.
Proof. intros H. unfold ccount. apply Permutation_length. now apply perm_filter. Qed.

Lemma ccount_map_ext f ts :
  (forall x, In x ts -> compactable (f x) = compactable x) -> ccount (map f ts) = ccount ts.
Proof.
  induction ts as [|t ts IH]; cbn [map]; intros H; [reflexivity|].
  rewrite !ccount_cons, (H t (or_introl eq_refl)), IH; [reflexivity|]. intros x Hx. apply H. now right.
Qed.

Lemma ccount_le_length ts : (ccount ts <= length ts)%nat.
Proof. unfold ccount. apply sub_length, sub_filter_self. Qed.

(* a table-wise change that can only take tables out of the qualifying set *)
Lemma ccount_map_le f ts :
  (forall x, In x ts -> compactable (f x) = true -> compactable x = true) -> (ccount (map f ts) <= ccount ts)%nat.
Proof.
  induction ts as [|t ts IH]; cbn [map]; intros H; [lia|]. rewrite !ccount_cons.
  assert (IH' : (ccount (map f ts) <= ccount ts)%nat) by (apply IH; intros x Hx; apply H; now right).
  pose proof (H t (or_introl eq_refl)) as Ht. destruct (compactable (f t)), (compactable t); try lia;
    discriminate (Ht eq_refl).
Qed.

Lemma ccount_map_lt f ts t :
  (forall x, In x ts -> compactable (f x) = true -> compactable x = true) ->
  In t ts -> compactable t = true -> compactable (f t) = false -> (ccount (map f ts) < ccount ts)%nat.
Proof.
  induction ts as [|a ts IH]; cbn [map]; intros H Hin Hc Hf; [contradiction|]. rewrite !ccount_cons.
  assert (Hle : (ccount (map f ts) <= ccount ts)%nat) by (apply ccount_map_le; intros x Hx; apply H; now right).
  destruct Hin as [->|Hin].
  - rewrite Hc, Hf. lia.
  - assert (IH' : (ccount (map f ts) < ccount ts)%nat) by (apply IH; auto; intros x Hx; apply H; now right).
    pose proof (H a (or_introl eq_refl)) as Ha. destruct (compactable (f a)), (compactable a); try lia;
      discriminate (Ha eq_refl).
Qed.

(* ------------------------------------------------------------------ holders of an hkey ------- *)

(* two tables of a duplicate-free store that hold the same hkey are the same table *)
Lemma holder_eq ts x t r1 r2 :
  NoDup (hkeys (concat (map trecs ts))) -> In x ts -> In t ts -> In r1 (trecs x) -> In r2 (trecs t) ->
  rh r1 = rh r2 -> x = t.
Proof.
  induction ts as [|a ts IH]; cbn [map concat]; intros Hnd Hx Ht H1 H2 Hh; [contradiction|].
  unfold hkeys in Hnd. rewrite map_app in Hnd.
  assert (Hcross : forall y ra rb, In y ts -> In ra (trecs a) -> In rb (trecs y) -> rh ra = rh rb -> False).
  { intros y ra rb Hy Ha Hb E. eapply (nodup_app_disj _ _ (rh ra) Hnd); [apply in_map, Ha|].
    rewrite E. apply in_map. apply in_concat. exists (trecs y). split; [now apply in_map|exact Hb]. }
  destruct Hx as [->|Hx], Ht as [->|Ht]; try reflexivity.
  - exfalso. eapply Hcross; eauto.
  - exfalso. eapply Hcross; eauto.
  - apply IH; auto. eapply nodup_app_r; eauto.
Qed.

Lemma t_delete_none h t : t_find h t = None -> t_delete h t = t.
Proof. unfold t_delete. now intros ->. Qed.

Lemma t_delete_some h t r :
  t_find h t = Some r -> talloc (t_delete h t) = talloc t /\ tgarb t <= tgarb (t_delete h t) /\
  (length (trecs (t_delete h t)) <= length (trecs t))%nat.
Proof.
  intros E. rewrite t_delete_recs. unfold t_delete. rewrite E. cbn. split; [reflexivity|split; [lia|]].
  apply sub_length, sub_filter_self.
Qed.

Lemma t_delete_inuse h t : tinuse (t_delete h t) <= tinuse t.
Proof. unfold t_delete. destruct (t_find h t); cbn [tinuse]; lia. Qed.

(* appending to a table never makes it qualify: its garbage is unchanged and it now holds a live record *)
Lemma compactable_append h e t : compactable (t_append h e t) = true -> compactable t = true.
Proof.
  unfold compactable, t_append. cbn [tinuse tgarb talloc]. intros H.
  apply orb_true_iff in H. apply orb_true_iff. destruct H as [H|H]; [left|right; exact H].
  apply andb_true_iff in H as [H1 H2]. apply andb_true_iff. split; lia.
Qed.

Lemma filter_lnot_shorter h l r : find (has h) l = Some r -> (length (filter (lnot h) l) < length l)%nat.
Proof.
  induction l as [|x l IH]; cbn; [discriminate|]. unfold lnot at 1. destruct (has h x); cbn.
  - intros _. pose proof (sub_length _ _ (sub_filter_self (lnot h) l)). lia.
  - intros H. specialize (IH H). lia.
Qed.

(* ------------------------------------------------------------------ makeTable ---------------- *)

Lemma make_table_tail s t : In t (tl (stabs s)) -> live t = true -> In t (tl (stabs (make_table s))).
Proof.
  intros Hin Hl. assert (Hs : In t (seal_head (stabs s))).
  { destruct (stabs s) as [|a r]; [contradiction|]. cbn in *. now right. }
  unfold make_table. destruct (take_recycled (rev (seal_head (stabs s)))) as [[x rest]|] eqn:E; cbn [stabs tl].
  - apply -> in_rev. eapply take_recycled_keeps_live; eauto. now apply -> in_rev.
  - exact Hs.
Qed.

Lemma seal_head_compactable ts : map compactable (seal_head ts) = map compactable ts.
Proof. destruct ts as [|t r]; cbn; [reflexivity|]. destruct (is_recycled t); reflexivity. Qed.

Lemma ccount_map_compactable l l' : map compactable l = map compactable l' -> ccount l = ccount l'.
Proof.
  revert l'. induction l as [|a l IH]; intros [|b l']; cbn [map]; intros H; try discriminate; [reflexivity|].
  injection H as Hab H. rewrite !ccount_cons, Hab, (IH _ H). reflexivity.
Qed.

Lemma make_table_ccount s : tabs_wf s -> 0 < ssize s -> ccount (stabs (make_table s)) = ccount (stabs s).
Proof.
  intros Hw Hs. rewrite <- (ccount_map_compactable _ _ (seal_head_compactable (stabs s))).
  pose proof (seal_head_wf _ _ Hw) as Hw'. unfold make_table.
  destruct (take_recycled (rev (seal_head (stabs s)))) as [[x rest]|] eqn:E; cbn [stabs].
  - pose proof (take_recycled_perm _ _ _ E) as Hp. pose proof (take_recycled_is _ _ _ E) as Hr.
    assert (Hx : twf (ssize s) x).
    { apply Forall_rev in Hw'. rewrite Forall_forall in Hw'. apply Hw'.
      eapply Permutation_in; [symmetry; exact Hp|]. now left. }
    rewrite (ccount_perm _ _ (Permutation_rev (seal_head (stabs s)))), (ccount_perm _ _ Hp).
    rewrite !ccount_cons, <- (ccount_perm _ _ (Permutation_rev rest)).
    assert (Hnc : compactable x = false).
    { destruct (compactable x) eqn:Ec; [|reflexivity]. pose proof (compactable_live _ _ Hx Hs Ec) as Hl.
      unfold live in Hl. rewrite Hr in Hl. discriminate. }
    replace (compactable (t_set_state table_state_rw (t_set_coef (snext s) x))) with (compactable x) by reflexivity.
    now rewrite Hnc.
  - rewrite ccount_cons. rewrite not_compactable_zero; [reflexivity|cbn; lia|reflexivity].
Qed.

Lemma make_table_head_quiet s : tabs_wf s -> 0 < ssize s -> head_quiet (make_table s).
Proof.
  intros Hw Hs. destruct (make_table_head s Hw) as (t & r & E & Ho & Ha & _).
  pose proof (make_table_wf s Hw) as Hw1. unfold tabs_wf in Hw1. rewrite E in Hw1. inversion Hw1 as [|? ? Ht _]; subst.
  unfold head_quiet. rewrite E. pose proof (twf_acc _ _ Ht). apply not_compactable_zero; lia.
Qed.

Lemma make_table_smallc s : tabs_wf s -> Forall smallc (stabs s) -> Forall smallc (stabs (make_table s)).
Proof.
  intros Hw H.
  assert (Hseal : Forall smallc (seal_head (stabs s))).
  { destruct (stabs s) as [|a r]; cbn; [constructor|]. inversion H; subst. constructor; [|assumption].
    destruct (is_recycled a); assumption. }
  pose proof (seal_head_wf _ _ Hw) as Hw'. unfold make_table.
  destruct (take_recycled (rev (seal_head (stabs s)))) as [[x rest]|] eqn:E; cbn [stabs].
  - pose proof (take_recycled_perm _ _ _ E) as Hp. pose proof (take_recycled_is _ _ _ E) as Hr.
    assert (Hx : twf (ssize s) x).
    { apply Forall_rev in Hw'. rewrite Forall_forall in Hw'. apply Hw'.
      eapply Permutation_in; [symmetry; exact Hp|]. now left. }
    constructor.
    + intros _. cbn [trecs t_set_state t_set_coef]. rewrite (twf_recycled_empty _ _ Hx Hr). cbn. lia.
    + eapply sub_Forall; [|exact Hseal]. apply sub_rev_l. eapply take_recycled_sub; eauto.
  - constructor; [|exact Hseal]. intros _. cbn. lia.
Qed.

(* what a run of makeTable calls keeps *)
Definition cbase (s : store) : Prop := swf3 s /\ 0 < ssize s.

Lemma make_table_cbase s : cbase s -> cbase (make_table s).
Proof. intros [H3 Hs]. split; [now apply make_table_swf3|now rewrite make_table_size]. Qed.

Lemma mtr_cbase s s1 : mtr s s1 -> cbase s -> cbase s1.
Proof. apply mtr_inv. exact make_table_cbase. Qed.

Lemma mtr_ccount s s1 : mtr s s1 -> cbase s -> ccount (stabs s1) = ccount (stabs s).
Proof.
  induction 1 as [|s s1 _ IH]; intros Hb; [reflexivity|]. rewrite IH by now apply make_table_cbase.
  destruct Hb as [[[Hw _] _] Hs]. now apply make_table_ccount.
Qed.

Lemma mtr_tail s s1 t : mtr s s1 -> In t (tl (stabs s)) -> live t = true -> In t (tl (stabs s1)).
Proof. induction 1 as [|s s1 _ IH]; intros Hin Hl; [exact Hin|]. apply IH; [now apply make_table_tail|exact Hl]. Qed.

Lemma mtr_quiet s s1 : mtr s s1 -> cbase s -> quiet s -> quiet s1.
Proof.
  induction 1 as [|s s1 _ IH]; intros Hb Hq; [exact Hq|]. apply IH; [now apply make_table_cbase|].
  destruct Hb as [[[Hw _] _] Hs]. destruct Hq as [Hq _].
  split; [now apply make_table_smallc|now apply make_table_head_quiet].
Qed.

(* ------------------------------------------------------------------ one move ---------------- *)

Lemma putraw_res h e s s' res :
  s_putraw h e s = (s', res) -> res = SOk \/ (res = SEntryTooLarge /\ ssize s <= esize e) \/ res = SSpin.
Proof.
  unfold s_putraw, s_put_gen. destruct (N.leb_spec (ssize s) (esize e)) as [Hle|_].
  - intros [= <- <-]. right. left. auto.
  - set (s0 := if has_writable s then s else make_table s).
    destruct (put_loop (t_putraw h e) s0) as [s1 r1] eqn:El.
    assert (Hr : r1 = SOk \/ r1 = SSpin).
    { revert El. unfold put_loop, put_on_head, t_putraw.
      destruct (stabs s0) as [|a l].
      - intros [= <- <-]. now right.
      - destruct (talloc a <=? esize e + toff a).
        + destruct (stabs (make_table s0)) as [|b l']; [intros [= <- <-]; now right|].
          destruct (talloc b <=? esize e + toff b); intros [= <- <-]; auto.
        + intros [= <- <-]. now left. }
    destruct Hr as [-> | ->]; intros [= <- <-]; auto.
Qed.

Lemma live_delete h t : live (t_delete h t) = live t.
Proof. apply live_state. apply t_delete_shape. Qed.

(* evictTable moves one record of the non-head table [t] into the store *)
Lemma evict_step s t h r s' res :
  cbase s -> In t (tl (stabs s)) -> live t = true -> compactable t = true ->
  t_find h t = Some r -> s_putraw h (re r) s = (s', res) ->
  res = SOk /\ cbase s' /\ ssize s' = ssize s /\ (forall h', abs s' h' = abs s h') /\
  In (t_delete h t) (tl (stabs s')) /\ (ccount (stabs s') <= ccount (stabs s))%nat /\ (quiet s -> quiet s').
Proof.
  intros Hb Hin Hl Hc Hf Hp. destruct Hb as [H3 Hs]. pose proof H3 as [[Hw Hu] Hco].
  assert (Hts : In t (stabs s)). { destruct (stabs s); [contradiction|now right]. }
  assert (Ht : twf (ssize s) t). { unfold tabs_wf in Hw. rewrite Forall_forall in Hw. now apply Hw. }
  unfold t_find in Hf. pose proof (find_some _ _ Hf) as [Hr Hh]. apply has_true in Hh.
  destruct (putraw_same s h r s' res (conj Hw Hu) (in_table_in_all _ _ _ Hts Hr) Hh Hp) as (_ & Habs & Hsz).
  pose proof (putraw_swf3 _ _ _ _ _ H3 Hp) as H3'.
  assert (Hres : res = SOk).
  { destruct (putraw_res _ _ _ _ _ Hp) as [E|[[_ E]|E]]; [exact E| |].
    - exfalso. pose proof (twf_rec_bounds _ _ _ Ht Hr) as Hbd. pose proof (rsize_pos r) as Hpos.
      destruct Hco as (_ & _ & Hfit). rewrite Forall_forall in Hfit. specialize (Hfit _ Hts).
      pose proof (twf_alloc _ _ Ht). unfold rsize in *. unfold tfit in Hfit. lia.
    - exfalso. destruct (put_gen_wf _ putter_putraw putter_fit_putraw _ _ _ _ _ Hw Hp) as (_ & _ & Hn). congruence. }
  split; [exact Hres|]. split; [split; [exact H3'|lia]|]. split; [exact Hsz|]. split; [exact Habs|].
  subst res. destruct (put_gen_shape _ putter_putraw _ _ _ _ _ Hp) as [[A _]|(_ & s1 & hd & older & Hm & Et & _ & Es')];
    [congruence|].
  pose proof (mtr_cbase _ _ Hm (conj H3 Hs)) as [H31 Hs1]. pose proof H31 as [[Hw1 Hu1] _].
  pose proof (mtr_tail _ _ _ Hm Hin Hl) as Hin1. rewrite Et in Hin1. cbn [tl] in Hin1.
  unfold uniq, s_all in Hu1. rewrite Et in Hu1. cbn [map concat] in Hu1.
  (* the head does not hold h *)
  assert (Hhd : t_find h hd = None).
  { unfold t_find. destruct (find (has h) (trecs hd)) as [x|] eqn:Ex; [|reflexivity]. exfalso.
    apply find_some in Ex as [Hx Hhx]. apply has_true in Hhx. unfold hkeys in Hu1. rewrite map_app in Hu1.
    eapply (nodup_app_disj _ _ h Hu1); [rewrite <- Hhx; apply in_map, Hx|].
    rewrite <- Hh. apply in_map. apply in_concat. exists (trecs t). split; [now apply in_map|exact Hr]. }
  (* every older table that holds h is t *)
  assert (Hold : forall x y, In x older -> t_find h x = Some y -> x = t).
  { intros x y Hx Hy. unfold t_find in Hy. apply find_some in Hy as [Hy Hhy]. apply has_true in Hhy.
    eapply (holder_eq older x t y r); eauto; [|congruence].
    unfold hkeys in Hu1. rewrite map_app in Hu1. eapply nodup_app_r; eauto. }
  assert (Hcold : forall x, In x older -> compactable (t_delete h x) = compactable x).
  { intros x Hx. destruct (t_find h x) as [y|] eqn:Ey; [|now rewrite t_delete_none].
    pose proof (Hold _ _ Hx Ey) as Ext. subst x. rewrite Hc. destruct (t_delete_some _ _ _ Ey) as (A & B & _).
    apply (compactable_mono t); [assumption|assumption|apply t_delete_inuse|assumption]. }
  assert (Hchd : compactable (t_append h (re r) (t_delete h hd)) = true -> compactable hd = true).
  { rewrite (t_delete_none _ _ Hhd). apply compactable_append. }
  rewrite Es'. cbn [stabs with_tabs tl]. split; [now apply in_map|]. split.
  - rewrite <- (mtr_ccount _ _ Hm (conj H3 Hs)), Et, !ccount_cons. rewrite (ccount_map_ext _ _ Hcold).
    destruct (compactable (t_append h (re r) (t_delete h hd))) eqn:Eap; [rewrite (Hchd eq_refl)|]; lia.
  - intros Hq. destruct (mtr_quiet _ _ Hm (conj H3 Hs) Hq) as [Hq1 Hh1]. unfold head_quiet in Hh1. rewrite Et in *.
    pose proof (Forall_inv Hq1) as Qhd. pose proof (Forall_inv_tail Hq1) as Qold.
    assert (Hnew : compactable (t_append h (re r) (t_delete h hd)) = false).
    { destruct (compactable (t_append h (re r) (t_delete h hd))) eqn:Eap; [|reflexivity]. rewrite (Hchd eq_refl) in Hh1. discriminate. }
    split; [|unfold head_quiet; cbn [stabs with_tabs]; exact Hnew].
    cbn [stabs with_tabs]. constructor.
    + intros Hcc. congruence.
    + apply Forall_forall. intros x' Hx'. apply in_map_iff in Hx' as (x & <- & Hx).
      rewrite Forall_forall in Qold. specialize (Qold _ Hx). unfold smallc in *. rewrite (Hcold _ Hx).
      intros Hcx. specialize (Qold Hcx). destruct (t_find h x) as [y|] eqn:Ey; [|now rewrite t_delete_none].
      destruct (t_delete_some _ _ _ Ey) as (_ & _ & Hlen). lia.
Qed.

(* ------------------------------------------------------------------ the drain loop ----------- *)

Lemma compactable_delete h t : compactable t = true -> compactable (t_delete h t) = true.
Proof.
  intros Hc. destruct (t_find h t) as [y|] eqn:Ey; [|now rewrite t_delete_none].
  destruct (t_delete_some _ _ _ Ey) as (A & B & _). apply (compactable_mono t); [assumption|assumption|apply t_delete_inuse|assumption].
Qed.

Lemma evict_loop_drain c : forall ord fuel s t,
  cbase s -> In t (tl (stabs s)) -> live t = true -> tcoef t = c -> compactable t = true ->
  exists t',
    cbase (evict_loop c ord fuel s) /\ ssize (evict_loop c ord fuel s) = ssize s /\
    (forall h, abs (evict_loop c ord fuel s) h = abs s h) /\
    In t' (tl (stabs (evict_loop c ord fuel s))) /\ live t' = true /\ tcoef t' = c /\ compactable t' = true /\
    (ccount (stabs (evict_loop c ord fuel s)) <= ccount (stabs s))%nat /\ (quiet s -> quiet (evict_loop c ord fuel s)) /\
    ((forall h, In h (hkeys (trecs t)) -> In h ord) -> (length (trecs t) <= fuel)%nat -> trecs t' = []).
Proof.
  induction ord as [|h ord IH]; intros fuel s t Hb Hin Hl Hc Hcp.
  - exists t. assert (E : evict_loop c [] fuel s = s) by (destruct fuel; reflexivity). rewrite E.
    repeat (split; [solve [auto]|]). intros Hcov _. destruct (trecs t) as [|r rs]; [reflexivity|].
    destruct (Hcov (rh r)). now left.
  - destruct fuel as [|fuel].
    + exists t. cbn [evict_loop]. repeat (split; [solve [auto]|]). intros _ Hlen.
      destruct (trecs t); [reflexivity|cbn in Hlen; lia].
    + cbn [evict_loop].
      assert (Hts : In t (stabs s)). { destruct (stabs s); [contradiction|now right]. }
      rewrite (find_by_coef_uniq c (stabs s) t (coefs_nodup _ (proj2 (proj1 Hb))) Hts Hl Hc).
      destruct (t_find h t) as [r|] eqn:Ef.
      * destruct (s_putraw h (re r) s) as [s' res] eqn:Ep.
        destruct (evict_step _ _ _ _ _ _ Hb Hin Hl Hcp Ef Ep) as (-> & Hb' & Hsz & Habs & Hin' & Hcc & Hq).
        destruct (IH fuel s' (t_delete h t) Hb' Hin') as (t' & A1 & A2 & A3 & A4 & A5 & A6 & A7 & A8 & A9 & A10).
        { now rewrite live_delete. }
        { destruct (t_delete_shape h t) as (-> & _). exact Hc. }
        { now apply compactable_delete. }
        exists t'. split; [exact A1|]. split; [lia|]. split; [intros h'; now rewrite A3|].
        split; [exact A4|]. split; [exact A5|]. split; [exact A6|]. split; [exact A7|]. split; [lia|].
        split; [auto|]. intros Hcov Hlen. apply A10.
        -- intros h' Hh'. rewrite t_delete_recs in Hh'. unfold hkeys in Hh'. apply in_map_iff in Hh' as (x & <- & Hx).
           apply filter_In in Hx as [Hx Hn]. apply lnot_true in Hn.
           destruct (Hcov (rh x)) as [E|E]; [apply in_map, Hx|congruence|exact E].
        -- rewrite t_delete_recs. pose proof (filter_lnot_shorter _ _ _ Ef). lia.
      * destruct (IH (S fuel) s t Hb Hin Hl Hc Hcp) as (t' & A1 & A2 & A3 & A4 & A5 & A6 & A7 & A8 & A9 & A10).
        exists t'. repeat (split; [assumption|]). intros Hcov Hlen. apply A10; [|exact Hlen].
        intros h' Hh'. destruct (Hcov h' Hh') as [<-|E]; [|exact E]. exfalso.
        unfold hkeys in Hh'. apply in_map_iff in Hh' as (x & Ex & Hx). unfold t_find in Ef.
        pose proof (find_none _ _ Ef _ Hx) as Hn. apply has_true in Ex. congruence.
Qed.

(* ------------------------------------------------------------------ one Compaction() call ---- *)

Lemma compactable_reset t : 0 < talloc t -> compactable (t_reset t) = false.
Proof. intros H. apply not_compactable_zero; [exact H|reflexivity]. Qed.

(* while some table other than the one being written qualifies, a call does not report done, leaves the map
   alone, and - when the iteration order lists the keys of the table being drained and it holds at most 1001
   records - takes one table out of the qualifying set *)
Theorem compaction_progress ord expired s t :
  swf3 s -> 0 < ssize s -> find compactable (rev (tl (stabs s))) = Some t ->
  snd (s_compaction ord expired s) = false /\
  swf3 (fst (s_compaction ord expired s)) /\ ssize (fst (s_compaction ord expired s)) = ssize s /\
  (forall h, abs (fst (s_compaction ord expired s)) h = abs s h) /\
  (ccount (stabs (fst (s_compaction ord expired s))) <= ccount (stabs s))%nat /\
  ((forall h, In h (hkeys (trecs t)) -> In h ord) -> (length (trecs t) <= 1001)%nat ->
   (ccount (stabs (fst (s_compaction ord expired s))) < ccount (stabs s))%nat /\
   (quiet s -> quiet (fst (s_compaction ord expired s)))).
Proof.
  intros H3 Hs Hf. pose proof (compaction_spec ord expired s (proj1 H3)) as (_ & Habs & Hsz).
  pose proof (compaction_swf3 ord expired s H3) as H3'.
  unfold s_compaction in *. rewrite Hf in *. cbn [fst snd] in *.
  split; [reflexivity|]. split; [exact H3'|]. split; [exact Hsz|]. split; [exact Habs|].
  apply find_some in Hf as [Hin Hcp]. apply in_rev in Hin.
  assert (Hts : In t (stabs s)). { destruct (stabs s); [contradiction|now right]. }
  pose proof H3 as [[Hw _] _].
  assert (Ht : twf (ssize s) t). { unfold tabs_wf in Hw. rewrite Forall_forall in Hw. now apply Hw. }
  pose proof (compactable_live _ _ Ht Hs Hcp) as Hl.
  destruct (evict_loop_drain (tcoef t) ord 1001 s t (conj H3 Hs) Hin Hl eq_refl Hcp)
    as (t' & [H31 Hs1] & Hsz1 & _ & Hin' & Hl' & Hc' & Hcp' & Hcc & Hq & Hdrain).
  unfold evict_table. set (s1 := evict_loop (tcoef t) ord 1001 s) in *.
  unfold reset_if_empty. cbn [stabs with_tabs].
  set (g := fun t0 : table => if negb (is_recycled t0) && (tcoef t0 =? tcoef t) && (tinuse t0 =? 0) then t_reset t0 else t0).
  pose proof H31 as [[Hw1 _] _]. unfold tabs_wf in Hw1. rewrite Forall_forall in Hw1.
  assert (Hg : forall x, In x (stabs s1) -> compactable (g x) = true -> compactable x = true).
  { intros x Hx. unfold g. destruct (negb (is_recycled x) && (tcoef x =? tcoef t) && (tinuse x =? 0)); [|auto].
    rewrite compactable_reset; [discriminate|]. rewrite (twf_alloc _ _ (Hw1 _ Hx)). lia. }
  split; [etransitivity; [now apply ccount_map_le|exact Hcc]|].
  intros Hcov Hlen. specialize (Hdrain Hcov Hlen).
  assert (Hts' : In t' (stabs s1)). { destruct (stabs s1); [contradiction|now right]. }
  assert (Hgt' : g t' = t_reset t').
  { unfold g. fold (live t'). rewrite Hl', Hc', N.eqb_refl. cbn [andb].
    rewrite (twf_inuse _ _ (Hw1 _ Hts')), Hdrain. reflexivity. }
  split.
  - eapply Nat.lt_le_trans; [|exact Hcc]. apply (ccount_map_lt g (stabs s1) t' Hg Hts' Hcp').
    rewrite Hgt'. apply compactable_reset. rewrite (twf_alloc _ _ (Hw1 _ Hts')). lia.
  - intros Hq0. destruct (Hq Hq0) as [Q1 Q2]. split.
    + cbn [stabs with_tabs]. apply Forall_forall. intros x' Hx'. apply in_map_iff in Hx' as (x & <- & Hx).
      rewrite Forall_forall in Q1. specialize (Q1 _ Hx). unfold smallc in *. intros Hgx.
      pose proof (Hg _ Hx Hgx) as Hcx. revert Hgx. unfold g.
      destruct (negb (is_recycled x) && (tcoef x =? tcoef t) && (tinuse x =? 0)); [|auto].
      rewrite compactable_reset; [discriminate|]. rewrite (twf_alloc _ _ (Hw1 _ Hx)). lia.
    + unfold head_quiet in *. cbn [stabs with_tabs]. destruct (stabs s1) as [|hd rest] eqn:E1; [exact I|]. cbn [map].
      destruct (compactable (g hd)) eqn:Eg; [|reflexivity]. rewrite (Hg hd (or_introl eq_refl) Eg) in Q2. discriminate.
Qed.

(* ------------------------------------------------------------------ done --------------------- *)

Lemma sub_tl_l {A} (l l' : list A) : sub l l' -> sub (tl l) l'.
Proof. induction 1 as [|y l l' _ IH|y l l' H _]; cbn; [constructor|now apply sub_skip|now apply sub_skip]. Qed.
Lemma sub_tl {A} (l l' : list A) : sub l l' -> sub (tl l) (tl l').
Proof. destruct 1 as [|y l l' H|y l l' H]; cbn; [constructor|now apply sub_tl_l|exact H]. Qed.

(* when Compaction() reports done, no table other than the one being written qualifies (before and after
   the recycled tables were freed) *)
Theorem compaction_done ord expired s s' :
  s_compaction ord expired s = (s', true) ->
  (forall t, In t (tl (stabs s)) -> compactable t = false) /\
  (forall t, In t (tl (stabs s')) -> compactable t = false) /\
  sub (stabs s') (stabs s).
Proof.
  unfold s_compaction. destruct (find compactable (rev (tl (stabs s)))) as [t|] eqn:Ef; [discriminate|].
  intros [= <-].
  assert (H0 : forall t, In t (tl (stabs s)) -> compactable t = false).
  { intros t Hin. apply (find_none _ _ Ef). now apply -> in_rev. }
  assert (Hsub : sub (stabs (if expired then with_tabs s (rev (drop_recycled (rev (stabs s)) (length (stabs s)))) else s))
                     (stabs s)).
  { destruct expired; [|apply sub_refl]. cbn [stabs with_tabs]. apply sub_rev_l, drop_recycled_sub. }
  split; [exact H0|]. split; [|exact Hsub]. intros t Hin. apply H0. eapply sub_in; [apply sub_tl, Hsub|exact Hin].
Qed.

(* ------------------------------------------------------------------ repeated calls ----------- *)

(* Compaction() is called until it reports done, at most n times; the Go map order of each call is [ordf]
   of the state the call starts from *)
Fixpoint compact_n (ordf : store -> list N) (expired : bool) (n : nat) (s : store) : store * bool :=
  match n with
  | O => (s, false)
  | S n' =>
    let '(s', d) := s_compaction (ordf s) expired s in
    if d then (s', true) else compact_n ordf expired n' s'
  end.

(* every call is handed an order that lists the hkeys of the table it drains *)
Definition ord_covers (ordf : store -> list N) : Prop :=
  forall s t, find compactable (rev (tl (stabs s))) = Some t -> forall h, In h (hkeys (trecs t)) -> In h (ordf s).

Lemma ord_covers_all : ord_covers (fun s => hkeys (s_all s)).
Proof.
  intros s t Hf h Hh. apply find_some in Hf as [Hin _]. apply in_rev in Hin.
  assert (Hts : In t (stabs s)). { destruct (stabs s); [contradiction|now right]. }
  unfold hkeys in *. apply in_map_iff in Hh as (r & <- & Hr). apply in_map. eapply in_table_in_all; eauto.
Qed.

Theorem compaction_terminates_count ordf expired : ord_covers ordf -> forall n s,
  swf3 s -> 0 < ssize s -> quiet s -> (ccount (stabs s) < n)%nat ->
  snd (compact_n ordf expired n s) = true /\ swf3 (fst (compact_n ordf expired n s)) /\
  ssize (fst (compact_n ordf expired n s)) = ssize s /\
  (forall h, abs (fst (compact_n ordf expired n s)) h = abs s h) /\
  (forall t, In t (tl (stabs (fst (compact_n ordf expired n s)))) -> compactable t = false).
Proof.
  intros Hcov. induction n as [|n IH]; intros s H3 Hs Hq Hn; [lia|]. cbn [compact_n].
  destruct (s_compaction (ordf s) expired s) as [s' d] eqn:Ec.
  destruct (find compactable (rev (tl (stabs s)))) as [t|] eqn:Ef.
  - destruct (compaction_progress (ordf s) expired s t H3 Hs Ef) as (Hd & H3' & Hsz & Habs & _ & Hprog).
    rewrite Ec in *. cbn [fst snd] in *. subst d.
    assert (Hsm : (length (trecs t) <= 1001)%nat).
    { apply find_some in Ef as [Hin Hcp]. apply in_rev in Hin. destruct Hq as [Hq _]. rewrite Forall_forall in Hq.
      apply Hq; [|exact Hcp]. destruct (stabs s); [contradiction|now right]. }
    destruct (Hprog (Hcov _ _ Ef) Hsm) as [Hlt Hq'].
    destruct (IH s' H3' ltac:(lia) (Hq' Hq) ltac:(lia)) as (A & B & C & D & E).
    split; [exact A|]. split; [exact B|]. split; [lia|]. split; [intros h; now rewrite D|exact E].
  - pose proof (compaction_spec (ordf s) expired s (proj1 H3)) as (_ & Habs & Hsz).
    pose proof (compaction_swf3 (ordf s) expired s H3) as H3'. rewrite Ec in *. cbn [fst] in *.
    assert (d = true). { revert Ec. unfold s_compaction. rewrite Ef. now intros [= _ <-]. } subst d.
    cbn [fst snd]. split; [reflexivity|]. split; [exact H3'|]. split; [exact Hsz|]. split; [exact Habs|].
    apply (compaction_done _ _ _ _ Ec).
Qed.

Lemma quiet_ccount s : head_quiet s -> (ccount (stabs s) < length (stabs s) + 1)%nat.
Proof.
  unfold head_quiet. destruct (stabs s) as [|hd r]; [cbn; lia|]. intros H. rewrite ccount_cons, H.
  pose proof (ccount_le_length r). cbn [length]. lia.
Qed.

Theorem compaction_terminates ordf expired n s :
  ord_covers ordf -> swf3 s -> 0 < ssize s -> quiet s -> (length (stabs s) + 1 <= n)%nat ->
  snd (compact_n ordf expired n s) = true /\ swf3 (fst (compact_n ordf expired n s)) /\
  ssize (fst (compact_n ordf expired n s)) = ssize s /\
  (forall h, abs (fst (compact_n ordf expired n s)) h = abs s h) /\
  (forall t, In t (tl (stabs (fst (compact_n ordf expired n s)))) -> compactable t = false).
Proof.
  intros Hcov H3 Hs Hq Hn. apply compaction_terminates_count; auto.
  pose proof (quiet_ccount s (proj2 Hq)). lia.
Qed.

(* the hypothesis in terms of garbage: every table that holds garbage holds at most 1001 records, and the
   table being written holds no garbage *)
Lemma quiet_of_garbage s :
  tabs_wf s -> 0 < ssize s ->
  (forall t, In t (stabs s) -> 0 < tgarb t -> (length (trecs t) <= 1001)%nat) ->
  (forall hd r, stabs s = hd :: r -> tgarb hd = 0) -> quiet s.
Proof.
  intros Hw Hs Hsmall Hhd. unfold tabs_wf in Hw. rewrite Forall_forall in Hw. split.
  - apply Forall_forall. intros t Hin Hc. apply Hsmall; [exact Hin|]. apply compactable_garb; [|exact Hc].
    rewrite (twf_alloc _ _ (Hw _ Hin)). exact Hs.
  - unfold head_quiet. destruct (stabs s) as [|hd r] eqn:E; [exact I|]. apply not_compactable_zero.
    + rewrite (twf_alloc _ _ (Hw hd (or_introl eq_refl))). exact Hs.
    + eapply Hhd. reflexivity.
Qed.

Theorem compaction_terminates_garbage ordf expired n s :
  ord_covers ordf -> swf3 s -> 0 < ssize s ->
  (forall t, In t (stabs s) -> 0 < tgarb t -> (length (trecs t) <= 1001)%nat) ->
  (forall hd r, stabs s = hd :: r -> tgarb hd = 0) ->
  (length (stabs s) + 1 <= n)%nat ->
  snd (compact_n ordf expired n s) = true /\ swf3 (fst (compact_n ordf expired n s)) /\
  ssize (fst (compact_n ordf expired n s)) = ssize s /\
  (forall h, abs (fst (compact_n ordf expired n s)) h = abs s h) /\
  (forall t, In t (tl (stabs (fst (compact_n ordf expired n s)))) -> compactable t = false).
Proof.
  intros Hcov H3 Hs Hsmall Hhd Hn. apply compaction_terminates; auto.
  apply quiet_of_garbage; auto. apply H3.
Qed.

(* ------------------------------------------------------------------ what qualifies ------------ *)

Lemma compactable_meaning t :
  compactable t = true <->
  (tinuse t = 0 /\ 0 < tgarb t) \/ talloc t * max_garbage_ratio_num <= tgarb t * max_garbage_ratio_den.
Proof.
  unfold compactable. rewrite orb_true_iff, andb_true_iff. split.
  - intros [[H1 H2]|H]; [left; split; lia|right; now apply N.leb_le in H].
  - intros [[H1 H2]|H]; [left; split; lia|right; now apply N.leb_le].
Qed.

(* once Compaction() has reported done, a table other than the one being written that holds garbage holds live
   bytes too and is below the garbage ratio *)
Theorem no_dead_table_after_compaction ord expired s s' :
  s_compaction ord expired s = (s', true) ->
  forall t, In t (tl (stabs s')) -> 0 < tgarb t ->
    0 < tinuse t /\ tgarb t * max_garbage_ratio_den < talloc t * max_garbage_ratio_num.
Proof.
  intros Hc t Hin Hg. destruct (compaction_done _ _ _ _ Hc) as (_ & H & _). specialize (H t Hin).
  unfold compactable in H. apply orb_false_iff in H as [H1 H2]. apply N.leb_gt in H2.
  split; [|exact H2]. apply andb_false_iff in H1 as [H1|H1]; lia.
Qed.
