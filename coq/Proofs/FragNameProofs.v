From Coq Require Import List NArith Bool Lia.
Require Import Olric.Model.FragName.
Import ListNotations.

Lemma has_prefix_app p s : has_prefix p (p ++ s) = true.
Proof. induction p as [|a p IH]; cbn; [reflexivity|]. rewrite N.eqb_refl. exact IH. Qed.

Lemma skipn_app_exact (p s : bytes) : skipn (length p) (p ++ s) = s.
Proof. induction p as [|a p IH]; cbn; [reflexivity|exact IH]. Qed.

Lemma trim_prefix_app p s : trim_prefix p (p ++ s) = s.
Proof. unfold trim_prefix. rewrite has_prefix_app. apply skipn_app_exact. Qed.

(* the name sent with a migrating fragment is the name of the DMap the fragment belongs to - whatever the name contains *)
Lemma dmap_of_frag_name d : dmap_of_frag (frag_name d) = d.
Proof. unfold dmap_of_frag, frag_name. apply trim_prefix_app. Qed.

Lemma frag_name_injective d1 d2 : frag_name d1 = frag_name d2 -> d1 = d2.
Proof. unfold frag_name. apply app_inv_head. Qed.

Lemma arrives_in_own_fragment d : arrives_in (frag_name d) = frag_name d.
Proof. unfold arrives_in. now rewrite dmap_of_frag_name. Qed.

Lemma move_keeps_names ds : map arrives_in (map frag_name ds) = map frag_name ds.
Proof. induction ds as [|d ds IH]; cbn [map]; [reflexivity|]. now rewrite arrives_in_own_fragment, IH. Qed.

(* two different DMaps never share a fragment, before or after a migration *)
Lemma move_keeps_apart d1 d2 : d1 <> d2 -> arrives_in (frag_name d1) <> arrives_in (frag_name d2).
Proof. intros Hne H. rewrite !arrives_in_own_fragment in H. apply Hne. now apply frag_name_injective. Qed.

(* names that are not fragment names of the DMap service pass through dmap_of_frag unchanged (other services' fragments
   are skipped by the balancer's HasPrefix test before this point) *)
Lemma dmap_of_frag_other n : has_prefix frag_prefix n = false -> dmap_of_frag n = n.
Proof. intros H. unfold dmap_of_frag, trim_prefix. now rewrite H. Qed.

(* removing EVERY occurrence of the prefix is not an inverse of frag_name: "dmap.x.dmap.y" *)
Definition witness_name : bytes := [120; 46; 100; 109; 97; 112; 46; 121]%N.        (* "x.dmap.y" *)
Lemma remove_all_is_not_inverse :
  exists d, remove_all (length (frag_name d)) frag_prefix (frag_name d) <> d /\
            exists d', d' <> d /\ remove_all (length (frag_name d)) frag_prefix (frag_name d) = d' /\
                       arrives_in (frag_name d') = frag_name d'.
Proof.
  exists witness_name. split.
  - vm_compute. discriminate.
  - exists [120; 46; 121]%N. split; [discriminate|]. split; [vm_compute; reflexivity|]. apply arrives_in_own_fragment.
Qed.
