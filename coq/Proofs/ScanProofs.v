(* The structural invariant of the table list (coefficients, fit) and the SCAN cursor protocol of the
   storage-engine model (Model/Store.v): table scan characterisation, cursor progress, termination and
   completeness of a full iteration. *)
From Coq Require Import List NArith ZArith Lia Bool Permutation Sorted.
From Coq Require Import ZifyN ZifyNat ZifyBool.
Require Import Olric.Gen.Consts Olric.Model.Codec Olric.Model.Store Olric.Proofs.StoreProofs.
Import ListNotations.
Local Open Scope N_scope.
Ltac Zify.zify_post_hook ::= Z.div_mod_to_equations.

(* ------------------------------------------------------------------ sublists ---------------- *)

Inductive sub {A} : list A -> list A -> Prop :=
| sub_nil : sub [] []
| sub_skip x l l' : sub l l' -> sub l (x :: l')
| sub_keep x l l' : sub l l' -> sub (x :: l) (x :: l').

Lemma sub_refl {A} (l : list A) : sub l l.
Proof. induction l as [|x l IH]; constructor; exact IH. Qed.

Lemma sub_nil_l {A} (l : list A) : sub [] l.
Proof. induction l as [|x l IH]; constructor; exact IH. Qed.

Lemma sub_in {A} (l l' : list A) x : sub l l' -> In x l -> In x l'.
Proof.
  induction 1 as [|y l l' _ IH|y l l' _ IH]; cbn; intros Hin; [exact Hin| |].
  - right. now apply IH.
  - destruct Hin as [->|Hin]; [now left|right; now apply IH].
Qed.

Lemma sub_app {A} (l1 l1' l2 l2' : list A) : sub l1 l1' -> sub l2 l2' -> sub (l1 ++ l2) (l1' ++ l2').
Proof.
  intros H1 H2. induction H1 as [|y l l' _ IH|y l l' _ IH]; cbn; [exact H2| |]; constructor; exact IH.
Qed.

Lemma sub_rev {A} (l l' : list A) : sub l l' -> sub (rev l) (rev l').
Proof.
  induction 1 as [|y l l' _ IH|y l l' _ IH]; cbn; [constructor| |].
  - rewrite <- (app_nil_r (rev l)). apply sub_app; [exact IH|]. constructor. constructor.
  - apply sub_app; [exact IH|apply sub_refl].
Qed.

Lemma sub_rev_l {A} (l l' : list A) : sub l (rev l') -> sub (rev l) l'.
Proof. intros H. rewrite <- (rev_involutive l'). now apply sub_rev. Qed.

Lemma sub_map {A B} (f : A -> B) (l l' : list A) : sub l l' -> sub (map f l) (map f l').
Proof. induction 1 as [|y l l' _ IH|y l l' _ IH]; cbn; constructor; exact IH. Qed.

Lemma sub_filter {A} (p : A -> bool) (l l' : list A) : sub l l' -> sub (filter p l) (filter p l').
Proof.
  induction 1 as [|y l l' _ IH|y l l' _ IH]; cbn; [constructor| |]; destruct (p y); try constructor; exact IH.
Qed.

Lemma sub_filter_self {A} (p : A -> bool) (l : list A) : sub (filter p l) l.
Proof. induction l as [|x l IH]; cbn; [constructor|]. destruct (p x); constructor; exact IH. Qed.

Lemma sub_Forall {A} (P : A -> Prop) (l l' : list A) : sub l l' -> Forall P l' -> Forall P l.
Proof.
  induction 1 as [|y l l' _ IH|y l l' _ IH]; intros HF; [constructor| |]; inversion HF; subst; auto.
Qed.

Lemma sub_NoDup {A} (l l' : list A) : sub l l' -> NoDup l' -> NoDup l.
Proof.
  induction 1 as [|y l l' Hs IH|y l l' Hs IH]; intros Hnd; [constructor| |];
    inversion Hnd as [|? ? Hnin Hnd']; subst; [auto|].
  constructor; [|auto]. intros Hin. apply Hnin. eapply sub_in; eauto.
Qed.

Lemma sub_ssorted {A} (R : A -> A -> Prop) (l l' : list A) :
  sub l l' -> StronglySorted R l' -> StronglySorted R l.
Proof.
  induction 1 as [|y l l' Hs IH|y l l' Hs IH]; intros Hso; [constructor| |];
    apply StronglySorted_inv in Hso as [Hso Hall]; [auto|].
  constructor; [auto|]. eapply sub_Forall; eauto.
Qed.

Lemma sub_concat_map {A B} (f : A -> list B) (l l' : list A) :
  sub l l' -> sub (concat (map f l)) (concat (map f l')).
Proof.
  induction 1 as [|y l l' _ IH|y l l' _ IH]; cbn; [constructor| |].
  - change (concat (map f l)) with ([] ++ concat (map f l)). apply sub_app; [apply sub_nil_l|exact IH].
  - apply sub_app; [apply sub_refl|exact IH].
Qed.

Lemma sub_remove_nth {A} : forall i (l : list A), sub (remove_nth i l) l.
Proof.
  intros i l. revert i. induction l as [|x l IH]; intros [|i]; cbn.
  - constructor.
  - constructor.
  - apply sub_skip, sub_refl.
  - apply sub_keep, IH.
Qed.

Lemma sub_length {A} (l l' : list A) : sub l l' -> (length l <= length l')%nat.
Proof. induction 1; cbn; lia. Qed.

(* ------------------------------------------------------------------ the invariant ----------- *)

Definition live (t : table) : bool := negb (is_recycled t).
(* coefficients of the non-recycled tables, newest table first *)
Definition lcoefs (ts : list table) : list N := map tcoef (filter live ts).
(* a table that holds bytes is not full: table.Put only writes when esize + offset < allocated *)
Definition tfit (t : table) : Prop := toff t = 0 \/ toff t < talloc t.

(* [n] is the next coefficient to hand out. Newest first, the coefficients of the non-recycled tables are
   strictly decreasing (hence pairwise distinct; the head, if non-recycled, carries the largest) and < n. *)
Definition cok (n : N) (ts : list table) : Prop :=
  StronglySorted (fun a b => b < a) (lcoefs ts) /\ Forall (fun c => c < n) (lcoefs ts) /\ Forall tfit ts.
Definition coefs_ok (s : store) : Prop := cok (snext s) (stabs s).
Definition swf3 (s : store) : Prop := swf s /\ coefs_ok s.

Lemma ssorted_gt_nodup (l : list N) : StronglySorted (fun a b => b < a) l -> NoDup l.
Proof.
  induction 1 as [|a l _ IH Hall]; constructor; [|exact IH].
  intros Hin. rewrite Forall_forall in Hall. specialize (Hall _ Hin). lia.
Qed.

Lemma coefs_nodup s : coefs_ok s -> NoDup (lcoefs (stabs s)).
Proof. intros (H & _). now apply ssorted_gt_nodup. Qed.

Lemma coefs_head_max s t r c :
  coefs_ok s -> stabs s = t :: r -> live t = true -> In c (lcoefs r) -> c < tcoef t.
Proof.
  intros (H & _) E Hl Hin. rewrite E in H. unfold lcoefs in H. cbn in H. rewrite Hl in H. cbn in H.
  apply StronglySorted_inv in H as [_ Hall]. rewrite Forall_forall in Hall. now apply Hall.
Qed.

Lemma lcoefs_sub ts ts' : sub ts ts' -> sub (lcoefs ts) (lcoefs ts').
Proof. intros H. unfold lcoefs. now apply sub_map, sub_filter. Qed.

Lemma cok_sub n ts ts' : sub ts ts' -> cok n ts' -> cok n ts.
Proof.
  intros Hs (A & B & C). pose proof (lcoefs_sub _ _ Hs) as Hl. split; [|split].
  - eapply sub_ssorted; eauto.
  - eapply sub_Forall; eauto.
  - eapply sub_Forall; eauto.
Qed.

Lemma cok_same n ts ts' : lcoefs ts = lcoefs ts' -> Forall tfit ts -> cok n ts' -> cok n ts.
Proof. intros E Hf (A & B & _). unfold cok. rewrite E. auto. Qed.

Lemma cok_mono n n' ts : n <= n' -> cok n ts -> cok n' ts.
Proof.
  intros Hle (A & B & C). split; [exact A|split; [|exact C]]. eapply Forall_impl; [|exact B].
  cbn. intros; lia.
Qed.

Lemma cok_cons n t ts :
  cok n ts -> tfit t -> (live t = true -> tcoef t = n) -> cok (n + 1) (t :: ts).
Proof.
  intros (A & B & C) Hf Hc. unfold cok, lcoefs. cbn [filter]. destruct (live t) eqn:El; cbn [map].
  - rewrite (Hc eq_refl). split; [|split].
    + constructor; [exact A|]. eapply Forall_impl; [|exact B]. cbn. intros; lia.
    + constructor; [lia|]. eapply Forall_impl; [|exact B]. cbn. intros; lia.
    + constructor; assumption.
  - split; [exact A|split; [|constructor; assumption]]. eapply Forall_impl; [|exact B]. cbn. intros; lia.
Qed.

(* a table-wise change that keeps coefficient, state, and the fit *)
Lemma live_state t t' : tstate t' = tstate t -> live t' = live t.
Proof. unfold live, is_recycled. now intros ->. Qed.

Lemma lcoefs_cons t ts : lcoefs (t :: ts) = if live t then tcoef t :: lcoefs ts else lcoefs ts.
Proof. unfold lcoefs. cbn. destruct (live t); reflexivity. Qed.

Lemma lcoefs_map f ts :
  (forall t, In t ts -> tcoef (f t) = tcoef t /\ tstate (f t) = tstate t) -> lcoefs (map f ts) = lcoefs ts.
Proof.
  induction ts as [|t ts IH]; cbn [map]; intros H; [reflexivity|].
  destruct (H t (or_introl eq_refl)) as [Hc Hs]. rewrite !lcoefs_cons, (live_state _ _ Hs), Hc.
  rewrite IH by (intros; apply H; now right). reflexivity.
Qed.

Lemma lcoefs_on_newest h f ts :
  (forall t, tcoef (f t) = tcoef t /\ tstate (f t) = tstate t) -> lcoefs (on_newest h f ts) = lcoefs ts.
Proof.
  intros Hf. induction ts as [|t ts IH]; cbn [on_newest]; [reflexivity|].
  destruct (t_check h t); rewrite !lcoefs_cons.
  - destruct (Hf t) as [Hc Hs]. now rewrite (live_state _ _ Hs), Hc.
  - now rewrite IH.
Qed.

Lemma tfit_on_newest h f ts :
  (forall t, tfit t -> tfit (f t)) -> Forall tfit ts -> Forall tfit (on_newest h f ts).
Proof.
  intros Hf. induction ts as [|t ts IH]; cbn; intros H; [constructor|]. inversion H; subst.
  destruct (t_check h t); constructor; auto.
Qed.

Lemma t_delete_shape h t :
  tcoef (t_delete h t) = tcoef t /\ tstate (t_delete h t) = tstate t /\
  toff (t_delete h t) = toff t /\ talloc (t_delete h t) = talloc t.
Proof. unfold t_delete. destruct (t_find h t); auto. Qed.

Lemma tfit_delete h t : tfit t -> tfit (t_delete h t).
Proof. unfold tfit. destruct (t_delete_shape h t) as (_ & _ & -> & ->). auto. Qed.

(* ------------------------------------------------------------------ make_table -------------- *)

Lemma take_recycled_sub ts t rest : take_recycled ts = Some (t, rest) -> sub rest ts.
Proof.
  revert t rest. induction ts as [|x ts IH]; cbn; intros t rest H; [discriminate|].
  destruct (is_recycled x).
  - injection H as <- <-. apply sub_skip, sub_refl.
  - destruct (take_recycled ts) as [[y r']|] eqn:E; [|discriminate]. injection H as <- <-.
    apply sub_keep. eapply IH; eauto.
Qed.

Lemma take_recycled_keeps_live ts t rest x :
  take_recycled ts = Some (t, rest) -> In x ts -> live x = true -> In x rest.
Proof.
  revert t rest. induction ts as [|y ts IH]; cbn; intros t rest H Hin Hl; [contradiction|].
  destruct (is_recycled y) eqn:Er.
  - injection H as <- <-. destruct Hin as [->|Hin]; [|exact Hin]. unfold live in Hl. rewrite Er in Hl. discriminate.
  - destruct (take_recycled ts) as [[z r']|] eqn:E; [|discriminate]. injection H as <- <-.
    destruct Hin as [->|Hin]; [now left|right]. eapply IH; eauto.
Qed.

Lemma seal_head_lcoefs ts : lcoefs (seal_head ts) = lcoefs ts.
Proof.
  destruct ts as [|t r]; cbn [seal_head]; [reflexivity|]. destruct (is_recycled t) eqn:E; [reflexivity|].
  rewrite !lcoefs_cons. unfold live. rewrite E. reflexivity.
Qed.

Lemma seal_head_tfit ts : Forall tfit ts -> Forall tfit (seal_head ts).
Proof.
  destruct ts as [|t r]; cbn; intros H; [constructor|]. inversion H; subst. constructor; [|assumption].
  destruct (is_recycled t); assumption.
Qed.

Lemma seal_head_cok n ts : cok n ts -> cok n (seal_head ts).
Proof. intros H. eapply cok_same; [apply seal_head_lcoefs|apply seal_head_tfit, H|exact H]. Qed.

Lemma make_table_next s : snext (make_table s) = snext s + 1.
Proof. unfold make_table. destruct (take_recycled _) as [[? ?]|]; reflexivity. Qed.

Lemma make_table_coefs s : tabs_wf s -> coefs_ok s -> coefs_ok (make_table s).
Proof.
  unfold coefs_ok, make_table. intros Hw H. apply seal_head_cok in H.
  destruct (take_recycled (rev (seal_head (stabs s)))) as [[t rest]|] eqn:E; cbn [stabs snext].
  - apply cok_cons.
    + eapply cok_sub; [|exact H]. apply sub_rev_l. eapply take_recycled_sub; eauto.
    + left. cbn. pose proof (take_recycled_is _ _ _ E) as Hr.
      assert (Ht : twf (ssize s) t).
      { pose proof (seal_head_wf _ _ Hw) as Hw'. apply Forall_rev in Hw'. rewrite Forall_forall in Hw'.
        apply Hw'. eapply Permutation_in; [symmetry; eapply take_recycled_perm; eauto|]. now left. }
      apply (twf_rec _ _ Ht Hr).
    + reflexivity.
  - apply cok_cons; [exact H|now left|reflexivity].
Qed.

Lemma make_table_uniq s : uniq s -> uniq (make_table s).
Proof. apply uniq_perm, make_table_all. Qed.

Lemma make_table_swf s : swf s -> swf (make_table s).
Proof. intros [Hw Hu]. split; [now apply make_table_wf|now apply make_table_uniq]. Qed.

Theorem make_table_swf3 s : swf3 s -> swf3 (make_table s).
Proof. intros [Hs Hc]. split; [now apply make_table_swf|]. apply make_table_coefs; [apply Hs|exact Hc]. Qed.

(* zero or more makeTable calls *)
Inductive mtr : store -> store -> Prop :=
| mtr_refl s : mtr s s
| mtr_step s s1 : mtr (make_table s) s1 -> mtr s s1.

Lemma mtr_inv (P : store -> Prop) :
  (forall s, P s -> P (make_table s)) -> forall s s1, mtr s s1 -> P s -> P s1.
Proof. intros HP s s1 H. induction H as [|s s1 _ IH]; auto. Qed.

Lemma mtr_swf3 s s1 : mtr s s1 -> swf3 s -> swf3 s1.
Proof. apply mtr_inv. exact make_table_swf3. Qed.
Lemma mtr_size s s1 : mtr s s1 -> ssize s1 = ssize s.
Proof. induction 1 as [|s s1 _ IH]; [reflexivity|]. now rewrite IH, make_table_size. Qed.
Lemma mtr_all s s1 : mtr s s1 -> Permutation (s_all s1) (s_all s).
Proof. induction 1 as [|s s1 _ IH]; [reflexivity|]. rewrite IH. apply make_table_all. Qed.

(* ------------------------------------------------------------------ shape of a write -------- *)

Lemma put_on_head_shape p (Hp : putter p) h e s s' r :
  put_on_head (p h e) s = Some (s', r) ->
  (r <> SOk /\ s' = s) \/
  (r = SOk /\ exists hd older, stabs s = hd :: older /\ p h e hd = TOk (t_append h e (t_delete h hd)) /\
     s' = with_tabs s (t_append h e (t_delete h hd) :: older)).
Proof.
  unfold put_on_head. destruct (stabs s) as [|t older] eqn:Et; [intros [= <- <-]; left; split; [discriminate|reflexivity]|].
  destruct (p h e t) as [t'| |] eqn:Ep; try discriminate.
  - intros [= <- <-]. right. split; [reflexivity|]. exists t, older. rewrite <- (Hp _ _ _ _ Ep). auto.
  - intros [= <- <-]. left. split; [discriminate|reflexivity].
Qed.

(* an acknowledged write: some makeTable calls, then the head takes the record and every older table
   loses its version; a refused write: some makeTable calls *)
Lemma put_gen_shape p (Hp : putter p) h e s s' r :
  s_put_gen p h e s = (s', r) ->
  (r <> SOk /\ mtr s s') \/
  (r = SOk /\ exists s1 hd older, mtr s s1 /\ stabs s1 = hd :: older /\
     p h e hd = TOk (t_append h e (t_delete h hd)) /\
     s' = with_tabs s1 (t_append h e (t_delete h hd) :: map (t_delete h) older)).
Proof.
  unfold s_put_gen. destruct (ssize s <=? esize e); [intros [= <- <-]; left; split; [discriminate|constructor]|].
  set (s0 := if has_writable s then s else make_table s).
  assert (H0 : mtr s s0). { unfold s0. destruct (has_writable s); [constructor|]. constructor. constructor. }
  destruct (put_loop (p h e) s0) as [s1 r1] eqn:El.
  assert (Hl : (r1 <> SOk /\ mtr s s1) \/
     (r1 = SOk /\ exists sx hd older, mtr s sx /\ stabs sx = hd :: older /\
        p h e hd = TOk (t_append h e (t_delete h hd)) /\
        s1 = with_tabs sx (t_append h e (t_delete h hd) :: older))).
  { revert El. unfold put_loop. destruct (put_on_head (p h e) s0) as [[sa ra]|] eqn:E1.
    - intros [= -> ->]. destruct (put_on_head_shape p Hp _ _ _ _ _ E1) as [[A ->]|(A & hd & older & B & C & D)].
      + left. auto.
      + right. split; [exact A|]. exists s0, hd, older. auto.
    - assert (H1 : mtr s (make_table s0)).
      { clear -H0. induction H0 as [s|s s1 _ IH]; [constructor; constructor|constructor; exact IH]. }
      destruct (put_on_head (p h e) (make_table s0)) as [[sa ra]|] eqn:E2.
      + intros [= -> ->]. destruct (put_on_head_shape p Hp _ _ _ _ _ E2) as [[A ->]|(A & hd & older & B & C & D)].
        * left. auto.
        * right. split; [exact A|]. exists (make_table s0), hd, older. auto.
      + intros [= <- <-]. left. split; [discriminate|exact H1]. }
  destruct Hl as [[A B]|(A & sx & hd & older & B & C & D & E)].
  - destruct r1; intros [= <- <-]; try (left; split; [discriminate|exact B]). congruence.
  - subst r1. intros [= <- <-]. right. split; [reflexivity|]. exists sx, hd, older. subst s1. cbn. auto.
Qed.

Lemma putter_fit_ok p (Hf : putter_fit p) h e t t' : p h e t = TOk t' -> esize e + toff t < talloc t.
Proof. apply (proj1 Hf). Qed.

Lemma put_gen_coefs p (Hp : putter p) (Hf : putter_fit p) h e s s' r :
  swf3 s -> s_put_gen p h e s = (s', r) -> coefs_ok s'.
Proof.
  intros H3 Hput. destruct (put_gen_shape p Hp _ _ _ _ _ Hput) as [[_ Hm]|(_ & s1 & hd & older & Hm & Et & Ep & ->)].
  - apply (mtr_swf3 _ _ Hm H3).
  - destruct (mtr_swf3 _ _ Hm H3) as [_ Hc]. unfold coefs_ok in *. cbn [stabs snext with_tabs].
    rewrite Et in Hc. destruct Hc as (A & B & C). inversion C as [|? ? Chd Cold]; subst.
    apply putter_fit_ok in Ep; [|exact Hf].
    destruct (t_delete_shape h hd) as (Dc & Ds & Do & Da).
    assert (El : lcoefs (t_append h e (t_delete h hd) :: map (t_delete h) older) = lcoefs (hd :: older)).
    { rewrite !lcoefs_cons.
      rewrite (lcoefs_map (t_delete h) older) by (intros t _; destruct (t_delete_shape h t) as (? & ? & _); auto).
      assert (Hl : live (t_append h e (t_delete h hd)) = live hd) by (apply live_state; exact Ds).
      rewrite Hl. cbn [tcoef t_append]. now rewrite Dc. }
    split; [now rewrite El|split; [now rewrite El|]]. constructor.
    + right. cbn. lia.
    + apply Forall_map. eapply Forall_impl; [|exact Cold]. intros a. apply tfit_delete.
Qed.

Theorem put_gen_swf3 p (Hp : putter p) (Hf : putter_fit p) h e s s' r :
  swf3 s -> s_put_gen p h e s = (s', r) -> swf3 s'.
Proof.
  intros H3 Hput. split; [eapply put_gen_swf; eauto; apply H3|eapply put_gen_coefs; eauto].
Qed.

Theorem put_swf3 h e s s' r : swf3 s -> s_put h e s = (s', r) -> swf3 s'.
Proof. apply put_gen_swf3; [exact putter_put|exact putter_fit_put]. Qed.
Theorem putraw_swf3 h e s s' r : swf3 s -> s_putraw h e s = (s', r) -> swf3 s'.
Proof. apply put_gen_swf3; [exact putter_putraw|exact putter_fit_putraw]. Qed.

(* ------------------------------------------------------------------ delete / get / ttl ------ *)

Lemma on_newest_coefs h f s :
  (forall t, tcoef (f t) = tcoef t /\ tstate (f t) = tstate t) -> (forall t, tfit t -> tfit (f t)) ->
  coefs_ok s -> coefs_ok (s_on_newest h f s).
Proof.
  intros Hf Hfit Hc. unfold coefs_ok, s_on_newest. cbn [stabs snext with_tabs].
  eapply cok_same; [apply lcoefs_on_newest, Hf|apply tfit_on_newest; [exact Hfit|apply Hc]|exact Hc].
Qed.

Theorem delete_swf3 h s : swf3 s -> swf3 (s_delete h s).
Proof.
  intros [[Hw Hu] Hc]. split; [split; [now apply delete_wf|now apply delete_spec]|].
  apply on_newest_coefs; [| |exact Hc].
  - intros t. destruct (t_delete_shape h t) as (? & ? & _). auto.
  - intros t. apply tfit_delete.
Qed.

Theorem get_swf3 h now s : swf3 s -> swf3 (fst (s_get h now s)).
Proof.
  intros [[Hw Hu] Hc]. split; [split; [now apply get_wf|]|].
  - pose proof (get_spec h now s Hu) as H. destruct (s_get h now s) as [s' r]. apply H.
  - unfold s_get. destruct (s_find h s); cbn [fst]; [|exact Hc].
    apply on_newest_coefs; [intros t; split; reflexivity|intros t Ht; exact Ht|exact Hc].
Qed.

Theorem updatettl_swf3 h ttl ts now s : swf3 s -> swf3 (fst (s_updatettl h ttl ts now s)).
Proof.
  intros [[Hw Hu] Hc]. split; [split; [now apply updatettl_wf|]|].
  - pose proof (updatettl_spec h ttl ts now s Hu) as H. destruct (s_updatettl h ttl ts now s) as [s' r]. apply H.
  - unfold s_updatettl. destruct (s_find h s); cbn [fst]; [|exact Hc].
    apply on_newest_coefs; [intros t; split; reflexivity|intros t Ht; exact Ht|exact Hc].
Qed.

(* ------------------------------------------------------------------ compaction, drop -------- *)

Lemma evict_loop_swf3 c ord fuel : forall s, swf3 s -> swf3 (evict_loop c ord fuel s).
Proof.
  revert fuel. induction ord as [|h ord IH]; intros fuel s Hs; [destruct fuel; exact Hs|].
  destruct fuel as [|fuel]; [exact Hs|]. cbn [evict_loop].
  destruct (find_by_coef c (stabs s)) as [t|]; [|exact Hs].
  destruct (t_find h t) as [r|]; [|apply IH, Hs].
  destruct (s_putraw h (re r) s) as [s' res] eqn:Ep. pose proof (putraw_swf3 _ _ _ _ _ Hs Ep) as Hs'.
  destruct res; auto.
Qed.

Lemma lcoefs_reset_sub (q : table -> bool) ts :
  sub (lcoefs (map (fun t => if q t then t_reset t else t) ts)) (lcoefs ts).
Proof.
  unfold lcoefs. induction ts as [|t ts IH]; cbn; [constructor|]. destruct (q t).
  - replace (live (t_reset t)) with false by reflexivity. destruct (live t); cbn; [constructor|]; exact IH.
  - destruct (live t); cbn; [constructor|]; exact IH.
Qed.

Lemma reset_if_empty_coefs c s : coefs_ok s -> coefs_ok (reset_if_empty c s).
Proof.
  unfold coefs_ok, reset_if_empty. cbn [stabs snext with_tabs]. intros (A & B & C).
  pose proof (lcoefs_reset_sub (fun t => negb (is_recycled t) && (tcoef t =? c) && (tinuse t =? 0)) (stabs s)) as Hs.
  split; [eapply sub_ssorted; eauto|split; [eapply sub_Forall; eauto|]].
  apply Forall_map. eapply Forall_impl; [|exact C]. intros t Ht.
  destruct (negb (is_recycled t) && (tcoef t =? c) && (tinuse t =? 0)); [now left|exact Ht].
Qed.

Lemma reset_if_empty_swf3 c s : swf3 s -> swf3 (reset_if_empty c s).
Proof.
  intros [[Hw Hu] Hc]. destruct (reset_if_empty_spec c s Hw) as [Hw' Hall].
  split; [split; [exact Hw'|unfold uniq; now rewrite Hall]|now apply reset_if_empty_coefs].
Qed.

Lemma evict_table_swf3 c ord s : swf3 s -> swf3 (evict_table c ord s).
Proof. intros H. unfold evict_table. now apply reset_if_empty_swf3, evict_loop_swf3. Qed.

Lemma drop_recycled_sub : forall ts n, sub (drop_recycled ts n) ts.
Proof.
  induction ts as [|t ts IH]; cbn; intros n; [constructor|]. destruct (is_recycled t).
  - destruct (Nat.eqb n 1); [apply sub_refl|]. apply sub_skip, IH.
  - apply sub_keep, IH.
Qed.

Theorem compaction_swf3 ord expired s : swf3 s -> swf3 (fst (s_compaction ord expired s)).
Proof.
  intros H3. split; [apply compaction_spec, H3|]. unfold s_compaction.
  destruct (find compactable (rev (tl (stabs s)))) as [t|]; cbn [fst].
  - now apply evict_table_swf3.
  - destruct expired; [|apply H3]. unfold coefs_ok. cbn [stabs snext with_tabs].
    eapply cok_sub; [|apply H3]. apply sub_rev_l, drop_recycled_sub.
Qed.

Theorem drop_swf3 i s : swf3 s -> swf3 (s_drop i s).
Proof.
  intros [[Hw Hu] Hc].
  assert (Hs : sub (stabs (s_drop i s)) (stabs s)).
  { unfold s_drop. cbn [stabs with_tabs]. apply sub_rev_l, sub_remove_nth. }
  split; [split|].
  - unfold tabs_wf. eapply sub_Forall; [exact Hs|exact Hw].
  - unfold uniq, hkeys, s_all. eapply sub_NoDup; [|exact Hu]. apply sub_map, sub_concat_map, Hs.
  - unfold coefs_ok. eapply cok_sub; [exact Hs|exact Hc].
Qed.

Lemma swf3_empty size : swf3 (empty_store size).
Proof. split; [apply swf_empty|]. repeat split; constructor. Qed.
Lemma swf3_fork size : swf3 (fork_store size).
Proof.
  split; [apply swf_fork|]. unfold coefs_ok, cok, lcoefs. cbn. repeat split.
  - constructor; constructor.
  - constructor; [lia|constructor].
  - constructor; [now left|constructor].
Qed.

(* ------------------------------------------------------------------ table scan -------------- *)

(* strictly ascending offsets *)
Definition asc (rs : list rec) : Prop := StronglySorted (fun a b => ro a < ro b) rs.
Definition mrec (m : list byte -> bool) (r : rec) : bool := m (ekey (re r)).
Definition from (cursor : N) (r : rec) : bool := cursor <=? ro r.

Lemma chain_bounds : forall rs lo hi, chain lo rs hi -> Forall (fun r => lo <= ro r /\ ro r + rsize r <= hi) rs.
Proof.
  induction rs as [|r rs IH]; cbn; intros lo hi H; [constructor|]. destruct H as [H1 H2].
  constructor; [split; [exact H1|apply (chain_le _ _ _ H2)]|].
  eapply Forall_impl; [|apply (IH _ _ H2)]. cbn. intros a [A B]. pose proof (rsize_pos r). lia.
Qed.

Lemma chain_asc : forall rs lo hi, chain lo rs hi -> asc rs.
Proof.
  induction rs as [|r rs IH]; cbn; intros lo hi H; [constructor|]. destruct H as [H1 H2].
  constructor; [apply (IH _ _ H2)|]. eapply Forall_impl; [|apply (chain_bounds _ _ _ H2)].
  cbn. intros a [A B]. pose proof (rsize_pos r). lia.
Qed.

Lemma twf_asc size t : twf size t -> asc (trecs t).
Proof. intros H. eapply chain_asc, (twf_chain _ _ H). Qed.

Lemma twf_rec_bounds size t r : twf size t -> In r (trecs t) -> ro r + rsize r <= toff t.
Proof.
  intros H Hin. pose proof (chain_bounds _ _ _ (twf_chain _ _ H)) as Hb. rewrite Forall_forall in Hb.
  apply (Hb _ Hin).
Qed.

Lemma ssorted_app_inv {A} (R : A -> A -> Prop) (l1 l2 : list A) :
  StronglySorted R (l1 ++ l2) ->
  StronglySorted R l1 /\ StronglySorted R l2 /\ forall a b, In a l1 -> In b l2 -> R a b.
Proof.
  induction l1 as [|x l1 IH]; cbn; intros H.
  - split; [constructor|split; [exact H|intros a b []]].
  - apply StronglySorted_inv in H as [H Hall]. destruct (IH H) as (A1 & A2 & A3).
    rewrite Forall_forall in Hall. split; [|split; [exact A2|]].
    + constructor; [exact A1|]. apply Forall_forall. intros y Hy. apply Hall, in_or_app. now left.
    + intros a b [<-|Ha] Hb; [apply Hall, in_or_app; now right|now apply A3].
Qed.

Lemma filter_none {A} (p : A -> bool) (l : list A) : (forall x, In x l -> p x = false) -> filter p l = [].
Proof.
  induction l as [|x l IH]; cbn; intros H; [reflexivity|]. rewrite (H x (or_introl eq_refl)).
  apply IH. intros y Hy. apply H. now right.
Qed.
Lemma filter_all {A} (p : A -> bool) (l : list A) : (forall x, In x l -> p x = true) -> filter p l = l.
Proof.
  induction l as [|x l IH]; cbn; intros H; [reflexivity|]. rewrite (H x (or_introl eq_refl)). f_equal.
  apply IH. intros y Hy. apply H. now right.
Qed.
Lemma filter_filter_impl {A} (p q : A -> bool) (l : list A) :
  (forall x, p x = true -> q x = true) -> filter p (filter q l) = filter p l.
Proof.
  intros H. induction l as [|x l IH]; cbn; [reflexivity|]. destruct (q x) eqn:Eq; cbn.
  - now rewrite IH.
  - destruct (p x) eqn:Ep; [|exact IH]. rewrite (H x Ep) in Eq. discriminate.
Qed.

Lemma t_scan_loop_firstn m : forall rs count cur,
  snd (t_scan_loop m rs count cur) = firstn count (filter (mrec m) rs).
Proof.
  induction rs as [|r rs IH]; intros count cur; cbn [t_scan_loop filter]; [now destruct count|].
  destruct count as [|c]; [reflexivity|]. unfold mrec at 1. destruct (m (ekey (re r))).
  - specialize (IH c (ro r + 1)). destruct (t_scan_loop m rs c (ro r + 1)) as [cu ys]. cbn in *. now rewrite IH.
  - apply IH.
Qed.

(* the loop visits a prefix L1 of the records; it stops either because the iterator is exhausted (cursor 0)
   or because [count] matching records were yielded and one more record exists: then the cursor is one past
   the last yielded record, which is the last visited one *)
Lemma t_scan_loop_spec m : forall rs count cur c' ys,
  t_scan_loop m rs count cur = (c', ys) ->
  exists L1 L2, rs = L1 ++ L2 /\ ys = filter (mrec m) L1 /\
    ((L2 = [] /\ c' = 0) \/
     (L2 <> [] /\ length ys = count /\
      ((count = 0%nat /\ L1 = [] /\ c' = cur) \/
       (exists L1' r, L1 = L1' ++ [r] /\ mrec m r = true /\ c' = ro r + 1)))).
Proof.
  induction rs as [|r rs IH]; intros count cur c' ys; cbn [t_scan_loop].
  - intros [= <- <-]. exists [], []. split; [reflexivity|split; [reflexivity|now left]].
  - destruct count as [|c].
    + intros [= <- <-]. exists [], (r :: rs). split; [reflexivity|split; [reflexivity|]]. right.
      split; [discriminate|split; [reflexivity|]]. left. auto.
    + destruct (m (ekey (re r))) eqn:Em.
      * destruct (t_scan_loop m rs c (ro r + 1)) as [cu zs] eqn:El. intros [= <- <-].
        destruct (IH _ _ _ _ El) as (L1 & L2 & E & Ez & Hcase). exists (r :: L1), L2.
        split; [cbn; now rewrite E|]. split; [cbn; unfold mrec at 1; rewrite Em; now rewrite Ez|].
        destruct Hcase as [[A B]|(A & B & C)]; [now left|]. right. split; [exact A|]. split; [cbn; now rewrite B|].
        right. destruct C as [(C1 & C2 & C3)|(L1' & x & C1 & C2 & C3)].
        -- exists [], r. subst L1. cbn. auto.
        -- exists (r :: L1'), x. subst L1. cbn. auto.
      * intros El. destruct (IH _ _ _ _ El) as (L1 & L2 & E & Ez & Hcase). exists (r :: L1), L2.
        split; [cbn; now rewrite E|]. split; [cbn; unfold mrec at 1; rewrite Em; exact Ez|].
        destruct Hcase as [[A B]|(A & B & C)]; [now left|]. right. split; [exact A|]. split; [exact B|].
        right. destruct C as [(C1 & C2 & C3)|(L1' & x & C1 & C2 & C3)]; [discriminate|].
        exists (r :: L1'), x. subst L1. cbn. auto.
Qed.

(* table.Scan on a well-formed table.  L = the records at offsets >= cursor, ascending. *)
Theorem t_scan_spec size m cursor count t c' ys :
  twf size t -> (1 <= count)%nat -> t_scan m cursor count t = (c', ys) ->
  let L := filter (from cursor) (trecs t) in
  asc L /\ ys = firstn count (filter (mrec m) L) /\
  exists L1 L2, L = L1 ++ L2 /\ ys = filter (mrec m) L1 /\
    ((c' = 0 /\ L2 = []) \/
     (L2 <> [] /\ length ys = count /\
      exists L1' r, L1 = L1' ++ [r] /\ mrec m r = true /\ c' = ro r + 1 /\ cursor < c' /\ c' <= toff t /\
                    filter (from c') (trecs t) = L2)).
Proof.
  intros Ht Hc Hs L. unfold t_scan in Hs. fold (from cursor) in Hs. fold L in Hs.
  assert (HaL : asc L). { eapply sub_ssorted; [apply sub_filter_self|apply (twf_asc _ _ Ht)]. }
  split; [exact HaL|]. split.
  { pose proof (t_scan_loop_firstn m L count cursor) as H. rewrite Hs in H. exact H. }
  destruct (t_scan_loop_spec _ _ _ _ _ _ Hs) as (L1 & L2 & E & Ey & Hcase). exists L1, L2.
  split; [exact E|split; [exact Ey|]]. destruct Hcase as [[A B]|(A & B & C)]; [left; auto|right].
  split; [exact A|split; [exact B|]]. destruct C as [(C1 & _)|(L1' & r & C1 & C2 & C3)]; [lia|].
  exists L1', r. split; [exact C1|split; [exact C2|split; [exact C3|]]].
  assert (Hr : In r L). { rewrite E, C1. apply in_or_app. left. apply in_or_app. right. now left. }
  apply filter_In in Hr as [HrX Hrc]. unfold from in Hrc. pose proof (twf_rec_bounds _ _ _ Ht HrX) as Hb.
  pose proof (rsize_pos r). split; [lia|split; [lia|]].
  rewrite <- (filter_filter_impl (from c') (from cursor)) by (unfold from; intros x Hx; lia).
  fold L. rewrite E, filter_app. unfold asc in HaL. rewrite E in HaL.
  apply ssorted_app_inv in HaL as (S1 & S2 & S12). rewrite C1 in S1, S12.
  apply ssorted_app_inv in S1 as (_ & _ & S1).
  rewrite filter_none, filter_all; [reflexivity| |].
  - intros x Hx. unfold from. assert (ro r < ro x); [|lia]. apply S12; [|exact Hx]. apply in_or_app. right. now left.
  - intros x Hx. unfold from. rewrite C1 in Hx. apply in_app_or in Hx as [Hx|[<-|[]]]; [|lia].
    assert (ro x < ro r); [|lia]. apply S1; [exact Hx|now left].
Qed.

(* ------------------------------------------------------------------ coefficient lookup ------- *)

Lemma find_by_coef_uniq c ts t :
  NoDup (lcoefs ts) -> In t ts -> live t = true -> tcoef t = c -> find_by_coef c ts = Some t.
Proof.
  unfold find_by_coef. fold live. induction ts as [|a ts IH]; cbn [find]; intros Hnd Hin Hl Hc; [contradiction|].
  rewrite lcoefs_cons in Hnd. fold (live a). destruct (live a) eqn:Ea; cbn [andb].
  - inversion Hnd as [|? ? Hnin Hnd']; subst. destruct (N.eqb_spec (tcoef a) (tcoef t)) as [E|E].
    + destruct Hin as [->|Hin]; [reflexivity|]. exfalso. apply Hnin. rewrite E. unfold lcoefs.
      apply in_map, filter_In. auto.
    + destruct Hin as [->|Hin]; [congruence|]. now apply IH.
  - destruct Hin as [->|Hin]; [congruence|]. now apply IH.
Qed.

Lemma find_by_coef_some c ts t : find_by_coef c ts = Some t -> In t ts /\ live t = true /\ tcoef t = c.
Proof.
  unfold find_by_coef. intros H. apply find_some in H as [Hin H]. apply andb_true_iff in H as [Hl Hc].
  apply N.eqb_eq in Hc. auto.
Qed.

Lemma find_by_coef_none c ts : find_by_coef c ts = None -> ~ In c (lcoefs ts).
Proof.
  unfold find_by_coef, lcoefs. intros H Hin. apply in_map_iff in Hin as (t & Hc & Hin).
  apply filter_In in Hin as [Hin Hl]. pose proof (find_none _ _ H _ Hin) as Hn. cbn in Hn.
  unfold live in Hl. rewrite Hl, Hc, N.eqb_refl in Hn. discriminate.
Qed.

Lemma find_by_coef_ex c ts : In c (lcoefs ts) -> exists t, find_by_coef c ts = Some t.
Proof.
  intros Hin. destruct (find_by_coef c ts) as [t|] eqn:E; [eauto|]. destruct (find_by_coef_none _ _ E Hin).
Qed.

(* live_coefs: the ascending, duplicate-free list of the coefficients of the non-recycled tables *)
Lemma insert_sorted_perm c l : Permutation (insert_sorted c l) (c :: l).
Proof.
  induction l as [|x l IH]; cbn; [reflexivity|]. destruct (c <=? x); [reflexivity|].
  rewrite IH. apply perm_swap.
Qed.

Lemma insert_sorted_ssorted c l :
  StronglySorted N.lt l -> ~ In c l -> StronglySorted N.lt (insert_sorted c l).
Proof.
  induction l as [|x l IH]; cbn; intros Hs Hn; [constructor; constructor|].
  apply StronglySorted_inv in Hs as [Hs Hall]. destruct (N.leb_spec c x) as [Hle|Hgt].
  - assert (c < x) by (assert (x <> c) by tauto; lia). constructor; [constructor; assumption|].
    constructor; [assumption|]. eapply Forall_impl; [|exact Hall]. cbn. intros; lia.
  - constructor; [apply IH; tauto|]. apply Forall_forall. intros y Hy.
    eapply Permutation_in in Hy; [|apply insert_sorted_perm]. destruct Hy as [<-|Hy]; [exact Hgt|].
    rewrite Forall_forall in Hall. now apply Hall.
Qed.

Lemma fold_insert_perm l : Permutation (fold_right insert_sorted [] l) l.
Proof. induction l as [|x l IH]; cbn; [reflexivity|]. rewrite insert_sorted_perm. now constructor. Qed.

Lemma fold_insert_ssorted l : NoDup l -> StronglySorted N.lt (fold_right insert_sorted [] l).
Proof.
  induction 1 as [|x l Hn _ IH]; cbn; [constructor|]. apply insert_sorted_ssorted; [exact IH|].
  intros Hin. apply Hn. eapply Permutation_in; [apply fold_insert_perm|exact Hin].
Qed.

Lemma live_coefs_perm s : Permutation (live_coefs s) (lcoefs (stabs s)).
Proof. apply fold_insert_perm. Qed.
Lemma live_coefs_sorted s : coefs_ok s -> StronglySorted N.lt (live_coefs s).
Proof. intros H. apply fold_insert_ssorted. exact (coefs_nodup _ H). Qed.
Lemma live_coefs_nodup s : coefs_ok s -> NoDup (live_coefs s).
Proof. intros H. eapply Permutation_NoDup; [symmetry; apply live_coefs_perm|exact (coefs_nodup _ H)]. Qed.
Lemma live_coefs_in s c :
  In c (live_coefs s) <-> exists t, In t (stabs s) /\ is_recycled t = false /\ tcoef t = c.
Proof.
  split.
  - intros H. eapply Permutation_in in H; [|apply live_coefs_perm]. unfold lcoefs in H.
    apply in_map_iff in H as (t & Hc & Hin). apply filter_In in Hin as [Hin Hl]. exists t.
    unfold live in Hl. apply negb_true_iff in Hl. auto.
  - intros (t & Hin & Hr & Hc). eapply Permutation_in; [symmetry; apply live_coefs_perm|]. unfold lcoefs.
    rewrite <- Hc. apply in_map, filter_In. split; [exact Hin|]. unfold live. now rewrite Hr.
Qed.

Lemma find_app_none {A} (p : A -> bool) (l1 l2 : list A) :
  (forall x, In x l1 -> p x = false) -> find p (l1 ++ l2) = find p l2.
Proof.
  induction l1 as [|x l1 IH]; cbn; intros H; [reflexivity|]. rewrite (H x (or_introl eq_refl)).
  apply IH. intros y Hy. apply H. now right.
Qed.

Lemma sorted_split pre (cf : N) post :
  StronglySorted N.lt (pre ++ cf :: post) ->
  (forall a, In a pre -> a < cf) /\ (forall b, In b post -> cf < b) /\ StronglySorted N.lt post.
Proof.
  intros H. apply ssorted_app_inv in H as (_ & H2 & H12). apply StronglySorted_inv in H2 as [H2 Hall].
  rewrite Forall_forall in Hall. split; [|split; [exact Hall|exact H2]]. intros a Ha. apply H12; [exact Ha|now left].
Qed.

(* ------------------------------------------------------------------ store scan -------------- *)

Lemma div_mod_lex a b z : 0 < z -> a < b -> a / z < b / z \/ (a / z = b / z /\ a mod z < b mod z).
Proof.
  intros Hz Hab. assert (Hle : a / z <= b / z) by (apply N.div_le_mono; lia).
  destruct (N.eq_dec (a / z) (b / z)) as [E|E]; [right|left; lia]. split; [exact E|].
  pose proof (N.div_mod a z ltac:(lia)) as Ha. pose proof (N.div_mod b z ltac:(lia)) as Hb.
  rewrite E in Ha. remember (z * (b / z)) as q. lia.
Qed.

Section Scan.
Variables (m : list byte -> bool) (count : nat) (s : store).
Hypothesis H3 : swf3 s.
Hypothesis Hs : 0 < ssize s.
Hypothesis Hc : (1 <= count)%nat.

Lemma scan_coefs : coefs_ok s.
Proof. exact (proj2 H3). Qed.

Lemma scan_twf t : In t (stabs s) -> twf (ssize s) t.
Proof. pose proof H3 as [[Hw _] _]. unfold tabs_wf in Hw. rewrite Forall_forall in Hw. apply Hw. Qed.

(* an in-table cursor never reaches the table size *)
Lemma scan_toff t : In t (stabs s) -> toff t < ssize s.
Proof.
  intros Hin. pose proof (scan_twf _ Hin) as Ht. destruct scan_coefs as (_ & _ & Hfit). rewrite Forall_forall in Hfit.
  specialize (Hfit _ Hin). pose proof (twf_alloc _ _ Ht). unfold tfit in Hfit. lia.
Qed.

(* where the iteration goes when table [cf] is exhausted *)
Definition next_cursor (cf : N) : N :=
  match find_by_coef (cf + 1) (stabs s) with
  | Some _ => ssize s * (cf + 1)
  | None => match find_coef cf s with Some cf' => ssize s * cf' | None => 0 end
  end.

Lemma s_scan_at cf t off :
  off < ssize s -> find_by_coef cf (stabs s) = Some t ->
  s_scan m (off + ssize s * cf) count s =
  let '(tc, ys) := t_scan m off count t in
  if tc =? 0 then (next_cursor cf, ys) else (tc + ssize s * cf, ys).
Proof.
  intros Hoff Hf. unfold s_scan. destruct (stabs s) as [|a l] eqn:E; [discriminate|]. rewrite <- E in Hf |- *.
  replace ((off + ssize s * cf) / ssize s) with cf by (apply (N.div_unique _ _ cf off); lia).
  rewrite Hf. replace (off + ssize s * cf - ssize s * cf) with off by lia.
  destruct (t_scan m off count t) as [tc ys]. destruct (tc =? 0); [|reflexivity].
  unfold next_cursor. destruct (find_by_coef (cf + 1) (stabs s)); [reflexivity|].
  destruct (find_coef cf s); reflexivity.
Qed.

Lemma s_scan_skip cursor cf t :
  find_by_coef (cursor / ssize s) (stabs s) = None -> find_coef (cursor / ssize s) s = Some cf ->
  find_by_coef cf (stabs s) = Some t ->
  s_scan m cursor count s = s_scan m (0 + ssize s * cf) count s.
Proof.
  intros H1 H2 Hf. rewrite (s_scan_at cf t 0 Hs Hf). unfold s_scan.
  destruct (stabs s) as [|a l] eqn:E; [discriminate|]. rewrite <- E in H1, Hf |- *. rewrite H1, H2, Hf.
  replace (cf * ssize s - ssize s * cf) with 0 by lia.
  destruct (t_scan m 0 count t) as [tc ys]. destruct (tc =? 0); [|reflexivity].
  unfold next_cursor. destruct (find_by_coef (cf + 1) (stabs s)); [reflexivity|].
  destruct (find_coef cf s); reflexivity.
Qed.

Lemma s_scan_nostart cursor :
  find_by_coef (cursor / ssize s) (stabs s) = None ->
  (find_coef (cursor / ssize s) s = None \/
   exists cf, find_coef (cursor / ssize s) s = Some cf /\ find_by_coef cf (stabs s) = None) ->
  s_scan m cursor count s = (0, []).
Proof.
  intros H1 H2. unfold s_scan. destruct (stabs s) as [|a l] eqn:E; [reflexivity|]. rewrite <- E in *.
  rewrite H1. destruct H2 as [H2|(cf & H2 & H4)]; rewrite H2; [reflexivity|]. now rewrite H4.
Qed.

Lemma next_cursor_gt cf : next_cursor cf = 0 \/ ssize s * (cf + 1) <= next_cursor cf.
Proof.
  unfold next_cursor. destruct (find_by_coef (cf + 1) (stabs s)); [right; lia|].
  unfold find_coef. destruct (find (fun x => cf <? x) (live_coefs s)) as [cf'|] eqn:E; [right|now left].
  apply find_some in E as [_ E]. apply N.mul_le_mono_l. lia.
Qed.

Lemma s_scan_at_progress cf t off c' ys :
  off < ssize s -> find_by_coef cf (stabs s) = Some t ->
  s_scan m (off + ssize s * cf) count s = (c', ys) -> c' = 0 \/ off + ssize s * cf < c'.
Proof.
  intros Hoff Hf. rewrite (s_scan_at cf t off Hoff Hf). destruct (t_scan m off count t) as [tc zs] eqn:Et.
  pose proof (find_by_coef_some _ _ _ Hf) as (Hin & _).
  destruct (t_scan_spec _ _ _ _ _ _ _ (scan_twf _ Hin) Hc Et) as (_ & _ & L1 & L2 & _ & _ & Hcase).
  destruct Hcase as [[-> _]|(_ & _ & L1' & r & _ & _ & -> & Hgt & _)].
  - cbn. intros [= <- _]. destruct (next_cursor_gt cf) as [E|E]; [now left|right]. lia.
  - replace (ro r + 1 =? 0) with false by (symmetry; apply N.eqb_neq; lia). intros [= <- _]. right. lia.
Qed.

(* SCAN cursor progress, for an arbitrary cursor *)
Theorem s_scan_progress cursor c' ys :
  s_scan m cursor count s = (c', ys) ->
  c' = 0 \/ (cursor < c' /\
             (cursor / ssize s < c' / ssize s \/
              (cursor / ssize s = c' / ssize s /\ cursor mod ssize s < c' mod ssize s))).
Proof.
  intros H. assert (H' : c' = 0 \/ cursor < c').
  { destruct (find_by_coef (cursor / ssize s) (stabs s)) as [t|] eqn:E1.
    - pose proof (N.div_mod cursor (ssize s) ltac:(lia)) as Hdm.
      pose proof (N.mod_lt cursor (ssize s) ltac:(lia)) as Hlt.
      replace cursor with (cursor mod ssize s + ssize s * (cursor / ssize s)) in H at 1 by lia.
      destruct (s_scan_at_progress _ _ _ _ _ Hlt E1 H) as [E|E]; [now left|right; lia].
    - destruct (find_coef (cursor / ssize s) s) as [cf|] eqn:E2.
      + destruct (find_by_coef cf (stabs s)) as [t|] eqn:E3.
        * rewrite (s_scan_skip _ _ _ E1 E2 E3) in H.
          destruct (s_scan_at_progress _ _ _ _ _ Hs E3 H) as [E|E]; [now left|right].
          unfold find_coef in E2. apply find_some in E2 as [_ E2].
          assert (ssize s * (cursor / ssize s + 1) <= ssize s * cf) by (apply N.mul_le_mono_l; lia).
          pose proof (N.div_mod cursor (ssize s) ltac:(lia)). pose proof (N.mod_lt cursor (ssize s) ltac:(lia)). lia.
        * left. rewrite s_scan_nostart in H; [now injection H as <- _|exact E1|right; eauto].
      + left. rewrite s_scan_nostart in H; [now injection H as <- _|exact E1|now left]. }
  destruct H' as [E|E]; [now left|right]. split; [exact E|]. now apply div_mod_lex.
Qed.

(* ---- a full iteration ---- *)

Definition trecs_of (cf : N) : list rec :=
  match find_by_coef cf (stabs s) with Some t => trecs t | None => [] end.
Definition recs_of (cs : list N) : list rec := concat (map trecs_of cs).

Lemma s_scan_all_mono : forall f f' c ys,
  s_scan_all m count f c s = Some ys -> (f <= f')%nat -> s_scan_all m count f' c s = Some ys.
Proof.
  induction f as [|f IH]; intros f' c ys H Hle; [discriminate|]. destruct f' as [|f']; [lia|].
  cbn [s_scan_all] in *. destruct (s_scan m c count s) as [c1 zs]. destruct (c1 =? 0); [exact H|].
  destruct (s_scan_all m count f c1 s) as [ws|] eqn:E; [|discriminate].
  rewrite (IH f' c1 ws E ltac:(lia)). exact H.
Qed.

Lemma s_scan_all_cursor_eq f c c' :
  s_scan m c count s = s_scan m c' count s -> s_scan_all m count f c s = s_scan_all m count f c' s.
Proof. intros E. destruct f; cbn [s_scan_all]; [reflexivity|]. now rewrite E. Qed.

(* iterating table [cf] from offset [off], then whatever the next cursor [nc] leads to *)
Lemma scan_table cf t nc rest rfuel :
  find_by_coef cf (stabs s) = Some t -> next_cursor cf = nc ->
  (if nc =? 0 then rest = []
   else forall fuel, (rfuel <= fuel)%nat -> s_scan_all m count fuel nc s = Some (filter (mrec m) rest)) ->
  forall fuel off, off < ssize s ->
    (length (filter (from off) (trecs t)) + rfuel + 1 <= fuel)%nat ->
    s_scan_all m count fuel (off + ssize s * cf) s =
    Some (filter (mrec m) (filter (from off) (trecs t) ++ rest)).
Proof.
  intros Hf Hnc Hrest. pose proof (find_by_coef_some _ _ _ Hf) as (Hin & _).
  induction fuel as [|fuel IH]; intros off Hoff Hfuel; [lia|]. cbn [s_scan_all].
  rewrite (s_scan_at cf t off Hoff Hf). destruct (t_scan m off count t) as [tc ys] eqn:Et.
  destruct (t_scan_spec _ _ _ _ _ _ _ (scan_twf _ Hin) Hc Et) as (_ & _ & L1 & L2 & E & Ey & Hcase).
  cbv zeta in E. rewrite E in *. rewrite filter_app.
  destruct Hcase as [[-> ->]|(_ & _ & L1' & r & E1 & _ & -> & Hgt & Hle & E2)].
  - cbn [N.eqb]. rewrite Hnc. rewrite app_nil_r in *. destruct (nc =? 0).
    + subst rest. cbn. now rewrite app_nil_r, Ey.
    + rewrite (Hrest fuel ltac:(lia)). now rewrite Ey.
  - replace (ro r + 1 =? 0) with false by (symmetry; apply N.eqb_neq; lia).
    replace (ro r + 1 + ssize s * cf =? 0) with false by (symmetry; apply N.eqb_neq; lia).
    pose proof (scan_toff _ Hin) as Hto.
    rewrite (IH (ro r + 1) ltac:(lia)).
    + rewrite E2, !filter_app, Ey, app_assoc. reflexivity.
    + rewrite E2. rewrite E1, !app_length in Hfuel. cbn in Hfuel. lia.
Qed.

Lemma next_cursor_spec pre cf post :
  live_coefs s = pre ++ cf :: post ->
  next_cursor cf = match post with [] => 0 | cf' :: _ => ssize s * cf' end.
Proof.
  intros E. pose proof (live_coefs_sorted s scan_coefs) as Hso. rewrite E in Hso.
  destruct (sorted_split _ _ _ Hso) as (Hpre & Hpost & Hsp).
  assert (Hfc : find_coef cf s = match post with [] => None | cf' :: _ => Some cf' end).
  { unfold find_coef. rewrite E, find_app_none.
    - cbn [find]. rewrite N.ltb_irrefl. destruct post as [|cf' post']; [reflexivity|]. cbn [find].
      specialize (Hpost cf' (or_introl eq_refl)). apply N.ltb_lt in Hpost. now rewrite Hpost.
    - intros x Hx. apply N.ltb_ge. specialize (Hpre _ Hx). lia. }
  unfold next_cursor. rewrite Hfc. destruct (find_by_coef (cf + 1) (stabs s)) as [x|] eqn:Ex.
  - pose proof (find_by_coef_some _ _ _ Ex) as (Hin & Hl & Hcx).
    assert (Hlc : In (cf + 1) (live_coefs s)).
    { eapply Permutation_in; [symmetry; apply live_coefs_perm|]. unfold lcoefs. rewrite <- Hcx.
      apply in_map, filter_In. auto. }
    rewrite E in Hlc. apply in_app_or in Hlc as [Hlc|[Hlc|Hlc]]; [specialize (Hpre _ Hlc); lia|lia|].
    destruct post as [|cf' post']; [contradiction|]. f_equal.
    pose proof (Hpost cf' (or_introl eq_refl)). destruct Hlc as [<-|Hlc]; [reflexivity|].
    apply StronglySorted_inv in Hsp as [_ Hall]. rewrite Forall_forall in Hall. specialize (Hall _ Hlc). lia.
  - destruct post; reflexivity.
Qed.

Lemma from_zero (l : list rec) : filter (from 0) l = l.
Proof. apply filter_all. intros x _. unfold from. apply N.leb_le. lia. Qed.

Lemma scan_from : forall post pre cf t,
  live_coefs s = pre ++ cf :: post -> find_by_coef cf (stabs s) = Some t ->
  forall fuel off, off < ssize s ->
    (length (filter (from off) (trecs t)) + length (recs_of post) + length post + 1 <= fuel)%nat ->
    s_scan_all m count fuel (off + ssize s * cf) s =
    Some (filter (mrec m) (filter (from off) (trecs t) ++ recs_of post)).
Proof.
  induction post as [|cf' post IH]; intros pre cf t E Hf fuel off Hoff Hfuel.
  - apply (scan_table cf t 0 [] 0 Hf); [apply (next_cursor_spec _ _ _ E)|reflexivity|exact Hoff|].
    cbn in Hfuel. lia.
  - assert (E' : live_coefs s = (pre ++ [cf]) ++ cf' :: post) by (now rewrite <- app_assoc).
    pose proof (live_coefs_sorted s scan_coefs) as Hso. rewrite E in Hso.
    destruct (sorted_split _ _ _ Hso) as (_ & Hpost & _). specialize (Hpost cf' (or_introl eq_refl)).
    destruct (find_by_coef_ex cf' (stabs s)) as [t' Hf'].
    { eapply Permutation_in; [apply live_coefs_perm|]. rewrite E. apply in_or_app. right. right. now left. }
    assert (Er : recs_of (cf' :: post) = trecs t' ++ recs_of post).
    { unfold recs_of. cbn [map concat]. unfold trecs_of at 1. now rewrite Hf'. }
    rewrite Er in *. rewrite app_length in Hfuel. cbn [length] in Hfuel.
    apply (scan_table cf t (ssize s * cf') (trecs t' ++ recs_of post)
             (length (trecs t') + length (recs_of post) + length post + 1) Hf);
      [apply (next_cursor_spec _ _ _ E)| |exact Hoff|lia].
    replace (ssize s * cf' =? 0) with false by (symmetry; apply N.eqb_neq; apply N.neq_mul_0; lia).
    intros fuel' Hfuel'. pose proof (IH _ _ _ E' Hf' fuel' 0 Hs) as Hx. rewrite from_zero in Hx.
    cbn [N.add] in Hx. apply Hx. lia.
Qed.

Lemma recs_of_lcoefs : recs_of (lcoefs (stabs s)) = s_all s.
Proof.
  unfold recs_of, lcoefs, s_all. rewrite map_map.
  pose proof (coefs_nodup _ scan_coefs) as Hnd. pose proof H3 as [[Hw _] _]. unfold tabs_wf in Hw.
  assert (Hx : forall t, In t (filter live (stabs s)) -> trecs_of (tcoef t) = trecs t).
  { intros t Hin. apply filter_In in Hin as [Hin Hl]. unfold trecs_of.
    now rewrite (find_by_coef_uniq (tcoef t) (stabs s) t Hnd Hin Hl eq_refl). }
  rewrite (map_ext_in _ _ _ Hx). clear Hx Hnd. induction (stabs s) as [|t ts IH]; [reflexivity|].
  inversion Hw as [|? ? Ht Hts]; subst. cbn [filter]. destruct (live t) eqn:El; cbn [map concat].
  - now rewrite IH.
  - rewrite IH by assumption. unfold live in El. apply negb_false_iff in El.
    now rewrite (twf_recycled_empty _ _ Ht El).
Qed.

Lemma recs_of_live_perm : Permutation (recs_of (live_coefs s)) (s_all s).
Proof. rewrite <- recs_of_lcoefs. apply perm_concat_map, live_coefs_perm. Qed.

Lemma live_coefs_length : (length (live_coefs s) <= length (stabs s))%nat.
Proof.
  rewrite (Permutation_length (live_coefs_perm s)). unfold lcoefs. rewrite map_length.
  apply sub_length, sub_filter_self.
Qed.

(* a full iteration visits the tables in ascending coefficient order, each in ascending offset order *)
Theorem scan_all_exact fuel :
  (length (s_all s) + length (stabs s) + 1 <= fuel)%nat ->
  s_scan_all m count fuel 0 s = Some (filter (mrec m) (recs_of (live_coefs s))).
Proof.
  intros Hfuel. pose proof (Permutation_length recs_of_live_perm) as Hlen. pose proof live_coefs_length as Hll.
  destruct (live_coefs s) as [|c1 post] eqn:E.
  - destruct fuel as [|fuel]; [lia|]. cbn [s_scan_all].
    assert (Hsc : s_scan m 0 count s = (0, [])).
    { apply s_scan_nostart; [|left; unfold find_coef; now rewrite E].
      destruct (find_by_coef (0 / ssize s) (stabs s)) as [t|] eqn:E1; [|reflexivity].
      exfalso. pose proof (find_by_coef_some _ _ _ E1) as (Hin & Hl & Hcx).
      assert (Hi : In (0 / ssize s) (live_coefs s)).
      { eapply Permutation_in; [symmetry; apply live_coefs_perm|]. unfold lcoefs. rewrite <- Hcx.
        apply in_map, filter_In. auto. }
      rewrite E in Hi. destruct Hi. }
    rewrite Hsc. reflexivity.
  - destruct (find_by_coef_ex c1 (stabs s)) as [t1 Hf1].
    { eapply Permutation_in; [apply live_coefs_perm|]. rewrite E. now left. }
    assert (Er : recs_of (c1 :: post) = trecs t1 ++ recs_of post).
    { unfold recs_of. cbn [map concat]. unfold trecs_of at 1. now rewrite Hf1. }
    rewrite Er in *. rewrite app_length in Hlen. cbn [length] in Hll.
    pose proof (scan_from post [] c1 t1 E Hf1 fuel 0 Hs) as Hx. rewrite from_zero in Hx.
    specialize (Hx ltac:(lia)). rewrite <- Hx.
    destruct (N.eq_dec c1 0) as [->|Hne].
    + now rewrite N.mul_0_r.
    + apply s_scan_all_cursor_eq. apply (s_scan_skip 0 c1 t1); [| |exact Hf1].
      * rewrite N.div_0_l by lia. destruct (find_by_coef 0 (stabs s)) as [x|] eqn:Ex; [|reflexivity]. exfalso.
        pose proof (find_by_coef_some _ _ _ Ex) as (Hin & Hl & Hcx).
        assert (Hi : In 0 (live_coefs s)).
        { eapply Permutation_in; [symmetry; apply live_coefs_perm|]. unfold lcoefs. rewrite <- Hcx.
          apply in_map, filter_In. auto. }
        pose proof (live_coefs_sorted s scan_coefs) as Hso. rewrite E in Hso, Hi.
        apply StronglySorted_inv in Hso as [_ Hall]. rewrite Forall_forall in Hall.
        destruct Hi as [Hi|Hi]; [congruence|]. specialize (Hall _ Hi). lia.
      * rewrite N.div_0_l by lia. unfold find_coef. rewrite E. cbn [find].
        replace (0 <? c1) with true by (symmetry; apply N.ltb_lt; lia). reflexivity.
Qed.

Theorem scan_terminates fuel :
  (length (s_all s) + length (stabs s) + 1 <= fuel)%nat -> exists ys, s_scan_all m count fuel 0 s = Some ys.
Proof. intros H. eexists. now apply scan_all_exact. Qed.

Theorem scan_complete fuel ys :
  s_scan_all m count fuel 0 s = Some ys ->
  Permutation ys (filter (fun r => m (ekey (re r))) (s_all s)).
Proof.
  intros H. set (f' := (fuel + (length (s_all s) + length (stabs s) + 1))%nat).
  pose proof (s_scan_all_mono fuel f' 0 ys H ltac:(lia)) as H1.
  rewrite (scan_all_exact f' ltac:(lia)) in H1. injection H1 as <-.
  apply (perm_filter (mrec m)), recs_of_live_perm.
Qed.

End Scan.

(* every operation of the model keeps the invariant *)
Theorem swf3_preserved :
  (forall size, swf3 (empty_store size)) /\ (forall size, swf3 (fork_store size)) /\
  (forall s, swf3 s -> swf3 (make_table s)) /\
  (forall h e s s' r, swf3 s -> s_put h e s = (s', r) -> swf3 s') /\
  (forall h e s s' r, swf3 s -> s_putraw h e s = (s', r) -> swf3 s') /\
  (forall h s, swf3 s -> swf3 (s_delete h s)) /\
  (forall h now s, swf3 s -> swf3 (fst (s_get h now s))) /\
  (forall h ttl ts now s, swf3 s -> swf3 (fst (s_updatettl h ttl ts now s))) /\
  (forall ord expired s, swf3 s -> swf3 (fst (s_compaction ord expired s))) /\
  (forall i s, swf3 s -> swf3 (s_drop i s)).
Proof.
  split; [exact swf3_empty|]. split; [exact swf3_fork|]. split; [exact make_table_swf3|].
  split; [exact put_swf3|]. split; [exact putraw_swf3|]. split; [exact delete_swf3|]. split; [exact get_swf3|].
  split; [exact updatettl_swf3|]. split; [exact compaction_swf3|exact drop_swf3].
Qed.

(* what the invariant says about the coefficients *)
Theorem coefs_ok_facts s :
  coefs_ok s ->
  NoDup (lcoefs (stabs s)) /\ Forall (fun c => c < snext s) (lcoefs (stabs s)) /\
  (forall t r c, stabs s = t :: r -> is_recycled t = false -> In c (lcoefs r) -> c < tcoef t) /\
  (forall t, In t (stabs s) -> toff t = 0 \/ toff t < talloc t) /\
  StronglySorted N.lt (live_coefs s) /\ NoDup (live_coefs s) /\
  (forall c, In c (live_coefs s) <-> exists t, In t (stabs s) /\ is_recycled t = false /\ tcoef t = c) /\
  (forall t, In t (stabs s) -> is_recycled t = false -> find_by_coef (tcoef t) (stabs s) = Some t).
Proof.
  intros H. split; [now apply coefs_nodup|]. split; [apply H|]. split; [|split; [|split; [|split; [|split]]]].
  - intros t r c E Hr Hin. eapply coefs_head_max; eauto. unfold live. now rewrite Hr.
  - destruct H as (_ & _ & Hf). rewrite Forall_forall in Hf. exact Hf.
  - now apply live_coefs_sorted.
  - now apply live_coefs_nodup.
  - apply live_coefs_in.
  - intros t Hin Hr. apply find_by_coef_uniq; [now apply coefs_nodup|exact Hin| |reflexivity]. unfold live. now rewrite Hr.
Qed.
