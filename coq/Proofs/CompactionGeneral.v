(* Compaction terminates for EVERY well-formed store (no assumption on the number of records per table or on
   the table being written), with a bound that is linear in the number of records and tables.
   Measure: every qualifying table other than the written one weighs (records + 1); a qualifying written
   table weighs (all records of the store + 2): it can be sealed only once, and then weighs less. *)
From Coq Require Import List NArith ZArith Lia Bool Permutation Sorted.
From Coq Require Import ZifyN ZifyNat ZifyBool.
Require Import Olric.Gen.Consts Olric.Model.Codec Olric.Model.Store Olric.Proofs.StoreProofs Olric.Proofs.ScanProofs
  Olric.Proofs.CompactionProofs.
Import ListNotations.
Local Open Scope N_scope.

Definition wt (t : table) : nat := if compactable t then S (length (trecs t)) else 0%nat.
Definition tsum (ts : list table) : nat := fold_right (fun t a => (wt t + a)%nat) 0%nat ts.
Definition hbonus (n : nat) (t : table) : nat := if compactable t then (n + 2)%nat else 0%nat.
Definition phi (s : store) : nat :=
  match stabs s with [] => 0%nat | hd :: r => (hbonus (length (s_all s)) hd + tsum r)%nat end.

Lemma tsum_cons t ts : tsum (t :: ts) = (wt t + tsum ts)%nat.
Proof. reflexivity. Qed.

Lemma tsum_perm l l' : Permutation l l' -> tsum l = tsum l'.
Proof.
  induction 1 as [|x l l' _ IH|x y l|l l' l'' _ IH1 _ IH2]; rewrite ?tsum_cons; lia.
Qed.

Lemma tsum_map_le f l : (forall x, In x l -> (wt (f x) <= wt x)%nat) -> (tsum (map f l) <= tsum l)%nat.
Proof.
  induction l as [|a l IH]; cbn [map]; intros H; [lia|]. rewrite !tsum_cons.
  pose proof (H a (or_introl eq_refl)). assert (tsum (map f l) <= tsum l)%nat by (apply IH; intros x Hx; apply H; now right).
  lia.
Qed.

Lemma tsum_map_lt f l t :
  (forall x, In x l -> (wt (f x) <= wt x)%nat) -> In t l -> (wt (f t) < wt t)%nat -> (tsum (map f l) < tsum l)%nat.
Proof.
  induction l as [|a l IH]; cbn [map]; intros H Hin Hlt; [contradiction|]. rewrite !tsum_cons.
  pose proof (H a (or_introl eq_refl)) as Ha.
  assert (Hle : (tsum (map f l) <= tsum l)%nat) by (apply tsum_map_le; intros x Hx; apply H; now right).
  destruct Hin as [->|Hin]; [lia|].
  assert (tsum (map f l) < tsum l)%nat by (apply IH; auto; intros x Hx; apply H; now right). lia.
Qed.

Lemma recs_le_all ts t : In t ts -> (length (trecs t) <= length (concat (map trecs ts)))%nat.
Proof.
  induction ts as [|a ts IH]; cbn [map concat]; intros Hin; [contradiction|]. rewrite app_length.
  destruct Hin as [->|Hin]; [lia|]. specialize (IH Hin). lia.
Qed.

Lemma tsum_bound l : (tsum l <= length (concat (map trecs l)) + length l)%nat.
Proof.
  induction l as [|a l IH]; cbn [map concat length]; [cbn; lia|]. rewrite tsum_cons, app_length.
  unfold wt. destruct (compactable a); lia.
Qed.

Lemma phi_bound s : (phi s <= 2 * length (s_all s) + length (stabs s) + 2)%nat.
Proof.
  unfold phi, s_all. destruct (stabs s) as [|hd r]; [lia|]. cbn [map concat length]. rewrite app_length.
  pose proof (tsum_bound r). unfold hbonus. destruct (compactable hd); rewrite ?app_length; lia.
Qed.

Lemma wt_hbonus s hd : In hd (stabs s) -> (wt hd <= hbonus (length (s_all s)) hd)%nat.
Proof.
  intros Hin. unfold wt, hbonus. destruct (compactable hd); [|lia].
  pose proof (recs_le_all _ _ Hin). unfold s_all. lia.
Qed.

(* ------------------------------------------------------------------ makeTable ---------------- *)

Lemma make_table_len s : length (s_all (make_table s)) = length (s_all s).
Proof. apply Permutation_length, make_table_all. Qed.

Lemma make_table_phi s : cbase s -> (phi (make_table s) <= phi s)%nat.
Proof.
  intros [[[Hw _] _] Hs]. unfold phi. rewrite make_table_len. set (n := length (s_all s)).
  pose proof (seal_head_wf _ _ Hw) as Hw'. pose proof (wt_hbonus s) as Hwb. fold n in Hwb.
  unfold make_table. destruct (stabs s) as [|hd r] eqn:E.
  - cbn [seal_head rev take_recycled stabs]. unfold hbonus.
    rewrite not_compactable_zero; [reflexivity|cbn; lia|reflexivity].
  - assert (Hseal : tsum (seal_head (hd :: r)) = (wt hd + tsum r)%nat).
    { cbn [seal_head]. rewrite tsum_cons. destruct (is_recycled hd); reflexivity. }
    specialize (Hwb hd (or_introl eq_refl)).
    destruct (take_recycled (rev (seal_head (hd :: r)))) as [[x rest]|] eqn:Et; cbn [stabs].
    + pose proof (take_recycled_perm _ _ _ Et) as Hp. pose proof (take_recycled_is _ _ _ Et) as Hr.
      assert (Hx : twf (ssize s) x).
      { apply Forall_rev in Hw'. rewrite Forall_forall in Hw'. apply Hw'.
        eapply Permutation_in; [symmetry; exact Hp|]. now left. }
      assert (Hnc : compactable x = false).
      { destruct (compactable x) eqn:Ec; [|reflexivity]. pose proof (compactable_live _ _ Hx Hs Ec) as Hl.
        unfold live in Hl. rewrite Hr in Hl. discriminate. }
      assert (Hb : hbonus n (t_set_state table_state_rw (t_set_coef (snext s) x)) = 0%nat).
      { unfold hbonus. replace (compactable (t_set_state table_state_rw (t_set_coef (snext s) x))) with (compactable x)
          by reflexivity. now rewrite Hnc. }
      rewrite Hb. rewrite <- (tsum_perm _ _ (Permutation_rev rest)).
      assert (Hsum : (wt x + tsum rest = wt hd + tsum r)%nat).
      { rewrite <- tsum_cons, <- (tsum_perm _ _ Hp), <- (tsum_perm _ _ (Permutation_rev _)). exact Hseal. }
      assert (wt x = 0%nat) by (unfold wt; now rewrite Hnc). lia.
    + unfold hbonus at 1. rewrite not_compactable_zero; [|cbn; lia|reflexivity]. rewrite Hseal. lia.
Qed.

Lemma mtr_phi s s1 : mtr s s1 -> cbase s -> (phi s1 <= phi s)%nat /\ length (s_all s1) = length (s_all s).
Proof.
  induction 1 as [|s s1 _ IH]; intros Hb; [split; [lia|reflexivity]|].
  destruct (IH (make_table_cbase _ Hb)) as [A B]. pose proof (make_table_phi _ Hb). rewrite make_table_len in B.
  split; [lia|exact B].
Qed.

(* ------------------------------------------------------------------ one move ---------------- *)

Lemma filter_lnot_len (l : list rec) r :
  NoDup (hkeys l) -> In r l -> (length (filter (lnot (rh r)) l) + 1 = length l)%nat.
Proof.
  induction l as [|x l IH]; cbn [filter hkeys map length]; intros Hnd Hin; [contradiction|].
  inversion Hnd as [|? ? Hnin Hnd']; subst. unfold lnot at 1, has. destruct (N.eqb_spec (rh x) (rh r)) as [E|E]; cbn [negb].
  - rewrite filter_lnot_id; [lia|]. intros y Hy Hh. apply Hnin. rewrite E, <- Hh. apply in_map, Hy.
  - cbn [length]. destruct Hin as [->|Hin]; [congruence|]. specialize (IH Hnd' Hin). lia.
Qed.

Lemma evict_step_phi s t h r s' res :
  cbase s -> In t (tl (stabs s)) -> live t = true -> compactable t = true ->
  t_find h t = Some r -> s_putraw h (re r) s = (s', res) ->
  (phi s' < phi s)%nat /\ length (s_all s') = length (s_all s).
Proof.
  intros Hb Hin Hl Hc Hf Hp.
  destruct (evict_step _ _ _ _ _ _ Hb Hin Hl Hc Hf Hp) as (-> & _).
  destruct Hb as [H3 Hs]. pose proof H3 as [[Hw Hu] Hco].
  assert (Hts : In t (stabs s)). { destruct (stabs s); [contradiction|now right]. }
  unfold t_find in Hf. pose proof (find_some _ _ Hf) as [Hr Hh]. apply has_true in Hh.
  assert (Hlen : length (s_all s') = length (s_all s)).
  { destruct (put_gen_all _ putter_putraw _ _ _ _ Hp) as (o & Hperm & _).
    rewrite (Permutation_length Hperm). cbn [length]. rewrite <- Hh.
    pose proof (filter_lnot_len (s_all s) r Hu (in_table_in_all _ _ _ Hts Hr)). lia. }
  split; [|exact Hlen]. unfold phi at 1. rewrite Hlen.
  destruct (put_gen_shape _ putter_putraw _ _ _ _ _ Hp) as [[A _]|(_ & s1 & hd & older & Hm & Et & _ & Es')];
    [congruence|].
  pose proof (mtr_cbase _ _ Hm (conj H3 Hs)) as [H31 Hs1]. pose proof H31 as [[Hw1 Hu1] _].
  pose proof (mtr_tail _ _ _ Hm Hin Hl) as Hin1. rewrite Et in Hin1. cbn [tl] in Hin1.
  destruct (mtr_phi _ _ Hm (conj H3 Hs)) as [Hphi1 Hlen1]. unfold phi in Hphi1 at 1. rewrite Et, Hlen1 in Hphi1.
  unfold uniq, s_all in Hu1. rewrite Et in Hu1. cbn [map concat] in Hu1.
  assert (Hhd : t_find h hd = None).
  { unfold t_find. destruct (find (has h) (trecs hd)) as [x|] eqn:Ex; [|reflexivity]. exfalso.
    apply find_some in Ex as [Hx Hhx]. apply has_true in Hhx. unfold hkeys in Hu1. rewrite map_app in Hu1.
    eapply (nodup_app_disj _ _ h Hu1); [rewrite <- Hhx; apply in_map, Hx|].
    rewrite <- Hh. apply in_map. apply in_concat. exists (trecs t). split; [now apply in_map|exact Hr]. }
  assert (Hold : forall x y, In x older -> t_find h x = Some y -> x = t).
  { intros x y Hx Hy. unfold t_find in Hy. apply find_some in Hy as [Hy Hhy]. apply has_true in Hhy.
    eapply (holder_eq older x t y r); eauto; [|congruence].
    unfold hkeys in Hu1. rewrite map_app in Hu1. eapply nodup_app_r; eauto. }
  assert (Hwt : (wt (t_delete h t) < wt t)%nat).
  { unfold wt. rewrite (compactable_delete h t Hc), Hc, t_delete_recs.
    pose proof (filter_lnot_shorter _ _ _ Hf). lia. }
  assert (Hwold : forall x, In x older -> (wt (t_delete h x) <= wt x)%nat).
  { intros x Hx. destruct (t_find h x) as [y|] eqn:Ey; [|rewrite t_delete_none; [lia|exact Ey]].
    rewrite (Hold _ _ Hx Ey). lia. }
  rewrite Es'. cbn [stabs with_tabs]. rewrite (t_delete_none _ _ Hhd).
  assert (Hhb : (hbonus (length (s_all s)) (t_append h (re r) hd) <= hbonus (length (s_all s)) hd)%nat).
  { unfold hbonus. destruct (compactable (t_append h (re r) hd)) eqn:Eap; [rewrite (compactable_append _ _ _ Eap)|]; lia. }
  pose proof (tsum_map_lt (t_delete h) older t Hwold Hin1 Hwt). lia.
Qed.

(* ------------------------------------------------------------------ the drain loop ----------- *)

Lemma evict_loop_phi c : forall ord fuel s t,
  cbase s -> In t (tl (stabs s)) -> live t = true -> tcoef t = c -> compactable t = true ->
  exists t',
    cbase (evict_loop c ord fuel s) /\
    In t' (tl (stabs (evict_loop c ord fuel s))) /\ live t' = true /\ tcoef t' = c /\ compactable t' = true /\
    length (s_all (evict_loop c ord fuel s)) = length (s_all s) /\
    (phi (evict_loop c ord fuel s) <= phi s)%nat /\
    ((forall h, In h (hkeys (trecs t)) -> In h ord) ->
     ((length (trecs t) <= fuel)%nat -> trecs t' = []) /\
     ((0 < fuel)%nat -> trecs t <> [] -> (phi (evict_loop c ord fuel s) < phi s)%nat)).
Proof.
  induction ord as [|h ord IH]; intros fuel s t Hb Hin Hl Hc Hcp.
  - exists t. assert (E : evict_loop c [] fuel s = s) by (destruct fuel; reflexivity). rewrite E.
    repeat (split; [solve [auto]|]). intros Hcov.
    assert (Hnil : trecs t = []). { destruct (trecs t) as [|r rs]; [reflexivity|]. destruct (Hcov (rh r)). now left. }
    split; [auto|]. intros _ Hne. congruence.
  - destruct fuel as [|fuel].
    + exists t. cbn [evict_loop]. repeat (split; [solve [auto]|]). intros _. split; [|lia].
      intros Hlen. destruct (trecs t); [reflexivity|cbn in Hlen; lia].
    + cbn [evict_loop].
      assert (Hts : In t (stabs s)). { destruct (stabs s); [contradiction|now right]. }
      rewrite (find_by_coef_uniq c (stabs s) t (coefs_nodup _ (proj2 (proj1 Hb))) Hts Hl Hc).
      destruct (t_find h t) as [r|] eqn:Ef.
      * destruct (s_putraw h (re r) s) as [s' res] eqn:Ep.
        destruct (evict_step_phi _ _ _ _ _ _ Hb Hin Hl Hcp Ef Ep) as [Hphi Hlen].
        destruct (evict_step _ _ _ _ _ _ Hb Hin Hl Hcp Ef Ep) as (-> & Hb' & _ & _ & Hin' & _).
        destruct (IH fuel s' (t_delete h t) Hb' Hin') as (t' & A1 & A2 & A3 & A4 & A5 & A6 & A7 & A8).
        { now rewrite live_delete. }
        { destruct (t_delete_shape h t) as (-> & _). exact Hc. }
        { now apply compactable_delete. }
        exists t'. repeat (split; [solve [auto]|]). split; [lia|]. split; [lia|].
        intros Hcov. split; [|intros _ _; lia]. intros Hlen'. apply A8.
        -- intros h' Hh'. rewrite t_delete_recs in Hh'. unfold hkeys in Hh'. apply in_map_iff in Hh' as (x & <- & Hx).
           apply filter_In in Hx as [Hx Hn]. apply lnot_true in Hn.
           destruct (Hcov (rh x)) as [E|E]; [apply in_map, Hx|congruence|exact E].
        -- rewrite t_delete_recs. pose proof (filter_lnot_shorter _ _ _ Ef). lia.
      * destruct (IH (S fuel) s t Hb Hin Hl Hc Hcp) as (t' & A1 & A2 & A3 & A4 & A5 & A6 & A7 & A8).
        exists t'. repeat (split; [assumption|]). intros Hcov. apply A8.
        intros h' Hh'. destruct (Hcov h' Hh') as [<-|E]; [|exact E]. exfalso.
        unfold hkeys in Hh'. apply in_map_iff in Hh' as (x & Ex & Hx). unfold t_find in Ef.
        pose proof (find_none _ _ Ef _ Hx) as Hn. apply has_true in Ex. congruence.
Qed.

(* ------------------------------------------------------------------ one call, any store ------ *)

Theorem compaction_decreases ord expired s t :
  swf3 s -> 0 < ssize s -> find compactable (rev (tl (stabs s))) = Some t ->
  (forall h, In h (hkeys (trecs t)) -> In h ord) ->
  (phi (fst (s_compaction ord expired s)) < phi s)%nat.
Proof.
  intros H3 Hs Hf Hcov. unfold s_compaction. rewrite Hf. cbn [fst].
  apply find_some in Hf as [Hin Hcp]. apply in_rev in Hin.
  assert (Hts : In t (stabs s)). { destruct (stabs s); [contradiction|now right]. }
  pose proof H3 as [[Hw _] _].
  assert (Ht : twf (ssize s) t). { unfold tabs_wf in Hw. rewrite Forall_forall in Hw. now apply Hw. }
  pose proof (compactable_live _ _ Ht Hs Hcp) as Hl.
  destruct (evict_loop_phi (tcoef t) ord 1001 s t (conj H3 Hs) Hin Hl eq_refl Hcp)
    as (t' & [H31 Hs1] & Hin' & Hl' & Hc' & Hcp' & Hlen & Hphi & Hdrain).
  destruct (Hdrain Hcov) as [Hnil Hlt]. clear Hdrain.
  unfold evict_table. set (s1 := evict_loop (tcoef t) ord 1001 s) in *.
  pose proof H31 as [[Hw1 _] _]. destruct (reset_if_empty_spec (tcoef t) s1 Hw1) as [_ Hall].
  unfold phi at 1. rewrite Hall. unfold reset_if_empty. cbn [stabs with_tabs].
  set (g := fun t0 : table => if negb (is_recycled t0) && (tcoef t0 =? tcoef t) && (tinuse t0 =? 0) then t_reset t0 else t0).
  unfold tabs_wf in Hw1. rewrite Forall_forall in Hw1.
  assert (Hgc : forall x, In x (stabs s1) -> compactable (g x) = true -> g x = x).
  { intros x Hx. unfold g. destruct (negb (is_recycled x) && (tcoef x =? tcoef t) && (tinuse x =? 0)); [|auto].
    rewrite compactable_reset; [discriminate|]. rewrite (twf_alloc _ _ (Hw1 _ Hx)). lia. }
  assert (Hgw : forall x, In x (stabs s1) -> (wt (g x) <= wt x)%nat).
  { intros x Hx. unfold wt at 1. destruct (compactable (g x)) eqn:Eg; [|lia]. pose proof (Hgc _ Hx Eg) as Egx.
    rewrite Egx in Eg |- *. unfold wt. rewrite Eg. lia. }
  assert (Hle : (match map g (stabs s1) with [] => 0 | hd :: r => hbonus (length (s_all s1)) hd + tsum r end <= phi s1)%nat).
  { unfold phi. destruct (stabs s1) as [|hd r] eqn:E1; [cbn; lia|]. cbn [map].
    assert (hbonus (length (s_all s1)) (g hd) <= hbonus (length (s_all s1)) hd)%nat.
    { unfold hbonus at 1. destruct (compactable (g hd)) eqn:Eg; [|lia].
      pose proof (Hgc hd (or_introl eq_refl) Eg) as Egx. rewrite Egx in Eg. unfold hbonus. rewrite Eg. lia. }
    assert (tsum (map g r) <= tsum r)%nat by (apply tsum_map_le; intros x Hx; apply Hgw; now right). lia. }
  destruct (trecs t) as [|r0 rs] eqn:Er.
  - (* nothing to move: the table is reset *)
    specialize (Hnil ltac:(cbn; lia)). clear Hlt.
    assert (Hts' : In t' (stabs s1)). { destruct (stabs s1); [contradiction|now right]. }
    assert (Hgt' : g t' = t_reset t').
    { unfold g. fold (live t'). rewrite Hl', Hc', N.eqb_refl. cbn [andb].
      rewrite (twf_inuse _ _ (Hw1 _ Hts')), Hnil. reflexivity. }
    assert (Hwt' : (wt (g t') < wt t')%nat).
    { rewrite Hgt'. unfold wt. rewrite Hcp', compactable_reset; [lia|]. rewrite (twf_alloc _ _ (Hw1 _ Hts')). lia. }
    unfold phi in Hphi at 1. destruct (stabs s1) as [|hd r] eqn:E1; [contradiction|]. cbn [map tl] in *.
    assert (hbonus (length (s_all s1)) (g hd) <= hbonus (length (s_all s1)) hd)%nat.
    { unfold hbonus at 1. destruct (compactable (g hd)) eqn:Eg; [|lia].
      pose proof (Hgc hd (or_introl eq_refl) Eg) as Egx. rewrite Egx in Eg. unfold hbonus. rewrite Eg. lia. }
    assert (tsum (map g r) < tsum r)%nat.
    { apply (tsum_map_lt g r t'); [intros x Hx; apply Hgw; now right|exact Hin'|exact Hwt']. }
    lia.
  - specialize (Hlt ltac:(lia) ltac:(discriminate)). lia.
Qed.

Theorem compaction_terminates_general ordf expired : ord_covers ordf -> forall n s,
  swf3 s -> 0 < ssize s -> (phi s < n)%nat ->
  snd (compact_n ordf expired n s) = true /\ swf3 (fst (compact_n ordf expired n s)) /\
  ssize (fst (compact_n ordf expired n s)) = ssize s /\
  (forall h, abs (fst (compact_n ordf expired n s)) h = abs s h) /\
  (forall t, In t (tl (stabs (fst (compact_n ordf expired n s)))) -> compactable t = false).
Proof.
  intros Hcov. induction n as [|n IH]; intros s H3 Hs Hn; [lia|]. cbn [compact_n].
  destruct (s_compaction (ordf s) expired s) as [s' d] eqn:Ec.
  destruct (find compactable (rev (tl (stabs s)))) as [t|] eqn:Ef.
  - destruct (compaction_progress (ordf s) expired s t H3 Hs Ef) as (Hd & H3' & Hsz & Habs & _).
    pose proof (compaction_decreases (ordf s) expired s t H3 Hs Ef (Hcov _ _ Ef)) as Hlt.
    rewrite Ec in *. cbn [fst snd] in *. subst d.
    destruct (IH s' H3' ltac:(lia) ltac:(lia)) as (A & B & C & D & E).
    split; [exact A|]. split; [exact B|]. split; [lia|]. split; [intros h; now rewrite D|exact E].
  - pose proof (compaction_spec (ordf s) expired s (proj1 H3)) as (_ & Habs & Hsz).
    pose proof (compaction_swf3 (ordf s) expired s H3) as H3'. rewrite Ec in *. cbn [fst] in *.
    assert (d = true). { revert Ec. unfold s_compaction. rewrite Ef. now intros [= _ <-]. } subst d.
    cbn [fst snd]. split; [reflexivity|]. split; [exact H3'|]. split; [exact Hsz|]. split; [exact Habs|].
    apply (compaction_done _ _ _ _ Ec).
Qed.

(* at most two calls per record plus one per table plus three *)
Theorem compaction_terminates_any ordf expired n s :
  ord_covers ordf -> swf3 s -> 0 < ssize s ->
  (2 * length (s_all s) + length (stabs s) + 3 <= n)%nat ->
  snd (compact_n ordf expired n s) = true /\ swf3 (fst (compact_n ordf expired n s)) /\
  ssize (fst (compact_n ordf expired n s)) = ssize s /\
  (forall h, abs (fst (compact_n ordf expired n s)) h = abs s h) /\
  (forall t, In t (tl (stabs (fst (compact_n ordf expired n s)))) -> compactable t = false).
Proof.
  intros Hcov H3 Hs Hn. apply compaction_terminates_general; auto. pose proof (phi_bound s). lia.
Qed.
