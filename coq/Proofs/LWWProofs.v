(* Lemmas about Model/LWW.v: the insertion sort sort.Slice runs, the winner of a tie, fragment merges. *)
From Coq Require Import List NArith ZArith Bool Lia Permutation Sorting.Sorted.
From Coq Require Import ZifyN ZifyNat ZifyBool.
Require Import Olric.Model.LWW.
Import ListNotations.
Local Open Scope Z_scope.

(* ------------------------------------------------------------------------------------------------ *)
(* sort_versions                                                                                       *)
(* ------------------------------------------------------------------------------------------------ *)
Section SortP.
  Context {A : Type} (ts : A -> Z).

  Definition desc (l : list A) : Prop := StronglySorted (fun a b => ts b <= ts a) l.

  Lemma ins_perm x l : Permutation (ins ts x l) (x :: l).
  Proof.
    induction l as [|y l IH]; cbn [ins]; [reflexivity|].
    destruct (forallb _ (y :: l)); [reflexivity|].
    rewrite IH. apply perm_swap.
  Qed.

  Lemma fold_ins_perm l acc : Permutation (fold_left (fun a x => ins ts x a) l acc) (l ++ acc).
  Proof.
    revert acc; induction l as [|x l IH]; intros acc; cbn [fold_left app]; [reflexivity|].
    rewrite IH, ins_perm. symmetry. apply Permutation_middle.
  Qed.

  Lemma sort_perm l : Permutation (sort_versions ts l) l.
  Proof. unfold sort_versions. rewrite fold_ins_perm, app_nil_r. reflexivity. Qed.

  Lemma sort_length l : length (sort_versions ts l) = length l.
  Proof. apply Permutation_length, sort_perm. Qed.

  Lemma forallb_le_spec x l : forallb (fun z => ts z <=? ts x) l = true <-> Forall (fun z => ts z <= ts x) l.
  Proof.
    rewrite forallb_forall, Forall_forall. split; intros H z Hz; specialize (H z Hz); lia.
  Qed.

  Lemma ins_desc x l : desc l -> desc (ins ts x l).
  Proof.
    unfold desc. induction l as [|y l IH]; intros Hs; cbn [ins].
    - repeat constructor.
    - destruct (forallb (fun z => ts z <=? ts x) (y :: l)) eqn:Hall.
      + constructor; [exact Hs|]. apply forallb_le_spec in Hall. exact Hall.
      + inversion Hs as [|? ? Hs' Hy]; subst.
        constructor; [apply IH; exact Hs'|].
        (* y dominates x: some element of y :: l is above x, and y dominates it *)
        assert (Hx : ts x < ts y).
        { destruct (Z.ltb_spec (ts x) (ts y)) as [|Hge]; [assumption|exfalso].
          assert (Hf : forallb (fun z => ts z <=? ts x) (y :: l) = true); [|congruence].
          apply forallb_le_spec. constructor; [lia|].
          rewrite Forall_forall in *. intros z Hz. specialize (Hy z Hz). lia. }
        rewrite Forall_forall in *. intros z Hz.
        apply (Permutation_in _ (ins_perm x l)) in Hz. destruct Hz as [<-|Hz]; [lia|auto].
  Qed.

  Lemma fold_ins_desc l acc : desc acc -> desc (fold_left (fun a x => ins ts x a) l acc).
  Proof. revert acc; induction l as [|x l IH]; intros acc H; cbn; [exact H|]. apply IH, ins_desc, H. Qed.

  Lemma sort_desc l : desc (sort_versions ts l).
  Proof. apply fold_ins_desc. constructor. Qed.

  (* the head after an insertion into a sorted prefix *)
  Lemma hd_ins x l : desc l -> hd_error (ins ts x l) = pick ts (hd_error l) x.
  Proof.
    intros Hs. destruct l as [|y l]; cbn [ins hd_error pick]; [reflexivity|].
    inversion Hs as [|? ? Hs' Hy]; subst.
    destruct (Z.leb_spec (ts y) (ts x)) as [Hle|Hgt].
    - assert (Hf : forallb (fun z => ts z <=? ts x) (y :: l) = true).
      { apply forallb_le_spec. constructor; [exact Hle|].
        rewrite Forall_forall in *. intros z Hz. specialize (Hy z Hz). lia. }
      rewrite Hf. reflexivity.
    - assert (Hf : forallb (fun z => ts z <=? ts x) (y :: l) = false).
      { cbn [forallb]. destruct (Z.leb_spec (ts y) (ts x)); [lia|reflexivity]. }
      rewrite Hf. reflexivity.
  Qed.

  Lemma hd_fold_ins l acc :
    desc acc -> hd_error (fold_left (fun a x => ins ts x a) l acc) = fold_left (pick ts) l (hd_error acc).
  Proof.
    revert acc; induction l as [|x l IH]; intros acc Hs; cbn [fold_left]; [reflexivity|].
    rewrite IH by (apply ins_desc, Hs). rewrite hd_ins by exact Hs. reflexivity.
  Qed.

  (* the element sort.Slice puts first is the last one carrying the maximal timestamp *)
  Lemma hd_sort l : hd_error (sort_versions ts l) = last_max ts l.
  Proof. unfold sort_versions, last_max. rewrite hd_fold_ins by constructor. reflexivity. Qed.

  Lemma last_max_snoc l x : last_max ts (l ++ [x]) = pick ts (last_max ts l) x.
  Proof. unfold last_max. rewrite fold_left_app. reflexivity. Qed.

  Lemma last_max_nil_iff l : last_max ts l = None <-> l = [].
  Proof.
    split; [|intros ->; reflexivity].
    induction l as [|x l IH] using rev_ind; [reflexivity|].
    rewrite last_max_snoc. destruct (last_max ts l) as [b|]; cbn [pick]; [destruct (ts b <=? ts x)|]; discriminate.
  Qed.

  (* exactly which element wins: everything before it is <=, everything after it is strictly smaller *)
  Lemma last_max_spec l w :
    last_max ts l = Some w ->
    exists l1 l2, l = l1 ++ w :: l2 /\ Forall (fun y => ts y <= ts w) l1 /\ Forall (fun y => ts y < ts w) l2.
  Proof.
    revert w. induction l as [|x l IH] using rev_ind; intros w H; [discriminate|].
    rewrite last_max_snoc in H. destruct (last_max ts l) as [b|] eqn:Hb; cbn [pick] in H.
    - destruct (IH b eq_refl) as (l1 & l2 & -> & H1 & H2).
      destruct (Z.leb_spec (ts b) (ts x)) as [Hle|Hgt]; injection H as <-.
      + exists (l1 ++ b :: l2), []. split; [reflexivity|]. split; [|constructor].
        apply Forall_app. split.
        * eapply Forall_impl; [|exact H1]. cbn; intros; lia.
        * constructor; [lia|]. eapply Forall_impl; [|exact H2]. cbn; intros; lia.
      + exists l1, (l2 ++ [x]). split; [now rewrite <- app_assoc|]. split; [exact H1|].
        apply Forall_app. split; [exact H2|]. constructor; [lia|constructor].
    - apply last_max_nil_iff in Hb. subst l. injection H as <-.
      exists [], []. repeat split; constructor.
  Qed.

  Lemma last_max_in_max l w :
    last_max ts l = Some w -> In w l /\ forall y, In y l -> ts y <= ts w.
  Proof.
    intros H. destruct (last_max_spec _ _ H) as (l1 & l2 & -> & H1 & H2). split.
    - apply in_or_app. right. left. reflexivity.
    - intros y Hy. rewrite Forall_forall in *. apply in_app_or in Hy. destruct Hy as [Hy|[<-|Hy]].
      + auto. + lia. + specialize (H2 y Hy). lia.
  Qed.

  Lemma last_max_some l : l <> [] -> exists w, last_max ts l = Some w.
  Proof.
    intros Hne. destruct (last_max ts l) as [w|] eqn:H; [eauto|].
    apply last_max_nil_iff in H. contradiction.
  Qed.
End SortP.

(* ------------------------------------------------------------------------------------------------ *)
(* sanitize / the winner of a read                                                                     *)
(* ------------------------------------------------------------------------------------------------ *)
Definition vts (p : holder * entry) : Z := e_ts (snd p).

Lemma in_sanitize vs h e : In (h, e) (sanitize vs) <-> In (h, Some e) vs.
Proof.
  unfold sanitize. rewrite in_flat_map. split.
  - intros ([h' [e'|]] & Hin & Hx); cbn in Hx; [|contradiction].
    destruct Hx as [Hx|[]]. injection Hx as <- <-. exact Hin.
  - intros Hin. exists (h, Some e). split; [exact Hin|]. cbn. left. reflexivity.
Qed.

Lemma sanitize_and_sort_length vs : length (sanitize_and_sort vs) = length (sanitize vs).
Proof.
  unfold sanitize_and_sort. destruct (Nat.leb (length (sanitize vs)) 1); [reflexivity|].
  apply sort_length.
Qed.

Lemma hd_sanitize_and_sort vs : hd_error (sanitize_and_sort vs) = last_max vts (sanitize vs).
Proof.
  unfold sanitize_and_sort. destruct (Nat.leb_spec (length (sanitize vs)) 1) as [Hle|Hgt].
  - destruct (sanitize vs) as [|a [|b l]]; cbn in *; [reflexivity|reflexivity|lia].
  - apply hd_sort.
Qed.

(* ------------------------------------------------------------------------------------------------ *)
(* stores                                                                                              *)
(* ------------------------------------------------------------------------------------------------ *)
Lemma lookup_insert_eq h e s : lookup h (insert h e s) = Some e.
Proof.
  induction s as [|[k e'] s IH]; cbn [insert lookup].
  - now rewrite N.eqb_refl.
  - destruct (N.eqb_spec k h) as [->|Hne]; cbn [lookup].
    + now rewrite N.eqb_refl.
    + destruct (N.eqb_spec k h); [contradiction|exact IH].
Qed.

Lemma lookup_insert_neq h k e s : h <> k -> lookup k (insert h e s) = lookup k s.
Proof.
  intros Hne. induction s as [|[k' e'] s IH]; cbn [insert lookup].
  - destruct (N.eqb_spec h k); [contradiction|reflexivity].
  - destruct (N.eqb_spec k' h) as [->|Hk]; cbn [lookup].
    + destruct (N.eqb_spec h k); [contradiction|reflexivity].
    + destruct (N.eqb_spec k' k); [reflexivity|exact IH].
Qed.

(* ------------------------------------------------------------------------------------------------ *)
(* fragment merge                                                                                      *)
(* ------------------------------------------------------------------------------------------------ *)
Lemma fragment_merge_spec fits cur inc :
  fits inc = true ->
  fragment_merge fits cur inc =
  match cur with
  | None => MPut inc
  | Some c => if e_ts c <=? e_ts inc then MPut inc else MKeep
  end.
Proof.
  intros Hf. unfold fragment_merge. destruct cur as [c|]; [|now rewrite Hf].
  unfold sort_versions. cbn [fold_left ins forallb snd andb].
  destruct (e_ts c <=? e_ts inc); cbn; [now rewrite Hf|reflexivity].
Qed.

(* incoming entries the storage rejects: what can happen *)
Lemma fragment_merge_reject fits cur inc :
  fits inc = false ->
  fragment_merge fits cur inc =
  match cur with
  | None => MErr
  | Some c => if e_ts c <=? e_ts inc then MErr else MKeep
  end.
Proof.
  intros Hf. unfold fragment_merge. destruct cur as [c|]; [|now rewrite Hf].
  unfold sort_versions. cbn [fold_left ins forallb snd andb].
  destruct (e_ts c <=? e_ts inc); cbn; [now rewrite Hf|reflexivity].
Qed.

Definition join : option entry -> entry -> option entry := pick e_ts.

(* the copies of key k carried by a fragment / a list of fragments, in delivery order *)
Definition vals (k : N) (f : list (N * entry)) : list entry :=
  map snd (filter (fun p => N.eqb (fst p) k) f).

Lemma vals_app k f g : vals k (f ++ g) = vals k f ++ vals k g.
Proof. unfold vals. now rewrite filter_app, map_app. Qed.

Lemma in_vals k f e : In e (vals k f) <-> In (k, e) f.
Proof.
  unfold vals. rewrite in_map_iff. split.
  - intros ([k' e'] & <- & Hin). apply filter_In in Hin. destruct Hin as [Hin Hk].
    cbn in Hk. apply N.eqb_eq in Hk. subst k'. exact Hin.
  - intros Hin. exists (k, e). split; [reflexivity|]. apply filter_In. split; [exact Hin|].
    cbn. apply N.eqb_refl.
Qed.

Definition all_fit (fits : entry -> bool) (f : list (N * entry)) : Prop :=
  forall h e, In (h, e) f -> fits e = true.

Lemma import_ok fits f : all_fit fits f -> forall s,
  snd (import fits s f) = true /\
  forall k, lookup k (fst (import fits s f)) = fold_left join (vals k f) (lookup k s).
Proof.
  induction f as [|[h e] f IH]; intros Hfit s; cbn [import].
  - split; [reflexivity|]. intros k. reflexivity.
  - assert (He : fits e = true) by (apply (Hfit h e); left; reflexivity).
    assert (Hf' : all_fit fits f) by (intros h' e' Hin; apply (Hfit h' e'); right; exact Hin).
    rewrite (fragment_merge_spec fits (lookup h s) e He).
    assert (Hstep : forall k, fold_left join (vals k ((h, e) :: f)) (lookup k s) =
                               fold_left join (vals k f) (if N.eqb h k then join (lookup h s) e else lookup k s)).
    { intros k. unfold vals. cbn [filter fst]. destruct (N.eqb_spec h k) as [->|Hne]; reflexivity. }
    destruct (lookup h s) as [c|] eqn:Hl; [destruct (e_ts c <=? e_ts e) eqn:Hle|].
    + destruct (IH Hf' (insert h e s)) as [Hok Hlk]. split; [exact Hok|].
      intros k. rewrite Hlk, Hstep. f_equal.
      destruct (N.eqb_spec h k) as [->|Hne].
      * rewrite lookup_insert_eq. unfold join, pick. now rewrite Hle.
      * now apply lookup_insert_neq.
    + destruct (IH Hf' s) as [Hok Hlk]. split; [exact Hok|].
      intros k. rewrite Hlk, Hstep. f_equal.
      destruct (N.eqb_spec h k) as [->|Hne]; [|reflexivity].
      rewrite Hl. unfold join, pick. now rewrite Hle.
    + destruct (IH Hf' (insert h e s)) as [Hok Hlk]. split; [exact Hok|].
      intros k. rewrite Hlk, Hstep. f_equal.
      destruct (N.eqb_spec h k) as [->|Hne].
      * rewrite lookup_insert_eq. reflexivity.
      * now apply lookup_insert_neq.
Qed.

Lemma merge_from_ok fits fs : (forall f, In f fs -> all_fit fits f) -> forall s,
  Forall (fun b => b = true) (snd (merge_from fits s fs)) /\
  forall k, lookup k (fst (merge_from fits s fs)) = fold_left join (vals k (concat fs)) (lookup k s).
Proof.
  induction fs as [|f fs IH]; intros Hfit s; cbn [merge_from concat].
  - split; [constructor|]. intros k. reflexivity.
  - destruct (import_ok fits f (Hfit f (or_introl eq_refl)) s) as [Hok Hlk].
    destruct (import fits s f) as [s1 ok] eqn:Hi. cbn [fst snd] in *.
    specialize (IH (fun g Hg => Hfit g (or_intror Hg)) s1). destruct IH as [Hoks Hlks].
    destruct (merge_from fits s1 fs) as [s2 oks] eqn:Hm. cbn [fst snd] in *.
    split; [constructor; assumption|].
    intros k. rewrite Hlks, vals_app, fold_left_app, Hlk. reflexivity.
Qed.

(* merging = per key, the last newest copy in delivery order *)
Lemma merge_all_last_max fits fs k :
  (forall f, In f fs -> all_fit fits f) ->
  lookup k (merge_all fits fs) = last_max e_ts (vals k (concat fs)).
Proof.
  intros Hfit. unfold merge_all. destruct (merge_from_ok fits fs Hfit []) as [_ H].
  rewrite H. reflexivity.
Qed.

Lemma in_vals_concat k fs e : In e (vals k (concat fs)) <-> exists f, In f fs /\ In (k, e) f.
Proof.
  rewrite in_vals, in_concat. split; intros (f & H1 & H2); exists f; auto.
Qed.

(* re-delivery: any element already present is delivered once more, anywhere, any number of times *)
Inductive redeliver {A : Type} : list A -> list A -> Prop :=
| rd_refl l : redeliver l l
| rd_dup l1 l2 x : In x (l1 ++ l2) -> redeliver (l1 ++ l2) (l1 ++ x :: l2)
| rd_trans l1 l2 l3 : redeliver l1 l2 -> redeliver l2 l3 -> redeliver l1 l3.

Lemma redeliver_same_set {A} (l l' : list A) : redeliver l l' -> forall x, In x l <-> In x l'.
Proof.
  induction 1 as [l|l1 l2 y Hy|l1 l2 l3 _ IH1 _ IH2]; intros x.
  - reflexivity.
  - rewrite !in_app_iff. cbn [In]. rewrite in_app_iff in Hy. split.
    + intros [H|H]; auto.
    + intros [H|[<-|H]]; auto.
  - rewrite IH1. apply IH2.
Qed.

(* ------------------------------------------------------------------------------------------------ *)
(* C06 (b): merging keeps the newest copy of every key, whatever the order and the repetitions        *)
(* ------------------------------------------------------------------------------------------------ *)

(* [w] is a newest copy of key [k] among the fragments [fs] *)
Definition newest_of (fs : list (list (N * entry))) (k : N) (w : entry) : Prop :=
  (exists f, In f fs /\ In (k, w) f) /\
  forall f e, In f fs -> In (k, e) f -> e_ts e <= e_ts w.

Definition absent_in (fs : list (list (N * entry))) (k : N) : Prop :=
  forall f e, In f fs -> ~ In (k, e) f.

(* no two different copies of k carry the same timestamp *)
Definition distinct_ts (fs : list (list (N * entry))) (k : N) : Prop :=
  forall f1 f2 e1 e2, In f1 fs -> In f2 fs -> In (k, e1) f1 -> In (k, e2) f2 -> e_ts e1 = e_ts e2 -> e1 = e2.

Lemma merge_all_newest fits fs fs' k :
  (forall f, In f fs <-> In f fs') ->
  (forall f, In f fs -> all_fit fits f) ->
  match lookup k (merge_all fits fs') with
  | None => absent_in fs k
  | Some w => newest_of fs k w
  end.
Proof.
  intros Hset Hfit.
  assert (Hfit' : forall f, In f fs' -> all_fit fits f) by (intros f Hf; apply Hfit, Hset, Hf).
  rewrite (merge_all_last_max fits fs' k Hfit').
  destruct (last_max e_ts (vals k (concat fs'))) as [w|] eqn:Hl.
  - destruct (last_max_in_max e_ts _ _ Hl) as [Hin Hmax]. split.
    + apply in_vals_concat in Hin. destruct Hin as (f & Hf & Hk). exists f. split; [apply Hset, Hf|exact Hk].
    + intros f e Hf Hk. apply Hmax. apply in_vals_concat. exists f. split; [apply Hset, Hf|exact Hk].
  - apply last_max_nil_iff in Hl. intros f e Hf Hk.
    assert (Hin : In e (vals k (concat fs'))).
    { apply in_vals_concat. exists f. split; [apply Hset, Hf|exact Hk]. }
    rewrite Hl in Hin. exact Hin.
Qed.

Lemma newest_unique fs k w w' : distinct_ts fs k -> newest_of fs k w -> newest_of fs k w' -> w = w'.
Proof.
  intros Hd [(f & Hf & Hk) Hmax] [(f' & Hf' & Hk') Hmax'].
  apply (Hd f f' w w' Hf Hf' Hk Hk').
  specialize (Hmax f' w' Hf' Hk'). specialize (Hmax' f w Hf Hk). lia.
Qed.

Lemma merge_all_order_independent fits fs fs' k :
  (forall f, In f fs <-> In f fs') ->
  (forall f, In f fs -> all_fit fits f) ->
  distinct_ts fs k ->
  lookup k (merge_all fits fs') = lookup k (merge_all fits fs).
Proof.
  intros Hset Hfit Hd.
  pose proof (merge_all_newest fits fs fs' k Hset Hfit) as H1.
  pose proof (merge_all_newest fits fs fs k (fun f => iff_refl _) Hfit) as H2.
  destruct (lookup k (merge_all fits fs')) as [w'|], (lookup k (merge_all fits fs)) as [w|].
  - f_equal. apply (newest_unique fs k w' w Hd H1 H2).
  - exfalso. destruct H1 as [(f & Hf & Hk) _]. exact (H2 f w' Hf Hk).
  - exfalso. destruct H2 as [(f & Hf & Hk) _]. exact (H1 f w Hf Hk).
  - reflexivity.
Qed.

Lemma merge_max (fits : entry -> bool) (fs p fs' : list (list (N * entry))) (k : N) :
  (forall f, In f fs -> all_fit fits f) -> Permutation fs p -> redeliver p fs' ->
  match lookup k (merge_all fits fs') with
  | None => absent_in fs k
  | Some w => newest_of fs k w
  end /\
  (distinct_ts fs k -> lookup k (merge_all fits fs') = lookup k (merge_all fits fs)).
Proof.
  intros Hfit Hp Hr.
  assert (Hset : forall f, In f fs <-> In f fs').
  { intros f. rewrite <- (redeliver_same_set _ _ Hr f). split; apply Permutation_in; [exact Hp|symmetry; exact Hp]. }
  split; [apply merge_all_newest; assumption|]. intros Hd. apply merge_all_order_independent; assumption.
Qed.

(* every delivery of fragments whose entries all fit is acknowledged *)
Lemma merge_replies_ok (fits : entry -> bool) (fs : list (list (N * entry))) :
  (forall f, In f fs -> all_fit fits f) -> Forall (fun ok => ok = true) (snd (merge_from fits [] fs)).
Proof. intros H. apply (merge_from_ok fits fs H []). Qed.

(* D25 (fixed): a delivery is acknowledged only if every entry of the fragment is kept or superseded by a copy at
   least as new; in particular a fragment with an entry the storage rejects and that would have to be
   written is not acknowledged *)
Lemma import_reject_not_acked (fits : entry -> bool) (s : store) (h : N) (e : entry) :
  fits e = false ->
  (match lookup h s with Some c => e_ts c <= e_ts e | None => True end) ->
  import fits s [(h, e)] = (s, false).
Proof.
  intros Hf Hc. cbn [import]. rewrite (fragment_merge_reject fits (lookup h s) e Hf).
  destruct (lookup h s) as [c|]; [|reflexivity].
  destruct (Z.leb_spec (e_ts c) (e_ts e)); [reflexivity|lia].
Qed.
