(* Boolean checkers for the invariants of the storage-engine model, with their soundness lemmas: used to show
   by computation that the concrete stores of the Examples (and of the counterexamples) satisfy the
   hypotheses of the theorems. *)
From Coq Require Import List NArith ZArith Lia Bool Permutation Sorted.
From Coq Require Import ZifyN ZifyNat ZifyBool.
Require Import Olric.Gen.Consts Olric.Model.Codec Olric.Model.Store Olric.Proofs.StoreProofs Olric.Proofs.ScanProofs
  Olric.Proofs.CompactionProofs.
Import ListNotations.
Local Open Scope N_scope.

Fixpoint nodupb (l : list N) : bool :=
  match l with
  | [] => true
  | x :: r => negb (existsb (N.eqb x) r) && nodupb r
  end.

Lemma nodupb_sound l : nodupb l = true -> NoDup l.
Proof.
  induction l as [|x l IH]; cbn; intros H; [constructor|]. apply andb_true_iff in H as [H1 H2].
  constructor; [|auto]. intros Hin. apply negb_true_iff in H1.
  assert (existsb (N.eqb x) l = true); [|congruence]. apply existsb_exists. exists x. split; [exact Hin|apply N.eqb_refl].
Qed.

Fixpoint chainb (lo : N) (rs : list rec) (hi : N) : bool :=
  match rs with
  | [] => lo <=? hi
  | r :: rs' => (lo <=? ro r) && chainb (ro r + rsize r) rs' hi
  end.

Lemma chainb_sound : forall rs lo hi, chainb lo rs hi = true -> chain lo rs hi.
Proof.
  induction rs as [|r rs IH]; cbn; intros lo hi H; [now apply N.leb_le|].
  apply andb_true_iff in H as [H1 H2]. split; [now apply N.leb_le|now apply IH].
Qed.

Definition twfb (size : N) (t : table) : bool :=
  (talloc t =? size) && (toff t <=? talloc t) && (tinuse t + tgarb t =? toff t) &&
  (tinuse t =? sum_sizes (trecs t)) && nodupb (hkeys (trecs t)) && chainb 0 (trecs t) (toff t) &&
  (negb (is_recycled t) || (toff t =? 0)).

Lemma twfb_sound size t : twfb size t = true -> twf size t.
Proof.
  unfold twfb. intros H. repeat (apply andb_true_iff in H as [H ?]).
  constructor.
  - now apply N.eqb_eq.
  - now apply N.leb_le.
  - now apply N.eqb_eq.
  - now apply N.eqb_eq.
  - now apply nodupb_sound.
  - now apply chainb_sound.
  - intros Hr. match goal with X : negb _ || _ = true |- _ => rewrite Hr in X; cbn in X; now apply N.eqb_eq in X end.
Qed.

Fixpoint sorted_gtb (l : list N) : bool :=
  match l with
  | [] => true
  | a :: r => forallb (fun b => b <? a) r && sorted_gtb r
  end.

Lemma sorted_gtb_sound l : sorted_gtb l = true -> StronglySorted (fun a b => b < a) l.
Proof.
  induction l as [|a l IH]; cbn; intros H; [constructor|]. apply andb_true_iff in H as [H1 H2].
  constructor; [auto|]. apply Forall_forall. intros b Hb. rewrite forallb_forall in H1. apply N.ltb_lt. now apply H1.
Qed.

Definition tfitb (t : table) : bool := (toff t =? 0) || (toff t <? talloc t).

Definition swf3b (s : store) : bool :=
  forallb (twfb (ssize s)) (stabs s) && nodupb (hkeys (s_all s)) &&
  sorted_gtb (lcoefs (stabs s)) && forallb (fun c => c <? snext s) (lcoefs (stabs s)) && forallb tfitb (stabs s).

Lemma swf3b_sound s : swf3b s = true -> swf3 s.
Proof.
  unfold swf3b. intros H. repeat (apply andb_true_iff in H as [H ?]).
  split; [split|split; [|split]].
  - apply Forall_forall. intros t Ht. rewrite forallb_forall in H. now apply twfb_sound, H.
  - now apply nodupb_sound.
  - now apply sorted_gtb_sound.
  - apply Forall_forall. intros c Hc. match goal with X : forallb (fun c => c <? _) _ = true |- _ =>
      rewrite forallb_forall in X; apply N.ltb_lt; now apply X end.
  - apply Forall_forall. intros t Ht. match goal with X : forallb tfitb _ = true |- _ =>
      rewrite forallb_forall in X; specialize (X _ Ht); unfold tfitb in X end.
    unfold tfit. lia.
Qed.

(* the hypotheses of the compaction theorems *)
Definition quietb (s : store) : bool :=
  forallb (fun t => negb (compactable t) || (length (trecs t) <=? 1001)%nat) (stabs s) &&
  match stabs s with [] => true | hd :: _ => negb (compactable hd) end.

Lemma quietb_sound s : quietb s = true -> quiet s.
Proof.
  unfold quietb, quiet, head_quiet. intros H. apply andb_true_iff in H as [H1 H2]. split.
  - apply Forall_forall. intros t Ht Hc. rewrite forallb_forall in H1. specialize (H1 _ Ht). rewrite Hc in H1.
    cbn in H1. now apply Nat.leb_le.
  - destruct (stabs s); [exact I|]. now apply negb_true_iff.
Qed.

(* every table that holds garbage holds at most 1001 records *)
Definition garbage_smallb (s : store) : bool :=
  forallb (fun t => (tgarb t =? 0) || (length (trecs t) <=? 1001)%nat) (stabs s).

Lemma garbage_smallb_sound s :
  garbage_smallb s = true -> forall t, In t (stabs s) -> 0 < tgarb t -> (length (trecs t) <= 1001)%nat.
Proof.
  unfold garbage_smallb. intros H t Ht Hg. rewrite forallb_forall in H. specialize (H _ Ht).
  apply orb_true_iff in H as [H|H]; [apply N.eqb_eq in H; lia|now apply Nat.leb_le].
Qed.
