(* The storage engine refines a map: for EVERY operation sequence the results are those of a total map
   hkey -> option (key, value, ttl, timestamp), and the invariant swf holds in every reachable state. *)
From Coq Require Import List NArith ZArith Lia Bool Permutation.
From Coq Require Import ZifyN ZifyNat ZifyBool.
Require Import Olric.Gen.Consts Olric.Model.Codec Olric.Model.Store Olric.Proofs.StoreProofs.
Import ListNotations.
Local Open Scope N_scope.

Definition view_t := (list byte * list byte * Z * Z)%type.
Definition smap := N -> option view_t.
Definition upd (m : smap) (h : N) (v : option view_t) : smap := fun h' => if h' =? h then v else m h'.

Inductive sop :=
| PPut (h : N) (e : entry)
| PPutRaw (h : N) (e : entry)
| PGet (h : N) (now : Z)
| PDel (h : N)
| PUpd (h : N) (ttl ts now : Z)
| PCompact (ord : list N) (expired : bool).

Inductive sobs := RCode (c : sres) | REntry (v : option view_t) | RNone.

(* the model *)
Definition mstep (s : store) (o : sop) : store * sobs :=
  match o with
  | PPut h e => let '(s', r) := s_put h e s in (s', RCode r)
  | PPutRaw h e => let '(s', r) := s_putraw h e s in (s', RCode r)
  | PGet h now => let '(s', r) := s_get h now s in (s', REntry (option_map view r))
  | PDel h => (s_delete h s, RCode SOk)
  | PUpd h ttl ts now => let '(s', r) := s_updatettl h ttl ts now s in (s', RCode r)
  | PCompact ord expired => (fst (s_compaction ord expired s), RNone)
  end.

(* the specification: a map, plus the two documented rejections *)
Definition sstep (size : N) (m : smap) (o : sop) : smap * sobs :=
  match o with
  | PPut h e =>
    if size <=? esize e then (m, RCode SEntryTooLarge)
    else if max_key_length <=? N.of_nat (length (ekey e)) then (m, RCode SKeyTooLarge)
    else (upd m h (Some (view e)), RCode SOk)
  | PPutRaw h e =>
    if size <=? esize e then (m, RCode SEntryTooLarge) else (upd m h (Some (view e)), RCode SOk)
  | PGet h _ => (m, REntry (m h))
  | PDel h => (upd m h None, RCode SOk)
  | PUpd h ttl ts _ =>
    match m h with
    | None => (m, RCode SNotFound)
    | Some (k, v, _, _) => (upd m h (Some (k, v, ttl, ts)), RCode SOk)
    end
  | PCompact _ _ => (m, RNone)
  end.

Fixpoint mrun (s : store) (ops : list sop) : store * list sobs :=
  match ops with
  | [] => (s, [])
  | o :: ops' => let '(s1, r) := mstep s o in let '(s2, rs) := mrun s1 ops' in (s2, r :: rs)
  end.
Fixpoint srun (size : N) (m : smap) (ops : list sop) : smap * list sobs :=
  match ops with
  | [] => (m, [])
  | o :: ops' => let '(m1, r) := sstep size m o in let '(m2, rs) := srun size m1 ops' in (m2, r :: rs)
  end.

(* ---- result codes of the two write paths ---- *)

Lemma put_on_head_code_put h e s s' r :
  put_on_head (t_put h e) s = Some (s', r) -> stabs s <> [] ->
  r = if max_key_length <=? N.of_nat (length (ekey e)) then SKeyTooLarge else SOk.
Proof.
  unfold put_on_head. destruct (stabs s) as [|t older]; [congruence|]. intros H _. revert H.
  unfold t_put. destruct (max_key_length <=? N.of_nat (length (ekey e))).
  - now intros [= <- <-].
  - destruct (talloc t <=? esize e + toff t); [discriminate|]. now intros [= <- <-].
Qed.
Lemma put_on_head_code_putraw h e s s' r :
  put_on_head (t_putraw h e) s = Some (s', r) -> stabs s <> [] -> r = SOk.
Proof.
  unfold put_on_head. destruct (stabs s) as [|t older]; [congruence|]. intros H _. revert H.
  unfold t_putraw. destruct (talloc t <=? esize e + toff t); [discriminate|]. now intros [= <- <-].
Qed.

Lemma make_table_nonempty s : stabs (make_table s) <> [].
Proof. unfold make_table. destruct (take_recycled _) as [[? ?]|]; cbn; discriminate. Qed.

Lemma put_gen_code p (ok : entry -> sres) h e s s' r :
  (forall x x' r', put_on_head (p h e) x = Some (x', r') -> stabs x <> [] -> r' = ok e) ->
  putter p -> putter_fit p -> tabs_wf s ->
  s_put_gen p h e s = (s', r) ->
  r = if ssize s <=? esize e then SEntryTooLarge else ok e.
Proof.
  intros Hcode Hp Hf Hw Hput. pose proof (put_gen_wf p Hp Hf _ _ _ _ _ Hw Hput) as (_ & _ & Hns).
  revert Hput. unfold s_put_gen. destruct (ssize s <=? esize e); [now intros [= <- <-]|].
  set (s0 := if has_writable s then s else make_table s).
  assert (Hne : stabs s0 <> []).
  { unfold s0, has_writable. destruct (stabs s) eqn:E; [apply make_table_nonempty|].
    destruct (negb (is_recycled t)); [now rewrite E|apply make_table_nonempty]. }
  destruct (put_loop (p h e) s0) as [s1 r1] eqn:El.
  assert (Hr1 : r1 = ok e \/ r1 = SSpin).
  { revert El. unfold put_loop. destruct (put_on_head (p h e) s0) as [[sa ra]|] eqn:E1.
    - intros [= <- <-]. left. eapply Hcode; eauto.
    - destruct (put_on_head (p h e) (make_table s0)) as [[sa ra]|] eqn:E2.
      + intros [= <- <-]. left. eapply Hcode; eauto. apply make_table_nonempty.
      + intros [= <- <-]. now right. }
  destruct Hr1 as [->| ->].
  - destruct (ok e); now intros [= <- <-].
  - intros [= <- <-]. congruence.
Qed.

Lemma put_code h e s s' r :
  tabs_wf s -> s_put h e s = (s', r) ->
  r = if ssize s <=? esize e then SEntryTooLarge
      else if max_key_length <=? N.of_nat (length (ekey e)) then SKeyTooLarge else SOk.
Proof.
  intros Hw. apply (put_gen_code t_put (fun e => if max_key_length <=? N.of_nat (length (ekey e)) then SKeyTooLarge else SOk));
    auto using putter_put, putter_fit_put. intros x x' r'. apply put_on_head_code_put.
Qed.
Lemma putraw_code h e s s' r :
  tabs_wf s -> s_putraw h e s = (s', r) -> r = if ssize s <=? esize e then SEntryTooLarge else SOk.
Proof.
  intros Hw. apply (put_gen_code t_putraw (fun _ => SOk)); auto using putter_putraw, putter_fit_putraw.
  intros x x' r'. apply put_on_head_code_putraw.
Qed.

(* ---- one step ---- *)

Definition R (s : store) (m : smap) : Prop := swf s /\ forall h, abs s h = m h.

Lemma step_refines s m o :
  R s m ->
  R (fst (mstep s o)) (fst (sstep (ssize s) m o)) /\ snd (mstep s o) = snd (sstep (ssize s) m o) /\
  ssize (fst (mstep s o)) = ssize s.
Proof.
  intros [[Hw Hu] Ha]. destruct o as [h e|h e|h now|h|h ttl ts now|ord expired]; cbn [mstep sstep].
  - destruct (s_put h e s) as [s' r] eqn:Ep. cbn [fst snd].
    pose proof (put_code _ _ _ _ _ Hw Ep) as Hr.
    pose proof (put_gen_wf _ putter_put putter_fit_put _ _ _ _ _ Hw Ep) as (Hw' & Hsz & _).
    destruct (ssize s <=? esize e).
    + subst r. destruct (put_gen_rejected_spec _ _ _ _ _ _ Hu Ep ltac:(discriminate)) as [Hu' Ha'].
      cbn. repeat split; auto. intros h'. now rewrite Ha'.
    + destruct (max_key_length <=? N.of_nat (length (ekey e))); subst r.
      * destruct (put_gen_rejected_spec _ _ _ _ _ _ Hu Ep ltac:(discriminate)) as [Hu' Ha'].
        cbn. repeat split; auto. intros h'. now rewrite Ha'.
      * destruct (put_gen_spec _ putter_put _ _ _ _ Hu Ep) as [Hu' Ha'].
        cbn. repeat split; auto. intros h'. rewrite Ha'. unfold upd. destruct (h' =? h); auto.
  - destruct (s_putraw h e s) as [s' r] eqn:Ep. cbn [fst snd].
    pose proof (putraw_code _ _ _ _ _ Hw Ep) as Hr.
    pose proof (put_gen_wf _ putter_putraw putter_fit_putraw _ _ _ _ _ Hw Ep) as (Hw' & Hsz & _).
    destruct (ssize s <=? esize e); subst r.
    + destruct (put_gen_rejected_spec _ _ _ _ _ _ Hu Ep ltac:(discriminate)) as [Hu' Ha'].
      cbn. repeat split; auto. intros h'. now rewrite Ha'.
    + destruct (put_gen_spec _ putter_putraw _ _ _ _ Hu Ep) as [Hu' Ha'].
      cbn. repeat split; auto. intros h'. rewrite Ha'. unfold upd. destruct (h' =? h); auto.
  - pose proof (get_spec h now s Hu) as Hg. pose proof (get_wf h now s Hw) as Hw'.
    destruct (s_get h now s) as [s' r] eqn:Eg. cbn [fst snd] in *. destruct Hg as (Hr & Hu' & Ha').
    repeat split; auto.
    + intros h'. now rewrite Ha'.
    + now rewrite Hr, Ha.
    + revert Eg. unfold s_get. destruct (s_find h s); now intros [= <- _].
  - cbn [fst snd]. destruct (delete_spec h s Hu) as [Hu' Ha']. repeat split; auto.
    + now apply delete_wf.
    + intros h'. rewrite Ha'. unfold upd. destruct (h' =? h); auto.
  - pose proof (updatettl_spec h ttl ts now s Hu) as Hg. pose proof (updatettl_wf h ttl ts now s Hw) as Hw'.
    destruct (s_updatettl h ttl ts now s) as [s' r] eqn:Eg. cbn [fst snd] in *. destruct Hg as (Hu' & Hm).
    assert (Hsz : ssize s' = ssize s).
    { revert Eg. unfold s_updatettl. destruct (s_find h s); now intros [= <- _]. }
    rewrite <- Ha. destruct (abs s h) as [[[[k v] t0] s0]|].
    + destruct Hm as [-> Ha']. cbn. repeat split; auto. intros h'. rewrite Ha'. unfold upd.
      destruct (h' =? h); auto.
    + destruct Hm as [-> Ha']. cbn. repeat split; auto. intros h'. now rewrite Ha'.
  - cbn [fst snd]. destruct (compaction_spec ord expired s (conj Hw Hu)) as (Hs' & Ha' & Hsz).
    repeat split; try apply Hs'; auto. intros h. now rewrite Ha'.
Qed.

Theorem run_refines : forall ops s m,
  R s m ->
  R (fst (mrun s ops)) (fst (srun (ssize s) m ops)) /\ snd (mrun s ops) = snd (srun (ssize s) m ops) /\
  ssize (fst (mrun s ops)) = ssize s.
Proof.
  induction ops as [|o ops IH]; intros s m HR; cbn [mrun srun]; [auto|].
  destruct (step_refines s m o HR) as (HR1 & Hobs & Hsz).
  destruct (mstep s o) as [s1 r1]. destruct (sstep (ssize s) m o) as [m1 r1']. cbn [fst snd] in *.
  specialize (IH s1 m1 HR1). rewrite Hsz in IH.
  destruct (mrun s1 ops) as [s2 rs]. destruct (srun (ssize s) m1 ops) as [m2 rs']. cbn [fst snd] in *.
  destruct IH as (A & B & C). split; [exact A|]. split; [now rewrite Hobs, B|exact C].
Qed.

Lemma R_empty size : R (empty_store size) (fun _ => None).
Proof. split; [apply swf_empty|reflexivity]. Qed.
Lemma R_fork size : R (fork_store size) (fun _ => None).
Proof. split; [apply swf_fork|reflexivity]. Qed.
