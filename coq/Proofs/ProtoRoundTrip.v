(* Lemmas for Properties/C15proto.v. C15, protocol half: what the client side builders write is what the server side parsers read (Model/Proto.v).
   Float and integer formatting (strconv.AppendFloat / AppendInt / AppendUint as used by go-redis) enter as section
   variables with their round-trip property as hypothesis (DESIGN.md section 8: strconv is in the trusted base). *)
From Coq Require Import String Ascii.
From Coq Require Import List NArith ZArith Bool Lia.
Require Import Olric.Model.Proto.
Import ListNotations.

Definition in_int64 (z : Z) : Prop := (-9223372036854775808 <= z < 9223372036854775808)%Z.

Section RoundTrip.
  Variable F : Type.
  Variable fzero : F.
  Variable fis_zero : F -> bool.
  Variable fmt_float : F -> tok.
  Variable parse_float : tok -> num_res F.
  Variable fdur : F -> Z.
  Variable fmt_i : Z -> tok.
  Variable fmt_u : N -> tok.
  Hypothesis float_roundtrip : forall f, parse_float (fmt_float f) = NOk f.
  Hypothesis float_zero : forall f, fis_zero f = true -> f = fzero.      (* +0 and -0 are identified *)
  Hypothesis int_roundtrip : forall z, in_int64 z -> parse_int64 (fmt_i z) = NOk z.
  Hypothesis uint_roundtrip : forall n, (n < two64)%N -> parse_uint64 (fmt_u n) = NOk n.

  Notation put_opts := (put_opts F parse_float).
  Notation parse_put := (parse_put F fzero parse_float).
  Notation build_put := (build_put F fis_zero fmt_float fmt_i).

  Lemma step_NX : forall f rest p, put_opts (S f) (kw_NX :: rest) p = put_opts f rest (set_nx F p).
  Proof. reflexivity. Qed.
  Lemma step_XX : forall f rest p, put_opts (S f) (kw_XX :: rest) p = put_opts f rest (set_xx F p).
  Proof. reflexivity. Qed.
  Lemma step_PX : forall f v rest p x, parse_int64 v = NOk x ->
    put_opts (S f) (kw_PX :: v :: rest) p = put_opts f rest (set_px F p x).
  Proof. intros f v rest p x H. cbn [Proto.put_opts arg nth_error].
    change (tok_eqb (to_upper kw_PX) kw_NX) with false. change (tok_eqb (to_upper kw_PX) kw_XX) with false.
    change (tok_eqb (to_upper kw_PX) kw_PX) with true. cbv iota.
    cbn [too_few length Nat.ltb Nat.leb arg nth_error skipn]. rewrite H. reflexivity. Qed.
  Lemma step_EX : forall f v rest p x, parse_float v = NOk x ->
    put_opts (S f) (kw_EX :: v :: rest) p = put_opts f rest (set_ex F p x).
  Proof. intros f v rest p x H. cbn [Proto.put_opts arg nth_error].
    change (tok_eqb (to_upper kw_EX) kw_NX) with false. change (tok_eqb (to_upper kw_EX) kw_XX) with false.
    change (tok_eqb (to_upper kw_EX) kw_PX) with false. change (tok_eqb (to_upper kw_EX) kw_EX) with true. cbv iota.
    cbn [too_few length Nat.ltb Nat.leb arg nth_error skipn]. rewrite H. reflexivity. Qed.
  Lemma step_EXAT : forall f v rest p x, parse_float v = NOk x ->
    put_opts (S f) (kw_EXAT :: v :: rest) p = put_opts f rest (set_exat F p x).
  Proof. intros f v rest p x H. cbn [Proto.put_opts arg nth_error].
    change (tok_eqb (to_upper kw_EXAT) kw_NX) with false. change (tok_eqb (to_upper kw_EXAT) kw_XX) with false.
    change (tok_eqb (to_upper kw_EXAT) kw_PX) with false. change (tok_eqb (to_upper kw_EXAT) kw_EX) with false.
    change (tok_eqb (to_upper kw_EXAT) kw_EXAT) with true. cbv iota.
    cbn [too_few length Nat.ltb Nat.leb arg nth_error skipn]. rewrite H. reflexivity. Qed.
  Lemma step_PXAT : forall f v rest p x, parse_int64 v = NOk x ->
    put_opts (S f) (kw_PXAT :: v :: rest) p = put_opts f rest (set_pxat F p x).
  Proof. intros f v rest p x H. cbn [Proto.put_opts arg nth_error].
    change (tok_eqb (to_upper kw_PXAT) kw_NX) with false. change (tok_eqb (to_upper kw_PXAT) kw_XX) with false.
    change (tok_eqb (to_upper kw_PXAT) kw_PX) with false. change (tok_eqb (to_upper kw_PXAT) kw_EX) with false.
    change (tok_eqb (to_upper kw_PXAT) kw_EXAT) with false. change (tok_eqb (to_upper kw_PXAT) kw_PXAT) with true. cbv iota.
    cbn [too_few length Nat.ltb Nat.leb arg nth_error skipn]. rewrite H. reflexivity. Qed.
  Lemma step_end : forall f p, put_opts (S f) [] p = POk p.
  Proof. reflexivity. Qed.

  Lemma zeqb0 : forall z, (z =? 0)%Z = true -> z = 0%Z.
  Proof. intros z H. apply Z.eqb_eq in H. exact H. Qed.

  (* every Put record whose integers fit int64: parsing what Command() writes gives the record back
     (any combination of options, in particular the ones a PutConfig can produce) *)
  Lemma put_roundtrip : forall p : put_t F, in_int64 (p_px p) -> in_int64 (p_pxat p) ->
    parse_put (build_put p) = POk p.
  Proof.
    intros [d k v ex px exat pxat nx xx] Hpx Hpxat. cbn [p_px p_pxat] in Hpx, Hpxat.
    unfold Proto.build_put, Proto.parse_put. cbn [p_dmap p_key p_value p_ex p_px p_exat p_pxat p_nx p_xx].
    cbn [app too_few length Nat.ltb Nat.leb arg nth_error skipn].
    destruct (fis_zero ex) eqn:Eex; destruct (px =? 0)%Z eqn:Epx; destruct (fis_zero exat) eqn:Eexat;
      destruct (pxat =? 0)%Z eqn:Epxat; destruct nx; destruct xx;
      cbn [negb opt_tok app length];
      repeat first [ rewrite step_NX | rewrite step_XX
                   | rewrite (step_PX _ _ _ _ _ (int_roundtrip _ Hpx))
                   | rewrite (step_PXAT _ _ _ _ _ (int_roundtrip _ Hpxat))
                   | rewrite (step_EX _ _ _ _ _ (float_roundtrip _))
                   | rewrite (step_EXAT _ _ _ _ _ (float_roundtrip _))
                   | rewrite step_end ];
      unfold new_put, set_nx, set_xx, set_px, set_ex, set_exat, set_pxat; cbn;
      try (apply float_zero in Eex; subst ex); try (apply float_zero in Eexat; subst exat);
      try (apply zeqb0 in Epx; subst px); try (apply zeqb0 in Epxat; subst pxat); reflexivity.
  Qed.

  (* dmap/put.go:writePutCommand followed by protocol.Put.Command: a PutConfig holds at most one expiry option and at
     most one of NX/XX (writePutCommand takes the first that is set) *)
  Definition put_of_config (d k v : tok) (x : expiry F) (c : cond) : put_t F :=
    let p := new_put F fzero d k v in
    let p := match x with
             | XNone _ => p | XEX _ s => set_ex F p s | XPX _ ms => set_px F p ms
             | XEXAT _ s => set_exat F p s | XPXAT _ ms => set_pxat F p ms
             end in
    match c with KNone => p | KNX => set_nx F p | KXX => set_xx F p end.

  Definition expiry_fits (x : expiry F) : Prop :=
    match x with XPX _ ms | XPXAT _ ms => in_int64 ms | _ => True end.

  Lemma put_config_roundtrip : forall d k v (x : expiry F) (c : cond), expiry_fits x ->
    parse_put (write_put_command F fzero fis_zero fmt_float fmt_i d k v x c) = POk (put_of_config d k v x c).
  Proof.
    intros d k v x c Hx. unfold write_put_command. fold (put_of_config d k v x c).
    apply put_roundtrip; destruct x; destruct c; cbn in *; unfold in_int64 in *; try lia; exact Hx.
  Qed.

  (* flags: Get RW, GetEntry RC, DelEntry RC, GetPut RW, Destroy LC *)
  Lemma get_roundtrip : forall d k raw, parse_get (build_get d k raw) = POk (d, k, raw).
  Proof. intros d k [|]; reflexivity. Qed.
  Lemma getentry_roundtrip : forall d k rc, parse_getentry (build_getentry d k rc) = POk (d, k, rc).
  Proof. intros d k [|]; reflexivity. Qed.
  Lemma delentry_roundtrip : forall d k rc, parse_delentry (build_delentry d k rc) = POk (d, [k], rc).
  Proof. intros d k [|]; reflexivity. Qed.
  Lemma getput_roundtrip : forall d k v raw, parse_getput (build_getput d k v raw) = POk (d, k, v, raw).
  Proof. intros d k v [|]; reflexivity. Qed.
  Lemma destroy_roundtrip : forall d lc, parse_destroy (build_destroy d lc) = POk (d, lc).
  Proof. intros d [|]; reflexivity. Qed.

  (* Expire / PExpire: the parsed duration is the conversion of the float the client sent / ms * 10^6 (wrapping) *)
  Lemma expire_roundtrip : forall d k s,
    parse_expire F parse_float fdur (build_expire F fmt_float d k s) = POk (d, k, fdur s).
  Proof. intros d k s. unfold parse_expire, build_expire. cbn [too_few length Nat.ltb Nat.leb arg nth_error].
    rewrite float_roundtrip. reflexivity. Qed.
  Lemma pexpire_roundtrip : forall d k ms, in_int64 ms ->
    parse_pexpire (build_pexpire fmt_i d k ms) = POk (d, k, wrap64 (ms * 1000000)%Z).
  Proof. intros d k ms H. unfold parse_pexpire, build_pexpire. cbn [too_few length Nat.ltb Nat.leb arg nth_error].
    rewrite (int_roundtrip _ H). reflexivity. Qed.

  (* Lock with EX or PX (the handler prefers EX; the client sets at most one) *)
  Lemma lock_roundtrip : forall l : lock_t F,
    in_int64 (l_px l) -> (fis_zero (l_ex l) = true \/ l_px l = 0%Z) ->
    parse_lock F fzero parse_float (build_lock F fis_zero fmt_float fmt_i l) = POk l.
  Proof.
    intros [d k dl ex px] Hpx Hone. cbn [l_px l_ex] in Hpx, Hone.
    unfold build_lock, parse_lock. cbn [l_dmap l_key l_deadline l_ex l_px].
    destruct (fis_zero ex) eqn:Eex; destruct (px =? 0)%Z eqn:Epx; cbn [negb opt_tok app];
      cbn [too_few length Nat.ltb Nat.leb Nat.eqb arg nth_error]; rewrite float_roundtrip; cbn [of_num].
    - apply float_zero in Eex. apply zeqb0 in Epx. subst. reflexivity.
    - change (tok_eqb (to_upper kw_PX) kw_PX) with true. cbv iota. rewrite (int_roundtrip _ Hpx). cbn [of_num].
      apply float_zero in Eex. subst. reflexivity.
    - change (tok_eqb (to_upper kw_EX) kw_PX) with false. change (tok_eqb (to_upper kw_EX) kw_EX) with true. cbv iota.
      rewrite float_roundtrip. cbn [of_num]. apply zeqb0 in Epx. subst. reflexivity.
    - destruct Hone as [H|H]; [congruence|]. subst px. discriminate.
  Qed.

  Lemma locklease_roundtrip : forall d k t s,
    parse_locklease F parse_float (build_locklease F fmt_float d k t s) = POk (d, k, t, s).
  Proof. intros. unfold parse_locklease, build_locklease. cbn [too_few length Nat.ltb Nat.leb arg nth_error].
    rewrite float_roundtrip. reflexivity. Qed.
  Lemma plocklease_roundtrip : forall d k t ms, in_int64 ms ->
    parse_plocklease (build_plocklease fmt_i d k t ms) = POk (d, k, t, ms).
  Proof. intros d k t ms H. unfold parse_plocklease, build_plocklease. cbn [too_few length Nat.ltb Nat.leb arg nth_error].
    rewrite (int_roundtrip _ H). reflexivity. Qed.

  (* Scan options: MATCH (non-empty), COUNT (non-zero; zero means "default" on both sides), RC *)
  Lemma scan_step_MATCH : forall f v rest s,
    scan_opts (S f) (kw_MATCH :: v :: rest) s = scan_opts f rest (scan_set_match s v).
  Proof. reflexivity. Qed.
  Lemma scan_step_COUNT : forall f v rest s x, atoi v = NOk x ->
    scan_opts (S f) (kw_COUNT :: v :: rest) s = scan_opts f rest (scan_set_count s x).
  Proof. intros f v rest s x H. cbn [scan_opts arg nth_error].
    change (tok_eqb (to_upper kw_COUNT) kw_MATCH) with false. change (tok_eqb (to_upper kw_COUNT) kw_COUNT) with true.
    cbv iota. cbn [too_few length Nat.ltb Nat.leb arg nth_error skipn]. rewrite H. reflexivity. Qed.
  Lemma scan_step_RC : forall f rest s, scan_opts (S f) (kw_RC :: rest) s = scan_opts f rest (scan_set_replica s).
  Proof. reflexivity. Qed.

  Lemma scan_roundtrip : forall s : scan_t,
    (s_part s < two64)%N -> (s_cursor s < two64)%N -> in_int64 (s_count s) ->
    parse_scan (build_scan fmt_i fmt_u s) =
      POk (if (s_count s =? 0)%Z then scan_set_count s default_scan_count else s).
  Proof.
    intros [part d cursor count m rc] Hp Hc Hn. cbn [s_part s_cursor s_count] in Hp, Hc, Hn.
    unfold build_scan, parse_scan. cbn [s_part s_dmap s_cursor s_count s_match s_replica].
    cbn [app too_few length Nat.ltb Nat.leb arg nth_error skipn].
    rewrite (uint_roundtrip _ Hp), (uint_roundtrip _ Hc). cbn [of_num].
    destruct m as [|m0 mr]; destruct (count =? 0)%Z eqn:Ec; destruct rc;
      cbn [tok_eqb negb opt_tok app length];
      repeat first [ rewrite scan_step_MATCH | rewrite (scan_step_COUNT _ _ _ _ _ (int_roundtrip _ Hn))
                   | rewrite scan_step_RC ];
      cbn [scan_opts bind scan_set_match scan_set_count scan_set_replica s_count s_part s_dmap s_cursor s_match s_replica];
      rewrite ?Ec; try (apply zeqb0 in Ec; subst count); reflexivity.
  Qed.
End RoundTrip.
