(* Lemmas about Model/Quorum.v: write quorum, read quorum, the winner of a read, read-repair, the
   member-count precondition. *)
From Coq Require Import List NArith ZArith Bool Lia Permutation.
From Coq Require Import ZifyN ZifyNat ZifyBool.
Require Import Olric.Gen.Consts Olric.Model.LWW Olric.Model.Quorum Olric.Proofs.LWWProofs.
Import ListNotations.

(* ------------------------------------------------------------------------------------------------ *)
(* Put                                                                                                 *)
(* ------------------------------------------------------------------------------------------------ *)
Lemma sync_put_valid R W oks :
  (1 <= W)%nat -> (W <= R)%nat -> length oks = (R - 1)%nat ->
  let '(r, (owner_has, backups_have)) := sync_put R W oks None in
  (r = Ack <-> (W <= 1 + count_true oks)%nat) /\
  (r <> Ack -> r = EWriteQuorum) /\
  owner_has = true /\ backups_have = oks.
Proof.
  intros H1 H2 Hlen. unfold sync_put.
  destruct (Nat.leb_spec R 1) as [HR|HR].
  - assert (oks = []) by (destruct oks; [reflexivity|cbn in Hlen; lia]). subst oks. cbn.
    split; [split; [intros _; lia|reflexivity]|].
    split; [congruence|]. split; reflexivity.
  - destruct (Nat.leb_spec W (1 + count_true oks)) as [Hq|Hq].
    + split; [split; [intros _; exact Hq|reflexivity]|].
      split; [congruence|]. split; reflexivity.
    + split; [split; [discriminate|intros Hle; lia]|].
      split; [reflexivity|]. split; reflexivity.
Qed.

Lemma sync_put_rejected R W oks e :
  sync_put R W oks (Some e) = (ELocal e, (false, map (fun _ => false) oks)).
Proof. unfold sync_put. destruct (Nat.leb R 1); reflexivity. Qed.

Lemma count_true_le l : (count_true l <= length l)%nat.
Proof. unfold count_true. induction l as [|[|] l IH]; cbn; lia. Qed.

(* ------------------------------------------------------------------------------------------------ *)
(* the gathered versions                                                                               *)
(* ------------------------------------------------------------------------------------------------ *)
Definition count_some {A} (l : list (option A)) : nat :=
  length (filter (fun o => match o with Some _ => true | None => false end) l).

Lemma tag_length {A} mk i (l : list (option A)) : length (tag mk i l) = count_some l.
Proof.
  revert i; induction l as [|[a|] l IH]; intros i; cbn [tag]; unfold count_some in *; cbn [filter length];
    [reflexivity|rewrite IH; reflexivity|apply IH].
Qed.

Lemma tag_all_some {A} mk i (l : list (option A)) : Forall (fun v => snd v <> None) (tag mk i l).
Proof.
  revert i; induction l as [|[a|] l IH]; intros i; cbn [tag]; [constructor| |apply IH].
  constructor; [cbn; discriminate|apply IH].
Qed.

(* a tagged version comes from the position its tag names *)
Lemma in_tag {A} (mk : nat -> holder) i (l : list (option A)) h v :
  In (h, v) (tag mk i l) -> exists j, h = mk (i + j)%nat /\ nth_error l j = Some v /\ v <> None.
Proof.
  revert i; induction l as [|[a|] l IH]; intros i Hin; cbn [tag] in Hin; [contradiction| |].
  - destruct Hin as [Heq|Hin].
    + injection Heq as <- <-. exists 0%nat. rewrite Nat.add_0_r. repeat split; discriminate.
    + destruct (IH (S i) Hin) as (j & -> & Hn & Hv). exists (S j). split; [f_equal; lia|]. split; assumption.
  - destruct (IH (S i) Hin) as (j & -> & Hn & Hv). exists (S j). split; [f_equal; lia|]. split; assumption.
Qed.

Lemma tag_in {A} (mk : nat -> holder) i (l : list (option A)) j a :
  nth_error l j = Some (Some a) -> In (mk (i + j)%nat, Some a) (tag mk i l).
Proof.
  revert i j; induction l as [|[b|] l IH]; intros i j Hn; [destruct j; discriminate| |].
  - destruct j as [|j]; cbn in Hn.
    + injection Hn as ->. cbn [tag]. left. now rewrite Nat.add_0_r.
    + cbn [tag]. right. replace (i + S j)%nat with (S i + j)%nat by lia. now apply IH.
  - destruct j as [|j]; cbn in Hn; [discriminate|].
    cbn [tag]. replace (i + S j)%nat with (S i + j)%nat by lia. now apply IH.
Qed.

Lemma sanitize_app a b : sanitize (a ++ b) = sanitize a ++ sanitize b.
Proof. unfold sanitize. apply flat_map_app. Qed.

Lemma sanitize_length_all_some vs : Forall (fun v => snd v <> None) vs -> length (sanitize vs) = length vs.
Proof.
  induction 1 as [|[h [e|]] vs Hx _ IH]; [reflexivity| |cbn in Hx; congruence].
  unfold sanitize in *. cbn [flat_map snd fst app length]. now rewrite IH.
Qed.

(* copies obtained by a read: the owner's own (if any) and one per remote holder that answered with a copy *)
Definition obtained (local : option entry) (prev backups : list (option entry)) : nat :=
  ((match local with Some _ => 1 | None => 0 end) + count_some prev + count_some backups)%nat.

Lemma gather_length local prev backups :
  length (gather local prev backups) = (1 + count_some prev + count_some backups)%nat.
Proof. unfold gather. cbn [length]. rewrite app_length, !tag_length. lia. Qed.

Lemma sanitize_gather_length local prev backups :
  length (sanitize (gather local prev backups)) = obtained local prev backups.
Proof.
  unfold gather, obtained.
  change ((HLocal, local) :: tag HPrev 0 prev ++ tag HBackup 0 backups)
    with ([(HLocal, local)] ++ (tag HPrev 0 prev ++ tag HBackup 0 backups)).
  rewrite sanitize_app, app_length.
  rewrite (sanitize_length_all_some (tag HPrev 0 prev ++ tag HBackup 0 backups)).
  - rewrite app_length, !tag_length. destruct local; cbn; lia.
  - apply Forall_app. split; apply tag_all_some.
Qed.

Lemma in_gather_some local prev backups h e :
  In (h, Some e) (gather local prev backups) -> In (Some e) (local :: prev ++ backups).
Proof.
  unfold gather. intros [Heq|Hin].
  - injection Heq as _ ->. left. reflexivity.
  - right. apply in_or_app. apply in_app_or in Hin. destruct Hin as [Hin|Hin];
      destruct (in_tag _ _ _ _ _ Hin) as (j & _ & Hn & _); apply nth_error_In in Hn; auto.
Qed.

Lemma some_in_gather local prev backups e :
  In (Some e) (local :: prev ++ backups) -> exists h, In (h, Some e) (gather local prev backups).
Proof.
  unfold gather. intros [->|Hin].
  - exists HLocal. left. reflexivity.
  - apply in_app_or in Hin. destruct Hin as [Hin|Hin]; apply In_nth_error in Hin; destruct Hin as [j Hj].
    + exists (HPrev (0 + j)). right. apply in_or_app. left. now apply tag_in.
    + exists (HBackup (0 + j)). right. apply in_or_app. right. now apply tag_in.
Qed.

(* ------------------------------------------------------------------------------------------------ *)
(* Get: the decision tree                                                                              *)
(* ------------------------------------------------------------------------------------------------ *)
Lemma get_cases RQ rr idle now local prev backups :
  let vs := gather local prev backups in
  let n := obtained local prev backups in
  let r := get_on_cluster RQ rr idle now local prev backups in
  ((1 + count_some prev + count_some backups < RQ)%nat /\ r = (EReadQuorum, [])) \/
  ((RQ <= 1 + count_some prev + count_some backups)%nat /\ n = 0%nat /\ r = (ENotFound, [])) \/
  ((RQ <= 1 + count_some prev + count_some backups)%nat /\ (0 < n < RQ)%nat /\ r = (EReadQuorum, [])) \/
  (exists h w, (RQ <= n)%nat /\ (0 < n)%nat /\ last_max vts (sanitize vs) = Some (h, w) /\
     r = if is_expired now w || idle then (ENotFound, [])
         else (Value w, if rr then read_repair w vs else [])).
Proof.
  cbv zeta. unfold get_on_cluster.
  rewrite gather_length.
  destruct (Nat.ltb_spec (1 + count_some prev + count_some backups) RQ) as [Hlt|Hge]; [left; split; [exact Hlt|reflexivity]|].
  right.
  pose proof (hd_sanitize_and_sort (gather local prev backups)) as Hhd.
  pose proof (sanitize_and_sort_length (gather local prev backups)) as Hlen.
  rewrite sanitize_gather_length in Hlen.
  destruct (sanitize_and_sort (gather local prev backups)) as [|[h w] rest] eqn:Hs.
  - left. cbn in Hlen. repeat split; [exact Hge|now symmetry].
  - right. cbn [hd_error] in Hhd. rewrite Hlen.
    assert (Hpos : (0 < obtained local prev backups)%nat) by (rewrite <- Hlen; cbn; lia).
    destruct (Nat.ltb_spec (obtained local prev backups) RQ) as [Hlt|Hge2].
    + left. repeat split; [exact Hge|exact Hpos|exact Hlt].
    + right. exists h, w. repeat split; [exact Hge2|exact Hpos|now symmetry].
Qed.

(* ------------------------------------------------------------------------------------------------ *)
(* member-count quorum                                                                                 *)
(* ------------------------------------------------------------------------------------------------ *)
Lemma bytes_eqb_eq a b : bytes_eqb a b = true <-> a = b.
Proof.
  revert b; induction a as [|x a IH]; intros [|y b]; cbn; split; try discriminate; try reflexivity.
  - intros H. apply andb_true_iff in H. destruct H as [Hx Hr]. apply N.eqb_eq in Hx. apply IH in Hr. congruence.
  - intros H. injection H as -> ->. rewrite N.eqb_refl. cbn. now apply IH.
Qed.

Lemma precondition_below n mcq boot : (n < mcq)%Z -> precondition n mcq boot = Some RClusterQuorum.
Proof. intros H. unfold precondition. destruct (Z.ltb_spec n mcq); [reflexivity|lia]. Qed.

Lemma handler_wrap_below n mcq boot name args :
  (n < mcq)%Z -> name <> update_routing_command -> handler_wrap n mcq boot name args = RClusterQuorum.
Proof.
  intros Hn Hne. unfold handler_wrap. rewrite (precondition_below n mcq boot Hn).
  destruct (bytes_eqb name str_pubsub) eqn:H1; [|destruct (bytes_eqb name str_PUBSUB) eqn:H2]; cbn [orb].
  - apply bytes_eqb_eq in H1. subst name. destruct args as [|a args]; reflexivity.
  - apply bytes_eqb_eq in H2. subst name. destruct args as [|a args]; reflexivity.
  - destruct (bytes_eqb name update_routing_command) eqn:H3; [|reflexivity].
    apply bytes_eqb_eq in H3. contradiction.
Qed.

Lemma serve_below registered n mcq boot name args :
  (n < mcq)%Z -> name <> update_routing_command ->
  let r := serve registered n mcq boot name args in
  r = RClusterQuorum \/ r = RUnknown \/ r = RWrongArgs.
Proof.
  intros Hn Hne. cbv zeta. unfold serve.
  destruct (mem_bytes (lower name) registered); [left; now apply handler_wrap_below|].
  destruct (bytes_eqb (lower name) str_pubsub); [|auto].
  destruct args as [|a args]; [auto|].
  destruct (mem_bytes _ registered); [left; now apply handler_wrap_below|auto].
Qed.

(* a command the mux finds is answered with the cluster-quorum error *)
Definition dispatched (registered : list bytes) (name : bytes) (args : list bytes) : bool :=
  mem_bytes (lower name) registered ||
  (bytes_eqb (lower name) str_pubsub &&
   match args with a :: _ => mem_bytes (lower name ++ space :: lower a) registered | [] => false end).

Lemma serve_below_dispatched registered n mcq boot name args :
  (n < mcq)%Z -> name <> update_routing_command -> dispatched registered name args = true ->
  serve registered n mcq boot name args = RClusterQuorum.
Proof.
  intros Hn Hne Hd. unfold serve, dispatched in *.
  destruct (mem_bytes (lower name) registered); [now apply handler_wrap_below|].
  cbn [orb] in Hd. destruct (bytes_eqb (lower name) str_pubsub); [|discriminate].
  destruct args as [|a args]; [discriminate|]. cbn [andb] in Hd. rewrite Hd. now apply handler_wrap_below.
Qed.

(* ------------------------------------------------------------------------------------------------ *)
(* read-repair                                                                                         *)
(* ------------------------------------------------------------------------------------------------ *)
Lemma holder_eqb_eq a b : holder_eqb a b = true <-> a = b.
Proof.
  destruct a as [|i|i], b as [|j|j]; cbn; split; try discriminate; try reflexivity;
    try (intros H; apply Nat.eqb_eq in H; now subst); intros H; injection H as ->; apply Nat.eqb_refl.
Qed.

Lemma repair_slot_eqb h h0 : slot_eqb (repair_slot h) (repair_slot h0) = holder_eqb h h0.
Proof. destruct h, h0; reflexivity. Qed.

Lemma in_targets w vs h0 :
  existsb (fun h => slot_eqb (repair_slot h) (repair_slot h0)) (read_repair w vs) = true <->
  exists v, In (h0, v) vs /\ needs_repair w (h0, v) = true.
Proof.
  unfold read_repair. rewrite existsb_exists. split.
  - intros (h & Hin & Heq). rewrite repair_slot_eqb in Heq. apply holder_eqb_eq in Heq. subst h.
    apply in_map_iff in Hin. destruct Hin as ([h v] & Hh & Hin). cbn in Hh. subst h.
    apply filter_In in Hin. destruct Hin as [Hin Hn]. exists v. split; assumption.
  - intros (v & Hin & Hn). exists h0. split.
    + apply in_map_iff. exists (h0, v). split; [reflexivity|]. apply filter_In. split; assumption.
    + rewrite repair_slot_eqb. now apply holder_eqb_eq.
Qed.

Lemma gather_local_unique local prev backups v :
  In (HLocal, v) (gather local prev backups) -> v = local.
Proof.
  unfold gather. intros [Heq|Hin]; [now injection Heq|].
  apply in_app_or in Hin. destruct Hin as [Hin|Hin]; destruct (in_tag _ _ _ _ _ Hin) as (j & Hh & _); discriminate.
Qed.

Lemma gather_backup_unique local prev backups i v :
  In (HBackup i, v) (gather local prev backups) -> nth_error backups i = Some v /\ v <> None.
Proof.
  unfold gather. intros [Heq|Hin]; [discriminate|].
  apply in_app_or in Hin. destruct Hin as [Hin|Hin]; destruct (in_tag _ _ _ _ _ Hin) as (j & Hh & Hn & Hv).
  - discriminate.
  - cbn in Hh. injection Hh as ->. split; assumption.
Qed.

Lemma nth_error_map_seq {A} (f : nat -> A) n i : (i < n)%nat -> nth_error (map f (seq 0 n)) i = Some (f i).
Proof.
  intros Hi. rewrite nth_error_map. rewrite (nth_error_nth' (seq 0 n) 0%nat) by (rewrite seq_length; exact Hi).
  rewrite seq_nth by exact Hi. reflexivity.
Qed.

(* what one holder's fragment looks like after a repairing read that returned [w] *)
Definition repaired (w : entry) (before after : option entry) : Prop :=
  match before with
  | None => after = Some w
  | Some e => if e_ts e =? e_ts w then after = Some e else after = Some w
  end%Z.

Lemma cluster_get_value RQ rr idle now nprev nbackups reach c w c' :
  cluster_get RQ rr idle now nprev nbackups reach c = (Value w, c') ->
  let local := c (lookup_slot HLocal) in
  let prev := map (fun i => remote_answer now (reach (HPrev i)) (c (lookup_slot (HPrev i)))) (seq 0 nprev) in
  let backups := map (fun i => remote_answer now (reach (HBackup i)) (c (lookup_slot (HBackup i)))) (seq 0 nbackups) in
  exists targets, get_on_cluster RQ rr idle now local prev backups = (Value w, targets) /\
                  c' = apply_repair w targets c.
Proof.
  unfold cluster_get. cbv zeta.
  destruct (get_on_cluster _ _ _ _ _ _ _) as [r targets]. destruct r as [e| |]; intros H; try discriminate.
  injection H as -> <-. exists targets. split; reflexivity.
Qed.

Lemma get_value_targets RQ idle now local prev backups w targets :
  get_on_cluster RQ true idle now local prev backups = (Value w, targets) ->
  targets = read_repair w (gather local prev backups).
Proof.
  intros H. pose proof (get_cases RQ true idle now local prev backups) as Hc. cbv zeta in Hc.
  rewrite H in Hc. destruct Hc as [[_ Hc]|[(_ & _ & Hc)|[(_ & _ & Hc)|(h & w' & _ & _ & _ & Hc)]]]; try discriminate.
  destruct (is_expired now w' || idle); [discriminate|]. injection Hc as -> ->. reflexivity.
Qed.

Lemma read_repair_local RQ idle now nprev nbackups reach c w c' :
  cluster_get RQ true idle now nprev nbackups reach c = (Value w, c') ->
  repaired w (c (SPrimary HLocal)) (c' (SPrimary HLocal)).
Proof.
  intros H. destruct (cluster_get_value _ _ _ _ _ _ _ _ _ _ H) as (targets & Hg & ->).
  apply get_value_targets in Hg. subst targets. unfold apply_repair.
  change (SPrimary HLocal) with (repair_slot HLocal) at 2.
  set (vs := gather _ _ _).
  destruct (existsb _ (read_repair w vs)) eqn:Hex.
  - apply in_targets in Hex. destruct Hex as (v & Hin & Hn).
    apply gather_local_unique in Hin. subst v. cbn [lookup_slot] in Hn.
    unfold repaired. cbn [repair_slot]. unfold needs_repair in Hn. cbn [snd] in Hn.
    destruct (c (SPrimary HLocal)) as [e|]; [|reflexivity].
    destruct (e_ts e =? e_ts w)%Z; [discriminate|reflexivity].
  - assert (Hno : ~ exists v, In (HLocal, v) vs /\ needs_repair w (HLocal, v) = true).
    { intros Hx. apply in_targets in Hx. congruence. }
    unfold repaired. cbn [repair_slot].
    destruct (c (SPrimary HLocal)) as [e|] eqn:Hl.
    + destruct (e_ts e =? e_ts w)%Z eqn:Hts; [reflexivity|]. exfalso. apply Hno.
      exists (Some e). split; [left; cbn [lookup_slot]; now rewrite Hl|]. unfold needs_repair. cbn. now rewrite Hts.
    + exfalso. apply Hno. exists None. split; [left; cbn [lookup_slot]; now rewrite Hl|reflexivity].
Qed.

Lemma read_repair_backup RQ idle now nprev nbackups reach c w c' i :
  cluster_get RQ true idle now nprev nbackups reach c = (Value w, c') ->
  (i < nbackups)%nat -> reach (HBackup i) = true ->
  match c (SBackupFrag (HBackup i)) with
  | Some e => repaired w (Some e) (c' (SBackupFrag (HBackup i)))
  | None => c' (SBackupFrag (HBackup i)) = None          (* a holder without any copy is not repaired *)
  end.
Proof.
  intros H Hi Hr. destruct (cluster_get_value _ _ _ _ _ _ _ _ _ _ H) as (targets & Hg & ->).
  apply get_value_targets in Hg. subst targets. unfold apply_repair.
  change (SBackupFrag (HBackup i)) with (repair_slot (HBackup i)) at 2 4.
  set (backups := map (fun i => remote_answer now (reach (HBackup i)) (c (lookup_slot (HBackup i)))) (seq 0 nbackups)).
  set (vs := gather _ _ backups).
  assert (Hnth : nth_error backups i = Some (c (SBackupFrag (HBackup i)))).
  { subst backups. rewrite nth_error_map_seq by exact Hi. rewrite Hr. reflexivity. }
  destruct (existsb _ (read_repair w vs)) eqn:Hex.
  - apply in_targets in Hex. destruct Hex as (v & Hin & Hn).
    apply gather_backup_unique in Hin. destruct Hin as [Hv Hne]. rewrite Hnth in Hv. injection Hv as <-.
    cbn [repair_slot] in *. destruct (c (SBackupFrag (HBackup i))) as [e|]; [|congruence].
    unfold repaired. unfold needs_repair in Hn. cbn [snd] in Hn.
    destruct (e_ts e =? e_ts w)%Z; [discriminate|reflexivity].
  - assert (Hno : ~ exists v, In (HBackup i, v) vs /\ needs_repair w (HBackup i, v) = true).
    { intros Hx. apply in_targets in Hx. congruence. }
    cbn [repair_slot] in *. destruct (c (SBackupFrag (HBackup i))) as [e|] eqn:Hc; [|reflexivity].
    unfold repaired. destruct (e_ts e =? e_ts w)%Z eqn:Hts; [reflexivity|]. exfalso. apply Hno.
    exists (Some e). split.
    + subst vs. unfold gather. right. apply in_or_app. right.
      change (HBackup i) with (HBackup (0 + i)). now apply tag_in.
    + unfold needs_repair. cbn. now rewrite Hts.
Qed.

(* ------------------------------------------------------------------------------------------------ *)
(* statements used by Properties/C05.v and C06.v                                                      *)
(* ------------------------------------------------------------------------------------------------ *)
Lemma write_iff (R W : nat) (backups_ok : list bool) :
  (1 <= W)%nat -> (W <= R)%nat -> length backups_ok = (R - 1)%nat ->
  (let '(r, (owner_has, backups_have)) := sync_put R W backups_ok None in
   (r = Ack <-> (W <= 1 + count_true backups_ok)%nat) /\
   (r <> Ack -> r = EWriteQuorum) /\
   owner_has = true /\ backups_have = backups_ok) /\
  (forall e, sync_put R W backups_ok (Some e) = (ELocal e, (false, map (fun _ => false) backups_ok))).
Proof.
  intros H1 H2 H3. split; [apply sync_put_valid; assumption|]. intros e. apply sync_put_rejected.
Qed.

Lemma read_iff (RQ : nat) (rr idle : bool) (now : Z) (local : option entry) (prev backups : list (option entry)) :
  let n := obtained local prev backups in
  let r := fst (get_on_cluster RQ rr idle now local prev backups) in
  (forall e, r = Value e -> (RQ <= n)%nat /\ (0 < n)%nat) /\
  ((0 < n)%nat -> (n < RQ)%nat -> r = EReadQuorum) /\
  (n = 0%nat -> r = if (RQ <=? 1)%nat then ENotFound else EReadQuorum) /\
  ((0 < n)%nat -> (RQ <= n)%nat -> (exists e, r = Value e) \/ r = ENotFound).
Proof.
  cbv zeta. pose proof (get_cases RQ rr idle now local prev backups) as Hc. cbv zeta in Hc.
  assert (Hle : (obtained local prev backups <= 1 + count_some prev + count_some backups)%nat)
    by (unfold obtained; destruct local; lia).
  destruct Hc as [[Hlt ->]|[(Hge & Hn & ->)|[(Hge & Hn & ->)|(h & w & Hge & Hpos & _ & ->)]]]; cbn [fst].
  - repeat split; try discriminate; try reflexivity.
    + intros Hn. unfold obtained in Hn. destruct local; [lia|].
      destruct (Nat.leb_spec RQ 1); [lia|reflexivity].
    + intros; lia.
  - repeat split; try discriminate; try lia.
    intros _. unfold obtained in Hn. destruct (Nat.leb_spec RQ 1); [reflexivity|]. destruct local; lia.
  - repeat split; try discriminate; try reflexivity; try lia.
  - destruct (is_expired now w || idle); cbn [fst].
    + repeat split; try discriminate; try lia. intros; right; reflexivity.
    + repeat split; try lia. intros; left; eauto.
Qed.

Lemma read_no_expiry (RQ : nat) (rr : bool) (now : Z) (local : option entry) (prev backups : list (option entry)) :
  (forall e, In (Some e) (local :: prev ++ backups) -> is_expired now e = false) ->
  (0 < obtained local prev backups)%nat -> (RQ <= obtained local prev backups)%nat ->
  exists e, fst (get_on_cluster RQ rr false now local prev backups) = Value e.
Proof.
  intros Hexp Hpos Hq. pose proof (get_cases RQ rr false now local prev backups) as Hc. cbv zeta in Hc.
  assert (Hle : (obtained local prev backups <= 1 + count_some prev + count_some backups)%nat)
    by (unfold obtained; destruct local; lia).
  destruct Hc as [[Hlt _]|[(_ & Hn & _)|[(_ & Hn & _)|(h & w & _ & _ & Hl & ->)]]]; try lia.
  apply last_max_in_max in Hl. destruct Hl as [Hin _]. apply in_sanitize, in_gather_some in Hin.
  rewrite (Hexp w Hin). cbn. eauto.
Qed.

Lemma get_newest (RQ : nat) (rr idle : bool) (now : Z) (local : option entry) (prev backups : list (option entry))
      (e : entry) (targets : list holder) :
  get_on_cluster RQ rr idle now local prev backups = (Value e, targets) ->
  In (Some e) (local :: prev ++ backups) /\
  (forall e', In (Some e') (local :: prev ++ backups) -> (e_ts e' <= e_ts e)%Z) /\
  (* which copy wins a tie: the last newest one in the order owner, previous owners, backup owners *)
  exists h l1 l2, sanitize (gather local prev backups) = l1 ++ (h, e) :: l2 /\
                  Forall (fun p => (e_ts (snd p) <= e_ts e)%Z) l1 /\ Forall (fun p => (e_ts (snd p) < e_ts e)%Z) l2.
Proof.
  intros H. pose proof (get_cases RQ rr idle now local prev backups) as Hc. cbv zeta in Hc. rewrite H in Hc.
  destruct Hc as [[_ Hc]|[(_ & _ & Hc)|[(_ & _ & Hc)|(h & w & _ & _ & Hl & Hc)]]]; try discriminate.
  destruct (is_expired now w || idle); [discriminate|]. injection Hc as -> _.
  destruct (last_max_in_max vts _ _ Hl) as [Hin Hmax]. split; [|split].
  - apply in_sanitize in Hin. eapply in_gather_some, Hin.
  - intros e' He'. destruct (some_in_gather _ _ _ _ He') as (h' & Hh').
    apply in_sanitize in Hh'. apply (Hmax (h', e') Hh').
  - destruct (last_max_spec vts _ _ Hl) as (l1 & l2 & Heq & H1 & H2). exists h, l1, l2. auto.
Qed.

Lemma request_below {S : Type} (handle : bytes -> list bytes -> S -> S) (create : bytes -> S -> S)
      (registered : list bytes) (n mcq : Z) (boot : bool) :
  (n < mcq)%Z ->
  (forall name args s, name <> update_routing_command ->
     let '(r, s') := request handle registered n mcq boot name args s in
     s' = s /\ (r = RClusterQuorum \/ r = RUnknown \/ r = RWrongArgs) /\
     (dispatched registered name args = true -> r = RClusterQuorum)) /\
  (forall name s, new_dmap create n mcq boot name s = (RClusterQuorum, s)).
Proof.
  intros Hn. split.
  - intros name args s Hne. unfold request.
    pose proof (serve_below registered n mcq boot name args Hn Hne) as Hr. cbv zeta in Hr.
    pose proof (serve_below_dispatched registered n mcq boot name args Hn Hne) as Hd.
    destruct (serve registered n mcq boot name args); destruct Hr as [Hr|[Hr|Hr]]; try discriminate;
      (split; [reflexivity|split; [auto|exact Hd]]).
  - intros name s. unfold new_dmap. now rewrite precondition_below.
Qed.

Lemma read_repair_all (RQ : nat) (idle : bool) (now : Z) (nprev nbackups : nat) (reach : holder -> bool)
      (c c' : copies) (w : entry) :
  cluster_get RQ true idle now nprev nbackups reach c = (Value w, c') ->
  repaired w (c (SPrimary HLocal)) (c' (SPrimary HLocal)) /\
  forall i, (i < nbackups)%nat -> reach (HBackup i) = true ->
            match c (SBackupFrag (HBackup i)) with
            | Some e => repaired w (Some e) (c' (SBackupFrag (HBackup i)))
            | None => c' (SBackupFrag (HBackup i)) = None
            end.
Proof.
  intros H. split; [eapply read_repair_local; exact H|]. intros i. eapply read_repair_backup; exact H.
Qed.

(* the read looks at EVERY copy a reachable holder has, expired or not: the value it returns is one of them, it is
   not expired, and no reachable copy - expired or not - carries a larger timestamp (an expired newer write is
   never shadowed by an older copy) *)
Lemma cluster_get_newest (RQ : nat) (rr idle : bool) (now : Z) (nprev nbackups : nat) (reach : holder -> bool)
      (c c' : copies) (w : entry) :
  cluster_get RQ rr idle now nprev nbackups reach c = (Value w, c') ->
  is_expired now w = false /\
  (c (lookup_slot HLocal) = Some w \/
   (exists i, (i < nprev)%nat /\ reach (HPrev i) = true /\ c (lookup_slot (HPrev i)) = Some w) \/
   (exists i, (i < nbackups)%nat /\ reach (HBackup i) = true /\ c (lookup_slot (HBackup i)) = Some w)) /\
  (forall e, c (lookup_slot HLocal) = Some e -> (e_ts e <= e_ts w)%Z) /\
  (forall i e, (i < nprev)%nat -> reach (HPrev i) = true -> c (lookup_slot (HPrev i)) = Some e -> (e_ts e <= e_ts w)%Z) /\
  (forall i e, (i < nbackups)%nat -> reach (HBackup i) = true -> c (lookup_slot (HBackup i)) = Some e -> (e_ts e <= e_ts w)%Z).
Proof.
  intros H. destruct (cluster_get_value _ _ _ _ _ _ _ _ _ _ H) as (targets & Hg & _). cbv zeta in Hg.
  set (prev := map (fun i => remote_answer now (reach (HPrev i)) (c (lookup_slot (HPrev i)))) (seq 0 nprev)) in *.
  set (backups := map (fun i => remote_answer now (reach (HBackup i)) (c (lookup_slot (HBackup i)))) (seq 0 nbackups)) in *.
  assert (Hexp : is_expired now w = false).
  { pose proof (get_cases RQ rr idle now (c (lookup_slot HLocal)) prev backups) as Hc. cbv zeta in Hc. rewrite Hg in Hc.
    destruct Hc as [[_ Hc]|[(_ & _ & Hc)|[(_ & _ & Hc)|(h & w' & _ & _ & _ & Hc)]]]; try discriminate.
    destruct (is_expired now w') eqn:Hx; cbn [orb] in Hc; [discriminate|]. destruct idle; [discriminate|].
    injection Hc as -> _. exact Hx. }
  destruct (get_newest _ _ _ _ _ _ _ _ _ Hg) as (Hin & Hmax & _).
  assert (Hp : forall i e, (i < nprev)%nat -> reach (HPrev i) = true -> c (lookup_slot (HPrev i)) = Some e -> In (Some e) prev).
  { intros i e Hi Hr Hc. apply (nth_error_In prev i). subst prev. rewrite nth_error_map_seq by exact Hi. now rewrite Hr, <- Hc. }
  assert (Hb : forall i e, (i < nbackups)%nat -> reach (HBackup i) = true -> c (lookup_slot (HBackup i)) = Some e -> In (Some e) backups).
  { intros i e Hi Hr Hc. apply (nth_error_In backups i). subst backups. rewrite nth_error_map_seq by exact Hi. now rewrite Hr, <- Hc. }
  split; [exact Hexp|]. split; [|split; [|split]].
  - destruct Hin as [Hin|Hin]; [left; exact Hin|]. right. apply in_app_or in Hin as [Hin|Hin].
    + left. subst prev. apply in_map_iff in Hin as (i & Hi & Hs). apply in_seq in Hs. exists i.
      unfold remote_answer in Hi. destruct (reach (HPrev i)); [|discriminate]. repeat split; [lia|exact Hi].
    + right. subst backups. apply in_map_iff in Hin as (i & Hi & Hs). apply in_seq in Hs. exists i.
      unfold remote_answer in Hi. destruct (reach (HBackup i)); [|discriminate]. repeat split; [lia|exact Hi].
  - intros e He. apply Hmax. left. exact He.
  - intros i e Hi Hr Hc. apply Hmax. right. apply in_or_app. left. eapply Hp; eauto.
  - intros i e Hi Hr Hc. apply Hmax. right. apply in_or_app. right. eapply Hb; eauto.
Qed.

(* when copies with the winner's timestamp are the winner (no two different writes share a timestamp), every
   copy the read saw equals the winner afterwards: value, ttl and timestamp *)
Lemma read_repair_equal (RQ : nat) (idle : bool) (now : Z) (nprev nbackups : nat) (reach : holder -> bool)
      (c c' : copies) (w : entry) :
  cluster_get RQ true idle now nprev nbackups reach c = (Value w, c') ->
  (forall s e, c s = Some e -> e_ts e = e_ts w -> e = w) ->
  c' (SPrimary HLocal) = Some w /\
  forall i e, (i < nbackups)%nat -> reach (HBackup i) = true -> c (SBackupFrag (HBackup i)) = Some e ->
              c' (SBackupFrag (HBackup i)) = Some w.
Proof.
  intros H Hties. destruct (read_repair_all _ _ _ _ _ _ _ _ _ H) as [Hl Hb]. split.
  - unfold repaired in Hl. destruct (c (SPrimary HLocal)) as [e|] eqn:Hc; [|exact Hl].
    destruct (Z.eqb_spec (e_ts e) (e_ts w)) as [Heq|]; [|exact Hl]. rewrite Hl. f_equal. eapply Hties; eauto.
  - intros i e Hi Hr Hc. specialize (Hb i Hi Hr). rewrite Hc in Hb. unfold repaired in Hb.
    destruct (Z.eqb_spec (e_ts e) (e_ts w)) as [Heq|]; [|exact Hb]. rewrite Hb. f_equal. eapply Hties; eauto.
Qed.

(* D24: the read is not atomic. Its lookups see [c]; a Delete then removes every copy and is acknowledged;
   the repair phase of the read still writes the winner. *)
Definition repair_phase (w : entry) (targets : list holder) (c_now : copies) : copies := apply_repair w targets c_now.

Lemma rr_race : exists (c : copies) (w : entry) (targets : list holder),
  get_on_cluster 1 true false 0 (c (SPrimary HLocal)) [] [c (SBackupFrag (HBackup 0)); c (SBackupFrag (HBackup 1))]
    = (Value w, targets) /\
  let deleted : copies := fun _ => None in      (* the Delete removed every copy and was acknowledged *)
  repair_phase w targets deleted (SPrimary HLocal) = Some w.
Proof.
  set (old := {| e_val := [111]%N; e_ttl := 0; e_ts := 1 |}).
  set (new := {| e_val := [110]%N; e_ttl := 0; e_ts := 2 |}).
  exists (fun s => match s with SPrimary HLocal => Some old | SBackupFrag (HBackup 0) => Some new | _ => None end),
         new, [HLocal].
  split; reflexivity.
Qed.
