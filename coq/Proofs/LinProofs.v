From Coq Require Import List Arith ZArith Lia Bool Permutation.
Require Import Olric.Model.Lin.
Import ListNotations.

Section LinProofs.
  Variables (st op res : Type).
  Variable sstep : st -> op -> st * res.
  Variable res_eqb : res -> res -> bool.

  Notation event := (event op res).
  Notation search := (search st op res sstep res_eqb).
  Notation try_cands := (try_cands st op res sstep res_eqb).
  Notation replay := (replay st op res sstep res_eqb).
  Notation minimal := (minimal op res).

  (* l respects real time: nothing later in l responded before something earlier was invoked *)
  Fixpoint rt_ok (l : list event) : Prop :=
    match l with
    | [] => True
    | e :: l' => Forall (fun e' => ~ (rsp e' < inv e)%Z) l' /\ rt_ok l'
    end.

  (* l is a linearization of the history [pending] from state s *)
  Definition linearization (s : st) (pending l : list event) : Prop :=
    Permutation pending l /\ replay s l = true /\ rt_ok l.

  Lemma remove_nth_perm {A} k (l : list A) x :
    nth_error l k = Some x -> Permutation l (x :: remove_nth k l).
  Proof.
    revert k; induction l as [|y l IH]; intros [|k] H; cbn in *; try discriminate.
    - injection H as ->. reflexivity.
    - rewrite (IH _ H) at 1. apply perm_swap.
  Qed.

  Lemma minimal_forall e pending :
    minimal e pending = true -> Forall (fun e' => ~ (rsp e' < inv e)%Z) pending.
  Proof.
    unfold Lin.minimal. rewrite forallb_forall. intros H. apply Forall_forall. intros e' Hin.
    specialize (H e' Hin). destruct (Z.ltb_spec (rsp e') (inv e)); [discriminate|lia].
  Qed.

  Lemma try_cands_sound rec s pending :
    (forall s' p l, rec s' p = Some l -> linearization s' p l) ->
    forall cands k l,
      (forall j x, nth_error cands j = Some x -> nth_error pending (k + j) = Some x) ->
      try_cands rec s pending k cands = Some l -> linearization s pending l.
  Proof.
    intros Hrec. induction cands as [|e cands IHc]; intros k l Hsuf Htry; [discriminate|].
    assert (Hnext : forall j x, nth_error cands j = Some x -> nth_error pending (S k + j) = Some x).
    { intros j x Hj. replace (S k + j) with (k + S j) by lia. now apply Hsuf. }
    cbn [Lin.try_cands] in Htry.
    destruct (minimal e pending) eqn:Hmin; [|exact (IHc _ _ Hnext Htry)].
    destruct (sstep s (eop e)) as [s' r] eqn:Hst.
    destruct (res_eqb r (eres e)) eqn:Hr; [|exact (IHc _ _ Hnext Htry)].
    destruct (rec s' (remove_nth k pending)) as [tl|] eqn:Hs; [|exact (IHc _ _ Hnext Htry)].
    injection Htry as <-.
    destruct (Hrec _ _ _ Hs) as (Hperm & Hrep & Hrt).
    assert (Hk : nth_error pending k = Some e).
    { specialize (Hsuf 0 e eq_refl). now rewrite Nat.add_0_r in Hsuf. }
    pose proof (remove_nth_perm _ _ _ Hk) as Hpk.
    repeat split.
    - rewrite Hpk. now constructor.
    - cbn [Lin.replay]. rewrite Hst, Hr. exact Hrep.
    - apply Forall_forall. intros e' Hin. pose proof (minimal_forall _ _ Hmin) as Hall.
      rewrite Forall_forall in Hall. apply Hall.
      eapply Permutation_in; [symmetry; exact Hpk|]. right.
      eapply Permutation_in; [symmetry; exact Hperm|exact Hin].
    - exact Hrt.
  Qed.

  (* a PASS of the checker is a linearization: a permutation of the history whose sequential replay from s
     returns every recorded result and which respects real-time order *)
  Theorem search_sound fuel : forall s pending l,
    search fuel s pending = Some l -> linearization s pending l.
  Proof.
    induction fuel as [|fuel IH]; intros s pending l H; [discriminate|].
    cbn [Lin.search] in H. destruct pending as [|p0 ps] eqn:Hp.
    - injection H as <-. repeat split; constructor.
    - rewrite <- Hp in *. eapply (try_cands_sound (search fuel) s pending IH pending 0 l); [|exact H].
      intros j x Hj. exact Hj.
  Qed.

  (* ------------------------------------------------------------------------------------------
     Executions with atomic commit points are linearizable: if every operation takes effect at one instant
     [com] between its invocation and its response, the commit instants are strictly increasing along the
     list and each result is what the sequential specification returns at that point, then the commit
     order is a linearization of the history. *)
  Record cevent := { ce : event; com : Z }.

  Fixpoint commit_run (s : st) (l : list cevent) : Prop :=
    match l with
    | [] => True
    | c :: l' =>
      (inv (ce c) <= com c <= rsp (ce c))%Z /\
      Forall (fun c' => (com c < com c')%Z) l' /\
      let '(s', r) := sstep s (eop (ce c)) in res_eqb r (eres (ce c)) = true /\ commit_run s' l'
    end.

  Theorem commit_order_linearizes : forall l s,
    commit_run s l -> linearization s (map ce l) (map ce l).
  Proof.
    induction l as [|c l IH]; intros s H; [cbn; split; [constructor|split; [reflexivity|exact I]]|].
    cbn [commit_run] in H. destruct H as (Hc & Hlt & H).
    destruct (sstep s (eop (ce c))) as [s' r] eqn:Hst. destruct H as [Hr H].
    destruct (IH _ H) as (Hp & Hrep & Hrt).
    assert (Hinv : forall l0, commit_run s' l0 -> Forall (fun c' => (inv (ce c') <= com c' <= rsp (ce c'))%Z) l0).
    { clear. intros l0. revert s'. induction l0 as [|x l0 IHl]; intros s0 H0; [constructor|].
      cbn [commit_run] in H0. destruct H0 as (A & _ & B). destruct (sstep s0 (eop (ce x))) as [s1 r1]. destruct B as [_ B].
      constructor; [exact A|eapply IHl; eauto]. }
    split; [|split].
    - reflexivity.
    - cbn [map Lin.replay]. rewrite Hst, Hr. exact Hrep.
    - cbn [map rt_ok]. split; [|exact Hrt].
      apply Forall_forall. intros e' Hin. apply in_map_iff in Hin as (c' & <- & Hin).
      rewrite Forall_forall in Hlt. specialize (Hlt _ Hin).
      pose proof (Hinv _ H) as Hb. rewrite Forall_forall in Hb. specialize (Hb _ Hin). lia.
  Qed.
End LinProofs.

(* the sum formula of C07: whatever the order, the final counter is the initial value plus the sum of the
   deltas, and each Incr returned the prefix sum at its place *)
Fixpoint deltas (l : list cop) : Z :=
  match l with
  | [] => 0
  | CIncr d :: l' => d + deltas l'
  | _ :: l' => deltas l'
  end.
Definition only_incr (l : list cop) : Prop := Forall (fun o => match o with CIncr _ => True | _ => False end) l.

Lemma counter_sum : forall l s r,
  only_incr l ->
  fst (fold_left (fun acc o => cstep (fst acc) o) l (s, r)) =
  match l with [] => s | _ => Some ((match s with Some v => v | None => 0 end) + deltas l)%Z end.
Proof.
  induction l as [|o l IH]; intros s r H; [reflexivity|]. inversion H as [|? ? Ho Hl]; subst.
  destruct o as [d| |]; try contradiction. cbn [fold_left fst cstep]. rewrite IH by exact Hl. cbn [deltas].
  destruct l as [|o' l']; [cbn; f_equal; lia|]. f_equal. destruct s; cbn; lia.
Qed.
