(* The second half of KVStore.Compaction: once no table qualifies for draining, recycled tables whose idle time-out has elapsed
   are released (never the only table).  Model/Store.v drop_recycled / s_compaction. *)
From Coq Require Import List NArith Bool Arith Lia.
Require Import Olric.Gen.Consts Olric.Model.Store.
Import ListNotations.

Definition count_recycled (ts : list table) : nat := length (filter is_recycled ts).
Definition count_in_use (ts : list table) : nat := length (filter (fun t => negb (is_recycled t)) ts).

Lemma count_split ts : length ts = count_recycled ts + count_in_use ts.
Proof.
  unfold count_recycled, count_in_use. induction ts as [|t r IH]; cbn; [reflexivity|].
  destruct (is_recycled t); cbn; lia.
Qed.

Lemma count_recycled_app a b : count_recycled (a ++ b) = count_recycled a + count_recycled b.
Proof. unfold count_recycled. now rewrite filter_app, app_length. Qed.
Lemma count_in_use_app a b : count_in_use (a ++ b) = count_in_use a + count_in_use b.
Proof. unfold count_in_use. now rewrite filter_app, app_length. Qed.

Lemma count_recycled_rev ts : count_recycled (rev ts) = count_recycled ts.
Proof. induction ts as [|t r IH]; cbn [rev]; [reflexivity|]. rewrite count_recycled_app, IH. change (t :: r) with ([t] ++ r). rewrite count_recycled_app. lia. Qed.
Lemma count_in_use_rev ts : count_in_use (rev ts) = count_in_use ts.
Proof. induction ts as [|t r IH]; cbn [rev]; [reflexivity|]. rewrite count_in_use_app, IH. change (t :: r) with ([t] ++ r). rewrite count_in_use_app. lia. Qed.

Lemma drop_recycled_counts : forall ts len, length ts <= len ->
  count_recycled (drop_recycled ts len) <= 1 /\
  (length ts < len \/ 0 < count_in_use ts -> count_recycled (drop_recycled ts len) = 0) /\
  count_in_use (drop_recycled ts len) = count_in_use ts.
Proof.
  induction ts as [|t r IH]; intros len Hlen.
  - cbn. repeat split; lia.
  - cbn [drop_recycled]. destruct (is_recycled t) eqn:Hr.
    + destruct (Nat.eqb len 1) eqn:H1.
      * apply Nat.eqb_eq in H1. subst len. cbn in Hlen. assert (r = []) by (destruct r; [reflexivity|cbn in Hlen; lia]). subst r.
        unfold count_recycled, count_in_use. cbn. rewrite Hr. cbn. repeat split; lia.
      * apply Nat.eqb_neq in H1. cbn in Hlen. destruct (IH (len - 1)) as (A & B & C); [lia|].
        repeat split; [exact A| |].
        -- intros H. apply B. unfold count_in_use in H |- *. cbn in H. rewrite Hr in H. cbn in H. lia.
        -- rewrite C. unfold count_in_use. cbn. now rewrite Hr.
    + cbn in Hlen. destruct (IH len) as (A & B & C); [lia|].
      assert (E : count_recycled (t :: drop_recycled r len) = count_recycled (drop_recycled r len)).
      { unfold count_recycled. cbn. now rewrite Hr. }
      rewrite E. repeat split; [exact A| |].
      * intros _. apply B. left. lia.
      * unfold count_in_use in C |- *. cbn. rewrite Hr. cbn. now rewrite C.
Qed.

(* When Compaction reports completion and the idle time-out of the recycled tables has elapsed, at most one recycled table is
   left, and none if any table is in use; the tables in use are untouched. *)
Lemma done_releases_recycled ord s s' :
  s_compaction ord true s = (s', true) ->
  count_recycled (stabs s') <= 1 /\
  (0 < count_in_use (stabs s) -> count_recycled (stabs s') = 0) /\
  count_in_use (stabs s') = count_in_use (stabs s) /\
  length (stabs s') <= count_in_use (stabs s) + 1.
Proof.
  unfold s_compaction. destruct (find compactable (rev (tl (stabs s)))); [discriminate|].
  intros [= <-]. cbn [stabs with_tabs].
  destruct (drop_recycled_counts (rev (stabs s)) (length (stabs s))) as (A & B & C); [rewrite rev_length; lia|].
  rewrite count_recycled_rev, count_in_use_rev. rewrite count_in_use_rev in B, C.
  assert (L : length (rev (drop_recycled (rev (stabs s)) (length (stabs s)))) <= count_in_use (stabs s) + 1).
  { rewrite count_split, count_recycled_rev, count_in_use_rev, C. lia. }
  repeat split; [exact A| |exact C|exact L].
  intros H. apply B. now right.
Qed.

(* without the elapsed time-out nothing is released *)
Lemma done_keeps_fresh_recycled ord s s' : s_compaction ord false s = (s', true) -> s' = s.
Proof. unfold s_compaction. destruct (find compactable (rev (tl (stabs s)))); [discriminate|]. now intros [= <-]. Qed.
