(* Proofs about Model/BalanceCrash.v: a read still resolves to the last acknowledged entry when members are lost
   at any step of a fragment move, as long as either the backup owner or the holders of primary-kind data survive. *)
From Coq Require Import List NArith ZArith Bool Lia.
From Coq Require Import ZifyN ZifyNat ZifyBool.
Require Import Olric.Model.Balance Olric.Model.BalanceCrash Olric.Proofs.BalanceProofs.
Import ListNotations.
Local Open Scope Z_scope.

(* every copy lying around belongs to a live key and is its last acknowledged entry or strictly older *)
Definition AllLe (s : sys) (m : smap) : Prop :=
  forall k f c, In f s -> flookup k f = Some c -> exists e, m k = Some e /\ (snd c < snd e \/ c = e).

Definition Mirror (b : frag) (m : smap) : Prop := forall k, flookup k b = m k.

Lemma newer_le (m : smap) k (a : option ent) (c : ent) :
  (forall x, a = Some x -> exists e, m k = Some e /\ (snd x < snd e \/ x = e)) ->
  (exists e, m k = Some e /\ (snd c < snd e \/ c = e)) ->
  forall x, newer a c = Some x -> exists e, m k = Some e /\ (snd x < snd e \/ x = e).
Proof.
  intros Ha Hc x Hx. unfold newer in Hx. destruct a as [a0|].
  - destruct (snd a0 <=? snd c); inversion Hx; subst x; [exact Hc|apply Ha; reflexivity].
  - inversion Hx. subst x. exact Hc.
Qed.

Lemma In_on_primary g s f : In f (on_primary g s) -> (f = g (hd [] s)) \/ In f (tl s).
Proof. destruct s as [|p prev]; cbn; intros [H|H]; [left; now symmetry|destruct H|left; now symmetry|right; exact H]. Qed.

Lemma AllLe_nil m : AllLe [] m.
Proof. intros k f c []. Qed.

Lemma AllLe_hd s m : AllLe s m -> forall k c, flookup k (hd [] s) = Some c -> exists e, m k = Some e /\ (snd c < snd e \/ c = e).
Proof. intros H k c Hc. destruct s as [|p prev]; [discriminate|]. apply (H k p c); [now left|exact Hc]. Qed.

Lemma AllLe_tl s m : AllLe s m -> AllLe (tl s) m.
Proof. intros H k f c Hf. destruct s as [|p prev]; [destruct Hf|]. apply H. now right. Qed.

Lemma AllLe_nth s m i : AllLe s m -> forall k c, flookup k (nth i s []) = Some c -> exists e, m k = Some e /\ (snd c < snd e \/ c = e).
Proof.
  intros H k c Hc. destruct (Nat.lt_ge_cases i (length s)) as [Hi|Hi].
  - apply (H k (nth i s []) c); [apply nth_In; exact Hi|exact Hc].
  - rewrite nth_overflow in Hc by exact Hi. discriminate.
Qed.

(* the merge at the owner keeps AllLe *)
Lemma AllLe_merged s m i ks :
  AllLe s m ->
  forall k c, flookup k (fold_left (fun acc ke => merge1 (fst ke) (snd ke) acc) (movedof (nth i s []) ks) (hd [] s)) = Some c ->
  exists e, m k = Some e /\ (snd c < snd e \/ c = e).
Proof.
  intros H k c Hc. rewrite flookup_fold_merge in Hc.
  destruct (flookup k (nth i s [])) as [e0|] eqn:Es; [|now apply (AllLe_hd s m H)].
  destruct (existsb (N.eqb k) ks); [|now apply (AllLe_hd s m H)].
  apply (newer_le m k (flookup k (hd [] s)) e0); [intros x Hx; now apply (AllLe_hd s m H)|now apply (AllLe_nth s m i H)|exact Hc].
Qed.

Lemma AllLe_send s m i ks : AllLe s m -> AllLe (send i ks s) m.
Proof.
  intros H. destruct i as [|i]; [exact H|]. cbn [send].
  change (flat_map (fun k => match flookup k (nth (S i) s []) with Some e => [(k, e)] | None => [] end) ks) with (movedof (nth (S i) s []) ks).
  intros k f c Hf Hc. apply In_on_primary in Hf as [->|Hf].
  - now apply (AllLe_merged s m (S i) ks H).
  - apply (AllLe_tl s m H k f c Hf Hc).
Qed.

Lemma In_drop_nth i : forall (s : sys) f, In f (drop_nth i s) -> In f s.
Proof.
  induction i as [|i IH]; intros [|f0 s] f H; cbn in *; auto.
  destruct H as [H|H]; [now left|right; now apply IH].
Qed.

Lemma AllLe_crash s m i : AllLe s m -> AllLe (crash_holder i s) m.
Proof.
  intros H k f c Hf Hc. destruct i as [|i]; cbn [crash_holder] in Hf.
  - destruct Hf as [<-|Hf]; [discriminate|]. apply (AllLe_tl s m H k f c Hf Hc).
  - apply (H k f c); [now apply In_drop_nth in Hf|exact Hc].
Qed.

Lemma AllLe_step s m o : AllLe s m -> fresh_for m o -> AllLe (bstep s o) (sstep m o).
Proof.
  intros H Hf. destruct o as [k v ts|k| |i ks|]; cbn [sstep].
  - (* BPut *)
    intros k' f c Hin Hc. cbn [bstep] in Hin. apply In_on_primary in Hin as [->|Hin].
    + rewrite flookup_finsert in Hc. destruct (N.eqb k' k) eqn:E.
      * inversion Hc. subst c. exists (v, ts). split; [reflexivity|now right].
      * now apply (AllLe_hd s m H).
    + destruct (AllLe_tl s m H k' f c Hin Hc) as (e & He & Hle). destruct (N.eqb k' k) eqn:E.
      * nb. subst k'. cbn [fresh_for] in Hf. rewrite He in Hf. exists (v, ts). split; [reflexivity|]. left. cbn [snd].
        destruct Hle as [Hle| ->]; lia.
      * exists e. split; [exact He|exact Hle].
  - (* BDel *)
    intros k' f c Hin Hc. cbn [bstep] in Hin. apply in_map_iff in Hin as (f0 & <- & Hin).
    rewrite flookup_fremove in Hc. destruct (N.eqb k' k); [discriminate|]. apply (H k' f0 c Hin Hc).
  - (* BJoin *)
    intros k' f c [<-|Hin] Hc; [discriminate|]. apply (H k' f c Hin Hc).
  - (* BMove *)
    destruct i as [|i]; [exact H|]. destruct s as [|p prev].
    + rewrite bstep_move_nil. intros k' f c [<-|[]] Hc. discriminate.
    + rewrite bstep_move_cons. intros k' f c [<-|Hin] Hc.
      * apply (AllLe_merged (p :: prev) m (S i) ks H k' c Hc).
      * apply In_update_nth in Hin as [Hin|(f0 & Hin & ->)].
        -- apply (H k' f c); [now right|exact Hc].
        -- rewrite flookup_fold_fremove in Hc. destruct (existsb (N.eqb k') ks); [discriminate|].
           apply (H k' f0 c); [now right|exact Hc].
  - (* BPrune *)
    intros k' f c Hin Hc. destruct s as [|p prev]; [destruct Hin|]. cbn [bstep] in Hin. destruct Hin as [<-|Hin].
    + apply (H k' p c); [now left|exact Hc].
    + apply filter_In in Hin as [Hin _]. apply (H k' f c); [now right|exact Hc].
Qed.

Lemma Mirror_step b m o : Mirror b m -> forall b', bk_step (Some b) o = Some b' -> Mirror b' (sstep m o).
Proof.
  intros H b' Hb k'. destruct o as [k v ts|k| |i ks|]; cbn [bk_step option_map sstep] in *; inversion Hb; subst b'.
  - rewrite flookup_finsert. destruct (N.eqb k' k); [reflexivity|apply H].
  - rewrite flookup_fremove. destruct (N.eqb k' k); [reflexivity|apply H].
  - apply H.
  - apply H.
  - apply H.
Qed.

Lemma bk_step_some b o : exists b', bk_step (Some b) o = Some b'.
Proof. destruct o; cbn; eauto. Qed.

Lemma bk_step_none o : bk_step None o = None.
Proof. destruct o; reflexivity. Qed.

(* reads over holders ++ a mirror *)
Lemma read_with_mirror s b m : AllLe s m -> Mirror b m -> forall k, read k (s ++ [b]) = m k.
Proof.
  intros HA HM k. unfold read. rewrite copies_app. cbn [copies flat_map]. rewrite app_nil_r. rewrite (HM k).
  destruct (m k) as [e|] eqn:Em.
  - apply fold_newer_max.
    + intros c Hc. apply in_app_or in Hc as [Hc|[<-|[]]]; [|now right].
      apply In_copies in Hc as (f & Hf & Hl). destruct (HA k f c Hf Hl) as (e' & He' & Hle). rewrite Em in He'. inversion He'. subst e'. exact Hle.
    + right. apply in_or_app. right. now left.
    + intros a Ha. discriminate.
  - destruct (copies k s) as [|c cs] eqn:Ec; [reflexivity|]. exfalso.
    assert (Hc : In c (copies k s)) by (rewrite Ec; now left).
    apply In_copies in Hc as (f & Hf & Hl). destruct (HA k f c Hf Hl) as (e' & He' & _). congruence.
Qed.

(* the merge half of a move keeps Good *)
Lemma Good_AllLe s m : Good s m -> AllLe s m.
Proof.
  intros H k f c Hf Hc. specialize (H k). destruct (m k) as [e|].
  - exists e. split; [reflexivity|]. destruct H as [_ H]. apply (H f c Hf Hc).
  - rewrite (H f Hf) in Hc. discriminate.
Qed.

Lemma Good_send s m i ks : Good s m -> Good (send i ks s) m.
Proof.
  intros H. pose proof (AllLe_send s m i ks (Good_AllLe s m H)) as HA.
  destruct i as [|i]; [exact H|]. intros k. specialize (H k). destruct (m k) as [e|] eqn:Em.
  - destruct H as [(f & Hf & Hl) Hall]. split.
    + cbn [send].
      change (flat_map (fun k => match flookup k (nth (S i) s []) with Some e => [(k, e)] | None => [] end) ks) with (movedof (nth (S i) s []) ks).
      destruct s as [|p prev]; [destruct Hf|]. destruct Hf as [<-|Hf].
      * eexists. split; [left; reflexivity|]. rewrite flookup_fold_merge.
        destruct (flookup k (nth (S i) (p :: prev) [])) as [c0|] eqn:Es; [|exact Hl].
        destruct (existsb (N.eqb k) ks); [|exact Hl]. rewrite Hl. unfold newer.
        destruct (Nat.lt_ge_cases (S i) (length (p :: prev))) as [Hi|Hi].
        -- destruct (Hall (nth (S i) (p :: prev) []) c0 (nth_In _ _ Hi) Es) as [Hlt| ->].
           ++ destruct (snd e <=? snd c0) eqn:E; [lia|reflexivity].
           ++ now rewrite Z.leb_refl.
        -- rewrite nth_overflow in Es by exact Hi. discriminate.
      * exists f. split; [right; exact Hf|exact Hl].
    + intros f0 c Hf0 Hc. destruct (HA k f0 c Hf0 Hc) as (e' & He' & Hle). congruence.
  - intros f0 Hf0. destruct (flookup k f0) as [c|] eqn:Hc; [|reflexivity].
    destruct (HA k f0 c Hf0 Hc) as (e' & He' & _). congruence.
Qed.

Lemma read_good_with_mirror s b m : Good s m -> Mirror b m -> forall k, read k (s ++ [b]) = m k.
Proof. intros H. apply read_with_mirror. now apply Good_AllLe. Qed.

Lemma cts_fresh_cons m o l : cts_fresh m (o :: l) <->
  (match o with COp b => fresh_for m b | _ => True end) /\ cts_fresh (cref m o) l.
Proof. cbn [cts_fresh]. destruct o as [[k v ts|k| |i ks|]| | |]; reflexivity. Qed.

(* ---- the backup owner survives: any number of holders may be lost, at any step ---- *)
Definition InvB (cs : csys) (m : smap) : Prop :=
  AllLe (holders cs) m /\ exists b, bk cs = Some b /\ Mirror b m.

Lemma InvB_step cs m o : InvB cs m -> is_backup_crash o = false ->
  (match o with COp b => fresh_for m b | _ => True end) -> InvB (cstep cs o) (cref m o).
Proof.
  intros [HA (b & Hb & HM)] Hnc Hf. destruct o as [bo|i ks|i|]; cbn [cstep cref holders bk]; [| | |discriminate].
  - split; [now apply AllLe_step|]. rewrite Hb. destruct (bk_step_some b bo) as (b' & Hb'). exists b'. split; [exact Hb'|].
    now apply (Mirror_step b m bo HM).
  - split; [now apply AllLe_send|]. now exists b.
  - split; [now apply AllLe_crash|]. now exists b.
Qed.

Lemma InvB_run : forall l cs m, InvB cs m -> cts_fresh m l -> forallb (fun o => negb (is_backup_crash o)) l = true ->
  InvB (fst (crun cs m l)) (snd (crun cs m l)).
Proof.
  induction l as [|o l IH]; intros cs m HI Hf Hn; [exact HI|]. cbn [crun].
  apply cts_fresh_cons in Hf as [Hf1 Hf2]. cbn [forallb] in Hn. apply andb_true_iff in Hn as [Hn1 Hn2].
  apply IH; [|exact Hf2|exact Hn2]. apply InvB_step; [exact HI|now apply negb_true_iff in Hn1|exact Hf1].
Qed.

(* ---- every holder survives: the backup owner may be lost at any step ---- *)
Definition InvH (cs : csys) (m : smap) : Prop :=
  Good (holders cs) m /\ forall b, bk cs = Some b -> Mirror b m.

Lemma InvH_step cs m o : InvH cs m -> is_holder_crash o = false ->
  (match o with COp b => fresh_for m b | _ => True end) -> InvH (cstep cs o) (cref m o).
Proof.
  intros [HG HM] Hnc Hf. destruct o as [bo|i ks|i|]; cbn [cstep cref holders bk]; [| |discriminate|].
  - split; [now apply Good_step|]. intros b' Hb'. destruct (bk cs) as [b|] eqn:Hb.
    + apply (Mirror_step b m bo (HM b eq_refl) b' Hb').
    + rewrite bk_step_none in Hb'. discriminate.
  - split; [now apply Good_send|exact HM].
  - split; [exact HG|]. intros b Hb. discriminate.
Qed.

Lemma InvH_run : forall l cs m, InvH cs m -> cts_fresh m l -> forallb (fun o => negb (is_holder_crash o)) l = true ->
  InvH (fst (crun cs m l)) (snd (crun cs m l)).
Proof.
  induction l as [|o l IH]; intros cs m HI Hf Hn; [exact HI|]. cbn [crun].
  apply cts_fresh_cons in Hf as [Hf1 Hf2]. cbn [forallb] in Hn. apply andb_true_iff in Hn as [Hn1 Hn2].
  apply IH; [|exact Hf2|exact Hn2]. apply InvH_step; [exact HI|now apply negb_true_iff in Hn1|exact Hf1].
Qed.

Lemma cinit_invB : InvB cinit (fun _ => None).
Proof. split; [apply AllLe_nil|]. exists []. split; [reflexivity|]. intros k. reflexivity. Qed.

Lemma cinit_invH : InvH cinit (fun _ => None).
Proof. split; [apply Good_nil|]. intros b Hb. inversion Hb. subst b. intros k. reflexivity. Qed.

Lemma cread_invB cs m : InvB cs m -> forall k, cread k cs = m k.
Proof. intros [HA (b & Hb & HM)] k. unfold cread, everyone. rewrite Hb. now apply read_with_mirror. Qed.

Lemma cread_invH cs m : InvH cs m -> forall k, cread k cs = m k.
Proof.
  intros [HG HM] k. unfold cread, everyone. destruct (bk cs) as [b|] eqn:Hb.
  - apply read_good_with_mirror; [exact HG|now apply HM].
  - rewrite app_nil_r. now apply read_good.
Qed.

(* members lost at any step of the hand-over: as long as the backup owner survives, or every holder of
   primary-kind data does, a read from anywhere returns the last acknowledged entry and a deleted key stays
   not-found *)
Theorem crash_tolerant : forall l,
  cts_fresh (fun _ => None) l ->
  forallb (fun o => negb (is_backup_crash o)) l = true \/ forallb (fun o => negb (is_holder_crash o)) l = true ->
  forall k, cread k (fst (crun cinit (fun _ => None) l)) = snd (crun cinit (fun _ => None) l) k.
Proof.
  intros l Hf [Hn|Hn] k.
  - apply cread_invB. apply InvB_run; [apply cinit_invB|exact Hf|exact Hn].
  - apply cread_invH. apply InvH_run; [apply cinit_invH|exact Hf|exact Hn].
Qed.

(* both lost: the entry is gone (the bound R-1 is tight) *)
Lemma both_lost_loses :
  let l := [COp (BPut 1%N 7%N 1); CCrashBackup; CCrashHolder 0] in
  cread 1%N (fst (crun cinit (fun _ => None) l)) = None /\ snd (crun cinit (fun _ => None) l) 1%N = Some (7%N, 1).
Proof. split; reflexivity. Qed.
