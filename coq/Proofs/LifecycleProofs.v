(* With the closed-flag check no acknowledged write is ever lost to the janitor, for every schedule; without it one is. *)
From Coq Require Import List Arith NArith Bool Lia.
Require Import Olric.Model.Lifecycle.
Import ListNotations.

(* every fragment that is not closed is the registered one; a closed fragment is empty; the registered fragment exists,
   is open and holds every acknowledged write; writers only hold fragments that exist *)
Definition LInv (s : lstate) : Prop :=
  (forall i f, nth_error (frags s) i = Some f -> closed f = false -> cur s = Some i) /\
  (forall i f, nth_error (frags s) i = Some f -> closed f = true -> content f = []) /\
  (forall i, cur s = Some i -> exists f, nth_error (frags s) i = Some f /\ closed f = false) /\
  (forall kv, In kv (acked s) -> In kv (visible s)).

Lemma nth_error_upd_same g : forall i (l : list frag) f, nth_error l i = Some f -> nth_error (upd i g l) i = Some (g f).
Proof.
  induction i as [|i IH]; intros [|x l] f H; try discriminate; cbn in *; [now inversion H|now apply IH].
Qed.

Lemma nth_error_upd_other g : forall i (l : list frag) j, j <> i -> nth_error (upd i g l) j = nth_error l j.
Proof.
  induction i as [|i IH]; intros [|x l] j Hj; try reflexivity.
  - destruct j; [congruence|reflexivity].
  - destruct j; [reflexivity|]. cbn. apply IH. congruence.
Qed.

Lemma nth_error_upd g i (l : list frag) j f :
  nth_error (upd i g l) j = Some f ->
  (j = i /\ exists f0, nth_error l i = Some f0 /\ f = g f0) \/ (j <> i /\ nth_error l j = Some f).
Proof.
  intros H. destruct (Nat.eq_dec j i) as [->|Hne].
  - left. split; [reflexivity|]. destruct (nth_error l i) as [f0|] eqn:E.
    + rewrite (nth_error_upd_same g i l f0 E) in H. inversion H. now exists f0.
    + exfalso. assert (Hl : nth_error (upd i g l) i = None).
      { clear H. revert l E. induction i as [|i IH]; intros [|x l] E; try reflexivity; try discriminate. cbn in *. now apply IH. }
      congruence.
  - right. split; [exact Hne|]. now rewrite nth_error_upd_other in H.
Qed.

Lemma linit_inv : LInv linit.
Proof.
  split; [|split; [|split]]; cbn; intros.
  - destruct i; discriminate.
  - destruct i; discriminate.
  - discriminate.
  - contradiction.
Qed.

Ltac linv := split; [|split; [|split]].

Lemma step_inv s o : LInv s -> LInv (step true s o).
Proof.
  intros (H1 & H2 & H3 & H4). destruct o as [w|w k v|]; cbn [step].
  - (* LLoad *)
    destruct (lookup w (held s)); [exact (conj H1 (conj H2 (conj H3 H4)))|].
    case_eq (cur s); [intros i Ec|intros Ec].
    + linv; cbn.
      * rewrite <- Ec. exact H1.
      * exact H2.
      * rewrite <- Ec. exact H3.
      * intros kv Hkv. specialize (H4 kv Hkv). unfold visible in *. cbn. rewrite Ec in H4. exact H4.
    + (* a new fragment: every older one is closed *)
      assert (Hall : forall i f, nth_error (frags s) i = Some f -> closed f = true).
      { intros i f Hf. destruct (closed f) eqn:E; [reflexivity|]. specialize (H1 i f Hf E). congruence. }
      linv; cbn.
      * intros i f Hf Hc. destruct (Nat.lt_ge_cases i (length (frags s))) as [Hi|Hi].
        -- rewrite nth_error_app1 in Hf by exact Hi. rewrite (Hall i f Hf) in Hc. discriminate.
        -- rewrite nth_error_app2 in Hf by exact Hi. destruct (i - length (frags s)) eqn:Ed; cbn in Hf.
           ++ f_equal. lia.
           ++ destruct n; discriminate.
      * intros i f Hf Hc. destruct (Nat.lt_ge_cases i (length (frags s))) as [Hi|Hi].
        -- rewrite nth_error_app1 in Hf by exact Hi. now apply (H2 i).
        -- rewrite nth_error_app2 in Hf by exact Hi. destruct (i - length (frags s)); cbn in Hf; [|destruct n; discriminate].
           inversion Hf. subst f. reflexivity.
      * intros i Hi. inversion Hi. subst i. eexists. split; [rewrite nth_error_app2, Nat.sub_diag by lia; reflexivity|reflexivity].
      * intros kv Hkv. specialize (H4 kv Hkv). unfold visible in H4. rewrite Ec in H4. contradiction.
  - (* LWrite *)
    destruct (lookup w (held s)) as [i|] eqn:El; [|exact (conj H1 (conj H2 (conj H3 H4)))].
    cbn [andb]. destruct (is_closed s i) eqn:Ecl.
    + linv; cbn; [exact H1|exact H2|exact H3|exact H4].
    + (* the fragment is open: it is the registered one *)
      unfold is_closed in Ecl. destruct (nth_error (frags s) i) as [f|] eqn:Ef; [|discriminate].
      pose proof (H1 i f Ef Ecl) as Hcur.
      set (g := fun f0 : frag => {| closed := closed f0; content := (k, v) :: content f0 |}).
      linv; cbn.
      * intros j f' Hf' Hc. apply nth_error_upd in Hf' as [[-> (f0 & Hf0 & ->)]|[Hne Hf']].
        -- exact Hcur.
        -- now apply (H1 j f').
      * intros j f' Hf' Hc. apply nth_error_upd in Hf' as [[-> (f0 & Hf0 & ->)]|[Hne Hf']].
        -- cbn in Hc. rewrite Ef in Hf0. inversion Hf0. subst f0. congruence.
        -- now apply (H2 j f').
      * intros j Hj. rewrite Hcur in Hj. inversion Hj. subst j. exists (g f). split; [now apply nth_error_upd_same|exact Ecl].
      * intros kv Hkv. unfold visible, content_of. cbn. rewrite Hcur. rewrite (nth_error_upd_same g i (frags s) f Ef). cbn.
        destruct Hkv as [<-|Hkv]; [now left|right].
        specialize (H4 kv Hkv). unfold visible, content_of in H4. rewrite Hcur, Ef in H4. exact H4.
  - (* LJanitor *)
    case_eq (cur s); [intros i Ec|intros Ec; exact (conj H1 (conj H2 (conj H3 H4)))].
    destruct (content_of s i) as [|x xs] eqn:Eco; [|exact (conj H1 (conj H2 (conj H3 H4)))].
    destruct (H3 i Ec) as (f & Ef & Hop).
    assert (Hcf : content f = []). { unfold content_of in Eco. rewrite Ef in Eco. exact Eco. }
    set (g := fun f0 : frag => {| closed := true; content := content f0 |}).
    linv; cbn.
    + intros j f' Hf' Hc. apply nth_error_upd in Hf' as [[-> (f0 & Hf0 & ->)]|[Hne Hf']].
      * cbn in Hc. discriminate.
      * specialize (H1 j f' Hf' Hc). rewrite Ec in H1. inversion H1. congruence.
    + intros j f' Hf' Hc. apply nth_error_upd in Hf' as [[-> (f0 & Hf0 & ->)]|[Hne Hf']].
      * cbn. rewrite Ef in Hf0. inversion Hf0. subst f0. exact Hcf.
      * now apply (H2 j f').
    + discriminate.
    + intros kv Hkv. specialize (H4 kv Hkv). unfold visible in H4. rewrite Ec, Eco in H4. contradiction.
Qed.

Lemma run_inv_from : forall l s, LInv s -> LInv (fold_left (step true) l s).
Proof. induction l as [|o l IH]; intros s H; [exact H|]. cbn. apply IH. now apply step_inv. Qed.

Theorem no_acknowledged_write_is_lost : forall l kv, In kv (acked (run true l)) -> In kv (visible (run true l)).
Proof. intros l. destruct (run_inv_from l linit linit_inv) as (_ & _ & _ & H). exact H. Qed.

(* without the check: the writer looked the fragment up, the janitor removed it, the write went into the detached one *)
Theorem unchecked_write_is_lost :
  let l := [LLoad 1; LJanitor; LWrite 1 7%N 70%N] in
  acked (run false l) = [(7%N, 70%N)] /\ visible (run false l) = [].
Proof. cbn. split; reflexivity. Qed.

(* and with the check the same schedule makes the writer start again *)
Example checked_same_schedule :
  let l := [LLoad 1; LJanitor; LWrite 1 7%N 70%N; LLoad 1; LWrite 1 7%N 70%N] in
  acked (run true l) = [(7%N, 70%N)] /\ visible (run true l) = [(7%N, 70%N)].
Proof. cbn. split; reflexivity. Qed.
