(* The compaction worker terminates on every fragment, also when the fragment is closed between two calls. *)
From Coq Require Import List NArith ZArith Lia Bool.
From Coq Require Import ZifyN ZifyNat ZifyBool.
Require Import Olric.Gen.Consts Olric.Model.Codec Olric.Model.Store Olric.Model.CompactWorker Olric.Proofs.StoreProofs
  Olric.Proofs.ScanProofs Olric.Proofs.CompactionProofs Olric.Proofs.CompactionGeneral.
Import ListNotations.
Local Open Scope N_scope.

Lemma worker_terminates_phi ordf expired : ord_covers ordf -> forall n s closeat,
  swf3 s -> 0 < ssize s -> (phi s < n)%nat ->
  snd (worker_now ordf expired closeat n s) = true /\
  swf3 (fst (worker_now ordf expired closeat n s)) /\
  (forall h, abs (fst (worker_now ordf expired closeat n s)) h = abs s h).
Proof.
  intros Hcov. unfold worker_now. induction n as [|n IH]; intros s closeat H3 Hs Hn; [lia|]. cbn [worker].
  assert (Hopen : forall ca s' d, s_compaction (ordf s) expired s = (s', d) ->
    snd (if d then (s', true) else worker true ordf expired ca n s') = true /\
    swf3 (fst (if d then (s', true) else worker true ordf expired ca n s')) /\
    (forall h, abs (fst (if d then (s', true) else worker true ordf expired ca n s')) h = abs s h)).
  { intros ca s' d Ec.
    pose proof (compaction_spec (ordf s) expired s (proj1 H3)) as (_ & Habs & Hsz).
    pose proof (compaction_swf3 (ordf s) expired s H3) as H3'. rewrite Ec in *. cbn [fst] in *.
    destruct d.
    - cbn [fst snd]. split; [reflexivity|]. split; [exact H3'|exact Habs].
    - destruct (find compactable (rev (tl (stabs s)))) as [t|] eqn:Ef.
      + pose proof (compaction_decreases (ordf s) expired s t H3 Hs Ef (Hcov _ _ Ef)) as Hlt. rewrite Ec in Hlt. cbn [fst] in Hlt.
        destruct (IH s' ca H3' ltac:(lia) ltac:(lia)) as (A & B & C).
        split; [exact A|]. split; [exact B|]. intros h. now rewrite C.
      + exfalso. revert Ec. unfold s_compaction. rewrite Ef. intros [= _ E]. }
  destruct closeat as [[|c]|].
  - cbn [fst snd]. split; [reflexivity|]. split; [exact H3|reflexivity].
  - destruct (s_compaction (ordf s) expired s) as [s' d] eqn:Ec. now apply Hopen.
  - destruct (s_compaction (ordf s) expired s) as [s' d] eqn:Ec. now apply Hopen.
Qed.

Theorem worker_terminates ordf expired closeat n s :
  ord_covers ordf -> swf3 s -> 0 < ssize s ->
  (2 * length (s_all s) + length (stabs s) + 3 <= n)%nat ->
  snd (worker_now ordf expired closeat n s) = true /\
  swf3 (fst (worker_now ordf expired closeat n s)) /\
  (forall h, abs (fst (worker_now ordf expired closeat n s)) h = abs s h).
Proof. intros Hcov H3 Hs Hn. apply worker_terminates_phi; auto. pose proof (phi_bound s). lia. Qed.

(* a fragment that stays open: the worker is the repeated call of CompactionProofs *)
Lemma worker_open_is_compact_n b ordf expired : forall n s, worker b ordf expired None n s = compact_n ordf expired n s.
Proof.
  induction n as [|n IH]; intros s; [reflexivity|]. cbn [worker compact_n option_map].
  destruct (s_compaction (ordf s) expired s) as [s' d]. destruct d; [reflexivity|apply IH].
Qed.

(* D45: with "not done" for a closed fragment no number of calls ends the loop *)
Theorem worker_before_spins ordf expired : forall n s, snd (worker_before ordf expired (Some 0%nat) n s) = false.
Proof. unfold worker_before. induction n as [|n IH]; intros s; [reflexivity|]. cbn [worker]. apply IH. Qed.
