(* Proofs about the Pub/Sub model: the invariant tying the btree to the per-connection entry sets, the
   refinement of the model cluster to the specification cluster for every operation sequence, and the
   consequences stated by C14. *)
From Coq Require Import List PeanoNat NArith Bool Permutation Lia ZifyN ZifyNat ZifyBool.
Require Import Olric.Model.PubSub Olric.Model.PubSubSpec Olric.Model.PubSubRun.
Import ListNotations.
Local Open Scope N_scope.

(* ------------------------------------------------------------------------------------------ *)
(* decidable equalities *)

Lemma name_eqb_eq : forall a b, name_eqb a b = true <-> a = b.
Proof.
  induction a as [|x a IH]; destruct b as [|y b]; cbn; split; intro H; try congruence; try discriminate.
  - apply andb_true_iff in H. destruct H as [H1 H2]. apply N.eqb_eq in H1. apply IH in H2. congruence.
  - inversion H; subst. apply andb_true_iff. split. apply N.eqb_refl. apply IH. reflexivity.
Qed.
Lemma name_eqb_refl : forall a, name_eqb a a = true.
Proof. intro a. apply name_eqb_eq. reflexivity. Qed.
Lemma name_eqb_neq : forall a b, name_eqb a b = false <-> a <> b.
Proof.
  intros a b. split; intro H.
  - intro E. apply name_eqb_eq in E. congruence.
  - destruct (name_eqb a b) eqn:E; auto. apply name_eqb_eq in E. contradiction.
Qed.

Lemma entry_eqb_eq : forall a b, entry_eqb a b = true <-> a = b.
Proof.
  intros [p1 n1 c1] [p2 n2 c2]. unfold entry_eqb. cbn. split; intro H.
  - apply andb_true_iff in H. destruct H as [H H3]. apply andb_true_iff in H. destruct H as [H1 H2].
    apply eqb_prop in H1. apply name_eqb_eq in H2. apply N.eqb_eq in H3. congruence.
  - inversion H; subst. rewrite eqb_reflx, name_eqb_refl, N.eqb_refl. reflexivity.
Qed.
Lemma entry_eqb_refl : forall a, entry_eqb a a = true.
Proof. intro a. apply entry_eqb_eq. reflexivity. Qed.
Lemma entry_eqb_neq : forall a b, entry_eqb a b = false <-> a <> b.
Proof.
  intros a b. split; intro H.
  - intro E. apply entry_eqb_eq in E. congruence.
  - destruct (entry_eqb a b) eqn:E; auto. apply entry_eqb_eq in E. contradiction.
Qed.

Lemma sub_eqb_eq : forall a b, sub_eqb a b = true <-> a = b.
Proof.
  intros [p1 n1] [p2 n2]. unfold sub_eqb. cbn. split; intro H.
  - apply andb_true_iff in H. destruct H as [H1 H2]. apply eqb_prop in H1. apply name_eqb_eq in H2. congruence.
  - inversion H; subst. rewrite eqb_reflx, name_eqb_refl. reflexivity.
Qed.

Lemma existsb_entry : forall e l, existsb (entry_eqb e) l = true <-> In e l.
Proof.
  intros e l. rewrite existsb_exists. split.
  - intros [x [H1 H2]]. apply entry_eqb_eq in H2. subst. exact H1.
  - intro H. exists e. split. exact H. apply entry_eqb_refl.
Qed.
Lemma existsb_sub : forall s l, existsb (sub_eqb s) l = true <-> In s l.
Proof.
  intros s l. rewrite existsb_exists. split.
  - intros [x [H1 H2]]. apply sub_eqb_eq in H2. subst. exact H1.
  - intro H. exists s. split. exact H. apply sub_eqb_eq. reflexivity.
Qed.
Lemma existsb_name : forall s l, existsb (name_eqb s) l = true <-> In s l.
Proof.
  intros s l. rewrite existsb_exists. split.
  - intros [x [H1 H2]]. apply name_eqb_eq in H2. subst. exact H1.
  - intro H. exists s. split. exact H. apply name_eqb_refl.
Qed.

(* ------------------------------------------------------------------------------------------ *)
(* generic list facts *)

Lemma nodup_app : forall {A} (l1 l2 : list A),
  NoDup l1 -> NoDup l2 -> (forall x, In x l1 -> In x l2 -> False) -> NoDup (l1 ++ l2).
Proof.
  induction l1 as [|a l1 IH]; cbn; intros l2 H1 H2 Hd. exact H2.
  inversion H1; subst. constructor.
  - intro Hin. apply in_app_or in Hin. destruct Hin as [Hin|Hin]. contradiction. apply (Hd a); auto.
  - apply IH; auto. intros x Hx1 Hx2. apply (Hd x); auto.
Qed.

Lemma nodup_filter : forall {A} (f : A -> bool) l, NoDup l -> NoDup (filter f l).
Proof.
  induction l as [|a l IH]; cbn; intro H. constructor.
  inversion H; subst. destruct (f a). constructor. rewrite filter_In. tauto. auto. auto.
Qed.

Lemma perm_filter : forall {A} (f : A -> bool) l l', Permutation l l' -> Permutation (filter f l) (filter f l').
Proof.
  induction 1; cbn.
  - constructor.
  - destruct (f x); auto.
  - destruct (f x), (f y); auto. apply perm_swap.
  - eapply Permutation_trans; eauto.
Qed.

Lemma filter_id : forall {A} (f : A -> bool) l, (forall x, In x l -> f x = true) -> filter f l = l.
Proof.
  induction l as [|a l IH]; cbn; intro H. reflexivity.
  rewrite (H a) by auto. f_equal. apply IH. intros x Hx. apply H. auto.
Qed.

Lemma filter_filter_comm : forall {A} (f g : A -> bool) l, filter f (filter g l) = filter g (filter f l).
Proof.
  induction l as [|a l IH]; cbn. reflexivity.
  destruct (f a) eqn:Ef, (g a) eqn:Eg; cbn; rewrite ?Ef, ?Eg, IH; reflexivity.
Qed.

Lemma filter_map_comm : forall {A B} (g : A -> B) (f : B -> bool) l,
  filter f (map g l) = map g (filter (fun x => f (g x)) l).
Proof.
  induction l as [|a l IH]; cbn. reflexivity. destruct (f (g a)); cbn; rewrite IH; reflexivity.
Qed.

(* uniq *)
Lemma uniq_in : forall l seen x, In x (uniq seen l) <-> In x l /\ ~ In x seen.
Proof.
  induction l as [|a l IH]; cbn; intros seen x. tauto.
  destruct (existsb (name_eqb a) seen) eqn:E.
  - apply existsb_name in E. rewrite IH. split.
    + intros [H1 H2]. auto.
    + intros [[H1|H1] H2]. subst. contradiction. auto.
  - assert (Hn : ~ In a seen). { intro H. apply existsb_name in H. congruence. }
    cbn. rewrite IH. cbn. split.
    + intros [H|[H1 H2]]. subst. auto. split; auto.
    + intros [[H1|H1] H2]. auto. destruct (list_eq_dec N.eq_dec a x). auto. right. split; auto.
      intros [H|H]; auto.
Qed.
Lemma uniq_nodup : forall l seen, NoDup (uniq seen l).
Proof.
  induction l as [|a l IH]; cbn; intro seen. constructor.
  destruct (existsb (name_eqb a) seen). apply IH.
  constructor. rewrite uniq_in. cbn. tauto. apply IH.
Qed.
Lemma uniq_perm : forall l l', (forall x, In x l <-> In x l') -> Permutation (uniq [] l) (uniq [] l').
Proof.
  intros l l' H. apply NoDup_Permutation; try apply uniq_nodup.
  intro x. rewrite !uniq_in. rewrite H. tauto.
Qed.

(* ------------------------------------------------------------------------------------------ *)
(* the conns map *)

Lemma conn_get_set_same : forall c es l, conn_get c (conn_set c es l) = Some es.
Proof.
  induction l as [|[c' es'] l IH]; cbn. rewrite N.eqb_refl. reflexivity.
  destruct (c' =? c) eqn:E; cbn; rewrite ?N.eqb_refl, ?E; auto.
Qed.
Lemma conn_get_set_other : forall c c' es l, c' <> c -> conn_get c' (conn_set c es l) = conn_get c' l.
Proof.
  induction l as [|[c0 es0] l IH]; cbn; intro H.
  - destruct (c =? c') eqn:E; auto. apply N.eqb_eq in E. congruence.
  - destruct (c0 =? c) eqn:E; cbn.
    + apply N.eqb_eq in E. subst. destruct (c =? c') eqn:E2; auto. apply N.eqb_eq in E2. congruence.
    + destruct (c0 =? c'); auto.
Qed.
Lemma conn_get_none : forall c l, conn_get c l = None <-> ~ In c (map fst l).
Proof.
  induction l as [|[c0 es0] l IH]; cbn. tauto.
  destruct (c0 =? c) eqn:E.
  - apply N.eqb_eq in E. split. discriminate. intro H. exfalso. apply H. auto.
  - apply N.eqb_neq in E. rewrite IH. tauto.
Qed.
Lemma conn_get_in : forall c es l, conn_get c l = Some es -> In (c, es) l.
Proof.
  induction l as [|[c0 es0] l IH]; cbn. discriminate.
  destruct (c0 =? c) eqn:E; intro H.
  - apply N.eqb_eq in E. inversion H; subst. auto.
  - auto.
Qed.
Lemma in_conn_get : forall c es l, NoDup (map fst l) -> In (c, es) l -> conn_get c l = Some es.
Proof.
  induction l as [|[c0 es0] l IH]; cbn; intros Hnd Hin. contradiction.
  inversion Hnd; subst. destruct Hin as [Hin|Hin].
  - inversion Hin; subst. rewrite N.eqb_refl. reflexivity.
  - destruct (c0 =? c) eqn:E.
    + apply N.eqb_eq in E. subst. exfalso. apply H1. change c with (fst (c, es)). apply in_map. exact Hin.
    + auto.
Qed.
Lemma map_fst_conn_set_some : forall c es l, conn_get c l <> None -> map fst (conn_set c es l) = map fst l.
Proof.
  induction l as [|[c0 es0] l IH]; cbn; intro H. congruence.
  destruct (c0 =? c) eqn:E; cbn.
  - apply N.eqb_eq in E. congruence.
  - f_equal. auto.
Qed.
Lemma map_fst_conn_set_none : forall c es l, conn_get c l = None -> map fst (conn_set c es l) = map fst l ++ [c].
Proof.
  induction l as [|[c0 es0] l IH]; cbn; intro H. reflexivity.
  destruct (c0 =? c) eqn:E; cbn. discriminate. f_equal. auto.
Qed.
Lemma conn_get_del : forall c c' l, conn_get c' (conn_del c l) = if c' =? c then None else conn_get c' l.
Proof.
  unfold conn_del. induction l as [|[c0 es0] l IH]; cbn. destruct (c' =? c); reflexivity.
  destruct (c0 =? c) eqn:E; cbn.
  - rewrite IH. apply N.eqb_eq in E. subst. destruct (c' =? c) eqn:E2; auto.
    destruct (c =? c') eqn:E3; auto. apply N.eqb_eq in E3. subst. rewrite N.eqb_refl in E2. discriminate.
  - rewrite IH. destruct (c0 =? c') eqn:E2; auto.
    apply N.eqb_eq in E2. subst. rewrite E. reflexivity.
Qed.
Lemma map_fst_conn_del : forall c l, map fst (conn_del c l) = filter (fun x => negb (x =? c)) (map fst l).
Proof.
  unfold conn_del. induction l as [|[c0 es0] l IH]; cbn. reflexivity.
  destruct (c0 =? c); cbn; rewrite IH; reflexivity.
Qed.

(* ------------------------------------------------------------------------------------------ *)
(* the invariant: the entry set of every registered connection is the btree restricted to it *)

Definition proj (c : N) (t : list entry) : list sub := map sub_of (filter (fun e => e_conn e =? c) t).

Record Inv (ps : pubsub) : Prop := {
  inv_nodup : NoDup (chans ps);
  inv_keys : NoDup (map fst (conns ps));
  inv_ent : forall c es, conn_get c (conns ps) = Some es -> es = proj c (chans ps);
  inv_reg : forall e, In e (chans ps) -> conn_get (e_conn e) (conns ps) <> None
}.

Lemma inv_empty : Inv empty_ps.
Proof. constructor; cbn; try constructor; try discriminate; try contradiction. Qed.

Lemma proj_app : forall c t1 t2, proj c (t1 ++ t2) = proj c t1 ++ proj c t2.
Proof. intros. unfold proj. rewrite filter_app, map_app. reflexivity. Qed.

Lemma in_proj : forall c t s, In s (proj c t) <-> In (entry_of c s) t.
Proof.
  intros c t [p n]. unfold proj. rewrite in_map_iff. split.
  - intros [[p' n' c'] [H1 H2]]. apply filter_In in H2. destruct H2 as [H2 H3]. cbn in *.
    apply N.eqb_eq in H3. unfold sub_of in H1. cbn in H1. inversion H1; subst. exact H2.
  - intro H. exists (mkE p n c). split. reflexivity. apply filter_In. split. exact H. cbn. apply N.eqb_refl.
Qed.

Lemma proj_nodup : forall c t, NoDup t -> NoDup (proj c t).
Proof.
  induction t as [|e t IH]; intro H. constructor.
  inversion H; subst. unfold proj. cbn. destruct (e_conn e =? c) eqn:E.
  - cbn. constructor.
    + intro Hin. fold (proj c t) in Hin. apply in_proj in Hin. apply N.eqb_eq in E.
      destruct e as [p n c']. cbn in *. subst. contradiction.
    + apply IH. auto.
  - apply IH. auto.
Qed.

Lemma count_kind_proj : forall c pat t, count_kind pat (proj c t) = nheld c pat t.
Proof.
  intros. unfold count_kind, nheld, held, proj. f_equal.
  rewrite filter_map_comm, map_length. unfold sub_of. cbn [fst]. induction t as [|e t IH]; cbn. reflexivity.
  destruct (e_conn e =? c); cbn; destruct (Bool.eqb (e_pat e) pat); cbn; rewrite ?IH; reflexivity.
Qed.

Lemma remove_first_filter : forall s l, NoDup l -> remove_first s l = filter (fun x => negb (sub_eqb s x)) l.
Proof.
  induction l as [|a l IH]; cbn; intro H. reflexivity.
  inversion H; subst. destruct (sub_eqb s a) eqn:E; cbn.
  - apply sub_eqb_eq in E. subst. symmetry. apply filter_id. intros x Hx.
    destruct (sub_eqb a x) eqn:E2; auto. apply sub_eqb_eq in E2. subst. contradiction.
  - f_equal. auto.
Qed.

Lemma proj_delete_same : forall c pat ch t,
  proj c (bt_delete (mkE pat ch c) t) = filter (fun x => negb (sub_eqb (pat, ch) x)) (proj c t).
Proof.
  intros. unfold proj, bt_delete. rewrite filter_map_comm. f_equal. rewrite filter_filter_comm.
  apply filter_ext_in. intros e He. apply filter_In in He. destruct He as [_ He]. apply N.eqb_eq in He.
  destruct e as [p n c']. cbn in *. subst. unfold entry_eqb, sub_eqb. cbn. rewrite N.eqb_refl, andb_true_r. reflexivity.
Qed.
Lemma proj_delete_other : forall c c' pat ch t, c' <> c -> proj c' (bt_delete (mkE pat ch c) t) = proj c' t.
Proof.
  intros. unfold proj, bt_delete. f_equal. rewrite filter_filter_comm. apply filter_id.
  intros e He. apply filter_In in He. destruct He as [_ He]. apply N.eqb_eq in He.
  unfold entry_eqb. cbn. destruct (c =? e_conn e) eqn:E. apply N.eqb_eq in E. congruence.
  rewrite andb_false_r. reflexivity.
Qed.

(* ------------------------------------------------------------------------------------------ *)
(* abstraction to the specification and the per-operation simulation *)

Definition abs (ps : pubsub) : spec := mkSpec (chans ps) (map fst (conns ps)).

Lemma mem_c_conn_get : forall c l, mem_c c (map fst l) = match conn_get c l with Some _ => true | None => false end.
Proof.
  induction l as [|[c0 es0] l IH]; cbn. reflexivity.
  rewrite (N.eqb_sym c c0). destruct (c0 =? c); cbn; auto.
Qed.
Lemma mem_c_attached : forall c ps, mem_c c (s_att (abs ps)) = attached c ps.
Proof. intros. unfold attached. cbn. apply mem_c_conn_get. Qed.

Lemma map_fst_conn_set : forall c es l, map fst (conn_set c es l) = add_c c (map fst l).
Proof.
  intros. unfold add_c. rewrite mem_c_conn_get. destruct (conn_get c l) eqn:E.
  - apply map_fst_conn_set_some. congruence.
  - apply map_fst_conn_set_none. exact E.
Qed.
Lemma nodup_add_c : forall c l, NoDup l -> NoDup (add_c c l).
Proof.
  intros c l H. unfold add_c. destruct (mem_c c l) eqn:E. exact H.
  apply nodup_app. exact H. repeat constructor. intro; contradiction.
  intros x Hx [Hc|[]]. subst. unfold mem_c in E.
  assert (existsb (N.eqb x) l = true). { apply existsb_exists. exists x. split. exact Hx. apply N.eqb_refl. }
  congruence.
Qed.

Lemma es_proj : forall c ps, Inv ps ->
  match conn_get c (conns ps) with Some es => es | None => [] end = proj c (chans ps).
Proof.
  intros c ps I. destruct (conn_get c (conns ps)) eqn:E.
  - apply (inv_ent _ I). exact E.
  - symmetry. unfold proj. replace (filter (fun e => e_conn e =? c) (chans ps)) with (@nil entry). reflexivity.
    symmetry. destruct (filter (fun e => e_conn e =? c) (chans ps)) as [|e r] eqn:F. reflexivity.
    assert (He : In e (filter (fun e => e_conn e =? c) (chans ps))). { rewrite F. left. reflexivity. }
    apply filter_In in He. destruct He as [He1 He2]. apply N.eqb_eq in He2. subst.
    exfalso. exact (inv_reg _ I e He1 E).
Qed.

Lemma inv_set : forall ps t' c es',
  Inv ps -> NoDup t' -> es' = proj c t' ->
  (forall c', c' <> c -> proj c' t' = proj c' (chans ps)) ->
  (forall e, In e t' -> e_conn e = c \/ In e (chans ps)) ->
  Inv (mkPS t' (conn_set c es' (conns ps))).
Proof.
  intros ps t' c es' I Hnd Hes Hoth Hreg. constructor; cbn [chans conns].
  - exact Hnd.
  - rewrite map_fst_conn_set. apply nodup_add_c. apply (inv_keys _ I).
  - intros c' es Hg. destruct (N.eq_dec c' c) as [->|Hne].
    + rewrite conn_get_set_same in Hg. inversion Hg; subst. reflexivity.
    + rewrite conn_get_set_other in Hg by exact Hne. rewrite Hoth by exact Hne. apply (inv_ent _ I). exact Hg.
  - intros e He. destruct (N.eq_dec (e_conn e) c) as [->|Hne].
    + rewrite conn_get_set_same. discriminate.
    + rewrite conn_get_set_other by exact Hne. destruct (Hreg e He) as [H|H]. contradiction. apply (inv_reg _ I). exact H.
Qed.

Lemma proj_single_same : forall c pat ch, proj c [mkE pat ch c] = [(pat, ch)].
Proof. intros. unfold proj. cbn. rewrite N.eqb_refl. reflexivity. Qed.
Lemma proj_single_other : forall c c' pat ch, c' <> c -> proj c' [mkE pat ch c] = [].
Proof. intros. unfold proj. cbn. destruct (c =? c') eqn:E. apply N.eqb_eq in E. congruence. reflexivity. Qed.

Lemma subscribe_sim : forall c pat ch ps, Inv ps ->
  Inv (fst (subscribe c pat ch ps)) /\
  sp_subscribe c pat ch (abs ps) = (abs (fst (subscribe c pat ch ps)), snd (subscribe c pat ch ps)).
Proof.
  intros c pat ch ps I. unfold subscribe, sp_subscribe. rewrite (es_proj c ps I).
  unfold add_e, mem_e, bt_get. cbn [abs s_subs s_att].
  destruct (existsb (entry_eqb (mkE pat ch c)) (chans ps)) eqn:E; cbn [fst snd].
  - split.
    + apply inv_set; auto. apply (inv_nodup _ I).
    + unfold abs. cbn [chans conns]. rewrite map_fst_conn_set, count_kind_proj. reflexivity.
  - assert (Hn : ~ In (mkE pat ch c) (chans ps)). { intro H. apply existsb_entry in H. congruence. }
    split.
    + apply inv_set; auto.
      * apply nodup_app. apply (inv_nodup _ I). repeat constructor. intro; contradiction.
        intros x Hx [Hc|[]]. subst. contradiction.
      * rewrite proj_app, proj_single_same. reflexivity.
      * intros c' Hne. rewrite proj_app, proj_single_other by exact Hne. apply app_nil_r.
      * intros e He. apply in_app_or in He. destruct He as [He|[He|[]]]. auto. subst. auto.
    + unfold abs. cbn [chans conns]. rewrite map_fst_conn_set.
      rewrite <- (proj_single_same c pat ch), <- proj_app, count_kind_proj. reflexivity.
Qed.

Lemma attached_subscribe : forall c pat ch ps, attached c (fst (subscribe c pat ch ps)) = true.
Proof.
  intros. unfold subscribe, attached. destruct (bt_get _ _); cbn; rewrite conn_get_set_same; reflexivity.
Qed.

Lemma unsubscribe_one_sim : forall c pat ch ps, Inv ps -> attached c ps = true ->
  Inv (fst (unsubscribe_one c pat ch ps)) /\
  attached c (fst (unsubscribe_one c pat ch ps)) = true /\
  sp_unsubscribe_one c pat ch (abs ps) = (abs (fst (unsubscribe_one c pat ch ps)), snd (unsubscribe_one c pat ch ps)).
Proof.
  intros c pat ch ps I Ha. unfold unsubscribe_one, sp_unsubscribe_one, attached in *.
  destruct (conn_get c (conns ps)) as [es|] eqn:G; [|discriminate].
  pose proof (inv_ent _ I c es G) as Hes.
  assert (Hmem : existsb (sub_eqb (pat, ch)) es = mem_e (mkE pat ch c) (s_subs (abs ps))).
  { cbn. unfold mem_e. destruct (existsb (entry_eqb (mkE pat ch c)) (chans ps)) eqn:E.
    - apply existsb_sub. subst es. apply in_proj. apply existsb_entry in E. exact E.
    - destruct (existsb (sub_eqb (pat, ch)) es) eqn:E2; auto. apply existsb_sub in E2. subst es.
      apply in_proj in E2. apply existsb_entry in E2. unfold entry_of in E2. cbn [fst snd] in E2. congruence. }
  rewrite <- Hmem. destruct (existsb (sub_eqb (pat, ch)) es) eqn:E; cbn [fst snd].
  - assert (Hes' : remove_first (pat, ch) es = proj c (bt_delete (mkE pat ch c) (chans ps))).
    { rewrite remove_first_filter. rewrite proj_delete_same. congruence. subst es. apply proj_nodup. apply (inv_nodup _ I). }
    split; [|split].
    + apply inv_set; auto.
      * apply nodup_filter. apply (inv_nodup _ I).
      * intros c' Hne. apply proj_delete_other. exact Hne.
      * intros e He. apply filter_In in He. tauto.
    + cbn. rewrite conn_get_set_same. reflexivity.
    + unfold abs. cbn [chans conns s_subs s_att]. rewrite map_fst_conn_set_some by congruence.
      unfold del_e. fold (bt_delete (mkE pat ch c) (chans ps)). rewrite Hes', count_kind_proj. reflexivity.
  - split; [exact I|split].
    + rewrite G. reflexivity.
    + cbn [abs s_subs]. rewrite Hes, count_kind_proj. reflexivity.
Qed.

Lemma unsub_list_sim : forall c pat names ps, Inv ps -> attached c ps = true ->
  Inv (fst (unsub_list c pat names ps)) /\
  attached c (fst (unsub_list c pat names ps)) = true /\
  sp_unsub_list c pat names (abs ps) = (abs (fst (unsub_list c pat names ps)), snd (unsub_list c pat names ps)).
Proof.
  induction names as [|n r IH]; intros ps I Ha; cbn [unsub_list sp_unsub_list].
  - auto.
  - destruct (unsubscribe_one_sim c pat n ps I Ha) as [I1 [A1 S1]].
    destruct (unsubscribe_one c pat n ps) as [ps1 x]. cbn [fst snd] in *. rewrite S1.
    destruct (IH ps1 I1 A1) as [I2 [A2 S2]].
    destruct (unsub_list c pat r ps1) as [ps2 xs]. cbn [fst snd] in *. rewrite S2. auto.
Qed.

Lemma sub_list_sim : forall c pat names ps, Inv ps ->
  Inv (fst (sub_list c pat names ps)) /\
  sp_sub_list c pat names (abs ps) = (abs (fst (sub_list c pat names ps)), snd (sub_list c pat names ps)).
Proof.
  induction names as [|n r IH]; intros ps I; cbn [sub_list sp_sub_list].
  - auto.
  - destruct (subscribe_sim c pat n ps I) as [I1 S1].
    destruct (subscribe c pat n ps) as [ps1 x]. cbn [fst snd] in *. rewrite S1.
    destruct (IH ps1 I1) as [I2 S2].
    destruct (sub_list c pat r ps1) as [ps2 xs]. cbn [fst snd] in *. rewrite S2. auto.
Qed.

Lemma names_proj : forall c pat t,
  map snd (filter (fun s => Bool.eqb (fst s) pat) (proj c t)) = map e_chan (held c pat t).
Proof.
  intros. unfold proj, held. induction t as [|e t IH]; cbn. reflexivity.
  destruct (e_conn e =? c); cbn; [destruct (Bool.eqb (e_pat e) pat); cbn; rewrite IH; reflexivity | exact IH].
Qed.

Lemma unsubscribe_all_sim : forall c pat ps, Inv ps -> attached c ps = true ->
  Inv (fst (unsubscribe_all c pat ps)) /\
  sp_unsubscribe_all c pat (abs ps) = (abs (fst (unsubscribe_all c pat ps)), snd (unsubscribe_all c pat ps)).
Proof.
  intros c pat ps I Ha. unfold unsubscribe_all, sp_unsubscribe_all. pose proof Ha as Ha'. unfold attached in Ha.
  destruct (conn_get c (conns ps)) as [es|] eqn:G; [|discriminate].
  pose proof (inv_ent _ I c es G) as Hes. cbn [abs s_subs]. rewrite <- names_proj, <- Hes.
  destruct (map snd (filter (fun s => Bool.eqb (fst s) pat) es)) as [|n r] eqn:En.
  - cbn [fst snd]. split. exact I. do 3 f_equal.
    unfold count_kind. apply (f_equal (@length _)) in En. rewrite map_length in En. rewrite En. reflexivity.
  - destruct (unsub_list_sim c pat (n :: r) ps I Ha') as [I1 [_ S1]]. split. exact I1. exact S1.
Qed.

(* ---- disconnect ---- *)
Lemma filter_filter_and : forall {A} (f g : A -> bool) l, filter f (filter g l) = filter (fun x => f x && g x) l.
Proof.
  induction l as [|a l IH]; cbn. reflexivity.
  destruct (g a); cbn; destruct (f a); cbn; rewrite ?IH; reflexivity.
Qed.

Lemma fold_delete : forall c es t,
  fold_right (fun s t => bt_delete (entry_of c s) t) t es =
  filter (fun x => negb (existsb (fun s => entry_eqb (entry_of c s) x) es)) t.
Proof.
  induction es as [|s es IH]; intro t; cbn.
  - symmetry. apply filter_id. reflexivity.
  - rewrite IH. unfold bt_delete. rewrite filter_filter_and. apply filter_ext. intro x.
    rewrite negb_orb. reflexivity.
Qed.

Lemma disconnect_chans : forall c ps, Inv ps ->
  chans (disconnect c ps) = filter (fun e => negb (e_conn e =? c)) (chans ps).
Proof.
  intros c ps I. unfold disconnect. destruct (conn_get c (conns ps)) as [es|] eqn:G; cbn [chans].
  - rewrite fold_delete. apply filter_ext_in. intros x Hx. f_equal.
    rewrite (inv_ent _ I c es G). destruct (e_conn x =? c) eqn:E.
    + apply existsb_exists. exists (sub_of x). split.
      * apply in_proj. apply N.eqb_eq in E. subst. destruct x; exact Hx.
      * apply N.eqb_eq in E. subst. destruct x. apply entry_eqb_refl.
    + destruct (existsb _ _) eqn:E2; auto. apply existsb_exists in E2. destruct E2 as [s [_ H2]].
      apply entry_eqb_eq in H2. subst x. cbn in E. rewrite N.eqb_refl in E. discriminate.
  - symmetry. apply filter_id. intros x Hx. destruct (e_conn x =? c) eqn:E; auto.
    apply N.eqb_eq in E. subst. exfalso. exact (inv_reg _ I x Hx G).
Qed.
Lemma disconnect_conns : forall c ps,
  map fst (conns (disconnect c ps)) = filter (fun x => negb (x =? c)) (map fst (conns ps)).
Proof.
  intros c ps. unfold disconnect. destruct (conn_get c (conns ps)) as [es|] eqn:G; cbn [conns].
  - apply map_fst_conn_del.
  - symmetry. apply filter_id. intros x Hx. destruct (x =? c) eqn:E; auto.
    apply N.eqb_eq in E. subst. apply conn_get_none in G. contradiction.
Qed.

Lemma proj_filter_other : forall c c' t, c' <> c ->
  proj c' (filter (fun e => negb (e_conn e =? c)) t) = proj c' t.
Proof.
  intros. unfold proj. f_equal. rewrite filter_filter_comm. apply filter_id.
  intros e He. apply filter_In in He. destruct He as [_ He]. apply N.eqb_eq in He. subst.
  destruct (e_conn e =? c) eqn:E; auto. apply N.eqb_eq in E. congruence.
Qed.

Lemma disconnect_sim : forall c ps, Inv ps ->
  Inv (disconnect c ps) /\ sp_disconnect c (abs ps) = abs (disconnect c ps).
Proof.
  intros c ps I. split.
  - pose proof (disconnect_chans c ps I) as Hc. unfold disconnect in *.
    destruct (conn_get c (conns ps)) as [es|] eqn:G; [|exact I]. cbn [chans] in Hc.
    constructor; cbn [chans conns]; rewrite ?Hc.
    + apply nodup_filter. apply (inv_nodup _ I).
    + rewrite map_fst_conn_del. apply nodup_filter. apply (inv_keys _ I).
    + intros c' es' Hg. rewrite conn_get_del in Hg. destruct (c' =? c) eqn:E; [discriminate|].
      apply N.eqb_neq in E. rewrite proj_filter_other by exact E. apply (inv_ent _ I). exact Hg.
    + intros e He. apply filter_In in He. destruct He as [He1 He2]. rewrite conn_get_del.
      destruct (e_conn e =? c); [discriminate|]. apply (inv_reg _ I). exact He1.
  - unfold sp_disconnect, abs. cbn [s_subs s_att]. rewrite disconnect_chans by exact I. rewrite disconnect_conns. reflexivity.
Qed.

(* ---- publish ---- *)
Section Glob.
Variable glob : name -> name -> bool.

Lemma pass1_filter : forall ch msg t,
  pass1 ch msg t = (N.of_nat (length (filter (fun e => negb (e_pat e) && name_eqb (e_chan e) ch) t)),
                    map (deliver ch msg) (filter (fun e => negb (e_pat e) && name_eqb (e_chan e) ch) t)).
Proof.
  induction t as [|e t IH]; cbn [pass1 filter]. reflexivity.
  rewrite IH. destruct (negb (e_pat e) && name_eqb (e_chan e) ch); cbn [length map]; f_equal. lia.
Qed.
Lemma pass2_filter : forall ch msg t,
  pass2 glob ch msg t = (N.of_nat (length (filter (fun e => e_pat e && glob (e_chan e) ch) t)),
                         map (deliver ch msg) (filter (fun e => e_pat e && glob (e_chan e) ch) t)).
Proof.
  induction t as [|e t IH]; cbn [pass2 filter]. reflexivity.
  rewrite IH. destruct (e_pat e); cbn [andb]; [destruct (glob (e_chan e) ch)|]; cbn [length map]; f_equal; lia.
Qed.

Lemma two_pass_perm : forall ch t,
  Permutation (filter (fun e => negb (e_pat e) && name_eqb (e_chan e) ch) t ++
               filter (fun e => e_pat e && glob (e_chan e) ch) t)
              (filter (matches glob ch) t).
Proof.
  induction t as [|e t IH]; cbn [filter]. constructor.
  unfold matches at 1. destruct (e_pat e); cbn [negb andb].
  - destruct (glob (e_chan e) ch); [|exact IH]. apply Permutation_sym. apply Permutation_cons_app. apply Permutation_sym. exact IH.
  - destruct (name_eqb (e_chan e) ch); [|exact IH]. cbn. constructor. exact IH.
Qed.

Lemma publish_sim : forall ch msg ps,
  fst (publish glob ch msg ps) = fst (sp_publish glob ch msg (abs ps)) /\
  Permutation (snd (publish glob ch msg ps)) (snd (sp_publish glob ch msg (abs ps))).
Proof.
  intros. unfold publish, sp_publish. rewrite pass1_filter, pass2_filter. cbn [fst snd abs s_subs].
  pose proof (two_pass_perm ch (chans ps)) as P. split.
  - apply Permutation_length in P. rewrite app_length in P. lia.
  - rewrite <- map_app. apply Permutation_map. exact P.
Qed.

Lemma publish_count : forall ch msg ps, fst (publish glob ch msg ps) = N.of_nat (length (snd (publish glob ch msg ps))).
Proof.
  intros. unfold publish. rewrite pass1_filter, pass2_filter. cbn [fst snd]. rewrite app_length, !map_length. lia.
Qed.

(* ---- introspection: the per-connection entry sets, taken together, are the btree ---- *)
Definition flat_e (l : list (N * list sub)) : list entry := flat_map (fun p => map (entry_of (fst p)) (snd p)) l.

Lemma all_subs_flat : forall ps, all_subs ps = map sub_of (flat_e (conns ps)).
Proof.
  intro ps. unfold all_subs, flat_e. induction (conns ps) as [|[c es] l IH]; cbn [flat_map fst snd]. reflexivity.
  rewrite map_app, <- IH. f_equal. rewrite map_map. symmetry. etransitivity; [|apply map_id].
  apply map_ext. intros [p n]. reflexivity.
Qed.

Lemma in_flat_e : forall l e, In e (flat_e l) <-> exists es, In (e_conn e, es) l /\ In (sub_of e) es.
Proof.
  intros l e. unfold flat_e. rewrite in_flat_map. split.
  - intros [[c es] [H1 H2]]. cbn [fst snd] in H2. apply in_map_iff in H2. destruct H2 as [s [H2 H3]].
    subst e. destruct s as [p n]. cbn. exists es. auto.
  - intros [es [H1 H2]]. exists (e_conn e, es). split. exact H1. cbn [fst snd]. apply in_map_iff.
    exists (sub_of e). split. destruct e; reflexivity. exact H2.
Qed.

Lemma flat_e_nodup : forall l, NoDup (map fst l) -> (forall c es, In (c, es) l -> NoDup es) -> NoDup (flat_e l).
Proof.
  induction l as [|[c es] l IH]; intros Hk He. constructor.
  cbn [map fst] in Hk. inversion Hk; subst. unfold flat_e. cbn [flat_map fst snd]. apply nodup_app.
  - apply FinFun.Injective_map_NoDup. intros [p1 n1] [p2 n2] H. inversion H. reflexivity. apply (He c). left. reflexivity.
  - apply IH. exact H2. intros c' es' Hin. apply (He c'). right. exact Hin.
  - intros x Hx1 Hx2. apply in_map_iff in Hx1. destruct Hx1 as [s [Hs _]]. subst x.
    fold (flat_e l) in Hx2. apply in_flat_e in Hx2. destruct Hx2 as [es' [Hin _]]. cbn in Hin.
    apply H1. change c with (fst (c, es')). apply in_map. exact Hin.
Qed.

Lemma flat_e_perm : forall ps, Inv ps -> Permutation (flat_e (conns ps)) (chans ps).
Proof.
  intros ps I. apply NoDup_Permutation.
  - apply flat_e_nodup. apply (inv_keys _ I). intros c es Hin.
    rewrite (inv_ent _ I c es). apply proj_nodup. apply (inv_nodup _ I). apply in_conn_get. apply (inv_keys _ I). exact Hin.
  - apply (inv_nodup _ I).
  - intro e. rewrite in_flat_e. split.
    + intros [es [H1 H2]]. apply in_conn_get in H1; [|apply (inv_keys _ I)].
      rewrite (inv_ent _ I _ _ H1) in H2. apply in_proj in H2. destruct e; exact H2.
    + intro He. destruct (conn_get (e_conn e) (conns ps)) as [es|] eqn:G.
      * exists es. split. apply conn_get_in. exact G. rewrite (inv_ent _ I _ _ G). apply in_proj. destruct e; exact He.
      * exfalso. exact (inv_reg _ I e He G).
Qed.

Lemma all_subs_filter_perm : forall (f : sub -> bool) ps, Inv ps ->
  Permutation (map snd (filter f (all_subs ps))) (map e_chan (filter (fun e => f (sub_of e)) (chans ps))).
Proof.
  intros f ps I. rewrite all_subs_flat, filter_map_comm, map_map.
  change (fun x => snd (sub_of x)) with e_chan. apply Permutation_map. apply perm_filter. apply flat_e_perm. exact I.
Qed.

Lemma channels_sim : forall p ps, Inv ps -> Permutation (channels glob p ps) (sp_channels glob p (abs ps)).
Proof.
  intros p ps I. unfold channels, sp_channels. apply uniq_perm. intro x.
  pose proof (all_subs_filter_perm (fun s => negb (fst s) && match p with None => true | Some p => glob p (snd s) end) ps I) as P.
  cbn [abs s_subs]. split; intro H.
  - eapply Permutation_in in H; [|exact P]. exact H.
  - eapply Permutation_in; [apply Permutation_sym; exact P|]. exact H.
Qed.

Lemma numpat_sim : forall ps, Inv ps -> numpat ps = sp_numpat (abs ps).
Proof.
  intros ps I. unfold numpat, sp_numpat. f_equal. apply Permutation_length. apply uniq_perm. intro x.
  pose proof (all_subs_filter_perm (fun s => fst s) ps I) as P. cbn [abs s_subs]. split; intro H.
  - eapply Permutation_in in H; [|exact P]. exact H.
  - eapply Permutation_in; [apply Permutation_sym; exact P|]. exact H.
Qed.

Lemma numsub_sim : forall ch ps, Inv ps -> numsub ch ps = sp_numsub ch (abs ps).
Proof.
  intros ch ps I. unfold numsub, sp_numsub. f_equal.
  pose proof (all_subs_filter_perm (fun s => negb (fst s) && name_eqb (snd s) ch) ps I) as P.
  apply Permutation_length in P. rewrite !map_length in P. exact P.
Qed.

End Glob.

(* ------------------------------------------------------------------------------------------ *)
(* clusters *)

Definition CInv (cl : cluster) : Prop := Forall Inv cl.
Definition cabs (cl : cluster) : scluster := map abs cl.

Lemma sget_cabs : forall m cl, sget_m m (cabs cl) = abs (get_m m cl).
Proof. intros. unfold sget_m, get_m, cabs. change empty_spec with (abs empty_ps). apply map_nth. Qed.
Lemma sset_cabs : forall m p cl, sset_m m (abs p) (cabs cl) = cabs (set_m m p cl).
Proof.
  intros m p cl. revert m. induction cl as [|x cl IH]; intro m; cbn. destruct m; reflexivity.
  destruct m; cbn. reflexivity. f_equal. apply IH.
Qed.
Lemma cinv_get : forall m cl, CInv cl -> Inv (get_m m cl).
Proof.
  intros m cl H. unfold get_m. destruct (nth_in_or_default m cl empty_ps) as [Hin|Hd].
  - unfold CInv in H. rewrite Forall_forall in H. apply H. exact Hin.
  - rewrite Hd. apply inv_empty.
Qed.
Lemma cinv_set : forall m p cl, CInv cl -> Inv p -> CInv (set_m m p cl).
Proof.
  intros m p cl H Hp. unfold CInv in *. revert m. induction H as [|x cl Hx Hcl IH]; intro m; cbn. destruct m; constructor.
  destruct m; constructor; auto.
Qed.
Lemma cinv_init : forall n, CInv (init n).
Proof. intro n. unfold CInv, init. apply Forall_forall. intros x Hx. apply repeat_spec in Hx. subst. apply inv_empty. Qed.
Lemma cabs_init : forall n, cabs (init n) = sinit n.
Proof. intro n. unfold cabs, init, sinit. induction n; cbn; [reflexivity|f_equal; exact IHn]. Qed.

(* observations agree up to the order of set-valued replies (Go map iteration order / btree order) *)
Definition obs_equiv (a b : obs) : Prop :=
  match a with
  | BPub n dl => match b with BPub n' dl' => n = n' /\ Permutation dl dl' | _ => False end
  | BNames l => match b with BNames l' => Permutation l l' | _ => False end
  | _ => a = b
  end.

Section Glob.
Variable glob : name -> name -> bool.

Lemma publish_from_sim : forall ch msg cl i,
  fst (publish_from glob i ch msg cl) = fst (sp_publish_from glob i ch msg (cabs cl)) /\
  Permutation (snd (publish_from glob i ch msg cl)) (snd (sp_publish_from glob i ch msg (cabs cl))).
Proof.
  induction cl as [|p cl IH]; intro i; cbn [publish_from sp_publish_from cabs map]. split; [reflexivity|constructor].
  destruct (publish_sim glob ch msg p) as [H1 H2]. destruct (IH (S i)) as [H3 H4].
  fold (cabs cl). destruct (publish glob ch msg p) as [n ds]. destruct (sp_publish glob ch msg (abs p)) as [n' ds'].
  destruct (publish_from glob (S i) ch msg cl) as [k es]. destruct (sp_publish_from glob (S i) ch msg (cabs cl)) as [k' es'].
  cbn [fst snd] in *. split. congruence. apply Permutation_app. apply Permutation_map. exact H2. exact H4.
Qed.

Lemma publish_from_count : forall ch msg cl i,
  fst (publish_from glob i ch msg cl) = N.of_nat (length (snd (publish_from glob i ch msg cl))).
Proof.
  induction cl as [|p cl IH]; intro i; cbn [publish_from]. reflexivity.
  pose proof (publish_count glob ch msg p) as H1. pose proof (IH (S i)) as H2.
  destruct (publish glob ch msg p) as [n ds]. destruct (publish_from glob (S i) ch msg cl) as [k es].
  cbn [fst snd] in *. rewrite app_length, map_length. subst n k. rewrite Nat2N.inj_add. reflexivity.
Qed.

Lemma step_sim : forall cl o, CInv cl ->
  CInv (fst (step glob cl o)) /\
  fst (sstep glob (cabs cl) o) = cabs (fst (step glob cl o)) /\
  obs_equiv (snd (step glob cl o)) (snd (sstep glob (cabs cl) o)).
Proof.
  intros cl o H. destruct o as [m c pat names|m c pat names|m c|via ch msg|m p|m chs|m]; cbn [step sstep].
  - destruct names as [|n r]. cbn. auto.
    rewrite sget_cabs. destruct (sub_list_sim c pat (n :: r) (get_m m cl) (cinv_get m cl H)) as [I S].
    rewrite S. destruct (sub_list c pat (n :: r) (get_m m cl)) as [p l]. cbn [fst snd] in *.
    split; [|split]. apply cinv_set; auto. apply sset_cabs. reflexivity.
  - rewrite sget_cabs, mem_c_attached. destruct (attached c (get_m m cl)) eqn:A; [|cbn; auto].
    destruct names as [|n r].
    + destruct (unsubscribe_all_sim c pat (get_m m cl) (cinv_get m cl H) A) as [I S].
      rewrite S. destruct (unsubscribe_all c pat (get_m m cl)) as [p l]. cbn [fst snd] in *.
      split; [|split]. apply cinv_set; auto. apply sset_cabs. reflexivity.
    + destruct (unsub_list_sim c pat (n :: r) (get_m m cl) (cinv_get m cl H) A) as [I [_ S]].
      rewrite S. destruct (unsub_list c pat (n :: r) (get_m m cl)) as [p l]. cbn [fst snd] in *.
      split; [|split]. apply cinv_set; auto. apply sset_cabs. reflexivity.
  - rewrite sget_cabs. destruct (disconnect_sim c (get_m m cl) (cinv_get m cl H)) as [I S]. rewrite S. cbn [fst snd].
    split; [|split]. apply cinv_set; auto. apply sset_cabs. reflexivity.
  - unfold cluster_publish. destruct (publish_from_sim ch msg cl 0%nat) as [H1 H2].
    destruct (publish_from glob 0 ch msg cl) as [n dl]. destruct (sp_publish_from glob 0 ch msg (cabs cl)) as [n' dl'].
    cbn [fst snd obs_equiv] in *. split; [exact H|split; [reflexivity|split; assumption]].
  - cbn [fst snd]. split; [exact H|split; [reflexivity|]]. rewrite sget_cabs. cbn. apply channels_sim. apply cinv_get. exact H.
  - cbn [fst snd]. split; [exact H|split; [reflexivity|]]. rewrite sget_cabs. cbn. f_equal. apply map_ext. intro ch.
    apply numsub_sim. apply cinv_get. exact H.
  - cbn [fst snd]. split; [exact H|split; [reflexivity|]]. rewrite sget_cabs. cbn. f_equal. apply numpat_sim. apply cinv_get. exact H.
Qed.

Lemma run_sim : forall ops cl, CInv cl ->
  CInv (fst (run glob cl ops)) /\
  fst (srun glob (cabs cl) ops) = cabs (fst (run glob cl ops)) /\
  Forall2 obs_equiv (snd (run glob cl ops)) (snd (srun glob (cabs cl) ops)).
Proof.
  induction ops as [|o r IH]; intros cl H; cbn [run srun]. cbn. auto.
  destruct (step_sim cl o H) as [I [S E]].
  destruct (step glob cl o) as [cl1 b]. destruct (sstep glob (cabs cl) o) as [scl1 sb]. cbn [fst snd] in *. subst scl1.
  destruct (IH cl1 I) as [I2 [S2 E2]].
  destruct (run glob cl1 r) as [cl2 bs]. destruct (srun glob (cabs cl1) r) as [scl2 sbs]. cbn [fst snd] in *.
  split; [exact I2|split; [exact S2|constructor; assumption]].
Qed.

(* the state reached from n empty members *)
Definition after (n : nat) (ops : list op) : cluster := fst (run glob (init n) ops).
Definition safter (n : nat) (ops : list op) : scluster := fst (srun glob (sinit n) ops).

Lemma after_sim : forall n ops, CInv (after n ops) /\ safter n ops = cabs (after n ops).
Proof.
  intros n ops. unfold after, safter. rewrite <- cabs_init.
  destruct (run_sim ops (init n) (cinv_init n)) as [I [S _]]. auto.
Qed.

Theorem refines_spec : forall n ops,
  Forall2 obs_equiv (snd (run glob (init n) ops)) (snd (srun glob (sinit n) ops)).
Proof.
  intros n ops. rewrite <- cabs_init. apply run_sim. apply cinv_init.
Qed.

End Glob.

(* ------------------------------------------------------------------------------------------ *)
(* consequences, in the words of C14 *)

Lemma nodup_map_inj_in : forall {A B} (f : A -> B) l,
  (forall x y, In x l -> In y l -> f x = f y -> x = y) -> NoDup l -> NoDup (map f l).
Proof.
  induction l as [|a l IH]; cbn; intros Hinj Hnd. constructor.
  inversion Hnd; subst. constructor.
  - intro Hin. apply in_map_iff in Hin. destruct Hin as [x [Hx1 Hx2]].
    assert (x = a) by (apply Hinj; auto). subst. contradiction.
  - apply IH; auto.
Qed.

Section Glob.
Variable glob : name -> name -> bool.

Lemma deliver_inj : forall ch msg e1 e2, matches glob ch e1 = true -> matches glob ch e2 = true ->
  deliver ch msg e1 = deliver ch msg e2 -> e1 = e2.
Proof.
  intros ch msg [p1 n1 c1] [p2 n2 c2]. unfold matches, deliver. cbn. intros M1 M2 H.
  inversion H; subst. destruct p2.
  - congruence.
  - apply name_eqb_eq in M1. apply name_eqb_eq in M2. congruence.
Qed.

Lemma sp_publish_in : forall ch msg s d,
  In d (snd (sp_publish glob ch msg s)) <-> exists e, In e (s_subs s) /\ matches glob ch e = true /\ d = deliver ch msg e.
Proof.
  intros. unfold sp_publish. cbn [snd]. rewrite in_map_iff. split.
  - intros [e [H1 H2]]. apply filter_In in H2. exists e. subst d. tauto.
  - intros [e [H1 [H2 H3]]]. exists e. split. auto. apply filter_In. auto.
Qed.
Lemma sp_publish_nodup : forall ch msg s, NoDup (s_subs s) -> NoDup (snd (sp_publish glob ch msg s)).
Proof.
  intros. unfold sp_publish. cbn [snd]. apply nodup_map_inj_in.
  - intros x y Hx Hy. apply filter_In in Hx. apply filter_In in Hy. apply deliver_inj; tauto.
  - apply nodup_filter. exact H.
Qed.

Lemma sp_publish_from_in : forall ch msg S i m d,
  In (m, d) (snd (sp_publish_from glob i ch msg S)) <->
  exists k, m = (i + k)%nat /\ In d (snd (sp_publish glob ch msg (sget_m k S))).
Proof.
  induction S as [|s S IH]; intros i m d; cbn [sp_publish_from].
  - cbn. split. contradiction. intros [k [_ H]]. unfold sget_m in H. destruct k; cbn in H; contradiction.
  - specialize (IH (Datatypes.S i) m d).
    destruct (sp_publish glob ch msg s) as [n ds] eqn:E1. destruct (sp_publish_from glob (Datatypes.S i) ch msg S) as [n' ds'].
    cbn [snd] in *. rewrite in_app_iff, IH, in_map_iff. split.
    + intros [[x [H1 H2]]|[k [H1 H2]]].
      * inversion H1; subst. exists 0%nat. split. lia. unfold sget_m. cbn [nth]. rewrite E1. exact H2.
      * exists (Datatypes.S k). split. lia. exact H2.
    + intros [k [H1 H2]]. destruct k.
      * left. exists d. split. f_equal. lia. unfold sget_m in H2. cbn [nth] in H2. rewrite E1 in H2. exact H2.
      * right. exists k. split. lia. exact H2.
Qed.

Lemma sp_publish_from_nodup : forall ch msg S i, (forall s, In s S -> NoDup (s_subs s)) ->
  NoDup (snd (sp_publish_from glob i ch msg S)).
Proof.
  induction S as [|s S IH]; intros i H; cbn [sp_publish_from]. constructor.
  pose proof (sp_publish_nodup ch msg s (H s (or_introl eq_refl))) as N1.
  pose proof (IH (Datatypes.S i) (fun s' Hs => H s' (or_intror Hs))) as N2.
  pose proof (sp_publish_from_in ch msg S (Datatypes.S i)) as IN.
  destruct (sp_publish glob ch msg s) as [n ds]. destruct (sp_publish_from glob (Datatypes.S i) ch msg S) as [n' ds'].
  cbn [snd] in *. apply nodup_app.
  - apply FinFun.Injective_map_NoDup. intros x y Hxy. inversion Hxy. reflexivity. exact N1.
  - exact N2.
  - intros [m d] H1 H2. apply in_map_iff in H1. destruct H1 as [x [H1 _]]. inversion H1; subst.
    apply IN in H2. destruct H2 as [k [H2 _]]. lia.
Qed.

(* every reachable member state: the subscriptions the specification holds are exactly the btree *)
Definition subs_of (n : nat) (ops : list op) (m : nat) : list entry := s_subs (sget_m m (safter glob n ops)).

Lemma subs_of_chans : forall n ops m, subs_of n ops m = chans (get_m m (after glob n ops)).
Proof.
  intros. unfold subs_of. destruct (after_sim glob n ops) as [_ S]. rewrite S, sget_cabs. reflexivity.
Qed.
Lemma subs_of_nodup : forall n ops m, NoDup (subs_of n ops m).
Proof.
  intros. rewrite subs_of_chans. destruct (after_sim glob n ops) as [I _]. apply (inv_nodup _ (cinv_get m _ I)).
Qed.

Theorem exactly_once : forall n ops ch msg,
  let dl := snd (cluster_publish glob ch msg (after glob n ops)) in
  NoDup dl /\
  forall m d, In (m, d) dl <->
              exists e, In e (subs_of n ops m) /\ matches glob ch e = true /\ d = deliver ch msg e.
Proof.
  intros n ops ch msg dl. destruct (after_sim glob n ops) as [I S].
  destruct (publish_from_sim glob ch msg (after glob n ops) 0%nat) as [_ P].
  fold (cluster_publish glob ch msg (after glob n ops)) in P. fold dl in P. split.
  - eapply Permutation_NoDup. apply Permutation_sym. exact P. apply sp_publish_from_nodup.
    intros s Hs. unfold cabs in Hs. apply in_map_iff in Hs. destruct Hs as [ps [Hs1 Hs2]]. subst s.
    unfold CInv in I. rewrite Forall_forall in I. apply (inv_nodup _ (I ps Hs2)).
  - intros m d. unfold subs_of. rewrite S. split.
    + intro H. eapply Permutation_in in H; [|exact P]. apply sp_publish_from_in in H. destruct H as [k [H1 H2]].
      cbn in H1. subst k. apply sp_publish_in in H2. exact H2.
    + intro H. eapply Permutation_in; [apply Permutation_sym; exact P|]. apply sp_publish_from_in.
      exists m. split. reflexivity. apply sp_publish_in. exact H.
Qed.

Theorem publish_count_thm : forall n ops ch msg,
  fst (cluster_publish glob ch msg (after glob n ops)) =
  N.of_nat (length (snd (cluster_publish glob ch msg (after glob n ops)))).
Proof. intros. apply publish_from_count. Qed.

Theorem introspection_exact : forall n ops m,
  let ps := get_m m (after glob n ops) in
  let subs := subs_of n ops m in
  (forall p, NoDup (channels glob p ps) /\
             forall x, In x (channels glob p ps) <->
                       (exists c, In (mkE false x c) subs) /\ match p with None => True | Some p => glob p x = true end) /\
  (forall ch, exists L, NoDup L /\ (forall c, In c L <-> In (mkE false ch c) subs) /\ numsub ch ps = N.of_nat (length L)) /\
  (exists L, NoDup L /\ (forall x, In x L <-> exists c, In (mkE true x c) subs) /\ numpat ps = N.of_nat (length L)).
Proof.
  intros n ops m ps subs. destruct (after_sim glob n ops) as [I _]. pose proof (cinv_get m _ I) as Im. fold ps in Im.
  assert (Hs : subs = s_subs (abs ps)). { unfold subs. rewrite subs_of_chans. reflexivity. }
  split; [|split].
  - intro p. split.
    + unfold channels. apply uniq_nodup.
    + intro x. split.
      * intro H. eapply Permutation_in in H; [|apply channels_sim; exact Im]. unfold sp_channels in H.
        apply uniq_in in H. destruct H as [H _]. apply in_map_iff in H. destruct H as [[p' n' c'] [H1 H2]].
        apply filter_In in H2. cbn in H1, H2. subst n'. destruct H2 as [H2 H3]. apply andb_true_iff in H3. destruct H3 as [H3 H4].
        destruct p'; [discriminate|]. split. exists c'. rewrite Hs. exact H2. destruct p; auto.
      * intros [[c Hc] Hp]. eapply Permutation_in; [apply Permutation_sym; apply channels_sim; exact Im|].
        unfold sp_channels. apply uniq_in. split; [|intros []]. apply in_map_iff. exists (mkE false x c). split. reflexivity.
        apply filter_In. split. rewrite <- Hs. exact Hc. cbn. destruct p; auto.
  - intro ch. exists (map e_conn (filter (fun e => negb (e_pat e) && name_eqb (e_chan e) ch) subs)). split; [|split].
    + apply nodup_map_inj_in.
      * intros [p1 n1 c1] [p2 n2 c2] H1 H2 E. apply filter_In in H1. apply filter_In in H2. cbn in *.
        destruct H1 as [_ H1]. destruct H2 as [_ H2]. apply andb_true_iff in H1. apply andb_true_iff in H2.
        destruct H1 as [A1 B1]. destruct H2 as [A2 B2]. apply name_eqb_eq in B1. apply name_eqb_eq in B2.
        destruct p1, p2; try discriminate. congruence.
      * apply nodup_filter. apply subs_of_nodup.
    + intro c. rewrite in_map_iff. split.
      * intros [[p1 n1 c1] [H1 H2]]. apply filter_In in H2. cbn in *. destruct H2 as [H2 H3]. apply andb_true_iff in H3.
        destruct H3 as [A B]. apply name_eqb_eq in B. destruct p1; [discriminate|]. subst. exact H2.
      * intro H. exists (mkE false ch c). split. reflexivity. apply filter_In. split. exact H. cbn. apply name_eqb_refl.
    + rewrite (numsub_sim ch ps Im). unfold sp_numsub. rewrite map_length, Hs. reflexivity.
  - exists (uniq [] (map e_chan (filter e_pat subs))). split; [|split].
    + apply uniq_nodup.
    + intro x. rewrite uniq_in, in_map_iff. split.
      * intros [[[p1 n1 c1] [H1 H2]] _]. apply filter_In in H2. cbn in *. destruct H2 as [H2 H3]. subst. exists c1. exact H2.
      * intros [c H]. split; [|intros []]. exists (mkE true x c). split. reflexivity. apply filter_In. split. exact H. reflexivity.
    + rewrite (numpat_sim ps Im). unfold sp_numpat. rewrite Hs. reflexivity.
Qed.

End Glob.

(* ------------------------------------------------------------------------------------------ *)
(* nothing reaches a subscription after UNSUBSCRIBE / PUNSUBSCRIBE / disconnect *)

Definition removes (o : op) (m : nat) (c : N) (pat : bool) (x : name) : Prop :=
  match o with
  | OUnsub m' c' pat' names => m' = m /\ c' = c /\ pat' = pat /\ (names = [] \/ In x names)
  | ODisc m' c' => m' = m /\ c' = c
  | _ => False
  end.
Definition resubscribes (o : op) (m : nat) (c : N) (pat : bool) (x : name) : Prop :=
  match o with
  | OSub m' c' pat' names => m' = m /\ c' = c /\ pat' = pat /\ In x names
  | _ => False
  end.

Lemma sget_sset_in : forall m p S e, In e (s_subs (sget_m m (sset_m m p S))) -> In e (s_subs p).
Proof.
  intros m p S. revert m. induction S as [|s S IH]; intros m e H.
  - unfold sget_m in H. destruct m; cbn in H; contradiction.
  - destruct m; cbn in H. exact H. apply (IH m). exact H.
Qed.
Lemma sget_sset_other : forall m m' p S, m <> m' -> sget_m m (sset_m m' p S) = sget_m m S.
Proof.
  intros m m' p S. revert m m'. induction S as [|s S IH]; intros m m' H.
  - destruct m'; reflexivity.
  - destruct m'; destruct m; cbn; try reflexivity; try congruence. unfold sget_m in IH. cbn. apply IH. congruence.
Qed.

Lemma sp_unsub_one_sub : forall c pat n s,
  (forall e, In e (s_subs (fst (sp_unsubscribe_one c pat n s))) -> In e (s_subs s)) /\
  ~ In (mkE pat n c) (s_subs (fst (sp_unsubscribe_one c pat n s))).
Proof.
  intros. unfold sp_unsubscribe_one. destruct (mem_e (mkE pat n c) (s_subs s)) eqn:E; cbn [fst s_subs].
  - split.
    + intros e He. apply filter_In in He. tauto.
    + intro H. apply filter_In in H. destruct H as [_ H]. rewrite entry_eqb_refl in H. discriminate.
  - split. auto. intro H. apply existsb_entry in H. unfold mem_e in E. congruence.
Qed.

Lemma sp_unsub_list_sub : forall c pat names s,
  (forall e, In e (s_subs (fst (sp_unsub_list c pat names s))) -> In e (s_subs s)) /\
  (forall x, In x names -> ~ In (mkE pat x c) (s_subs (fst (sp_unsub_list c pat names s)))).
Proof.
  induction names as [|n r IH]; intro s; cbn [sp_unsub_list].
  - split. auto. intros x [].
  - destruct (sp_unsub_one_sub c pat n s) as [A1 B1]. destruct (sp_unsubscribe_one c pat n s) as [s1 r1].
    destruct (IH s1) as [A2 B2]. destruct (sp_unsub_list c pat r s1) as [s2 r2]. cbn [fst] in *. split.
    + auto.
    + intros x [Hx|Hx]. subst. intro H. apply B1. apply A2. exact H. apply B2. exact Hx.
Qed.

Lemma sp_unsub_all_sub : forall c pat s,
  (forall e, In e (s_subs (fst (sp_unsubscribe_all c pat s))) -> In e (s_subs s)) /\
  (forall x, ~ In (mkE pat x c) (s_subs (fst (sp_unsubscribe_all c pat s)))).
Proof.
  intros c pat s. unfold sp_unsubscribe_all.
  assert (Hheld : forall x, In (mkE pat x c) (s_subs s) -> In x (map e_chan (held c pat (s_subs s)))).
  { intros x H. apply in_map_iff. exists (mkE pat x c). split. reflexivity. apply filter_In. split. exact H.
    cbn. rewrite N.eqb_refl, eqb_reflx. reflexivity. }
  destruct (map e_chan (held c pat (s_subs s))) as [|n r] eqn:E.
  - cbn [fst]. split. auto. intros x H. apply Hheld in H. contradiction.
  - destruct (sp_unsub_list_sub c pat (n :: r) s) as [A B]. split. exact A.
    intros x H. apply (B x). apply Hheld. apply A. exact H. exact H.
Qed.

Lemma sp_sub_list_in : forall c pat names s e,
  In e (s_subs (fst (sp_sub_list c pat names s))) ->
  In e (s_subs s) \/ (e_conn e = c /\ e_pat e = pat /\ In (e_chan e) names).
Proof.
  induction names as [|n r IH]; intros s e; cbn [sp_sub_list].
  - auto.
  - unfold sp_subscribe at 1. cbn zeta.
    specialize (IH (mkSpec (add_e (mkE pat n c) (s_subs s)) (add_c c (s_att s))) e).
    destruct (sp_sub_list c pat r _) as [s2 r2]. cbn [fst] in *. intro H. destruct (IH H) as [H1|[H1 [H2 H3]]].
    + cbn [s_subs] in H1. unfold add_e in H1. destruct (mem_e _ _); auto.
      apply in_app_or in H1. destruct H1 as [H1|[H1|[]]]. auto. subst e. cbn. auto.
    + right. cbn. auto.
Qed.

Section Glob.
Variable glob : name -> name -> bool.

Lemma removed_after : forall cl o m c pat x, CInv cl -> removes o m c pat x ->
  ~ In (mkE pat x c) (s_subs (sget_m m (fst (sstep glob (cabs cl) o)))).
Proof.
  intros cl o m c pat x I R. destruct o as [m' c' pat' names|m' c' pat' names|m' c'|via ch msg|m' p|m' chs|m']; cbn in R; try contradiction.
  - destruct R as [-> [-> [-> R]]]. cbn [sstep]. destruct (mem_c c (s_att (sget_m m (cabs cl)))) eqn:A.
    + destruct names as [|n r].
      * destruct (sp_unsub_all_sub c pat (sget_m m (cabs cl))) as [_ B].
        destruct (sp_unsubscribe_all c pat (sget_m m (cabs cl))) as [p l]. cbn [fst] in *.
        intro H. apply sget_sset_in in H. exact (B x H).
      * destruct R as [R|R]; [discriminate|].
        destruct (sp_unsub_list_sub c pat (n :: r) (sget_m m (cabs cl))) as [_ B].
        destruct (sp_unsub_list c pat (n :: r) (sget_m m (cabs cl))) as [p l]. cbn [fst] in *.
        intro H. apply sget_sset_in in H. exact (B x R H).
    + cbn [fst]. intro H. rewrite sget_cabs in *. rewrite mem_c_attached in A. unfold attached in A.
      cbn [abs s_subs] in H. pose proof (inv_reg _ (cinv_get m cl I) _ H) as Hr. cbn in Hr.
      destruct (conn_get c (conns (get_m m cl))); [discriminate|congruence].
  - destruct R as [-> ->]. cbn [sstep fst]. intro H. apply sget_sset_in in H. unfold sp_disconnect in H. cbn [s_subs] in H.
    apply filter_In in H. destruct H as [_ H]. cbn in H. rewrite N.eqb_refl in H. discriminate.
Qed.

Lemma stays_removed : forall S o m c pat x, ~ resubscribes o m c pat x ->
  ~ In (mkE pat x c) (s_subs (sget_m m S)) ->
  ~ In (mkE pat x c) (s_subs (sget_m m (fst (sstep glob S o)))).
Proof.
  intros S o m c pat x NR N H. apply N. clear N.
  destruct o as [m' c' pat' names|m' c' pat' names|m' c'|via ch msg|m' p|m' chs|m']; cbn [sstep] in H.
  - destruct names as [|n r]. exact H.
    pose proof (sp_sub_list_in c' pat' (n :: r) (sget_m m' S) (mkE pat x c)) as L.
    destruct (sp_sub_list c' pat' (n :: r) (sget_m m' S)) as [p l]. cbn [fst] in *.
    destruct (Nat.eq_dec m m') as [->|Hne].
    + apply sget_sset_in in H. destruct (L H) as [H1|[H1 [H2 H3]]]. exact H1.
      cbn in H1, H2, H3. exfalso. apply NR. cbn. auto.
    + rewrite sget_sset_other in H by exact Hne. exact H.
  - destruct (mem_c c' (s_att (sget_m m' S))); [|exact H].
    destruct (Nat.eq_dec m m') as [->|Hne].
    + destruct names as [|n r].
      * destruct (sp_unsub_all_sub c' pat' (sget_m m' S)) as [A _].
        destruct (sp_unsubscribe_all c' pat' (sget_m m' S)) as [p l]. cbn [fst] in *. apply sget_sset_in in H. auto.
      * destruct (sp_unsub_list_sub c' pat' (n :: r) (sget_m m' S)) as [A _].
        destruct (sp_unsub_list c' pat' (n :: r) (sget_m m' S)) as [p l]. cbn [fst] in *. apply sget_sset_in in H. auto.
    + destruct names as [|n r].
      * destruct (sp_unsubscribe_all c' pat' (sget_m m' S)) as [p l]. cbn [fst] in *. rewrite sget_sset_other in H by exact Hne. exact H.
      * destruct (sp_unsub_list c' pat' (n :: r) (sget_m m' S)) as [p l]. cbn [fst] in *. rewrite sget_sset_other in H by exact Hne. exact H.
  - cbn [fst] in H. destruct (Nat.eq_dec m m') as [->|Hne].
    + apply sget_sset_in in H. unfold sp_disconnect in H. cbn [s_subs] in H. apply filter_In in H. tauto.
    + rewrite sget_sset_other in H by exact Hne. exact H.
  - destruct (sp_publish_from glob 0 ch msg S). exact H.
  - exact H.
  - exact H.
  - exact H.
Qed.

Lemma stays_removed_run : forall ops S m c pat x, (forall o, In o ops -> ~ resubscribes o m c pat x) ->
  ~ In (mkE pat x c) (s_subs (sget_m m S)) ->
  ~ In (mkE pat x c) (s_subs (sget_m m (fst (srun glob S ops)))).
Proof.
  induction ops as [|o r IH]; intros S m c pat x NR N; cbn [srun]. exact N.
  pose proof (stays_removed S o m c pat x (NR o (or_introl eq_refl)) N) as N1.
  destruct (sstep glob S o) as [S1 b]. cbn [fst] in N1.
  pose proof (IH S1 m c pat x (fun o' Ho => NR o' (or_intror Ho)) N1) as N2.
  destruct (srun glob S1 r) as [S2 bs]. exact N2.
Qed.

Lemma srun_app : forall a b S, fst (srun glob S (a ++ b)) = fst (srun glob (fst (srun glob S a)) b).
Proof.
  induction a as [|o a IH]; intros b S; cbn [app srun]. reflexivity.
  destruct (sstep glob S o) as [S1 x]. specialize (IH b S1).
  destruct (srun glob S1 (a ++ b)) as [S2 bs]. destruct (srun glob S1 a) as [S3 bs3]. cbn [fst] in *. exact IH.
Qed.

Theorem no_delivery_after_unsubscribe : forall n ops1 o ops2 m c pat x ch msg,
  removes o m c pat x ->
  (forall o', In o' ops2 -> ~ resubscribes o' m c pat x) ->
  forall d, In (m, d) (snd (cluster_publish glob ch msg (after glob n (ops1 ++ o :: ops2)))) ->
            ~ (d_conn d = c /\ d_pat d = pat /\ d_sub d = x).
Proof.
  intros n ops1 o ops2 m c pat x ch msg R NR d Hd [D1 [D2 D3]].
  destruct (exactly_once glob n (ops1 ++ o :: ops2) ch msg) as [_ EO]. apply EO in Hd.
  destruct Hd as [[p' n' c'] [He [Hm Hdd]]]. subst d. unfold deliver in *. cbn in D1, D2, D3. subst c' p'.
  assert (n' = x).
  { unfold matches in Hm. cbn in Hm. destruct pat. exact D3. apply name_eqb_eq in Hm. congruence. }
  subst n'. clear D3 Hm. revert He. unfold subs_of, safter.
  rewrite srun_app. cbn [srun]. fold (safter glob n ops1).
  destruct (after_sim glob n ops1) as [I S]. rewrite S.
  pose proof (removed_after (after glob n ops1) o m c pat x I R) as RA.
  destruct (sstep glob (cabs (after glob n ops1)) o) as [S1 b]. cbn [fst] in *.
  pose proof (stays_removed_run ops2 S1 m c pat x NR RA) as SR.
  destruct (srun glob S1 ops2) as [S2 bs]. cbn [fst] in *. exact SR.
Qed.

End Glob.
