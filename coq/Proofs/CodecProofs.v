From Coq Require Import List NArith ZArith Lia Bool.
From Coq Require Import ZifyN ZifyNat ZifyBool.
Require Import Olric.Gen.Consts Olric.Model.Codec.
Import ListNotations.
Ltac Zify.zify_post_hook ::= Z.div_mod_to_equations.
Local Open Scope N_scope.

(* Obligations on the regenerated constants: a changed constant in /repo breaks these. *)
Lemma consts_metadata_length : metadata_length = 1 + 8 + 8 + 8 + 4.
Proof. reflexivity. Qed.
Lemma consts_max_key_length : max_key_length = 256.
Proof. reflexivity. Qed.

Lemma be_length w n : length (be w n) = w.
Proof. revert n; induction w as [|w IH]; intros n; cbn [be]; [reflexivity|].
  rewrite app_length, IH; cbn; lia. Qed.

Lemma unbe_acc_app acc l1 l2 : unbe_acc acc (l1 ++ l2) = unbe_acc (unbe_acc acc l1) l2.
Proof. revert acc; induction l1 as [|b l1 IH]; intros acc; cbn; [reflexivity|apply IH]. Qed.

Lemma unbe_acc_be w : forall n acc, n < 256 ^ N.of_nat w -> unbe_acc acc (be w n) = acc * 256 ^ N.of_nat w + n.
Proof.
  induction w as [|w IH]; intros n acc Hn.
  - cbn in *. lia.
  - cbn [be]. rewrite unbe_acc_app. cbn [unbe_acc].
    rewrite IH.
    + rewrite Nat2N.inj_succ, N.pow_succ_r' in *.
      pose proof (N.div_mod n 256 ltac:(lia)). nia.
    + rewrite Nat2N.inj_succ, N.pow_succ_r' in Hn.
      apply N.div_lt_upper_bound; lia.
Qed.

Lemma unbe_be w n : n < 256 ^ N.of_nat w -> unbe (be w n) = n.
Proof. intros H; unfold unbe; rewrite unbe_acc_be by exact H; lia. Qed.

Lemma be_wf w n : wf_bytes (be w n) = true.
Proof. revert n; induction w as [|w IH]; intros n; cbn [be]; [reflexivity|].
  unfold wf_bytes in *. rewrite forallb_app, IH. cbn. unfold wf_byte.
  pose proof (N.mod_lt n 256 ltac:(lia)). destruct (N.ltb_spec (n mod 256) 256); [reflexivity|lia]. Qed.

Lemma u64_range z : u64_of_i64 z < 256 ^ N.of_nat 8.
Proof. unfold u64_of_i64, two64. change (256 ^ N.of_nat 8) with 18446744073709551616. lia. Qed.

Lemma i64_u64_roundtrip z : wf_i64 z = true -> i64_of_u64 (u64_of_i64 z) = z.
Proof. unfold wf_i64, i64_of_u64, u64_of_i64, two63, two64. intros H.
  destruct (Z.ltb_spec (Z.of_N (Z.to_N (z mod 18446744073709551616))) 9223372036854775808); lia. Qed.

Lemma take_app n l r : length l = n -> take n (l ++ r) = Some (l, r).
Proof. intros <-. unfold take. rewrite app_length.
  destruct (Nat.leb_spec (length l) (length l + length r)); [|lia].
  rewrite firstn_app, Nat.sub_diag, firstn_all, skipn_app, Nat.sub_diag, skipn_all. cbn.
  now rewrite app_nil_r. Qed.

Lemma encode_length e : N.of_nat (length (encode_entry e)) = esize e.
Proof. unfold encode_entry, esize, metadata_length. cbn [app length]. rewrite !app_length, !be_length. lia. Qed.

Theorem decode_encode e rest : wf_entry e -> decode_entry (encode_entry e ++ rest) = Some (e, rest).
Proof.
  intros (Hk & Hv & Ht & Hs & Ha). unfold max_key_length in Hk. unfold encode_entry, decode_entry.
  cbn [app]. repeat rewrite <- app_assoc.
  rewrite N.mod_small by lia. rewrite Nat2N.id.
  rewrite take_app by reflexivity.
  rewrite take_app by apply be_length.
  rewrite take_app by apply be_length.
  rewrite take_app by apply be_length.
  rewrite take_app by apply be_length.
  rewrite N.mod_small by lia.
  rewrite (unbe_be 4) by (cbn; lia). rewrite Nat2N.id.
  rewrite take_app by reflexivity.
  rewrite !unbe_be by apply u64_range.
  rewrite !i64_u64_roundtrip by assumption.
  destruct e; reflexivity.
Qed.

Lemma wf_entryb_spec e : wf_entryb e = true <-> wf_entry e.
Proof. unfold wf_entryb, wf_entry. rewrite !andb_true_iff, !N.ltb_lt. tauto. Qed.

(* Non-vacuity / sharpness: a 256-byte key does NOT round-trip (klen wraps to 0). *)
Example key256_breaks : exists e, decode_entry (encode_entry e) <> Some (e, []).
Proof. exists {| ekey := repeat 1 256; ettl := 0; ets := 0; ela := 0; evalue := [] |}.
  vm_compute. discriminate. Qed.

Example wf_entry_example :
  wf_entry {| ekey := [1;2;255]; ettl := (-1)%Z; ets := 1758600000000000000%Z; ela := 5%Z; evalue := [0;10;13] |}.
Proof. unfold wf_entry; cbn. repeat split; reflexivity. Qed.
