(* Proofs about Model/Balancer.v: which fragments a balancer run moves, and where. *)
From Coq Require Import List Arith NArith Bool Lia.
From Coq Require Import ZifyN ZifyNat ZifyBool.
Require Import Olric.Model.Balancer.
Import ListNotations.
Local Open Scope N_scope.

Lemma In_plan_kind k T : forall ps id m,
  In m (plan_kind k T id ps) <->
  exists i p t n, nth_error ps i = Some p /\ T p = Some t /\ In n (nonempty_frags p) /\
                  m = {| mkind := k; mpart := id + N.of_nat i; mname := n; mtargets := t |}.
Proof.
  induction ps as [|p ps IH]; intros id m; cbn [plan_kind].
  - split; [intros []|]. intros (i & p & t & n & H & _). destruct i; discriminate.
  - rewrite in_app_iff, IH. split.
    + intros [H|(i & p' & t & n & H1 & H2 & H3 & H4)].
      * destruct (T p) as [t|] eqn:Et; [|destruct H]. apply in_map_iff in H as (n & <- & Hn).
        exists 0%nat, p, t, n. repeat split; auto. f_equal. cbn. lia.
      * exists (S i), p', t, n. repeat split; auto. rewrite H4. f_equal. lia.
    + intros (i & p' & t & n & H1 & H2 & H3 & H4). destruct i as [|i].
      * left. cbn in H1. inversion H1. subst p'. rewrite H2. apply in_map_iff. exists n. split; [|exact H3].
        rewrite H4. f_equal. cbn. lia.
      * right. exists i, p', t, n. repeat split; auto. rewrite H4. f_equal. lia.
Qed.

Lemma fold_add_zero : forall (l : list (N * N)) a, fold_left (fun acc f => acc + snd f) l a = 0 <-> a = 0 /\ forall f, In f l -> snd f = 0.
Proof.
  induction l as [|x l IH]; intros a; cbn [fold_left].
  - split; [intros ->; split; [reflexivity|intros f []]|intros [H _]; exact H].
  - rewrite IH. split.
    + intros [H1 H2]. split; [lia|]. intros f [<-|Hf]; [lia|now apply H2].
    + intros [H1 H2]. split.
      * rewrite H1. rewrite (H2 x (or_introl eq_refl)). reflexivity.
      * intros f Hf. apply H2. now right.
Qed.

Lemma keys_of_zero p : keys_of p = 0 <-> forall f, In f (bfrags p) -> snd f = 0.
Proof. unfold keys_of. rewrite fold_add_zero. split; [intros [_ H]; exact H|intros H; split; [reflexivity|exact H]]. Qed.

Lemma In_nonempty p n : In n (nonempty_frags p) <-> exists len, In (n, len) (bfrags p) /\ len <> 0.
Proof.
  unfold nonempty_frags. rewrite in_map_iff. split.
  - intros ([n' len] & <- & H). apply filter_In in H as [H1 H2]. exists len. split; [exact H1|]. cbn in H2. lia.
  - intros (len & H1 & H2). exists (n, len). split; [reflexivity|]. apply filter_In. split; [exact H1|]. cbn. lia.
Qed.

Lemma nonempty_keys p n : In n (nonempty_frags p) -> keys_of p <> 0.
Proof.
  intros H Hz. apply In_nonempty in H as (len & H1 & H2). rewrite keys_of_zero in Hz. apply H2. apply (Hz (n, len) H1).
Qed.

Lemma existsb_eqb_In this l : existsb (N.eqb this) l = true <-> In this l.
Proof.
  rewrite existsb_exists. split; [intros (x & Hx & E); apply N.eqb_eq in E; now subst x|intros H; exists this; split; [exact H|apply N.eqb_refl]].
Qed.

Lemma primary_targets_spec this p t :
  primary_targets this p = Some t <-> keys_of p <> 0 /\ exists o, owner_of p = Some o /\ o <> this /\ t = [o].
Proof.
  unfold primary_targets. destruct (keys_of p =? 0) eqn:Ek.
  - split; [discriminate|]. intros [H _]. lia.
  - destruct (owner_of p) as [o|].
    + destruct (o =? this) eqn:Eo.
      * split; [discriminate|]. intros (_ & o' & H1 & H2 & _). inversion H1. lia.
      * split.
        -- intros H. inversion H. split; [lia|]. exists o. repeat split; auto. lia.
        -- intros (_ & o' & H1 & _ & ->). inversion H1. reflexivity.
    + split; [discriminate|]. intros (_ & o' & H1 & _). discriminate.
Qed.

Lemma backup_targets_spec this r p t :
  backup_targets this r p = Some t <->
  keys_of p <> 0 /\ t = current_backups r p /\ t <> [] /\ ~ In this t.
Proof.
  unfold backup_targets. destruct (keys_of p =? 0) eqn:Ek.
  - split; [discriminate|]. intros [H _]. lia.
  - destruct (bowners p) as [|o os] eqn:Eo.
    + split; [discriminate|]. intros (_ & -> & H & _). unfold current_backups in H. rewrite Eo in H. cbn in H.
      destruct (pred r); now contradiction H.
    + destruct (existsb (N.eqb this) (current_backups r p)) eqn:Ex.
      * split; [discriminate|]. intros (_ & -> & _ & H). apply existsb_eqb_In in Ex. contradiction.
      * assert (Hn : ~ In this (current_backups r p)) by (rewrite <- existsb_eqb_In; congruence).
        destruct (current_backups r p) as [|c cs] eqn:Ec.
        -- split; [discriminate|]. intros (_ & -> & H & _). now contradiction H.
        -- split.
           ++ intros H. inversion H. subst t. repeat split; auto; [lia|discriminate].
           ++ intros (_ & -> & _). reflexivity.
Qed.

(* ---------------------------------------------------------------------------------------------------- *)

Lemma plan_split this r prim back m :
  In m (plan this r prim back) <->
  In m (plan_kind KPrimary (primary_targets this) 0 prim) \/
  ((1 < r)%nat /\ In m (plan_kind KBackup (backup_targets this r) 0 back)).
Proof.
  unfold plan. rewrite in_app_iff. destruct (Nat.ltb_spec 1 r) as [Hr|Hr].
  - split; (intros [H|H]; [left; exact H|right]); [split; assumption|destruct H; assumption].
  - split; (intros [H|H]; [left; exact H|]); [destruct H|destruct H; lia].
Qed.

(* every planned move of primary data: this member is not the partition owner, the only target is the owner *)
Theorem primary_moves_sound this r prim back m :
  In m (plan this r prim back) -> mkind m = KPrimary ->
  exists p o, nth_error prim (N.to_nat (mpart m)) = Some p /\ owner_of p = Some o /\ o <> this /\ mtargets m = [o] /\
              In (mname m) (nonempty_frags p).
Proof.
  intros H Hk. apply plan_split in H as [H|[_ H]]; apply In_plan_kind in H as (i & p & t & n & H1 & H2 & H3 & ->); cbn in Hk; [|discriminate].
  apply primary_targets_spec in H2 as (_ & o & Ho & Hne & ->). exists p, o. cbn [mpart mtargets mname].
  replace (N.to_nat (0 + N.of_nat i)) with i by lia. repeat split; auto.
Qed.

(* every planned move of backup data: ReplicaCount > 1, this member is not among the current backup owners, the targets
   are exactly the current backup owners *)
Theorem backup_moves_sound this r prim back m :
  In m (plan this r prim back) -> mkind m = KBackup ->
  (1 < r)%nat /\
  exists p, nth_error back (N.to_nat (mpart m)) = Some p /\ mtargets m = current_backups r p /\ mtargets m <> [] /\
            ~ In this (current_backups r p) /\ In (mname m) (nonempty_frags p).
Proof.
  intros H Hk. apply plan_split in H as [H|[Hr H]]; apply In_plan_kind in H as (i & p & t & n & H1 & H2 & H3 & ->); cbn in Hk; [discriminate|].
  split; [exact Hr|]. apply backup_targets_spec in H2 as (_ & -> & Hne & Hnot). exists p. cbn [mpart mtargets mname].
  replace (N.to_nat (0 + N.of_nat i)) with i by lia. repeat split; auto.
Qed.

(* a rightful holder never gives data away *)
Corollary owner_keeps_primary this r prim back m p :
  In m (plan this r prim back) -> mkind m = KPrimary -> nth_error prim (N.to_nat (mpart m)) = Some p ->
  owner_of p <> Some this.
Proof.
  intros H Hk Hp. destruct (primary_moves_sound this r prim back m H Hk) as (p' & o & H1 & H2 & H3 & _).
  rewrite Hp in H1. inversion H1. subst p'. rewrite H2. congruence.
Qed.

Corollary current_backup_keeps this r prim back m p :
  In m (plan this r prim back) -> mkind m = KBackup -> nth_error back (N.to_nat (mpart m)) = Some p ->
  ~ In this (current_backups r p).
Proof.
  intros H Hk Hp. destruct (backup_moves_sound this r prim back m H Hk) as (_ & p' & H1 & _ & _ & H2 & _).
  rewrite Hp in H1. inversion H1. subst p'. exact H2.
Qed.

Corollary never_moves_to_itself this r prim back m : In m (plan this r prim back) -> ~ In this (mtargets m).
Proof.
  intros H. destruct (mkind m) eqn:Ek.
  - destruct (primary_moves_sound this r prim back m H Ek) as (p & o & _ & _ & Hne & -> & _). intros [E|[]]. congruence.
  - destruct (backup_moves_sound this r prim back m H Ek) as (_ & p & _ & -> & _ & Hn & _). exact Hn.
Qed.

(* completeness: every non-empty fragment of a partition this member must not hold is moved *)
Theorem primary_moves_complete this r prim back i p o n len :
  nth_error prim i = Some p -> owner_of p = Some o -> o <> this -> In (n, len) (bfrags p) -> len <> 0 ->
  In {| mkind := KPrimary; mpart := N.of_nat i; mname := n; mtargets := [o] |} (plan this r prim back).
Proof.
  intros Hp Ho Hne Hf Hl. apply plan_split. left. apply In_plan_kind.
  assert (Hn : In n (nonempty_frags p)) by (apply In_nonempty; exists len; split; assumption).
  exists i, p, [o], n. repeat split; auto.
  apply primary_targets_spec. split; [now apply (nonempty_keys p n)|]. exists o. repeat split; auto.
Qed.

Theorem backup_moves_complete this r prim back i p n len :
  (1 < r)%nat -> nth_error back i = Some p -> bowners p <> [] -> ~ In this (current_backups r p) ->
  In (n, len) (bfrags p) -> len <> 0 ->
  In {| mkind := KBackup; mpart := N.of_nat i; mname := n; mtargets := current_backups r p |} (plan this r prim back).
Proof.
  intros Hr Hp Ho Hnot Hf Hl. apply plan_split. right. split; [exact Hr|]. apply In_plan_kind.
  assert (Hn : In n (nonempty_frags p)) by (apply In_nonempty; exists len; split; assumption).
  exists i, p, (current_backups r p), n. repeat split; auto.
  apply backup_targets_spec. repeat split; auto; [now apply (nonempty_keys p n)|].
  unfold current_backups. destruct (bowners p) as [|o os] eqn:Eo; [now contradiction Ho|].
  destruct r as [|[|r]]; try lia. cbn [pred]. destruct (rev (o :: os)) as [|x xs] eqn:Er.
  - apply (f_equal (@length _)) in Er. rewrite rev_length in Er. discriminate.
  - discriminate.
Qed.

(* without replication nothing of backup kind is ever moved *)
Theorem no_backup_moves_without_replicas this r prim back m :
  (r <= 1)%nat -> In m (plan this r prim back) -> mkind m = KPrimary.
Proof.
  intros Hr H. apply plan_split in H as [H|[Hr' _]]; [|lia].
  apply In_plan_kind in H as (i & p & t & n & _ & _ & _ & ->). reflexivity.
Qed.

Lemma In_firstn {A} (x : A) : forall n l, In x (firstn n l) -> In x l.
Proof.
  induction n as [|n IH]; intros l H; [destruct H|]. destruct l as [|y l]; [destruct H|].
  cbn [firstn] in H. destruct H as [H|H]; [now left|right; now apply IH].
Qed.

(* the current backup owners are at most ReplicaCount-1 members of the backup owners list *)
Lemma current_backups_bound r p : (length (current_backups r p) <= pred r)%nat /\ incl (current_backups r p) (bowners p).
Proof.
  unfold current_backups. split; [rewrite firstn_length; lia|].
  intros x Hx. apply In_rev. now apply In_firstn in Hx.
Qed.
