(* Proofs about part 1 of Model/ByteTable.v (one byte-level table) and about the size / key guards of the
   store built from such tables.
     C17_store_roundtrip   : section D (what was put is what get returns, other keys are untouched, a backup
                             that receives the primary's encoded entry returns the same entry)
     C17_rejects_cleanly   : section E (too large keys / entries are refused and nothing is changed)
   The invariant [bwf] (section C) is what ties the index to the bytes of the slab. *)
From Coq Require Import List NArith ZArith Lia Bool Arith.
From Coq Require Import ZifyN ZifyNat ZifyBool.
Require Import Olric.Gen.Consts Olric.Model.Codec Olric.Proofs.CodecProofs Olric.Model.ByteTable.
Import ListNotations.

(* ---------------------------------- A. association maps ------------------------------------- *)
Lemma lookup_remove_eq (h : N) (m : amap) : lookup h (remove h m) = None.
Proof.
  induction m as [|[k v] m IH]; [reflexivity|].
  simpl. destruct (N.eqb k h) eqn:Hk; [exact IH|].
  simpl. rewrite Hk. exact IH.
Qed.

Lemma lookup_remove_neq (h h' : N) (m : amap) : h <> h' -> lookup h' (remove h m) = lookup h' m.
Proof.
  intros Hne. induction m as [|[k v] m IH]; [reflexivity|].
  simpl. destruct (N.eqb k h) eqn:Hk.
  - apply N.eqb_eq in Hk. subst k.
    destruct (N.eqb h h') eqn:Hh; [apply N.eqb_eq in Hh; contradiction|]. exact IH.
  - simpl. destruct (N.eqb k h'); [reflexivity|exact IH].
Qed.

Lemma lookup_insert_eq (h : N) (v : nat) (m : amap) : lookup h (insert h v m) = Some v.
Proof. unfold insert. simpl. rewrite N.eqb_refl. reflexivity. Qed.

Lemma lookup_insert_neq (h h' : N) (v : nat) (m : amap) : h <> h' -> lookup h' (insert h v m) = lookup h' m.
Proof.
  intros Hne. unfold insert. simpl.
  destruct (N.eqb h h') eqn:Hh; [apply N.eqb_eq in Hh; contradiction|].
  apply lookup_remove_neq. exact Hne.
Qed.

Lemma lookup_remove_some (h h' : N) (m : amap) (o : nat) :
  lookup h' (remove h m) = Some o -> lookup h' m = Some o /\ h <> h'.
Proof.
  intros Hl. destruct (N.eq_dec h h') as [Heq|Hne].
  - subst h'. rewrite lookup_remove_eq in Hl. discriminate.
  - rewrite lookup_remove_neq in Hl by exact Hne. split; assumption.
Qed.

#[local] Arguments encode_entry : simpl never.
#[local] Arguments decode_entry : simpl never.
#[local] Arguments insert : simpl never.
#[local] Arguments remove : simpl never.
#[local] Arguments lookup : simpl never.

(* ------------------------------- list framing: skipn / write_at ----------------------------- *)
Lemma skipn_app_len {A} (pre x : list A) (o : nat) : length pre = o -> skipn o (pre ++ x) = x.
Proof. intros <-. rewrite skipn_app, skipn_all, Nat.sub_diag. reflexivity. Qed.

Lemma firstn_app_len {A} (x post : list A) : firstn (length x) (x ++ post) = x.
Proof. rewrite firstn_app, firstn_all, Nat.sub_diag. cbn [firstn]. apply app_nil_r. Qed.

Lemma write_at_app_ge (a b bs : list byte) (off : nat) :
  length a <= off -> write_at off bs (a ++ b) = a ++ write_at (off - length a) bs b.
Proof.
  intros Hle. unfold write_at. rewrite firstn_app, skipn_app.
  rewrite (@firstn_all2 _ off a) by exact Hle.
  rewrite (@skipn_all2 _ (off + length bs) a) by lia.
  replace (off + length bs - length a) with (off - length a + length bs) by lia.
  cbn [app]. rewrite <- app_assoc. reflexivity.
Qed.

Lemma write_at_length (off : nat) (bs mem : list byte) :
  off + length bs <= length mem -> length (write_at off bs mem) = length mem.
Proof.
  intros Hle. unfold write_at. rewrite !app_length, firstn_length, skipn_length. lia.
Qed.

Lemma write_at_new (off : nat) (bs mem : list byte) :
  off <= length mem ->
  write_at off bs mem = firstn off mem ++ bs ++ skipn (off + length bs) mem /\ length (firstn off mem) = off.
Proof. intros Hle. split; [reflexivity|]. apply firstn_length_le. exact Hle. Qed.

(* an entry that ends at or before the write offset survives the write *)
Lemma write_at_preserves (off : nat) (bs mem pre enc post : list byte) :
  mem = pre ++ enc ++ post -> length pre + length enc <= off ->
  write_at off bs mem = pre ++ enc ++ write_at (off - (length pre + length enc)) bs post.
Proof.
  intros -> Hle. rewrite app_assoc. rewrite write_at_app_ge by (rewrite app_length; exact Hle).
  rewrite app_length, <- app_assoc. reflexivity.
Qed.

(* ------------------------------------ B. decoding in a slab --------------------------------- *)
Lemma entry_at_split (e : entry) (mem pre post : list byte) (o : nat) :
  wf_entry e -> mem = pre ++ encode_entry e ++ post -> length pre = o -> entry_at mem o = Some e.
Proof.
  intros He -> Ho. unfold entry_at. rewrite skipn_app_len by exact Ho.
  rewrite decode_encode by exact He. reflexivity.
Qed.

Lemma raw_at_split (e : entry) (mem pre post : list byte) (o : nat) :
  wf_entry e -> mem = pre ++ encode_entry e ++ post -> length pre = o -> raw_at mem o = Some (encode_entry e).
Proof.
  intros He -> Ho. unfold raw_at. cbv zeta. rewrite skipn_app_len by exact Ho.
  rewrite decode_encode by exact He.
  replace (length (encode_entry e ++ post) - length post) with (length (encode_entry e))
    by (rewrite app_length; lia).
  rewrite firstn_app_len. reflexivity.
Qed.

(* entry_at and raw_at fail together *)
Lemma raw_at_none_entry_at (mem : list byte) (o : nat) : raw_at mem o = None -> entry_at mem o = None.
Proof.
  unfold raw_at, entry_at. cbv zeta. destruct (decode_entry (skipn o mem)) as [[e rest]|]; [discriminate|reflexivity].
Qed.

(* ------------------------------------ set_la ------------------------------------------------ *)
Lemma set_la_length (now : Z) (e : entry) : length (encode_entry (set_la now e)) = length (encode_entry e).
Proof.
  apply Nat2N.inj. rewrite !encode_length. unfold esize, set_la. cbn [ekey evalue]. reflexivity.
Qed.

Lemma wf_set_la (now : Z) (e : entry) : wf_entry e -> wf_i64 now = true -> wf_entry (set_la now e).
Proof.
  intros (Hk & Hv & Ht & Hs & Ha) Hnow. unfold wf_entry, set_la. cbn [ekey evalue ettl ets ela].
  repeat split; assumption.
Qed.

Lemma bview_set_la (now : Z) (e : entry) : bview (set_la now e) = bview e.
Proof. reflexivity. Qed.

(* ------------------------------------ C. the invariant -------------------------------------- *)
Theorem bwf_new : forall size, bwf (new_btable size).
Proof.
  intros size. unfold bwf, new_btable. cbn [b_mem b_alloc b_off b_idx].
  split; [apply repeat_length|]. split; [lia|]. intros h o Hl. discriminate Hl.
Qed.

Lemma b_delete_mem (h : N) (t : btable) :
  b_mem (b_delete h t) = b_mem t /\ b_off (b_delete h t) = b_off t /\ b_alloc (b_delete h t) = b_alloc t.
Proof.
  unfold b_delete. destruct (lookup h (b_idx t)) as [o|]; [|auto].
  destruct (raw_at (b_mem t) o) as [raw|]; [|auto].
  cbn [b_mem b_off b_alloc]. auto.
Qed.

Lemma b_delete_idx_neq (h h' : N) (t : btable) :
  h <> h' -> lookup h' (b_idx (b_delete h t)) = lookup h' (b_idx t).
Proof.
  intros Hne. unfold b_delete. destruct (lookup h (b_idx t)) as [o|]; [|reflexivity].
  destruct (raw_at (b_mem t) o) as [raw|]; [|reflexivity].
  cbn [b_idx]. apply lookup_remove_neq. exact Hne.
Qed.

Lemma b_delete_idx_sub (h h' : N) (t : btable) (o : nat) :
  lookup h' (b_idx (b_delete h t)) = Some o -> lookup h' (b_idx t) = Some o.
Proof.
  unfold b_delete. destruct (lookup h (b_idx t)) as [o0|]; [|auto].
  destruct (raw_at (b_mem t) o0) as [raw|]; [|auto].
  cbn [b_idx]. intros Hl. apply lookup_remove_some in Hl. tauto.
Qed.

(* in a well-formed table the decoder cannot fail on an indexed offset, so Delete removes the index entry *)
Lemma b_delete_idx_eq (h : N) (t : btable) : bwf t -> lookup h (b_idx (b_delete h t)) = None.
Proof.
  intros (Hlen & Hoff & Hidx). unfold b_delete. destruct (lookup h (b_idx t)) as [o|] eqn:Hl; [|exact Hl].
  destruct (Hidx h o Hl) as (e & pre & post & He & Hm & Hpre & Hend).
  rewrite (raw_at_split e _ pre post o He Hm Hpre). cbn [b_idx]. apply lookup_remove_eq.
Qed.

Theorem bwf_delete (h : N) (t : btable) : bwf t -> bwf (b_delete h t).
Proof.
  intros (Hlen & Hoff & Hidx). destruct (b_delete_mem h t) as (Hm & Ho & Ha).
  unfold bwf. rewrite Hm, Ho, Ha. split; [exact Hlen|]. split; [exact Hoff|].
  intros h0 o Hl. apply b_delete_idx_sub in Hl. exact (Hidx h0 o Hl).
Qed.

Theorem bwf_reset (t : btable) : bwf t -> bwf (b_reset t).
Proof.
  intros (Hlen & Hoff & Hidx). unfold bwf, b_reset. cbn [b_mem b_alloc b_off b_idx].
  split; [exact Hlen|]. split; [lia|]. intros h o Hl. discriminate Hl.
Qed.

(* what a successful PutRaw does, field by field *)
Lemma put_raw_inv (h : N) (raw : list byte) (t t' : btable) :
  b_put_raw h raw t = BOk t' ->
  length raw + b_off t < b_alloc t /\
  b_off t' = b_off t + length raw /\ b_alloc t' = b_alloc t /\
  b_idx t' = insert h (b_off t) (b_idx (b_delete h t)) /\
  b_mem t' = write_at (b_off t) raw (b_mem t).
Proof.
  unfold b_put_raw. destruct (Nat.leb_spec (b_alloc t) (length raw + b_off t)) as [Hle|Hlt]; [discriminate|].
  destruct (b_delete_mem h t) as (Hm & Ho & Ha). cbv zeta. rewrite Hm, Ho, Ha.
  intros Heq. injection Heq as <-. cbn [b_off b_alloc b_idx b_mem]. auto.
Qed.

Theorem bwf_put_raw (h : N) (e : entry) (t t' : btable) :
  bwf t -> wf_entry e -> b_put_raw h (encode_entry e) t = BOk t' -> bwf t'.
Proof.
  intros (Hlen & Hoff & Hidx) He Hput.
  apply put_raw_inv in Hput as (Hfit & Ho & Ha & Hi & Hm).
  unfold bwf. rewrite Ho, Ha, Hi, Hm.
  split; [rewrite write_at_length; [exact Hlen|lia]|]. split; [lia|].
  intros h0 o Hl. destruct (N.eq_dec h h0) as [Heq|Hne].
  - subst h0. rewrite lookup_insert_eq in Hl. injection Hl as <-.
    exists e, (firstn (b_off t) (b_mem t)), (skipn (b_off t + length (encode_entry e)) (b_mem t)).
    split; [exact He|]. split; [reflexivity|]. split; [apply firstn_length_le; lia|lia].
  - rewrite lookup_insert_neq in Hl by exact Hne. apply b_delete_idx_sub in Hl.
    destruct (Hidx h0 o Hl) as (e0 & pre & post & He0 & Hmem & Hpre & Hend).
    exists e0, pre, (write_at (b_off t - (length pre + length (encode_entry e0))) (encode_entry e) post).
    split; [exact He0|]. split; [apply write_at_preserves; [exact Hmem|lia]|]. split; [exact Hpre|lia].
Qed.

Lemma put_is_put_raw (now : Z) (h : N) (e : entry) (t : btable) :
  (N.of_nat (length (ekey e)) < max_key_length)%N ->
  b_put now h e t = b_put_raw h (encode_entry (set_la now e)) t.
Proof.
  intros Hk. unfold b_put. apply N.leb_gt in Hk. rewrite Hk. reflexivity.
Qed.

Theorem bwf_put (now : Z) (h : N) (e : entry) (t t' : btable) :
  bwf t -> wf_entry e -> wf_i64 now = true -> b_put now h e t = BOk t' -> bwf t'.
Proof.
  intros Hwf He Hnow Hput. rewrite put_is_put_raw in Hput by (destruct He as (Hk & _); exact Hk).
  exact (bwf_put_raw h (set_la now e) t t' Hwf (wf_set_la now e He Hnow) Hput).
Qed.

(* ------------------------------------ D. round trip ----------------------------------------- *)
Theorem get_put_raw_eq (h : N) (e : entry) (t t' : btable) :
  bwf t -> wf_entry e -> b_put_raw h (encode_entry e) t = BOk t' ->
  b_get h t' = Some e /\ b_get_raw h t' = Some (encode_entry e).
Proof.
  intros (Hlen & Hoff & Hidx) He Hput.
  apply put_raw_inv in Hput as (Hfit & Ho & Ha & Hi & Hm).
  unfold b_get, b_get_raw. rewrite Hi, Hm, lookup_insert_eq.
  assert (Hpre : length (firstn (b_off t) (b_mem t)) = b_off t) by (apply firstn_length_le; lia).
  split.
  - exact (entry_at_split e _ _ _ _ He eq_refl Hpre).
  - exact (raw_at_split e _ _ _ _ He eq_refl Hpre).
Qed.

Theorem get_put_raw_neq (h h' : N) (e : entry) (t t' : btable) :
  bwf t -> wf_entry e -> b_put_raw h (encode_entry e) t = BOk t' -> h <> h' ->
  b_get h' t' = b_get h' t /\ b_get_raw h' t' = b_get_raw h' t.
Proof.
  intros (Hlen & Hoff & Hidx) He Hput Hne.
  apply put_raw_inv in Hput as (Hfit & Ho & Ha & Hi & Hm).
  unfold b_get, b_get_raw. rewrite Hi, Hm, lookup_insert_neq by exact Hne.
  rewrite b_delete_idx_neq by exact Hne.
  destruct (lookup h' (b_idx t)) as [o|] eqn:Hl; [|split; reflexivity].
  destruct (Hidx h' o Hl) as (e0 & pre & post & He0 & Hmem & Hpre & Hend).
  assert (Hmem' : write_at (b_off t) (encode_entry e) (b_mem t) =
                  pre ++ encode_entry e0 ++
                  write_at (b_off t - (length pre + length (encode_entry e0))) (encode_entry e) post)
    by (apply write_at_preserves; [exact Hmem|lia]).
  rewrite (entry_at_split e0 _ _ _ o He0 Hmem' Hpre), (entry_at_split e0 _ _ _ o He0 Hmem Hpre).
  rewrite (raw_at_split e0 _ _ _ o He0 Hmem' Hpre), (raw_at_split e0 _ _ _ o He0 Hmem Hpre).
  split; reflexivity.
Qed.

Theorem get_put_eq (now : Z) (h : N) (e : entry) (t t' : btable) :
  bwf t -> wf_entry e -> wf_i64 now = true -> b_put now h e t = BOk t' -> b_get h t' = Some (set_la now e).
Proof.
  intros Hwf He Hnow Hput. rewrite put_is_put_raw in Hput by (destruct He as (Hk & _); exact Hk).
  exact (proj1 (get_put_raw_eq h (set_la now e) t t' Hwf (wf_set_la now e He Hnow) Hput)).
Qed.

Corollary get_put_eq_view (now : Z) (h : N) (e : entry) (t t' : btable) :
  bwf t -> wf_entry e -> wf_i64 now = true -> b_put now h e t = BOk t' ->
  option_map bview (b_get h t') = Some (bview e).
Proof.
  intros Hwf He Hnow Hput. rewrite (get_put_eq now h e t t' Hwf He Hnow Hput). reflexivity.
Qed.

Theorem get_put_neq (now : Z) (h h' : N) (e : entry) (t t' : btable) :
  bwf t -> wf_entry e -> wf_i64 now = true -> b_put now h e t = BOk t' -> h <> h' -> b_get h' t' = b_get h' t.
Proof.
  intros Hwf He Hnow Hput Hne. rewrite put_is_put_raw in Hput by (destruct He as (Hk & _); exact Hk).
  exact (proj1 (get_put_raw_neq h h' (set_la now e) t t' Hwf (wf_set_la now e He Hnow) Hput Hne)).
Qed.

Theorem get_delete_eq (h : N) (t : btable) : bwf t -> b_get h (b_delete h t) = None.
Proof.
  intros Hwf. unfold b_get. rewrite b_delete_idx_eq by exact Hwf. reflexivity.
Qed.

(* the same without the invariant: if the decoder fails Delete leaves the index alone, and then Get fails too *)
Lemma get_delete_eq_any (h : N) (t : btable) : b_get h (b_delete h t) = None.
Proof.
  unfold b_get, b_delete. destruct (lookup h (b_idx t)) as [o|] eqn:Hl; [|rewrite Hl; reflexivity].
  destruct (raw_at (b_mem t) o) as [raw|] eqn:Hr.
  - cbn [b_idx b_mem]. rewrite lookup_remove_eq. reflexivity.
  - rewrite Hl. apply raw_at_none_entry_at. exact Hr.
Qed.

Theorem get_delete_neq (h h' : N) (t : btable) : bwf t -> h <> h' -> b_get h' (b_delete h t) = b_get h' t.
Proof.
  intros _ Hne. unfold b_get. rewrite b_delete_idx_neq by exact Hne.
  destruct (b_delete_mem h t) as (Hm & _). rewrite Hm. reflexivity.
Qed.

Lemma get_raw_delete_neq (h h' : N) (t : btable) : h <> h' -> b_get_raw h' (b_delete h t) = b_get_raw h' t.
Proof.
  intros Hne. unfold b_get_raw. rewrite b_delete_idx_neq by exact Hne.
  destruct (b_delete_mem h t) as (Hm & _). rewrite Hm. reflexivity.
Qed.

Lemma put_raw_fits (h : N) (raw : list byte) (t : btable) :
  length raw + b_off t < b_alloc t -> exists t', b_put_raw h raw t = BOk t'.
Proof.
  intros Hfit. unfold b_put_raw. apply Nat.leb_gt in Hfit. rewrite Hfit. eexists. reflexivity.
Qed.

Theorem put_fits (now : Z) (h : N) (e : entry) (t : btable) :
  (N.of_nat (length (ekey e)) < max_key_length)%N -> length (encode_entry e) + b_off t < b_alloc t ->
  exists t', b_put now h e t = BOk t'.
Proof.
  intros Hk Hfit. rewrite put_is_put_raw by exact Hk. apply put_raw_fits. rewrite set_la_length. exact Hfit.
Qed.

Theorem replicate_agrees (now : Z) (h : N) (e : entry) (t1 t1' t2 t2' : btable) :
  bwf t1 -> bwf t2 -> wf_entry e -> wf_i64 now = true ->
  b_put now h e t1 = BOk t1' -> b_put_raw h (encode_entry (set_la now e)) t2 = BOk t2' ->
  b_get h t2' = b_get h t1'.
Proof.
  intros Hwf1 Hwf2 He Hnow Hput1 Hput2.
  rewrite (get_put_eq now h e t1 t1' Hwf1 He Hnow Hput1).
  exact (proj1 (get_put_raw_eq h (set_la now e) t2 t2' Hwf2 (wf_set_la now e He Hnow) Hput2)).
Qed.

(* ------------------------------------ E. rejection ------------------------------------------ *)
Theorem put_key_too_large (now : Z) (h : N) (e : entry) (t : btable) :
  (max_key_length <= N.of_nat (length (ekey e)))%N -> b_put now h e t = BKeyTooLarge.
Proof. intros Hk. unfold b_put. apply N.leb_le in Hk. rewrite Hk. reflexivity. Qed.

Theorem put_raw_no_space (h : N) (raw : list byte) (t : btable) :
  b_alloc t <= length raw + b_off t -> b_put_raw h raw t = BNoSpace.
Proof. intros Hle. unfold b_put_raw. apply Nat.leb_le in Hle. rewrite Hle. reflexivity. Qed.

Lemma hs_put_gen_too_large (f : btable -> bres) (rawlen : nat) (h : N) (size : nat) (hp : heap) (ts : list htable) :
  size <= rawlen -> hs_put_gen f rawlen h size hp ts = (hp, ts, CEntryTooLarge).
Proof. intros Hle. unfold hs_put_gen. apply Nat.leb_le in Hle. rewrite Hle. reflexivity. Qed.

Theorem hs_put_entry_too_large (now : Z) (h : N) (e : entry) (size : nat) (hp : heap) (ts : list htable) :
  size <= length (encode_entry e) -> hs_put now h e size hp ts = (hp, ts, CEntryTooLarge).
Proof. intros Hle. unfold hs_put. apply hs_put_gen_too_large. exact Hle. Qed.

Theorem hs_put_raw_entry_too_large (h : N) (raw : list byte) (size : nat) (hp : heap) (ts : list htable) :
  size <= length raw -> hs_put_raw h raw size hp ts = (hp, ts, CEntryTooLarge).
Proof. intros Hle. unfold hs_put_raw. apply hs_put_gen_too_large. exact Hle. Qed.

Lemma on_last_key_too_large (f : btable -> bres) (hp : heap) (ts older : list htable) (t : htable) :
  rev ts = t :: older -> (forall bt, f bt = BKeyTooLarge) -> on_last f hp ts = Some (hp, ts, CKeyTooLarge).
Proof. intros Hrev Hf. unfold on_last. rewrite Hrev, Hf. reflexivity. Qed.

Lemma has_writable_last (ts : list htable) :
  has_writable ts = true -> exists older t, rev ts = t :: older /\ t_rec t = false.
Proof.
  unfold has_writable. destruct (rev ts) as [|t older]; [discriminate|].
  intros Hr. exists older, t. split; [reflexivity|]. destruct (t_rec t); [discriminate|reflexivity].
Qed.

(* makeTable always leaves a writable table at the end *)
Lemma make_table_last_writable (size : nat) (hp : heap) (ts : list htable) :
  exists older t, rev (snd (make_table size hp ts)) = t :: older /\ t_rec t = false.
Proof.
  unfold make_table. destruct (take_rec ts) as [[t rest]|].
  - cbn [snd]. rewrite rev_unit. eexists _, _. split; reflexivity.
  - unfold h_alloc. cbn [snd]. rewrite rev_unit. eexists _, _. split; reflexivity.
Qed.

Lemma make_table_last (size : nat) (hp : heap) (ts : list htable) :
  exists older t, rev (snd (make_table size hp ts)) = t :: older.
Proof.
  destruct (make_table_last_writable size hp ts) as (older & t & Hr & _). exists older, t. exact Hr.
Qed.

Lemma make_table_has_writable (size : nat) (hp : heap) (ts : list htable) :
  has_writable (snd (make_table size hp ts)) = true.
Proof.
  destruct (make_table_last_writable size hp ts) as (older & t & Hr & Hrec).
  unfold has_writable. rewrite Hr, Hrec. reflexivity.
Qed.

Lemma hs_put_gen_key_too_large (f : btable -> bres) (rawlen : nat) (h : N) (size : nat) (hp : heap) (ts : list htable) :
  rawlen < size -> (forall bt, f bt = BKeyTooLarge) -> has_writable ts = true ->
  hs_put_gen f rawlen h size hp ts = (hp, ts, CKeyTooLarge).
Proof.
  intros Hlt Hf Hw. unfold hs_put_gen. apply Nat.leb_gt in Hlt. rewrite Hlt, Hw.
  destruct (has_writable_last ts Hw) as (older & t & Hr & _).
  rewrite (on_last_key_too_large f hp ts older t Hr Hf). reflexivity.
Qed.

Lemma hs_put_gen_key_too_large_nowritable (f : btable -> bres) (rawlen : nat) (h : N) (size : nat) (hp : heap)
      (ts : list htable) :
  rawlen < size -> (forall bt, f bt = BKeyTooLarge) -> has_writable ts = false ->
  hs_put_gen f rawlen h size hp ts = (let '(hp0, ts0) := make_table size hp ts in (hp0, ts0, CKeyTooLarge)).
Proof.
  intros Hlt Hf Hw. unfold hs_put_gen. apply Nat.leb_gt in Hlt. rewrite Hlt, Hw.
  destruct (make_table_last size hp ts) as (older & t & Hr).
  destruct (make_table size hp ts) as [hp0 ts0]. cbn [snd] in Hr.
  rewrite (on_last_key_too_large f hp0 ts0 older t Hr Hf). reflexivity.
Qed.

Theorem hs_put_key_too_large (now : Z) (h : N) (e : entry) (size : nat) (hp : heap) (ts : list htable) :
  length (encode_entry e) < size -> (max_key_length <= N.of_nat (length (ekey e)))%N -> has_writable ts = true ->
  hs_put now h e size hp ts = (hp, ts, CKeyTooLarge).
Proof.
  intros Hlt Hk Hw. unfold hs_put. apply hs_put_gen_key_too_large; [exact Hlt| |exact Hw].
  intros bt. apply put_key_too_large. exact Hk.
Qed.

Theorem hs_put_key_too_large_nowritable (now : Z) (h : N) (e : entry) (size : nat) (hp : heap) (ts : list htable) :
  length (encode_entry e) < size -> (max_key_length <= N.of_nat (length (ekey e)))%N -> has_writable ts = false ->
  hs_put now h e size hp ts = (let '(hp0, ts0) := make_table size hp ts in (hp0, ts0, CKeyTooLarge)).
Proof.
  intros Hlt Hk Hw. unfold hs_put. apply hs_put_gen_key_too_large_nowritable; [exact Hlt| |exact Hw].
  intros bt. apply put_key_too_large. exact Hk.
Qed.

(* the prepared table is empty: nothing can be found in the store that could not be found before *)
Lemma make_table_find (size : nat) (hp : heap) (ts : list htable) (h : N) :
  (forall t, In t ts -> t_rec t = true -> b_idx (t_meta t) = []) ->
  forall hp0 ts0, make_table size hp ts = (hp0, ts0) ->
  exists t, rev ts0 = t :: rev (removelast ts0) /\ lookup h (b_idx (t_meta t)) = None.
Proof.
  intros Hrec hp0 ts0. unfold make_table. destruct (take_rec ts) as [[t rest]|] eqn:Htr.
  - intros Heq. injection Heq as <- <-. rewrite removelast_last, rev_unit. eexists. split; [reflexivity|].
    cbn [t_meta]. assert (Hin : In t ts /\ t_rec t = true).
    { clear Hrec. revert t rest Htr. induction ts as [|x ts IH]; intros t rest Htr; [discriminate|].
      cbn [take_rec] in Htr. destruct (t_rec x) eqn:Hx.
      - injection Htr as <- <-. split; [left; reflexivity|exact Hx].
      - destruct (take_rec ts) as [[y r']|]; [|discriminate]. injection Htr as <- <-.
        destruct (IH y r' eq_refl) as (Hin & Hy). split; [right; exact Hin|exact Hy]. }
    destruct Hin as (Hin & Ht). rewrite (Hrec t Hin Ht). reflexivity.
  - unfold h_alloc. intros Heq. injection Heq as <- <-. rewrite removelast_last, rev_unit.
    eexists. split; reflexivity.
Qed.

(* ------------------------------------ F. examples ------------------------------------------- *)
Definition unwrap (r : bres) : btable := match r with BOk t => t | _ => new_btable 0 end.

Definition ex_e1 : entry := {| ekey := [1;2;3]%N; ettl := 0%Z; ets := 100%Z; ela := 0%Z; evalue := [10;11]%N |}.
Definition ex_e2 : entry := {| ekey := [4]%N; ettl := (-1)%Z; ets := 101%Z; ela := 0%Z; evalue := [20;21;22]%N |}.
Definition ex_e1' : entry := {| ekey := [1;2;3]%N; ettl := 5%Z; ets := 102%Z; ela := 0%Z; evalue := [99]%N |}.

Definition ex_t0 : btable := new_btable 128.
Definition ex_t1 : btable := unwrap (b_put 7 1 ex_e1 ex_t0).
Definition ex_t2 : btable := unwrap (b_put 8 2 ex_e2 ex_t1).
Definition ex_t3 : btable := unwrap (b_put 9 1 ex_e1' ex_t2).

Lemma ex_wf_e1 : wf_entry ex_e1. Proof. apply wf_entryb_spec. vm_compute. reflexivity. Qed.
Lemma ex_wf_e2 : wf_entry ex_e2. Proof. apply wf_entryb_spec. vm_compute. reflexivity. Qed.
Lemma ex_wf_e1' : wf_entry ex_e1'. Proof. apply wf_entryb_spec. vm_compute. reflexivity. Qed.

Example ex_puts_ok :
  b_put 7 1 ex_e1 ex_t0 = BOk ex_t1 /\ b_put 8 2 ex_e2 ex_t1 = BOk ex_t2 /\ b_put 9 1 ex_e1' ex_t2 = BOk ex_t3.
Proof. vm_compute. repeat split; reflexivity. Qed.

Example ex_t3_bwf : bwf ex_t3.
Proof.
  destruct ex_puts_ok as (H1 & H2 & H3).
  pose proof (bwf_put 7 1 ex_e1 ex_t0 ex_t1 (bwf_new 128) ex_wf_e1 eq_refl H1) as W1.
  pose proof (bwf_put 8 2 ex_e2 ex_t1 ex_t2 W1 ex_wf_e2 eq_refl H2) as W2.
  exact (bwf_put 9 1 ex_e1' ex_t2 ex_t3 W2 ex_wf_e1' eq_refl H3).
Qed.

(* two puts and an overwrite: the overwritten key returns the new entry, the other key its own, a third none;
   the first version of key 1 has become garbage (34 = 3 + 2 + 29 bytes) *)
Example ex_t3_gets :
  b_get 1 ex_t3 = Some (set_la 9 ex_e1') /\ b_get 2 ex_t3 = Some (set_la 8 ex_e2) /\ b_get 3 ex_t3 = None /\
  b_get 1 ex_t2 = Some (set_la 7 ex_e1) /\
  b_get_raw 2 ex_t3 = Some (encode_entry (set_la 8 ex_e2)) /\
  b_off ex_t3 = 34 + 33 + 33 /\ b_garb ex_t3 = 34 /\ b_inuse ex_t3 = 33 + 33.
Proof. vm_compute. repeat split; reflexivity. Qed.

Example ex_t3_delete : b_get 1 (b_delete 1 ex_t3) = None /\ b_get 2 (b_delete 1 ex_t3) = Some (set_la 8 ex_e2).
Proof. vm_compute. split; reflexivity. Qed.

(* a fourth entry of 34 bytes does not fit any more: 128 <= 34 + 100 *)
Example ex_t3_full : b_put 10 5 ex_e1 ex_t3 = BNoSpace.
Proof. vm_compute. reflexivity. Qed.

(* a 256-byte key is rejected, a 255-byte key is accepted and read back *)
Example ex_key256_rejected :
  b_put 0 1 {| ekey := repeat 1%N 256; ettl := 0; ets := 0; ela := 0; evalue := [] |} (new_btable 1024) = BKeyTooLarge.
Proof. vm_compute. reflexivity. Qed.

Example ex_key255_accepted :
  let e := {| ekey := repeat 1%N 255; ettl := 0%Z; ets := 0%Z; ela := 0%Z; evalue := [] |} in
  b_get 1 (unwrap (b_put 0 1 e (new_btable 1024))) = Some e.
Proof. vm_compute. reflexivity. Qed.

(* store level, table size 64: an entry of exactly 64 bytes is rejected and nothing is allocated,
   an entry of 63 bytes is accepted and found again *)
Definition ex_big : entry := {| ekey := [1;2;3]%N; ettl := 0%Z; ets := 0%Z; ela := 0%Z; evalue := repeat 7%N 32 |}.
Definition ex_fit : entry := {| ekey := [1;2;3]%N; ettl := 0%Z; ets := 0%Z; ela := 0%Z; evalue := repeat 7%N 31 |}.

Example ex_store_size_rejected :
  length (encode_entry ex_big) = 64 /\ hs_put 0 1 ex_big 64 [] [] = ([], [], CEntryTooLarge).
Proof. vm_compute. split; reflexivity. Qed.

Example ex_store_size_accepted :
  length (encode_entry ex_fit) = 63 /\
  (let '(hp, ts, c) := hs_put 0 1 ex_fit 64 [] [] in
   c = CNil /\ length ts = 1 /\ hs_find 1 hp ts = Some ex_fit).
Proof. vm_compute. repeat split; reflexivity. Qed.

Example ex_store_raw_size :
  hs_put_raw 1 (encode_entry ex_big) 64 [] [] = ([], [], CEntryTooLarge) /\
  snd (hs_put_raw 1 (encode_entry ex_fit) 64 [] []) = CNil.
Proof. vm_compute. split; reflexivity. Qed.

(* a 256-byte key at the store level: only an empty table was prepared *)
Example ex_store_key_rejected :
  let e := {| ekey := repeat 1%N 256; ettl := 0%Z; ets := 0%Z; ela := 0%Z; evalue := [] |} in
  let '(hp, ts, c) := hs_put 0 1 e 1024 [] [] in
  c = CKeyTooLarge /\ length ts = 1 /\ hs_find 1 hp ts = None.
Proof. vm_compute. repeat split; reflexivity. Qed.

Print Assumptions get_put_eq.
Print Assumptions get_put_raw_neq.
Print Assumptions bwf_put.
Print Assumptions hs_put_key_too_large_nowritable.
