(* Proofs about the scalar text codec model (Model/Resp.v): decimal printing and parsing are inverse on
   the representable range, out-of-range and malformed text is rejected, and the typed Encode/Scan layer
   round-trips every value of every modelled type (and across integer types exactly when the value fits). *)
From Coq Require Import List NArith ZArith Lia Bool.
From Coq Require Import ZifyN ZifyNat ZifyBool.
Require Import Olric.Model.Codec Olric.Model.Resp.
Import ListNotations.
Ltac Zify.zify_post_hook ::= Z.div_mod_to_equations.
Local Open Scope N_scope.

Local Notation digits := (Forall (fun b : N => 48 <= b /\ b <= 57)).

(* ---- single digits ---- *)
Lemma digit_some b d : digit b = Some d -> 48 <= b /\ b <= 57 /\ d = b - 48.
Proof.
  unfold digit. destruct (N.leb_spec 48 b) as [H1|H1]; destruct (N.leb_spec b 57) as [H2|H2];
    cbn [andb]; intros H; inversion H; lia.
Qed.

Lemma digit_of n : n < 10 -> digit (48 + n) = Some n.
Proof.
  intros Hn. unfold digit. destruct (N.leb_spec 48 (48 + n)) as [H1|H1]; [|lia].
  destruct (N.leb_spec (48 + n) 57) as [H2|H2]; [|lia]. cbn [andb]. f_equal. lia.
Qed.

Lemma digit_none b : ~ (48 <= b /\ b <= 57) -> digit b = None.
Proof.
  intros Hb. unfold digit. destruct (N.leb_spec 48 b) as [H1|H1]; destruct (N.leb_spec b 57) as [H2|H2];
    cbn [andb]; try reflexivity. lia.
Qed.

(* ---- the key lemma: what dec_fuel prepends parses back to the number ---- *)
Lemma dec_fuel_spec : forall f n acc, (0 < f)%nat -> n < 2 ^ N.of_nat f ->
  exists ds p, dec_fuel f n acc = ds ++ acc /\ ds <> [] /\ digits ds /\
    forall a r, parse_digits a (ds ++ r) = parse_digits (a * p + n) r.
Proof.
  induction f as [|f IH]; intros n acc Hf Hn; [lia|].
  cbn [dec_fuel].
  pose proof (N.mod_lt n 10 ltac:(lia)) as Hm.
  destruct (N.ltb_spec n 10) as [Hlt|Hge].
  - exists [48 + n], 10. rewrite N.mod_small by exact Hlt.
    split; [reflexivity|]. split; [discriminate|]. split.
    + constructor; [lia|constructor].
    + intros a r. cbn [app parse_digits]. rewrite digit_of by exact Hlt. reflexivity.
  - assert (Hf' : (0 < f)%nat). { destruct f; [cbn in Hn; lia|lia]. }
    rewrite Nat2N.inj_succ, N.pow_succ_r' in Hn.
    assert (Hq : n / 10 < 2 ^ N.of_nat f) by lia.
    destruct (IH (n / 10) ((48 + n mod 10) :: acc) Hf' Hq) as (ds & p & He & Hne & Hd & Hp).
    exists (ds ++ [48 + n mod 10]), (p * 10). split.
    + rewrite He, <- app_assoc. reflexivity.
    + split. { intros H. apply app_eq_nil in H. destruct H as [_ H]. discriminate H. }
      split. { apply Forall_app. split; [exact Hd|]. constructor; [lia|constructor]. }
      intros a r. rewrite <- app_assoc, Hp. cbn [app parse_digits]. rewrite digit_of by exact Hm.
      f_equal. nia.
Qed.

Lemma dec_fuel_ok n : n < 2 ^ N.of_nat (S (N.to_nat (N.log2 n))).
Proof.
  rewrite Nat2N.inj_succ, N2Nat.id. destruct n as [|q]; [cbn; lia|].
  apply N.log2_spec. lia.
Qed.

Lemma dec_spec n : dec n <> [] /\ digits (dec n) /\
  exists p, forall a r, parse_digits a (dec n ++ r) = parse_digits (a * p + n) r.
Proof.
  unfold dec.
  destruct (dec_fuel_spec (S (N.to_nat (N.log2 n))) n [] ltac:(lia) (dec_fuel_ok n))
    as (ds & p & He & Hne & Hd & Hp).
  rewrite He, app_nil_r. split; [exact Hne|]. split; [exact Hd|]. exists p. exact Hp.
Qed.

Lemma parse_unsigned_nonempty l : l <> [] -> parse_unsigned l = parse_digits 0 l.
Proof. destruct l; [congruence|reflexivity]. Qed.

(* 1 *)
Theorem dec_digits : forall n, dec n <> [] /\ Forall (fun b => 48 <= b /\ b <= 57) (dec n).
Proof. intros n. destruct (dec_spec n) as (H1 & H2 & _). split; assumption. Qed.

Theorem parse_dec : forall n, parse_unsigned (dec n) = Some n.
Proof.
  intros n. destruct (dec_spec n) as (Hne & _ & p & Hp).
  rewrite parse_unsigned_nonempty by exact Hne.
  specialize (Hp 0 []). rewrite app_nil_r in Hp. rewrite Hp. reflexivity.
Qed.

Lemma dec_head n : exists b r, dec n = b :: r /\ 48 <= b /\ b <= 57.
Proof.
  destruct (dec_digits n) as [Hne Hd]. destruct (dec n) as [|b r]; [congruence|].
  exists b, r. split; [reflexivity|]. inversion Hd; assumption.
Qed.

(* 2 *)
Theorem uint_roundtrip : forall bits n, n < 2 ^ bits -> parse_uint bits (enc_uint n) = Some n.
Proof.
  intros bits n Hn. unfold parse_uint, enc_uint. rewrite parse_dec.
  destruct (N.ltb_spec n (2 ^ bits)); [reflexivity|lia].
Qed.

Theorem uint_out_of_range : forall bits n, 2 ^ bits <= n -> parse_uint bits (enc_uint n) = None.
Proof.
  intros bits n Hn. unfold parse_uint, enc_uint. rewrite parse_dec.
  destruct (N.ltb_spec n (2 ^ bits)); [lia|reflexivity].
Qed.

Theorem parse_uint_sound : forall bits l n, parse_uint bits l = Some n -> n < 2 ^ bits.
Proof.
  intros bits l n. unfold parse_uint. destruct (parse_unsigned l) as [m|]; [|discriminate].
  destruct (N.ltb_spec m (2 ^ bits)) as [H|H]; intros E; inversion E; subst; exact H.
Qed.

(* ---- N powers vs Z powers ---- *)
Lemma pow2_N2Z bits : Z.of_N (2 ^ bits) = (2 ^ Z.of_N bits)%Z.
Proof. exact (N2Z.inj_pow 2 bits). Qed.

Lemma pow2m1_N2Z bits : 0 < bits -> Z.of_N (2 ^ (bits - 1)) = (2 ^ (Z.of_N bits - 1))%Z.
Proof. intros Hb. rewrite pow2_N2Z, N2Z.inj_sub by lia. reflexivity. Qed.

(* ---- parse_int on the two shapes of input ---- *)
Lemma parse_int_minus bits r :
  parse_int bits (45 :: r) =
  match parse_unsigned r with
  | Some n => if n <=? 2 ^ (bits - 1) then Some (- Z.of_N n)%Z else None
  | None => None
  end.
Proof. reflexivity. Qed.

Lemma parse_int_digit bits (b : byte) (r : text) : 48 <= b /\ b <= 57 ->
  parse_int bits (b :: r) =
  match parse_unsigned (b :: r) with
  | Some n => if n <? 2 ^ (bits - 1) then Some (Z.of_N n) else None
  | None => None
  end.
Proof.
  intros Hb. cbn [parse_int].
  destruct (N.eqb_spec b 45) as [E|_]; [lia|]. destruct (N.eqb_spec b 43) as [E|_]; [lia|]. reflexivity.
Qed.

Lemma parse_int_enc_int_N bits z :
  parse_int bits (enc_int z) =
  if ((- Z.of_N (2 ^ (bits - 1)) <=? z) && (z <? Z.of_N (2 ^ (bits - 1))))%Z then Some z else None.
Proof.
  unfold enc_int. destruct (Z.ltb_spec z 0) as [Hz|Hz].
  - rewrite parse_int_minus, parse_dec. generalize (2 ^ (bits - 1)). intros P.
    destruct (N.leb_spec (Z.to_N (- z)) P) as [H|H];
      destruct (Z.leb_spec (- Z.of_N P) z) as [H1|H1]; destruct (Z.ltb_spec z (Z.of_N P)) as [H2|H2];
      cbn [andb]; try lia; try reflexivity. f_equal. lia.
  - destruct (dec_head (Z.to_N z)) as (b & r & E & Hb).
    rewrite E, parse_int_digit by exact Hb. rewrite <- E, parse_dec. generalize (2 ^ (bits - 1)). intros P.
    destruct (N.ltb_spec (Z.to_N z) P) as [H|H];
      destruct (Z.leb_spec (- Z.of_N P) z) as [H1|H1]; destruct (Z.ltb_spec z (Z.of_N P)) as [H2|H2];
      cbn [andb]; try lia; try reflexivity. f_equal. lia.
Qed.

Lemma parse_int_enc_int bits z : 0 < bits ->
  parse_int bits (enc_int z) =
  if ((- 2 ^ (Z.of_N bits - 1) <=? z) && (z <? 2 ^ (Z.of_N bits - 1)))%Z then Some z else None.
Proof. intros Hb. rewrite parse_int_enc_int_N, pow2m1_N2Z by exact Hb. reflexivity. Qed.

(* 3 *)
Theorem int_roundtrip : forall bits z, 0 < bits ->
  (- 2 ^ (Z.of_N bits - 1) <= z < 2 ^ (Z.of_N bits - 1))%Z -> parse_int bits (enc_int z) = Some z.
Proof.
  intros bits z Hb [H1 H2]. rewrite parse_int_enc_int by exact Hb.
  apply Z.leb_le in H1. apply Z.ltb_lt in H2. rewrite H1, H2. reflexivity.
Qed.

Theorem int_out_of_range : forall bits z, 0 < bits ->
  (z < - 2 ^ (Z.of_N bits - 1) \/ 2 ^ (Z.of_N bits - 1) <= z)%Z -> parse_int bits (enc_int z) = None.
Proof.
  intros bits z Hb H. rewrite parse_int_enc_int by exact Hb.
  destruct H as [H|H].
  - apply Z.leb_gt in H. rewrite H. reflexivity.
  - apply Z.ltb_ge in H. rewrite H, andb_false_r. reflexivity.
Qed.

Theorem parse_int_sound : forall bits l z, 0 < bits -> parse_int bits l = Some z ->
  (- 2 ^ (Z.of_N bits - 1) <= z < 2 ^ (Z.of_N bits - 1))%Z.
Proof.
  intros bits l z Hb. rewrite <- (pow2m1_N2Z bits Hb). unfold parse_int.
  assert (HP : 0 < 2 ^ (bits - 1)). { apply N.neq_0_lt_0, N.pow_nonzero. lia. }
  revert HP. generalize (2 ^ (bits - 1)). intros P HP.
  destruct l as [|b r]; [discriminate|].
  destruct (b =? 45).
  - destruct (parse_unsigned r) as [n|]; [|discriminate].
    destruct (N.leb_spec n P) as [H|H]; intros E; inversion E; subst. lia.
  - destruct (parse_unsigned (if b =? 43 then r else b :: r)) as [n|]; [|discriminate].
    destruct (N.ltb_spec n P) as [H|H]; intros E; inversion E; subst. lia.
Qed.

(* 4: malformed text is rejected *)
Lemma parse_digits_wellformed : forall l acc n, parse_digits acc l = Some n -> digits l.
Proof.
  induction l as [|b r IH]; intros acc n H; [constructor|].
  cbn [parse_digits] in H. destruct (digit b) as [d|] eqn:Ed; [|discriminate].
  apply digit_some in Ed. constructor; [lia|]. exact (IH _ _ H).
Qed.

Theorem parse_unsigned_wellformed : forall l n, parse_unsigned l = Some n ->
  l <> [] /\ Forall (fun b => 48 <= b /\ b <= 57) l.
Proof.
  intros l n H. destruct l as [|b r]; [discriminate|]. split; [discriminate|].
  exact (parse_digits_wellformed _ _ _ H).
Qed.

Theorem parse_uint_wellformed : forall bits l n, parse_uint bits l = Some n ->
  l <> [] /\ Forall (fun b => 48 <= b /\ b <= 57) l.
Proof.
  intros bits l n. unfold parse_uint. destruct (parse_unsigned l) as [m|] eqn:E; [|discriminate].
  intros _. exact (parse_unsigned_wellformed _ _ E).
Qed.

Theorem parse_int_wellformed : forall bits l z, parse_int bits l = Some z ->
  exists s ds, l = s ++ ds /\ (s = [] \/ s = [43] \/ s = [45]) /\ ds <> [] /\
               Forall (fun b => 48 <= b /\ b <= 57) ds.
Proof.
  intros bits l z. unfold parse_int. destruct l as [|b r]; [discriminate|].
  destruct (N.eqb_spec b 45) as [E45|_].
  - subst b. destruct (parse_unsigned r) as [n|] eqn:E; [|discriminate]. intros _.
    apply parse_unsigned_wellformed in E. exists [45], r. split; [reflexivity|]. split; [tauto|exact E].
  - destruct (N.eqb_spec b 43) as [E43|_].
    + subst b. destruct (parse_unsigned r) as [n|] eqn:E; [|discriminate]. intros _.
      apply parse_unsigned_wellformed in E. exists [43], r. split; [reflexivity|]. split; [tauto|exact E].
    + destruct (parse_unsigned (b :: r)) as [n|] eqn:E; [|discriminate]. intros _.
      apply parse_unsigned_wellformed in E. exists [], (b :: r). split; [reflexivity|]. split; [tauto|exact E].
Qed.

(* ---- 5: the typed layer ---- *)
Lemma bits_pos t : 0 < bits t.
Proof. destruct t; cbn [bits]; lia. Qed.

Lemma scan_signed t l : is_signed t = true -> scan t l = option_map GI (parse_int (bits t) l).
Proof. destruct t; intros H; try discriminate H; reflexivity. Qed.

Lemma scan_unsigned t l : is_unsigned t = true ->
  scan t l = option_map (fun n => GI (Z.of_N n)) (parse_uint (bits t) l).
Proof. destruct t; intros H; try discriminate H; reflexivity. Qed.

Lemma signed_not_unsigned t : is_signed t = true -> is_unsigned t = false.
Proof. destruct t; intros H; try discriminate H; reflexivity. Qed.

Lemma parse_unsigned_minus r : parse_unsigned (45 :: r) = None.
Proof. reflexivity. Qed.

Lemma parse_uint_enc_int bits z :
  parse_uint bits (enc_int z) =
  if ((0 <=? z) && (z <? 2 ^ Z.of_N bits))%Z then Some (Z.to_N z) else None.
Proof.
  rewrite <- pow2_N2Z. unfold parse_uint, enc_int. destruct (Z.ltb_spec z 0) as [Hz|Hz].
  - rewrite parse_unsigned_minus. destruct (Z.leb_spec 0 z) as [H|H]; [lia|reflexivity].
  - rewrite parse_dec. generalize (2 ^ bits). intros P.
    destruct (N.ltb_spec (Z.to_N z) P) as [H|H];
      destruct (Z.leb_spec 0 z) as [H1|H1]; destruct (Z.ltb_spec z (Z.of_N P)) as [H2|H2];
      cbn [andb]; try lia; reflexivity.
Qed.

(* reading the text of any integer into any integer type: returned exactly when it fits *)
Lemma scan_enc_int t z : (is_signed t || is_unsigned t) = true ->
  scan t (enc_int z) = if in_range t z then Some (GI z) else None.
Proof.
  intros Ht. unfold in_range. destruct (is_signed t) eqn:Hs.
  - rewrite scan_signed by exact Hs. rewrite parse_int_enc_int by apply bits_pos.
    destruct ((- 2 ^ (Z.of_N (bits t) - 1) <=? z) && (z <? 2 ^ (Z.of_N (bits t) - 1)))%Z; reflexivity.
  - cbn [orb] in Ht. rewrite scan_unsigned by exact Ht. rewrite parse_uint_enc_int.
    destruct (Z.leb_spec 0 z) as [H1|H1]; cbn [andb]; [|reflexivity].
    destruct (z <? 2 ^ Z.of_N (bits t))%Z; cbn [option_map]; [|reflexivity].
    f_equal. f_equal. lia.
Qed.

Lemma encode_int t z : (is_signed t || is_unsigned t) = true -> in_range t z = true ->
  encode t (GI z) = enc_int z.
Proof.
  intros Ht. unfold in_range, encode. destruct (is_signed t) eqn:Hs; [reflexivity|].
  intros Hr. apply andb_true_iff in Hr. destruct Hr as [H1 _]. apply Z.leb_le in H1.
  unfold enc_uint, enc_int. destruct (Z.ltb_spec z 0) as [Hz|Hz]; [lia|reflexivity].
Qed.

Theorem scan_encode_cross : forall t1 t2 z,
  (is_signed t1 || is_unsigned t1) = true -> (is_signed t2 || is_unsigned t2) = true ->
  in_range t1 z = true ->
  scan t2 (encode t1 (GI z)) = (if in_range t2 z then Some (GI z) else None).
Proof.
  intros t1 t2 z H1 H2 Hr. rewrite encode_int by assumption. apply scan_enc_int. exact H2.
Qed.

Theorem scan_encode : forall t v, has_type t v = true -> scan t (encode t v) = Some v.
Proof.
  intros t v H. destruct v as [z|b|l].
  - assert (H' : (is_signed t || is_unsigned t) && in_range t z = true) by (destruct t; exact H).
    apply andb_true_iff in H'. destruct H' as [Ht Hr].
    rewrite scan_encode_cross by assumption. rewrite Hr. reflexivity.
  - destruct t; try discriminate H. destruct b; reflexivity.
  - destruct t; try discriminate H; reflexivity.
Qed.

Theorem scan_in_range : forall t l z, (is_signed t || is_unsigned t) = true ->
  scan t l = Some (GI z) -> in_range t z = true.
Proof.
  intros t l z Ht. unfold in_range. destruct (is_signed t) eqn:Hs.
  - rewrite scan_signed by exact Hs. destruct (parse_int (bits t) l) as [y|] eqn:E; [|discriminate].
    cbn [option_map]. intros Ey. inversion Ey; subst y.
    apply parse_int_sound in E; [|apply bits_pos]. destruct E as [E1 E2].
    apply andb_true_iff. split; [apply Z.leb_le|apply Z.ltb_lt]; assumption.
  - cbn [orb] in Ht. rewrite scan_unsigned by exact Ht.
    destruct (parse_uint (bits t) l) as [n|] eqn:E; [|discriminate].
    cbn [option_map]. intros Ey. inversion Ey; subst z.
    apply parse_uint_sound in E. rewrite <- pow2_N2Z.
    apply andb_true_iff. split; [apply Z.leb_le|apply Z.ltb_lt]; lia.
Qed.

Theorem scan_bool_total : forall l, exists b, scan TBool l = Some (GB b).
Proof. intros l. eexists. reflexivity. Qed.

Theorem scan_bool_true : forall l, scan TBool l = Some (GB true) <-> l = [49].
Proof.
  intros l. cbn [scan]. split.
  - intros H. destruct l as [|b [|c r]]; try discriminate H.
    destruct (N.eqb_spec b 49) as [E|E]; [subst; reflexivity|discriminate H].
  - intros ->. reflexivity.
Qed.

Theorem scan_bytes_identity : forall l,
  scan TBytes l = Some (GT l) /\ scan TString l = Some (GT l) /\
  encode TBytes (GT l) = l /\ encode TString (GT l) = l.
Proof. intros l. repeat split. Qed.

Theorem duration_roundtrip : forall z, (- 2 ^ 63 <= z < 2 ^ 63)%Z ->
  scan TDuration (encode TDuration (GI z)) = Some (GI z).
Proof.
  intros z [H1 H2]. apply scan_encode. unfold has_type, in_range.
  cbn [is_signed is_unsigned bits orb andb]. change (Z.of_N 64 - 1)%Z with 63%Z.
  apply andb_true_iff. split; [apply Z.leb_le|apply Z.ltb_lt]; assumption.
Qed.

(* ---- 6: non-vacuity / sharpness ---- *)
Example ex_int16_into_int8 : scan TInt8 (encode TInt16 (GI 128)) = None.
Proof. vm_compute. reflexivity. Qed.
Example ex_int16_into_int8_fits : scan TInt8 (encode TInt16 (GI (-128))) = Some (GI (-128)).
Proof. vm_compute. reflexivity. Qed.
Example ex_minint64 :
  scan TInt64 (encode TInt64 (GI (-9223372036854775808))) = Some (GI (-9223372036854775808)).
Proof. vm_compute. reflexivity. Qed.
Example ex_maxuint64 :
  scan TUint64 (encode TUint64 (GI 18446744073709551615)) = Some (GI 18446744073709551615).
Proof. vm_compute. reflexivity. Qed.
Example ex_maxuint64_into_int64 : scan TInt64 (encode TUint64 (GI 18446744073709551615)) = None.
Proof. vm_compute. reflexivity. Qed.
Example ex_negative_into_uint : scan TUint8 (encode TInt8 (GI (-1))) = None.
Proof. vm_compute. reflexivity. Qed.
Example ex_lone_minus : parse_int 8 [45] = None.
Proof. vm_compute. reflexivity. Qed.
Example ex_plus_leading_zeros : parse_int 8 [43; 48; 48; 55] = Some 7%Z.
Proof. vm_compute. reflexivity. Qed.
Example ex_minus_zero : parse_int 8 [45; 48] = Some 0%Z.
Proof. vm_compute. reflexivity. Qed.
Example ex_uint_plus_rejected : parse_uint 8 [43; 55] = None.
Proof. vm_compute. reflexivity. Qed.
Example ex_uint8_256 : parse_uint 8 (enc_uint 256) = None.
Proof. vm_compute. reflexivity. Qed.
Example ex_dec_1234 : dec 1234 = [49; 50; 51; 52].
Proof. vm_compute. reflexivity. Qed.
(* bits = 0 is why int_roundtrip needs 0 < bits: N subtraction truncates, so the bound would be 2^0 *)
Example ex_bits0 : parse_int 0 (enc_int 0) = Some 0%Z.
Proof. vm_compute. reflexivity. Qed.

Print Assumptions scan_encode.
Print Assumptions scan_encode_cross.
Print Assumptions int_roundtrip.
Print Assumptions int_out_of_range.
