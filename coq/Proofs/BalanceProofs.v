(* Proofs about Model/Balance.v: the hand-over of one partition's data after joins (C03).
   [Good s m]  : the holders [s] agree with the reference map [m] (last acknowledged entry per key);
   [WF s]      : every holder stores each key at most once;
   both are preserved by every [bstep] (Puts with fresh timestamps), a read resolves to [m] in every Good state,
   moves decrease the amount of misplaced data, and once nothing is misplaced every live key sits on the primary. *)
From Coq Require Import List NArith ZArith Bool Lia.
From Coq Require Import ZifyN ZifyNat ZifyBool.
Require Import Olric.Model.Balance.
Import ListNotations.
Local Open Scope Z_scope.

Ltac nb := repeat match goal with
  | H : N.eqb _ _ = true |- _ => apply N.eqb_eq in H
  | H : N.eqb _ _ = false |- _ => apply N.eqb_neq in H
  end.

(* ------------------------------------------------------------------------------------------------ *)
(* fragments                                                                                          *)

Lemma flookup_fremove : forall k k' f,
  flookup k' (fremove k f) = if N.eqb k' k then None else flookup k' f.
Proof.
  intros k k' f. induction f as [|[k0 e0] f IH]; cbn [fremove flookup].
  - destruct (N.eqb k' k); reflexivity.
  - destruct (N.eqb k k0) eqn:E0; cbn [flookup].
    + rewrite IH. destruct (N.eqb k' k) eqn:E1; destruct (N.eqb k' k0) eqn:E2; try reflexivity.
      nb. subst. congruence.
    + destruct (N.eqb k' k0) eqn:E2; [|exact IH].
      destruct (N.eqb k' k) eqn:E1; [|reflexivity]. nb. subst. congruence.
Qed.

Lemma flookup_finsert : forall k e k' f,
  flookup k' (finsert k e f) = if N.eqb k' k then Some e else flookup k' f.
Proof.
  intros k e k' f. unfold finsert. cbn [flookup]. rewrite flookup_fremove.
  destruct (N.eqb k' k); reflexivity.
Qed.

Lemma flookup_merge1 : forall k inc k' f,
  flookup k' (merge1 k inc f) = if N.eqb k' k then newer (flookup k f) inc else flookup k' f.
Proof.
  intros k inc k' f. unfold merge1, newer.
  destruct (flookup k f) as [cur|] eqn:Ef.
  - destruct (snd cur <=? snd inc) eqn:Ec.
    + rewrite flookup_finsert. destruct (N.eqb k' k); reflexivity.
    + destruct (N.eqb k' k) eqn:E; [|reflexivity]. nb. subst k'. exact Ef.
  - rewrite flookup_finsert. destruct (N.eqb k' k); reflexivity.
Qed.

Lemma newer_idem : forall o e, newer (newer o e) e = newer o e.
Proof.
  intros o e. unfold newer. destruct o as [a|].
  - destruct (snd a <=? snd e) eqn:E.
    + rewrite Z.leb_refl. reflexivity.
    + rewrite E. reflexivity.
  - rewrite Z.leb_refl. reflexivity.
Qed.

(* the two folds of a move, named *)
Definition mergef (acc : frag) (ke : N * ent) : frag := merge1 (fst ke) (snd ke) acc.
Definition dropf (acc : frag) (k : N) : frag := fremove k acc.
Definition movedof (src : frag) (ks : list N) : list (N * ent) :=
  flat_map (fun k => match flookup k src with Some e => [(k, e)] | None => [] end) ks.

Lemma flookup_fold_fremove : forall ks k' f,
  flookup k' (fold_left (fun acc k => fremove k acc) ks f) =
  if existsb (N.eqb k') ks then None else flookup k' f.
Proof.
  induction ks as [|k ks IH]; intros k' f; cbn [fold_left existsb].
  - reflexivity.
  - rewrite IH, flookup_fremove. destruct (N.eqb k' k); cbn [orb]; [|reflexivity].
    destruct (existsb (N.eqb k') ks); reflexivity.
Qed.

Lemma flookup_fold_merge : forall src ks k' p,
  flookup k' (fold_left (fun acc ke => merge1 (fst ke) (snd ke) acc) (movedof src ks) p) =
  match flookup k' src with
  | Some e => if existsb (N.eqb k') ks then newer (flookup k' p) e else flookup k' p
  | None => flookup k' p
  end.
Proof.
  intros src ks k'. induction ks as [|k ks IH]; intro p; cbn [movedof flat_map existsb fold_left].
  - destruct (flookup k' src); reflexivity.
  - rewrite fold_left_app. fold (movedof src ks).
    destruct (flookup k src) as [e|] eqn:Es; cbn [fold_left].
    + rewrite IH. cbn [fst snd]. rewrite flookup_merge1.
      destruct (N.eqb k' k) eqn:E; cbn [orb].
      * nb. subst k'. rewrite Es. rewrite newer_idem. destruct (existsb (N.eqb k) ks); reflexivity.
      * reflexivity.
    + rewrite IH. destruct (N.eqb k' k) eqn:E; cbn [orb]; [|reflexivity].
      nb. subst k'. rewrite Es. reflexivity.
Qed.

Lemma movedof_nil : forall ks, movedof [] ks = [].
Proof. induction ks as [|k ks IH]; [reflexivity|]. cbn [movedof flat_map flookup app]. exact IH. Qed.

(* ------------------------------------------------------------------------------------------------ *)
(* positions                                                                                          *)

Lemma update_nth_split : forall g i l, (i < length l)%nat ->
  exists l1 l2, l = l1 ++ nth i l [] :: l2 /\ update_nth i g l = l1 ++ g (nth i l []) :: l2.
Proof.
  intros g. induction i as [|i IH]; intros [|f l] H; cbn [length] in H; try lia.
  - exists [], l. split; reflexivity.
  - destruct (IH l) as [l1 [l2 [E1 E2]]]; [lia|].
    exists (f :: l1), l2. cbn [nth update_nth app]. split; [f_equal; exact E1|rewrite E2; reflexivity].
Qed.

Lemma update_nth_out : forall g i l, (length l <= i)%nat -> update_nth i g l = l /\ nth i l [] = [].
Proof.
  intros g i l H. split; [|apply nth_overflow; exact H].
  revert i H. induction l as [|f l IH]; intros i H; [destruct i; reflexivity|].
  destruct i as [|i]; cbn [length] in H; [lia|]. cbn [update_nth]. rewrite IH; [reflexivity|lia].
Qed.

Lemma In_update_nth : forall g i l f,
  In f (update_nth i g l) -> In f l \/ exists f0, In f0 l /\ f = g f0.
Proof.
  intros g i l. revert i. induction l as [|f0 l IH]; intros i f H; [destruct i; destruct H|].
  destruct i as [|i]; cbn [update_nth] in H; destruct H as [H|H].
  - right. exists f0. split; [left; reflexivity|symmetry; exact H].
  - left. right. exact H.
  - left. left. exact H.
  - destruct (IH i f H) as [H1|[f1 [H1 H2]]].
    + left. right. exact H1.
    + right. exists f1. split; [right; exact H1|exact H2].
Qed.

Lemma bstep_move_nil : forall i ks, bstep [] (BMove (S i) ks) = [[]].
Proof.
  intros i ks. cbn [bstep nth on_primary].
  change (flat_map (fun k => match flookup k [] with Some e => [(k, e)] | None => [] end) ks) with (movedof [] ks).
  rewrite movedof_nil. cbn [fold_left update_nth]. destruct i; reflexivity.
Qed.

Lemma bstep_move_cons : forall p prev i ks,
  bstep (p :: prev) (BMove (S i) ks) =
  fold_left (fun acc ke => merge1 (fst ke) (snd ke) acc) (movedof (nth i prev []) ks) p
    :: update_nth i (fun f => fold_left (fun acc k => fremove k acc) ks f) prev.
Proof. reflexivity. Qed.

Lemma move_shape : forall p prev i ks, (i < length prev)%nat ->
  exists l1 src l2, prev = l1 ++ src :: l2 /\
    bstep (p :: prev) (BMove (S i) ks) =
    fold_left (fun acc ke => merge1 (fst ke) (snd ke) acc) (movedof src ks) p
      :: l1 ++ fold_left (fun acc k => fremove k acc) ks src :: l2.
Proof.
  intros p prev i ks Hi.
  destruct (update_nth_split (fun f => fold_left (fun acc k => fremove k acc) ks f) i prev Hi) as [l1 [l2 [E1 E2]]].
  exists l1, (nth i prev []), l2. split; [exact E1|]. rewrite bstep_move_cons, E2. reflexivity.
Qed.

(* ------------------------------------------------------------------------------------------------ *)
(* copies of a key                                                                                    *)

Definition cpo (o : option ent) : list ent := match o with Some e => [e] | None => [] end.
Definition cp (k : N) (f : frag) : list ent := cpo (flookup k f).

Lemma copies_cons : forall k f s, copies k (f :: s) = cp k f ++ copies k s.
Proof. reflexivity. Qed.

Lemma copies_app : forall k a b, copies k (a ++ b) = copies k a ++ copies k b.
Proof. intros k a b. unfold copies. apply flat_map_app. Qed.

Lemma In_cpo : forall c o, In c (cpo o) <-> o = Some c.
Proof.
  intros c [e|]; cbn [cpo In]; split; intro H.
  - destruct H as [H|[]]. subst. reflexivity.
  - left. congruence.
  - destruct H.
  - discriminate.
Qed.

Lemma In_copies : forall c k s, In c (copies k s) <-> exists f, In f s /\ flookup k f = Some c.
Proof.
  intros c k s. unfold copies. rewrite in_flat_map. split; intros [f [Hf Hc]]; exists f; (split; [exact Hf|]).
  - apply (In_cpo c (flookup k f)). exact Hc.
  - apply (In_cpo c (flookup k f)). exact Hc.
Qed.

(* ------------------------------------------------------------------------------------------------ *)
(* the invariant                                                                                      *)

(* a deleted / never written key has no copy anywhere; a live key has its last acknowledged entry somewhere, and
   every other copy still lying around is strictly older *)
Definition Good (s : sys) (m : smap) : Prop :=
  forall k, match m k with
            | None => forall f, In f s -> flookup k f = None
            | Some e => (exists f, In f s /\ flookup k f = Some e) /\
                        (forall f c, In f s -> flookup k f = Some c -> snd c < snd e \/ c = e)
            end.

(* every holder stores a key at most once *)
Definition WF (s : sys) : Prop := forall f, In f s -> NoDup (map fst f).

Definition GoodK (cs : list ent) (o : option ent) : Prop :=
  match o with
  | None => cs = []
  | Some e => In e cs /\ forall c, In c cs -> snd c < snd e \/ c = e
  end.

Lemma Good_copies : forall s m, Good s m <-> forall k, GoodK (copies k s) (m k).
Proof.
  intros s m. split; intros H k; specialize (H k); unfold GoodK in *; destruct (m k) as [e|].
  - destruct H as [Hex Hall]. split.
    + apply In_copies. exact Hex.
    + intros c Hc. apply In_copies in Hc. destruct Hc as [f [Hf Hl]]. exact (Hall f c Hf Hl).
  - destruct (copies k s) as [|c cs] eqn:E; [reflexivity|]. exfalso.
    assert (Hc : In c (copies k s)) by (rewrite E; left; reflexivity).
    apply In_copies in Hc. destruct Hc as [f [Hf Hl]]. rewrite (H f Hf) in Hl. discriminate.
  - destruct H as [Hin Hall]. split.
    + apply In_copies. exact Hin.
    + intros f c Hf Hl. apply Hall. apply In_copies. exists f. split; assumption.
  - intros f Hf. destruct (flookup k f) as [c|] eqn:El; [|reflexivity]. exfalso.
    assert (Hc : In c (copies k s)) by (apply In_copies; exists f; split; assumption).
    rewrite H in Hc. destruct Hc.
Qed.

Lemma Good_nil : Good [] (fun _ => None).
Proof. intros k f []. Qed.

Lemma Good_nil1 : Good [[]] (fun _ => None).
Proof. intros k f [<-|[]]. reflexivity. Qed.

Lemma WF_nil : WF [].
Proof. intros f []. Qed.

Lemma WF_nil1 : WF [[]].
Proof. intros f [<-|[]]. constructor. Qed.

(* ------------------------------------------------------------------------------------------------ *)
(* reads                                                                                              *)

Lemma fold_newer_max : forall e l acc,
  (forall c, In c l -> snd c < snd e \/ c = e) ->
  (acc = Some e \/ In e l) ->
  (forall a, acc = Some a -> snd a < snd e \/ a = e) ->
  fold_left newer l acc = Some e.
Proof.
  intros e. induction l as [|c l IH]; intros acc Hall Hin Hacc; cbn [fold_left].
  - destruct Hin as [Hin|[]]. exact Hin.
  - assert (Hc : snd c < snd e \/ c = e) by (apply Hall; left; reflexivity).
    apply IH.
    + intros c' Hc'. apply Hall. right. exact Hc'.
    + unfold newer. destruct acc as [a|].
      * specialize (Hacc a eq_refl).
        destruct (snd a <=? snd c) eqn:E.
        -- destruct Hin as [Hin|[Hin|Hin]].
           ++ inversion Hin. subst a. destruct Hc as [Hc|Hc]; [lia|]. subst c. left. reflexivity.
           ++ subst c. left. reflexivity.
           ++ right. exact Hin.
        -- destruct Hin as [Hin|[Hin|Hin]].
           ++ left. exact Hin.
           ++ subst c. destruct Hacc as [Hacc|Hacc]; [lia|]. subst a. left. reflexivity.
           ++ right. exact Hin.
      * destruct Hin as [Hin|[Hin|Hin]]; [discriminate| |].
        -- subst c. left. reflexivity.
        -- right. exact Hin.
    + intros a Ha. unfold newer in Ha. destruct acc as [a0|].
      * destruct (snd a0 <=? snd c); inversion Ha; subst a; [exact Hc|]. apply Hacc. reflexivity.
      * inversion Ha. subst a. exact Hc.
Qed.

Lemma read_good : forall s m, Good s m -> forall k, read k s = m k.
Proof.
  intros s m H0 k. pose proof (proj1 (Good_copies s m) H0 k) as H. unfold read, GoodK in *.
  destruct (m k) as [e|].
  - destruct H as [Hin Hall]. apply fold_newer_max.
    + exact Hall.
    + right. exact Hin.
    + intros a Ha. discriminate.
  - rewrite H. reflexivity.
Qed.

(* ------------------------------------------------------------------------------------------------ *)
(* preservation of Good                                                                               *)

Lemma cp_finsert : forall k e k' f, cp k' (finsert k e f) = if N.eqb k' k then [e] else cp k' f.
Proof. intros k e k' f. unfold cp. rewrite flookup_finsert. destruct (N.eqb k' k); reflexivity. Qed.

Lemma copies_del : forall k k' s,
  copies k' (map (fremove k) s) = if N.eqb k' k then [] else copies k' s.
Proof.
  intros k k' s. induction s as [|f s IH]; cbn [map].
  - destruct (N.eqb k' k); reflexivity.
  - rewrite !copies_cons, IH. unfold cp. rewrite flookup_fremove. destruct (N.eqb k' k); reflexivity.
Qed.

Definition nonempty (f : frag) : bool := negb (match f with [] => true | _ => false end).

Lemma copies_prune : forall k l, copies k (filter nonempty l) = copies k l.
Proof.
  intros k l. induction l as [|f l IH]; [reflexivity|].
  cbn [filter]. destruct f as [|x f]; cbn [nonempty negb].
  - rewrite copies_cons. cbn [cp cpo flookup app]. exact IH.
  - rewrite !copies_cons, IH. reflexivity.
Qed.

Lemma bstep_prune_cons : forall p prev, bstep (p :: prev) BPrune = p :: filter nonempty prev.
Proof. reflexivity. Qed.

Lemma GoodK_move : forall o cur c0 A B,
  GoodK (cpo cur ++ A ++ [c0] ++ B) o -> GoodK (cpo (newer cur c0) ++ A ++ [] ++ B) o.
Proof.
  intros o cur c0 A B. unfold GoodK. destruct o as [e|].
  - intros [Hin Hall].
    assert (H0 : snd c0 < snd e \/ c0 = e).
    { apply Hall. rewrite !in_app_iff. right. right. left. left. reflexivity. }
    assert (Hcur : forall a, cur = Some a -> snd a < snd e \/ a = e).
    { intros a Ha. apply Hall. rewrite !in_app_iff. left. apply In_cpo. exact Ha. }
    split.
    + rewrite !in_app_iff in Hin. rewrite !in_app_iff.
      destruct Hin as [Hin|[Hin|[Hin|Hin]]].
      * left. apply In_cpo. apply In_cpo in Hin. subst cur. unfold newer.
        destruct (snd e <=? snd c0) eqn:E; [|reflexivity].
        destruct H0 as [H0|H0]; [lia|]. subst c0. reflexivity.
      * right. left. exact Hin.
      * left. destruct Hin as [Hin|[]]. subst c0. apply In_cpo. unfold newer.
        destruct cur as [a|]; [|reflexivity].
        destruct (Hcur a eq_refl) as [Ha|Ha].
        -- destruct (snd a <=? snd e) eqn:E; [reflexivity|lia].
        -- subst a. rewrite Z.leb_refl. reflexivity.
      * right. right. right. exact Hin.
    + intros c Hc. rewrite !in_app_iff in Hc. destruct Hc as [Hc|[Hc|[[]|Hc]]].
      * apply In_cpo in Hc. unfold newer in Hc. destruct cur as [a|].
        -- destruct (snd a <=? snd c0); inversion Hc; subst c; [exact H0|]. apply Hcur. reflexivity.
        -- inversion Hc. subst c. exact H0.
      * apply Hall. rewrite !in_app_iff. right. left. exact Hc.
      * apply Hall. rewrite !in_app_iff. right. right. right. exact Hc.
  - intro H. apply app_eq_nil in H. destruct H as [_ H]. apply app_eq_nil in H. destruct H as [_ H]. discriminate.
Qed.

Definition fresh_for (m : smap) (o : bop) : Prop :=
  match o with
  | BPut k _ ts => match m k with Some e => snd e < ts | None => True end
  | _ => True
  end.

Lemma Good_step : forall s m o, Good s m -> fresh_for m o -> Good (bstep s o) (sstep m o).
Proof.
  intros s m o HG Hf. apply Good_copies. intro k'.
  pose proof (proj1 (Good_copies s m) HG) as HK. pose proof (HK k') as Hk'.
  destruct o as [k v ts|k| |i ks|].
  - (* BPut *)
    cbn [sstep fresh_for] in *. destruct s as [|p prev]; cbn [bstep on_primary]; rewrite copies_cons, cp_finsert.
    + destruct (N.eqb k' k) eqn:E.
      * split; [left; reflexivity|]. intros c [<-|[]]. right. reflexivity.
      * exact Hk'.
    + destruct (N.eqb k' k) eqn:E; [|exact Hk'].
      nb. subst k'. rewrite copies_cons in Hk'. split; [left; reflexivity|].
      intros c [<-|Hc]; [right; reflexivity|]. left. cbn [snd].
      unfold GoodK in Hk'. destruct (m k) as [e|].
      * destruct Hk' as [_ Hall]. destruct (Hall c) as [H|H].
        -- apply in_or_app. right. exact Hc.
        -- lia.
        -- subst c. exact Hf.
      * apply app_eq_nil in Hk'. destruct Hk' as [_ Hk']. rewrite Hk' in Hc. destruct Hc.
  - (* BDel *)
    cbn [bstep sstep]. rewrite copies_del. destruct (N.eqb k' k); [reflexivity|exact Hk'].
  - (* BJoin *)
    exact Hk'.
  - (* BMove *)
    cbn [sstep]. destruct i as [|i]; [exact Hk'|]. destruct s as [|p prev].
    + rewrite bstep_move_nil. exact Hk'.
    + rewrite bstep_move_cons. destruct (le_lt_dec (length prev) i) as [Hi|Hi].
      * destruct (update_nth_out (fun f => fold_left (fun acc k => fremove k acc) ks f) i prev Hi) as [E1 E2].
        rewrite E1, E2, movedof_nil. exact Hk'.
      * destruct (move_shape p prev i ks Hi) as [l1 [src [l2 [E1 E2]]]].
        rewrite <- bstep_move_cons, E2. clear E2. subst prev.
        rewrite copies_cons, copies_app, copies_cons in *.
        unfold cp in *. rewrite flookup_fold_merge, flookup_fold_fremove.
        destruct (flookup k' src) as [c0|] eqn:Es; [|destruct (existsb (N.eqb k') ks); exact Hk'].
        destruct (existsb (N.eqb k') ks); [|exact Hk'].
        apply (GoodK_move (m k') (flookup k' p) c0 (copies k' l1) (copies k' l2)). exact Hk'.
  - (* BPrune *)
    cbn [sstep]. destruct s as [|p prev]; [exact Hk'|].
    rewrite bstep_prune_cons, copies_cons, copies_prune. exact Hk'.
Qed.

(* ------------------------------------------------------------------------------------------------ *)
(* preservation of WF                                                                                 *)

Lemma In_fst_fremove : forall k x f, In x (map fst (fremove k f)) -> x <> k /\ In x (map fst f).
Proof.
  intros k x f. induction f as [|[k0 e0] f IH]; cbn [fremove map fst In]; [intros []|].
  destruct (N.eqb k k0) eqn:E; cbn [map fst In].
  - intro H. destruct (IH H) as [H1 H2]. split; [exact H1|right; exact H2].
  - intros [H|H].
    + subst x. nb. split; [congruence|left; reflexivity].
    + destruct (IH H) as [H1 H2]. split; [exact H1|right; exact H2].
Qed.

Lemma NoDup_fremove : forall k f, NoDup (map fst f) -> NoDup (map fst (fremove k f)).
Proof.
  intros k f. induction f as [|[k0 e0] f IH]; cbn [fremove map fst]; intro H; [constructor|].
  inversion H as [|x l Hn Hd]. subst. destruct (N.eqb k k0); cbn [map fst].
  - apply IH. exact Hd.
  - constructor; [|apply IH; exact Hd]. intro Hin. apply In_fst_fremove in Hin. apply Hn. apply Hin.
Qed.

Lemma NoDup_finsert : forall k e f, NoDup (map fst f) -> NoDup (map fst (finsert k e f)).
Proof.
  intros k e f H. unfold finsert. cbn [map fst]. constructor.
  - intro Hin. apply In_fst_fremove in Hin. destruct Hin as [Hin _]. congruence.
  - apply NoDup_fremove. exact H.
Qed.

Lemma NoDup_merge1 : forall k e f, NoDup (map fst f) -> NoDup (map fst (merge1 k e f)).
Proof.
  intros k e f H. unfold merge1. destruct (flookup k f) as [cur|].
  - destruct (snd cur <=? snd e); [apply NoDup_finsert|]; exact H.
  - apply NoDup_finsert. exact H.
Qed.

Lemma NoDup_fold_merge : forall l p, NoDup (map fst p) ->
  NoDup (map fst (fold_left (fun acc ke => merge1 (fst ke) (snd ke) acc) l p)).
Proof.
  induction l as [|ke l IH]; intros p H; cbn [fold_left]; [exact H|]. apply IH. apply NoDup_merge1. exact H.
Qed.

Lemma NoDup_fold_fremove : forall ks f, NoDup (map fst f) ->
  NoDup (map fst (fold_left (fun acc k => fremove k acc) ks f)).
Proof.
  induction ks as [|k ks IH]; intros f H; cbn [fold_left]; [exact H|]. apply IH. apply NoDup_fremove. exact H.
Qed.

Lemma WF_step : forall s o, WF s -> WF (bstep s o).
Proof.
  intros s o H. unfold WF in *. destruct o as [k v ts|k| |i ks|].
  - destruct s as [|p prev]; cbn [bstep on_primary]; intros f [<-|Hf].
    + apply NoDup_finsert. constructor.
    + destruct Hf.
    + apply NoDup_finsert. apply H. left. reflexivity.
    + apply H. right. exact Hf.
  - cbn [bstep]. intros f Hf. apply in_map_iff in Hf. destruct Hf as [f0 [<- Hf0]].
    apply NoDup_fremove. apply H. exact Hf0.
  - cbn [bstep]. intros f [<-|Hf]; [constructor|apply H; exact Hf].
  - destruct i as [|i]; [exact H|]. destruct s as [|p prev].
    + rewrite bstep_move_nil. intros f [<-|[]]. constructor.
    + rewrite bstep_move_cons. intros f [<-|Hf].
      * apply NoDup_fold_merge. apply H. left. reflexivity.
      * apply In_update_nth in Hf. destruct Hf as [Hf|[f0 [Hf0 ->]]].
        -- apply H. right. exact Hf.
        -- apply NoDup_fold_fremove. apply H. right. exact Hf0.
  - destruct s as [|p prev]; [exact H|]. rewrite bstep_prune_cons. intros f [<-|Hf].
    + apply H. left. reflexivity.
    + apply filter_In in Hf. apply H. right. apply Hf.
Qed.

(* ------------------------------------------------------------------------------------------------ *)
(* runs                                                                                               *)

Lemma ts_fresh_cons : forall m o l, ts_fresh m (o :: l) <-> fresh_for m o /\ ts_fresh (sstep m o) l.
Proof. intros m o l. destruct o; reflexivity. Qed.

Lemma run_invariant : forall l s m, Good s m -> WF s -> ts_fresh m l ->
  Good (fst (brun s m l)) (snd (brun s m l)) /\ WF (fst (brun s m l)).
Proof.
  induction l as [|o l IH]; intros s m HG HW Hf.
  - split; assumption.
  - apply ts_fresh_cons in Hf. destruct Hf as [Hf1 Hf2]. cbn [brun]. apply IH.
    + apply Good_step; assumption.
    + apply WF_step. exact HW.
    + exact Hf2.
Qed.

Lemma run_from : forall l s m, Good s m -> WF s -> ts_fresh m l ->
  let '(s', m') := brun s m l in Good s' m' /\ WF s' /\ forall k, read k s' = m' k.
Proof.
  intros l s m HG HW Hf. destruct (run_invariant l s m HG HW Hf) as [H1 H2].
  destruct (brun s m l) as [s' m']. cbn [fst snd] in *.
  split; [exact H1|]. split; [exact H2|]. apply read_good. exact H1.
Qed.

Lemma resolve_invariant : forall l, ts_fresh (fun _ => None) l ->
  let '(s, m) := brun [] (fun _ => None) l in Good s m /\ forall k, read k s = m k.
Proof.
  intros l Hf. pose proof (run_from l [] (fun _ => None) Good_nil WF_nil Hf) as H.
  destruct (brun [] (fun _ => None) l) as [s m]. destruct H as [H1 [_ H2]]. split; assumption.
Qed.

Lemma run_wf : forall l, WF (fst (brun [] (fun _ => None) l)).
Proof.
  intros l. generalize (fun _ : N => @None ent) as m. generalize WF_nil. generalize (@nil frag) as s.
  induction l as [|o l IH]; intros s HW m; [exact HW|]. cbn [brun]. apply IH. apply WF_step. exact HW.
Qed.

(* ------------------------------------------------------------------------------------------------ *)
(* deletes                                                                                            *)

Lemma delete_removes_everywhere : forall s k f, In f (bstep s (BDel k)) -> flookup k f = None.
Proof.
  intros s k f H. cbn [bstep] in H. apply in_map_iff in H. destruct H as [f0 [<- _]].
  rewrite flookup_fremove, N.eqb_refl. reflexivity.
Qed.

(* ------------------------------------------------------------------------------------------------ *)
(* misplaced data: what previous owners still hold                                                    *)

Definition misplaced (s : sys) : nat := length (concat (tl s)).

Lemma length_fremove_le : forall k f, (length (fremove k f) <= length f)%nat.
Proof.
  intros k f. induction f as [|[k0 e0] f IH]; cbn [fremove length]; [lia|].
  destruct (N.eqb k k0); cbn [length]; lia.
Qed.

Lemma length_fremove_lt : forall k f, flookup k f <> None -> (length (fremove k f) < length f)%nat.
Proof.
  intros k f. induction f as [|[k0 e0] f IH]; cbn [fremove flookup length]; intro H; [congruence|].
  destruct (N.eqb k k0); cbn [length].
  - pose proof (length_fremove_le k f). lia.
  - specialize (IH H). lia.
Qed.

Lemma length_fold_fremove_le : forall ks f,
  (length (fold_left (fun acc k => fremove k acc) ks f) <= length f)%nat.
Proof.
  induction ks as [|k ks IH]; intro f; cbn [fold_left]; [lia|].
  pose proof (IH (fremove k f)). pose proof (length_fremove_le k f). lia.
Qed.

Lemma length_fold_fremove_lt : forall ks k f, In k ks -> flookup k f <> None ->
  (length (fold_left (fun acc k => fremove k acc) ks f) < length f)%nat.
Proof.
  induction ks as [|k0 ks IH]; intros k f Hin Hl; [destruct Hin|]. cbn [fold_left].
  destruct (N.eqb k k0) eqn:E.
  - nb. subst k0. pose proof (length_fold_fremove_le ks (fremove k f)).
    pose proof (length_fremove_lt k f Hl). lia.
  - destruct Hin as [Hin|Hin]; [nb; congruence|].
    assert (Hl' : flookup k (fremove k0 f) <> None) by (rewrite flookup_fremove, E; exact Hl).
    pose proof (IH k (fremove k0 f) Hin Hl'). pose proof (length_fremove_le k0 f). lia.
Qed.

Lemma concat_update_le : forall g i l, (forall f, length (g f) <= length f)%nat ->
  (length (concat (update_nth i g l)) <= length (concat l))%nat.
Proof.
  intros g i l Hg. revert i. induction l as [|f l IH]; intro i; [destruct i; cbn; lia|].
  destruct i as [|i]; cbn [update_nth concat]; rewrite !app_length.
  - specialize (Hg f). lia.
  - specialize (IH i). lia.
Qed.

Lemma concat_update_lt : forall g i l, (forall f, length (g f) <= length f)%nat ->
  (length (g (nth i l [])) < length (nth i l []))%nat ->
  (length (concat (update_nth i g l)) < length (concat l))%nat.
Proof.
  intros g i l Hg. revert i. induction l as [|f l IH]; intros i H.
  - destruct i; cbn [nth length] in H; lia.
  - destruct i as [|i]; cbn [update_nth concat nth] in *; rewrite !app_length.
    + lia.
    + specialize (IH i H). lia.
Qed.

Lemma move_le : forall s i ks, (1 <= i)%nat -> (misplaced (bstep s (BMove i ks)) <= misplaced s)%nat.
Proof.
  intros s i ks Hi. destruct i as [|i]; [lia|]. destruct s as [|p prev].
  - rewrite bstep_move_nil. cbn. lia.
  - rewrite bstep_move_cons. unfold misplaced. cbn [tl]. apply concat_update_le.
    intro f. apply length_fold_fremove_le.
Qed.

Lemma move_lt : forall (s : sys) i ks k, (1 <= i)%nat -> In k ks -> flookup k (nth i s []) <> None ->
  (misplaced (bstep s (BMove i ks)) < misplaced s)%nat.
Proof.
  intros s i ks k Hi Hin Hl. destruct i as [|i]; [lia|]. destruct s as [|p prev].
  - cbn [nth flookup] in Hl. congruence.
  - rewrite bstep_move_cons. unfold misplaced. cbn [tl]. cbn [nth] in Hl. apply concat_update_lt.
    + intro f. apply length_fold_fremove_le.
    + apply (length_fold_fremove_lt ks k); assumption.
Qed.

(* a sequence of moves each of which ships at least one entry *)
Fixpoint effective_moves (s : sys) (l : list (nat * list N)) : Prop :=
  match l with
  | [] => True
  | (i, ks) :: l' =>
    (1 <= i)%nat /\ (exists k, In k ks /\ flookup k (nth i s []) <> None) /\
    effective_moves (bstep s (BMove i ks)) l'
  end.

Lemma moves_terminate : forall l s, effective_moves s l -> (length l <= misplaced s)%nat.
Proof.
  induction l as [|[i ks] l IH]; intros s H; cbn [length]; [lia|].
  cbn [effective_moves] in H. destruct H as [Hi [[k [Hin Hl]] H]].
  specialize (IH _ H). pose proof (move_lt s i ks k Hi Hin Hl). lia.
Qed.

(* a whole-fragment move empties the source *)
Lemma flookup_none_nil : forall f, (forall k, flookup k f = None) -> f = [].
Proof.
  intros [|[k e] f] H; [reflexivity|]. specialize (H k). cbn [flookup] in H. rewrite N.eqb_refl in H. discriminate.
Qed.

Lemma existsb_fst : forall k f, existsb (N.eqb k) (map fst f) = false -> flookup k f = None.
Proof.
  intros k f. induction f as [|[k0 e0] f IH]; cbn [map fst existsb flookup]; [reflexivity|].
  destruct (N.eqb k k0); cbn [orb]; [discriminate|exact IH].
Qed.

Lemma move_all_empties : forall f, fold_left (fun acc k => fremove k acc) (map fst f) f = [].
Proof.
  intros f. apply flookup_none_nil. intro k. rewrite flookup_fold_fremove.
  destruct (existsb (N.eqb k) (map fst f)) eqn:E; [reflexivity|]. apply existsb_fst. exact E.
Qed.

Lemma all_empty : forall l : list frag, length (concat l) = 0%nat -> forall f, In f l -> f = [].
Proof.
  induction l as [|f0 l IH]; intros H f Hf; [destruct Hf|].
  cbn [concat] in H. rewrite app_length in H. destruct Hf as [<-|Hf].
  - destruct f0; [reflexivity|cbn [length] in H; lia].
  - apply IH; [lia|exact Hf].
Qed.

Lemma quiescent_placement : forall s m, Good s m -> misplaced s = 0%nat ->
  forall k e, m k = Some e ->
  flookup k (hd [] s) = Some e /\ forall f, In f (tl s) -> flookup k f = None.
Proof.
  intros s m HG H0 k e Hm. unfold misplaced in H0. pose proof (all_empty (tl s) H0) as Hall.
  assert (Htl : forall f, In f (tl s) -> flookup k f = None).
  { intros f Hf. rewrite (Hall f Hf). reflexivity. }
  split; [|exact Htl].
  specialize (HG k). rewrite Hm in HG. destruct HG as [[f [Hf Hl]] _].
  destruct s as [|p prev]; [destruct Hf|]. cbn [hd tl] in *. destruct Hf as [<-|Hf]; [exact Hl|].
  rewrite (Htl f Hf) in Hl. discriminate.
Qed.

Lemma quiescent_prune : forall s, misplaced s = 0%nat -> (length (bstep s BPrune) <= 1)%nat.
Proof.
  intros [|p prev] H0; [cbn; lia|]. rewrite bstep_prune_cons. unfold misplaced in H0. cbn [tl] in H0.
  pose proof (all_empty prev H0) as Hall.
  assert (E : filter nonempty prev = []).
  { clear H0. induction prev as [|f l IH]; [reflexivity|]. cbn [filter].
    rewrite (Hall f (or_introl eq_refl)). cbn [nonempty negb]. apply IH. intros f' Hf'. apply Hall. right. exact Hf'. }
  rewrite E. cbn. lia.
Qed.

(* exactly once, counted as stored entries *)
Definition stored (k : N) (s : sys) : list (N * ent) := filter (fun ke => N.eqb k (fst ke)) (concat s).

Lemma filter_absent : forall k f, ~ In k (map fst f) -> filter (fun ke : N * ent => N.eqb k (fst ke)) f = [].
Proof.
  intros k f. induction f as [|[k0 e0] f IH]; cbn [map fst In filter]; intro H; [reflexivity|].
  destruct (N.eqb k k0) eqn:E.
  - nb. exfalso. apply H. left. congruence.
  - apply IH. intro Hin. apply H. right. exact Hin.
Qed.

Lemma filter_once : forall k e f, NoDup (map fst f) -> flookup k f = Some e ->
  filter (fun ke : N * ent => N.eqb k (fst ke)) f = [(k, e)].
Proof.
  intros k e f. induction f as [|[k0 e0] f IH]; cbn [map fst flookup filter]; intros Hd Hl; [discriminate|].
  inversion Hd as [|x l Hn Hd']. subst. destruct (N.eqb k k0) eqn:E.
  - nb. subst k0. inversion Hl. subst e0. rewrite filter_absent; [reflexivity|exact Hn].
  - apply IH; assumption.
Qed.

Lemma quiescent_once : forall s m, Good s m -> WF s -> misplaced s = 0%nat ->
  forall k e, m k = Some e -> stored k s = [(k, e)].
Proof.
  intros s m HG HW H0 k e Hm. destruct (quiescent_placement s m HG H0 k e Hm) as [H1 _].
  destruct s as [|p prev]; [discriminate|]. cbn [hd] in H1. unfold stored, misplaced in *. cbn [tl concat] in *.
  assert (E : concat prev = []) by (destruct (concat prev); [reflexivity|cbn [length] in H0; lia]).
  rewrite E, app_nil_r. apply filter_once; [|exact H1]. apply HW. left. reflexivity.
Qed.

Lemma deleted_nowhere : forall s m, Good s m -> forall k, m k = None -> forall f, In f s -> flookup k f = None.
Proof. intros s m HG k Hm. specialize (HG k). rewrite Hm in HG. exact HG. Qed.

(* ------------------------------------------------------------------------------------------------ *)
(* hand-over steps are invisible to readers; moves can always complete                                *)

Definition handover (o : bop) : bool :=
  match o with BJoin | BMove _ _ | BPrune => true | _ => false end.

Lemma handover_invisible : forall s m o, Good s m -> handover o = true ->
  Good (bstep s o) m /\ forall k, read k (bstep s o) = read k s.
Proof.
  intros s m o HG Ho.
  assert (HG' : Good (bstep s o) m).
  { destruct o as [k v ts|k| |i ks|]; try discriminate.
    - exact (Good_step s m BJoin HG I).
    - exact (Good_step s m (BMove i ks) HG I).
    - exact (Good_step s m BPrune HG I). }
  split; [exact HG'|]. intro k. rewrite (read_good _ _ HG'), (read_good _ _ HG). reflexivity.
Qed.

Definition run_moves (s : sys) (l : list (nat * list N)) : sys :=
  fold_left (fun s x => bstep s (BMove (fst x) (snd x))) l s.

Lemma nonempty_somewhere : forall l : list frag, (0 < length (concat l))%nat ->
  exists i k e f, nth i l [] = (k, e) :: f.
Proof.
  induction l as [|f0 l IH]; intro H; [cbn in H; lia|].
  destruct f0 as [|[k e] f0].
  - cbn [concat app] in H. destruct (IH H) as [i [k [e [f Hn]]]]. exists (S i), k, e, f. exact Hn.
  - exists 0%nat, k, e, f0. reflexivity.
Qed.

Lemma move_progress : forall s, (0 < misplaced s)%nat ->
  exists i ks, (1 <= i)%nat /\ (misplaced (bstep s (BMove i ks)) < misplaced s)%nat.
Proof.
  intros s H. unfold misplaced in H. destruct (nonempty_somewhere (tl s) H) as [i [k [e [f Hn]]]].
  exists (S i), [k]. split; [lia|]. apply (move_lt s (S i) [k] k); [lia|left; reflexivity|].
  destruct s as [|p prev].
  - destruct i; discriminate.
  - cbn [tl] in Hn. cbn [nth]. pose proof (f_equal (flookup k) Hn) as Hf. cbn [flookup] in Hf.
    rewrite N.eqb_refl in Hf. intro Hc. assert (X : Some e = None); [|discriminate X].
    transitivity (flookup k (nth i prev [])); [symmetry; exact Hf|exact Hc].
Qed.

Lemma moves_complete : forall s m, Good s m ->
  exists l, misplaced (run_moves s l) = 0%nat /\ Good (run_moves s l) m.
Proof.
  intros s m. remember (misplaced s) as n eqn:En. revert s En.
  induction n as [n IH] using lt_wf_ind. intros s En HG.
  destruct (Nat.eq_dec n 0) as [E0|E0].
  - exists []. cbn [run_moves fold_left]. split; [lia|exact HG].
  - destruct (move_progress s) as [i [ks [Hi Hlt]]]; [lia|].
    assert (HG' : Good (bstep s (BMove i ks)) m) by exact (Good_step s m (BMove i ks) HG I).
    destruct (IH (misplaced (bstep s (BMove i ks)))) with (s := bstep s (BMove i ks)) as [l [H1 H2]];
      [lia|reflexivity|exact HG'|].
    exists ((i, ks) :: l). split; [exact H1|exact H2].
Qed.
