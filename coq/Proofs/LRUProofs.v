From Coq Require Import List NArith ZArith Lia Bool.
From Coq Require Import ZifyN ZifyNat ZifyBool.
Require Import Olric.Model.LRU.
Import ListNotations.
Local Open Scope N_scope.

(* lia's N.div support gets in the way here: the quotient is just a number *)
Ltac absdiv :=
  repeat match goal with
         | H : context [N.div ?a ?b] |- _ => let D := fresh "D" in let HD := fresh "HD" in remember (N.div a b) as D eqn:HD; clear HD
         | |- context [N.div ?a ?b] => let D := fresh "D" in let HD := fresh "HD" in remember (N.div a b) as D eqn:HD; clear HD
         end.

Lemma key_eqb_eq a b : key_eqb a b = true <-> a = b.
Proof.
  revert b. induction a as [|x a IH]; intros [|y b]; cbn; split; try discriminate; try reflexivity.
  - intros H. apply andb_true_iff in H as [H1 H2]. apply N.eqb_eq in H1. apply IH in H2. now subst.
  - intros [= -> ->]. apply andb_true_iff. split; [apply N.eqb_refl|now apply IH].
Qed.

Lemma fremove_le k f : flen (fremove k f) <= flen f.
Proof.
  unfold flen, fremove. induction f as [|x f IH]; cbn; [lia|]. destruct (negb (key_eqb x k)); cbn; lia.
Qed.

Lemma fremove_in k f : NoDup f -> fmem k f = true -> flen (fremove k f) + 1 = flen f.
Proof.
  unfold flen, fremove, fmem. induction f as [|x f IH]; cbn; [discriminate|]. intros Hnd Hm.
  inversion Hnd as [|? ? Hnin Hnd']; subst. destruct (key_eqb x k) eqn:E; cbn.
  - apply key_eqb_eq in E. subst x.
    assert (Hf : filter (fun x => negb (key_eqb x k)) f = f).
    { clear - Hnin. induction f as [|y f IH]; cbn; [reflexivity|].
      destruct (key_eqb y k) eqn:E; cbn.
      - apply key_eqb_eq in E. subst y. exfalso. apply Hnin. now left.
      - f_equal. apply IH. intros H. apply Hnin. now right. }
    rewrite Hf. lia.
  - assert (Hm' : existsb (key_eqb k) f = true).
    { apply orb_true_iff in Hm as [Hm|Hm]; [|exact Hm]. apply key_eqb_eq in Hm. subst x.
      assert (key_eqb k k = true) by now apply key_eqb_eq. congruence. }
    specialize (IH Hnd' Hm'). lia.
Qed.

Lemma fremove_nodup k f : NoDup f -> NoDup (fremove k f).
Proof. apply NoDup_filter. Qed.

Lemma fremove_notin k f : ~ In k (fremove k f).
Proof.
  unfold fremove. intros H. apply filter_In in H as [_ H]. apply negb_true_iff in H.
  assert (key_eqb k k = true) by now apply key_eqb_eq. congruence.
Qed.

Lemma lru_put_nodup c v1 v2 k f : NoDup f -> NoDup (lru_put c v1 v2 k f).
Proof.
  intros H. unfold lru_put. constructor; [apply fremove_notin|]. apply fremove_nodup.
  destruct (inuse_full c _); [apply fremove_nodup|]; destruct (keys_full c f); try apply fremove_nodup; exact H.
Qed.

Definition kbound (c : lcfg) : N := N.max 1 (maxkeys c / owned c).

(* one Put keeps the fragment within max(1, MaxKeys/owned) keys *)
Lemma lru_put_maxkeys c v1 v2 k f :
  0 < maxkeys c -> NoDup f -> victims_ok c v1 v2 f -> flen f <= kbound c -> flen (lru_put c v1 v2 k f) <= kbound c.
Proof.
  intros Hmk Hnd [Hv1 _] Hb. unfold lru_put, kbound in *.
  pose proof (N.le_max_l 1 (maxkeys c / owned c)) as HM1. pose proof (N.le_max_r 1 (maxkeys c / owned c)) as HM2.
  remember (N.max 1 (maxkeys c / owned c)) as M eqn:EM. clear EM.
  set (f1 := if keys_full c f then fremove v1 f else f).
  set (f2 := if inuse_full c f1 then fremove v2 f1 else f1).
  assert (H2 : flen f2 <= flen f1) by (unfold f2; destruct (inuse_full c f1); [apply fremove_le|lia]).
  assert (H3 : flen (k :: fremove k f2) <= flen f2 + 1).
  { pose proof (fremove_le k f2). unfold flen in *. cbn [length]. lia. }
  clearbody f2. unfold f1 in *. clear f1. destruct (keys_full c f) eqn:Ef.
  - pose proof (fremove_in v1 f Hnd (Hv1 eq_refl)). lia.
  - clear Hv1. unfold keys_full in Ef. apply andb_false_iff in Ef as [Ef|Ef].
    + apply andb_false_iff in Ef as [Ef|Ef]; apply N.ltb_ge in Ef; [exfalso; clear - Hmk Ef; lia|clear Hmk; lia].
    + apply N.leb_gt in Ef. clear Hmk. lia.
Qed.

Definition ibound (c : lcfg) : N := maxinuse c / owned c + esz c.

Lemma finuse_remove_le c k f : finuse c (fremove k f) <= finuse c f.
Proof. unfold finuse. pose proof (fremove_le k f). nia. Qed.

(* with equally sized entries one Put keeps the in-use bytes within MaxInuse/owned + one entry *)
Lemma lru_put_maxinuse c v1 v2 k f :
  0 < maxinuse c -> NoDup f -> victims_ok c v1 v2 f -> finuse c f <= ibound c -> finuse c (lru_put c v1 v2 k f) <= ibound c.
Proof.
  intros Hmi Hnd [_ Hv2] Hb. unfold lru_put, ibound in *.
  set (f1 := if keys_full c f then fremove v1 f else f) in *.
  assert (Hnd1 : NoDup f1) by (unfold f1; destruct (keys_full c f); [apply fremove_nodup|]; exact Hnd).
  assert (H1 : finuse c f1 <= finuse c f) by (unfold f1; destruct (keys_full c f); [apply finuse_remove_le|lia]).
  assert (H3 : forall g, finuse c (k :: fremove k g) <= finuse c g + esz c).
  { intros g. pose proof (fremove_le k g). unfold finuse, flen in *. cbn [length]. nia. }
  clearbody f1. destruct (inuse_full c f1) eqn:Ef.
  - pose proof (fremove_in v2 f1 Hnd1 (Hv2 eq_refl)) as Hr. specialize (H3 (fremove v2 f1)). clear Hv2.
    unfold inuse_full in Ef. apply andb_true_iff in Ef as [Ef Ef3]. apply andb_true_iff in Ef as [Ef1 Ef2].
    apply N.leb_le in Ef3. clear Hmi. unfold finuse in *. absdiv. nia.
  - clear Hv2. specialize (H3 f1). unfold inuse_full in Ef. apply andb_false_iff in Ef as [Ef|Ef].
    + apply andb_false_iff in Ef as [Ef|Ef]; apply N.ltb_ge in Ef; [exfalso; clear - Hmi Ef; lia|clear - Ef Hb H1 H3; absdiv; lia].
    + apply N.leb_gt in Ef. clear - Ef Hb H1 H3. absdiv. lia.
Qed.

Lemma lru_put_readable c v1 v2 k f : fmem k (lru_put c v1 v2 k f) = true.
Proof. unfold lru_put, fmem. cbn. assert (key_eqb k k = true) by now apply key_eqb_eq. now rewrite H. Qed.

(* every reachable fragment state *)
Theorem lru_run_bounds c : forall l f,
  NoDup f -> victims_ok_run c l f ->
  (0 < maxkeys c -> flen f <= kbound c -> flen (lru_run c l f) <= kbound c) /\
  (0 < maxinuse c -> finuse c f <= ibound c -> finuse c (lru_run c l f) <= ibound c) /\
  NoDup (lru_run c l f).
Proof.
  induction l as [|[[v1 v2] k] l IH]; cbn [lru_run victims_ok_run]; intros f Hnd Hv; [auto|].
  destruct Hv as [Hv Hr]. destruct (IH _ (lru_put_nodup c v1 v2 k f Hnd) Hr) as (A & B & C).
  split; [|split; [|exact C]].
  - intros Hm Hb. apply A; [exact Hm|]. now apply lru_put_maxkeys.
  - intros Hm Hb. apply B; [exact Hm|]. now apply lru_put_maxinuse.
Qed.

Lemma empty_bounds c : flen [] <= kbound c /\ finuse c [] <= ibound c.
Proof. unfold flen, finuse, kbound, ibound. cbn [length N.of_nat]. rewrite N.mul_0_r. split; apply N.le_0_l. Qed.

Lemma idle_window maxidle last now : now < maxidle + last -> idle_now maxidle last now = false.
Proof. unfold idle_now. intros H. destruct (maxidle =? 0); cbn; [reflexivity|]. destruct (N.leb_spec (maxidle + last) now); [lia|reflexivity]. Qed.
