(* C12 end to end: the client iterator (Model/Iter.v) over the SCAN pages of the storage engine (Model/Store.v).
   [s_scan_pages] is s_scan_all keeping the page boundaries; the iterator's cursor for an owner is the index of the
   next page of that list (the real cursors are opaque numbers handed back unchanged). *)
From Coq Require Import List NArith ZArith Bool Arith Lia Permutation.
Require Import Olric.Gen.Consts Olric.Model.Codec Olric.Model.Store Olric.Proofs.StoreProofs Olric.Proofs.ScanProofs
  Olric.Proofs.CompactionProofs Olric.Proofs.StoreCheck Olric.Model.Iter Olric.Proofs.IterProofs.
Import ListNotations.
Local Open Scope N_scope.

Fixpoint s_scan_pages (m : list byte -> bool) (count : nat) (fuel : nat) (cursor : N) (s : store)
  : option (list (list rec)) :=
  match fuel with
  | O => None
  | S f =>
    let '(c, ys) := s_scan m cursor count s in
    if c =? 0 then Some [ys]
    else match s_scan_pages m count f c s with
         | Some zs => Some (ys :: zs)
         | None => None
         end
  end.

Lemma s_scan_pages_concat m count : forall fuel cursor s pg,
  s_scan_pages m count fuel cursor s = Some pg -> s_scan_all m count fuel cursor s = Some (concat pg).
Proof.
  induction fuel as [|f IH]; intros cursor s pg H; [discriminate|].
  cbn [s_scan_pages s_scan_all] in *. destruct (s_scan m cursor count s) as [c ys].
  destruct (c =? 0).
  - injection H as <-. cbn. now rewrite app_nil_r.
  - destruct (s_scan_pages m count f c s) as [zs|] eqn:E; [|discriminate]. injection H as <-.
    rewrite (IH _ _ _ E). reflexivity.
Qed.

Lemma s_scan_all_pages m count : forall fuel cursor s ys,
  s_scan_all m count fuel cursor s = Some ys -> exists pg, s_scan_pages m count fuel cursor s = Some pg /\ concat pg = ys.
Proof.
  induction fuel as [|f IH]; intros cursor s ys H; [discriminate|].
  cbn [s_scan_pages s_scan_all] in *. destruct (s_scan m cursor count s) as [c zs].
  destruct (c =? 0).
  - injection H as <-. exists [zs]. split; [reflexivity|]. cbn. now rewrite app_nil_r.
  - destruct (s_scan_all m count f c s) as [ws|] eqn:E; [|discriminate]. injection H as <-.
    destruct (IH _ _ _ E) as (pg & Hp & Hc). exists (zs :: pg). rewrite Hp. split; [reflexivity|]. cbn. now rewrite Hc.
Qed.

Section EndToEnd.
  (* how key strings are numbered (the harness numbers them injectively; the statement holds for any numbering) *)
  Variable enc : list byte -> key.
  Variable m : list byte -> bool.
  Variable count : nat.

  Definition keys_of_pages (pg : list (list rec)) : pages := map (map (fun r => enc (ekey (re r)))) pg.

  Lemma in_keys_of_pages pg k :
    In k (concat (keys_of_pages pg)) <-> exists r, In r (concat pg) /\ k = enc (ekey (re r)).
  Proof.
    unfold keys_of_pages. rewrite <- concat_map, in_map_iff. split.
    - intros (r & <- & Hr). now exists r.
    - intros (r & Hr & ->). now exists r.
  Qed.

  (* a partition of a stable cluster: one primary owner holding store sP, at most one replica owner holding sR *)
  Definition store_part (a : owner) (sP : store) (pgP : list (list rec)) (rb : option (owner * list (list rec))) : part :=
    {| p_owners := [a];
       p_replicas := match rb with Some (b, _) => [b] | None => [] end;
       p_pages := fun rep _ => if rep then match rb with Some (_, pgR) => keys_of_pages pgR | None => [] end
                               else keys_of_pages pgP |}.

  Definition present (s : store) (k : key) : Prop :=
    exists r, In r (s_all s) /\ m (ekey (re r)) = true /\ k = enc (ekey (re r)).

  Theorem iterate_stores a sP fuelP pgP (rb : option (owner * store)) fuelR pgR fuel :
    swf3 sP -> 0 < ssize sP -> (1 <= count)%nat ->
    s_scan_pages m count fuelP 0 sP = Some pgP ->
    (forall b sR, rb = Some (b, sR) -> swf3 sR /\ 0 < ssize sR /\ s_scan_pages m count fuelR 0 sR = Some pgR) ->
    let p := store_part a sP pgP (match rb with Some (b, _) => Some (b, pgR) | None => None end) in
    (part_fuel p <= fuel)%nat ->
    exists ys, iter_part fuel p = Some ys /\ NoDup ys /\
               forall k, In k ys <-> present sP k \/ (exists b sR, rb = Some (b, sR) /\ present sR k).
  Proof.
    intros HwP HsP Hc HpgP HR p Hfuel.
    assert (Hst : stable_part p) by (unfold stable_part, p, store_part; destruct rb as [[b sR]|]; cbn; lia).
    destruct (iter_part_exactly_once p fuel Hst Hfuel) as (ys & Hy & Hnd & Hin).
    exists ys. split; [exact Hy|]. split; [exact Hnd|]. intros k. rewrite Hin. unfold part_keys, p, store_part.
    cbn [p_owners p_replicas p_pages lane_keys]. rewrite in_app_iff.
    assert (HP : In k (concat (keys_of_pages pgP)) <-> present sP k).
    { rewrite in_keys_of_pages. pose proof (s_scan_pages_concat m count _ _ _ _ HpgP) as Hall.
      pose proof (scan_complete m count sP HwP HsP Hc _ _ Hall) as Hperm. unfold present. split.
      - intros (r & Hr & ->). exists r. apply (Permutation_in _ Hperm) in Hr. apply filter_In in Hr as [Hr1 Hr2]. auto.
      - intros (r & Hr & Hm & ->). exists r. split; [|reflexivity].
        apply (Permutation_in _ (Permutation_sym Hperm)). apply filter_In. auto. }
    destruct rb as [[b sR]|].
    - destruct (HR b sR eq_refl) as (HwR & HsR & HpgR).
      assert (HRk : In k (concat (keys_of_pages pgR)) <-> present sR k).
      { rewrite in_keys_of_pages. pose proof (s_scan_pages_concat m count _ _ _ _ HpgR) as Hall.
        pose proof (scan_complete m count sR HwR HsR Hc _ _ Hall) as Hperm. unfold present. split.
        - intros (r & Hr & ->). exists r. apply (Permutation_in _ Hperm) in Hr. apply filter_In in Hr as [Hr1 Hr2]. auto.
        - intros (r & Hr & Hm & ->). exists r. split; [|reflexivity].
          apply (Permutation_in _ (Permutation_sym Hperm)). apply filter_In. auto. }
      cbn [lane_keys]. rewrite HP, HRk. split.
      + intros [H|H]; [now left|right; exists b, sR; auto].
      + intros [H|(b' & sR' & E & H)]; [now left|]. injection E as <- <-. now right.
    - cbn [lane_keys]. rewrite HP. split.
      + intros [H|[]]. now left.
      + intros [H|(b' & sR' & E & _)]; [now left|discriminate].
  Qed.
End EndToEnd.
