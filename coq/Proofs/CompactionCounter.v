(* The bound "done within length (stabs s) + 1 calls" fails when the table being WRITTEN qualifies for
   compaction: it takes the records of the drained tables, grows past 1001 records, is sealed when it
   overflows, and then needs more than one call (evictTable moves at most 1001 records per call).

   Witness (table size 52063, entries of 31 bytes = 2-byte key, empty value):
     old table  (coefficient 0, sealed):  21000 bytes of garbage, then 1001 records           (qualifies)
     head table (coefficient 1, written): 21000 bytes of garbage, then 2 records, room for exactly 1000 more
   Every table that holds garbage holds at most 1001 records, every call is handed the hkeys of the whole
   store as iteration order. Call 1 drains the old table: 1000 records fit into the head, the last one forces
   makeTable (the head is sealed with 1002 records, a table with coefficient 2 is allocated), the old table is
   recycled. Call 2 moves 1001 of the 1002 records of the former head. Call 3 moves the last one and recycles
   it. Call 4 reports done: 4 > length (stabs s) + 1 = 3. *)
From Coq Require Import List NArith ZArith Lia Bool.
Require Import Olric.Gen.Consts Olric.Model.Codec Olric.Model.Store Olric.Proofs.StoreProofs Olric.Proofs.ScanProofs
  Olric.Proofs.CompactionProofs Olric.Proofs.StoreCheck.
Import ListNotations.
Local Open Scope N_scope.

Definition cx_ent (k : list byte) : entry := {| ekey := k; ettl := 0; ets := 0; ela := 0; evalue := [] |}.
Definition cx_old : table :=
  {| tcoef := 0; toff := 52031; talloc := 52063; tinuse := 31031; tgarb := 21000; tstate := table_state_ro;
     trecs := map (fun i => let n := N.of_nat i in
                            {| rh := n + 10; ro := 21000 + 31 * n; re := cx_ent [n / 256; n mod 256] |})
                  (seq 0 1001) |}.
Definition cx_head : table :=
  {| tcoef := 1; toff := 21062; talloc := 52063; tinuse := 62; tgarb := 21000; tstate := table_state_rw;
     trecs := [ {| rh := 1; ro := 21000; re := cx_ent [255; 1] |};
                {| rh := 2; ro := 21031; re := cx_ent [255; 2] |} ] |}.
Definition cx_store : store := {| ssize := 52063; snext := 2; stabs := [cx_head; cx_old] |}.
Definition all_hkeys (s : store) : list N := hkeys (s_all s).

Theorem compaction_bound_refuted :
  exists s,
    swf3 s /\ 0 < ssize s /\
    (forall t, In t (stabs s) -> 0 < tgarb t -> (length (trecs t) <= 1001)%nat) /\
    ord_covers all_hkeys /\
    snd (compact_n all_hkeys false (length (stabs s) + 1) s) = false /\
    snd (compact_n all_hkeys false (length (stabs s) + 2) s) = true.
Proof.
  exists cx_store. split; [apply swf3b_sound; vm_compute; reflexivity|]. split; [reflexivity|].
  split; [apply garbage_smallb_sound; vm_compute; reflexivity|]. split; [exact ord_covers_all|].
  split; vm_compute; reflexivity.
Qed.
