# C04 - every backup copy mirrors the primary after each acknowledged operation (DESIGN.md section 9).
import dmapcheck
import dmaplib
import vlib

PID = "C04"


def gen_groups(res):
    n = 10 if res.tier == "quick" else 120
    cfgs = [{"members": 3, "replicas": 2, "partitions": 7, "table": 1024, "evict_workers": 1},
            {"members": 3, "replicas": 3, "partitions": 13, "table": 512, "evict_workers": 1},
            {"members": 2, "replicas": 2, "partitions": 7, "table": 1 << 20, "evict_workers": 1},
            # fragments that span many storage tables (values of 30-110 bytes in 300-byte tables): the backup write path
            # (PutRaw) has to supersede versions in older tables exactly like the primary's
            {"members": 3, "replicas": 2, "partitions": 3, "table": 300, "evict_workers": 1, "_multi": True}]
    groups = []
    sid = 0
    for ci, cfg in enumerate(cfgs):
        scs = []
        for i in range(n):
            rng = vlib.rng_for(res.seed, PID, ci, i)
            if cfg.get("_multi"):
                ops = dmaplib.gen_seq(rng, "c04d%d" % sid, rng.randrange(40, 90), nkeys=rng.choice([3, 5]), short_ttl=False,
                                      locks=False, pad=[30, 70, 110])
            else:
                ops = dmaplib.gen_seq(rng, "c04d%d" % sid, rng.randrange(3, 30), nkeys=rng.choice([1, 2, 3]),
                                      short_ttl=(i % 3 == 0), evict_members=cfg["members"] if i % 3 == 0 else 0)
            scs.append({"id": sid, "ops": ops})
            sid += 1
        groups.append(({k: v for k, v in cfg.items() if not k.startswith("_")}, scs))
    return groups


def nontrivial(sc, obs):
    """at least three different mutating operation kinds were acknowledged and dumped"""
    kinds = set(op["op"] for op, ob in zip(sc["ops"], obs) if ob.get("r") == "ok" and op["op"] in
                ("put", "expire", "getput", "incr", "decr", "del", "lock", "unlock", "lease", "evict"))
    return len(kinds) >= 3


def run(res):
    dmapcheck.run_dmap_check(
        res, PID, gen_groups, dmaplib.judge_seq,
        rule="seeded random sequences (3-30 ops) over Put with every option, Expire, GetPut, Incr/Decr, Delete, Lock/Unlock/Lease, "
             "expiry + background eviction passes, on 1-3 keys through 7 client paths, on clusters (N,R) in {(3,2),(3,3),(2,2)} with table "
             "sizes 512..1MiB, plus 40-90 operation sequences with 30-110 byte values in 300-byte tables (fragments of many tables); after EVERY operation a white-box dump of every member's primary and backup copy; predicate = mirror "
             "(value, ttl, timestamp, presence, number of copies) + reference semantics; non-trivial = >= 3 kinds of acknowledged mutations",
        nontrivial=nontrivial)


    if getattr(res, "harness_error", None):
        return
    n, bad = lru_part(res)
    res.coverage["lru_mirror_scenarios"] = n
    res.coverage["lru_mirror_failures"] = bad


def lru_part(res):
    """eviction inside a Put removes the evicted key from every copy: LRU-bounded DMaps (MaxKeys through a Custom entry) on
    3 members with 2 copies; after every Put the backup fragments must hold exactly as many keys as the primary fragments"""
    import c10
    scs, dmaps = [], {}
    sid = 7000
    for mk in ([3, 10] if res.tier == "quick" else [1, 3, 7, 10, 40]):
        rng = vlib.rng_for(res.seed, PID, "lru", sid)
        sc = c10.lru_scenario(rng, sid, "maxkeys", mk, 40 if res.tier == "quick" else 120, rng.choice(["uniform", "fresh", "hot"]))
        dmaps[sc["_d"]] = {"maxkeys": mk, "lru": True, "lrusamples": 5}
        scs.append(sc)
        sid += 1
    cfg = {"members": 3, "replicas": 2, "partitions": 7, "table": 1 << 16, "evict_workers": 1, "dmaps": dmaps}
    results = dmaplib.run_groups([(cfg, scs)])
    bad = 0
    for sc in scs:
        obs = results[sc["id"]]["obs"]
        for i, (op, ob) in enumerate(zip(sc["ops"], obs)):
            if op["op"] != "stats":
                continue
            m = dmaplib.mirror_lengths(ob, 2, 3)
            if m:
                bad += 1
                res.violation({"kind": "impl-violates-property", "cluster": cfg, "part": "lru", "scenario": {"ops": sc["ops"][:i + 1]}, "failed_step": i,
                               "predicate": {"name": "mirror (fragment lengths) after a Put with LRU eviction", "verdict": m}, "seed": res.seed})
                break
    return len(scs), bad


def replay(res, path):
    import json
    obj = json.load(open(path))
    if obj.get("part") == "lru":
        ok, out = vlib.harness_build()
        if not ok:
            raise vlib.CheckError(out)
        sc = {"id": 0, "ops": obj["scenario"]["ops"]}
        obs = dmaplib.run_groups([(obj["cluster"], [sc])])[0]["obs"]
        for i, (op, ob) in enumerate(zip(sc["ops"], obs)):
            if op["op"] == "stats":
                m = dmaplib.mirror_lengths(ob, 2, 3)
                if m:
                    print(m)
                    print("VIOLATION property=%s replay=%s" % (res.pid, path))
                    return 1
        return 0
    return dmapcheck.replay(res, path, dmaplib.judge_seq)
