# C04 - every backup copy mirrors the primary after each acknowledged operation (DESIGN.md section 9).
import dmapcheck
import dmaplib
import vlib

PID = "C04"


def gen_groups(res):
    n = 10 if res.tier == "quick" else 120
    cfgs = [{"members": 3, "replicas": 2, "partitions": 7, "table": 1024, "evict_workers": 1},
            {"members": 3, "replicas": 3, "partitions": 13, "table": 512, "evict_workers": 1},
            {"members": 2, "replicas": 2, "partitions": 7, "table": 1 << 20, "evict_workers": 1},
            # fragments that span many storage tables (values of 30-110 bytes in 300-byte tables): the backup write path
            # (PutRaw) has to supersede versions in older tables exactly like the primary's
            {"members": 3, "replicas": 2, "partitions": 3, "table": 300, "evict_workers": 1, "_multi": True}]
    groups = []
    sid = 0
    for ci, cfg in enumerate(cfgs):
        scs = []
        for i in range(n):
            rng = vlib.rng_for(res.seed, PID, ci, i)
            if cfg.get("_multi"):
                ops = dmaplib.gen_seq(rng, "c04d%d" % sid, rng.randrange(40, 90), nkeys=rng.choice([3, 5]), short_ttl=False,
                                      locks=False, pad=[30, 70, 110])
            else:
                ops = dmaplib.gen_seq(rng, "c04d%d" % sid, rng.randrange(3, 30), nkeys=rng.choice([1, 2, 3]),
                                      short_ttl=(i % 3 == 0), evict_members=cfg["members"] if i % 3 == 0 else 0)
            scs.append({"id": sid, "ops": ops})
            sid += 1
        groups.append(({k: v for k, v in cfg.items() if not k.startswith("_")}, scs))
    return groups


def nontrivial(sc, obs):
    """at least three different mutating operation kinds were acknowledged and dumped"""
    kinds = set(op["op"] for op, ob in zip(sc["ops"], obs) if ob.get("r") == "ok" and op["op"] in
                ("put", "expire", "getput", "incr", "decr", "del", "lock", "unlock", "lease", "evict"))
    return len(kinds) >= 3


def run(res):
    dmapcheck.run_dmap_check(
        res, PID, gen_groups, dmaplib.judge_seq,
        rule="seeded random sequences (3-30 ops) over Put with every option, Expire, GetPut, Incr/Decr, Delete, Lock/Unlock/Lease, "
             "expiry + background eviction passes, on 1-3 keys through 7 client paths, on clusters (N,R) in {(3,2),(3,3),(2,2)} with table "
             "sizes 512..1MiB, plus 40-90 operation sequences with 30-110 byte values in 300-byte tables (fragments of many tables); after EVERY operation a white-box dump of every member's primary and backup copy; predicate = mirror "
             "(value, ttl, timestamp, presence, number of copies) + reference semantics; non-trivial = >= 3 kinds of acknowledged mutations",
        nontrivial=nontrivial)


def replay(res, path):
    return dmapcheck.replay(res, path, dmaplib.judge_seq)
