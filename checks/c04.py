# C04 - every backup copy mirrors the primary after each acknowledged operation (DESIGN.md section 9).
import dmapcheck
import dmaplib
import vlib

PID = "C04"


def gen_groups(res):
    n = 10 if res.tier == "quick" else 120
    cfgs = [{"members": 3, "replicas": 2, "partitions": 7, "table": 1024, "evict_workers": 1},
            {"members": 3, "replicas": 3, "partitions": 13, "table": 512, "evict_workers": 1},
            {"members": 2, "replicas": 2, "partitions": 7, "table": 1 << 20, "evict_workers": 1},
            # fragments that span many storage tables (values of 30-110 bytes in 300-byte tables): the backup write path
            # (PutRaw) has to supersede versions in older tables exactly like the primary's
            {"members": 3, "replicas": 2, "partitions": 3, "table": 300, "evict_workers": 1, "_multi": True}]
    groups = []
    sid = 0
    for ci, cfg in enumerate(cfgs):
        scs = []
        for i in range(n):
            rng = vlib.rng_for(res.seed, PID, ci, i)
            if cfg.get("_multi"):
                ops = dmaplib.gen_seq(rng, "c04d%d" % sid, rng.randrange(40, 90), nkeys=rng.choice([3, 5]), short_ttl=False,
                                      locks=False, pad=[30, 70, 110])
            else:
                ops = dmaplib.gen_seq(rng, "c04d%d" % sid, rng.randrange(3, 30), nkeys=rng.choice([1, 2, 3]),
                                      short_ttl=(i % 3 == 0), evict_members=cfg["members"] if i % 3 == 0 else 0,
                                      past=0.25 if i % 3 == 1 else 0.0)
            scs.append({"id": sid, "ops": ops})
            sid += 1
        groups.append(({k: v for k, v in cfg.items() if not k.startswith("_")}, scs))
    return groups


def nontrivial(sc, obs):
    """at least three different mutating operation kinds were acknowledged and dumped"""
    kinds = set(op["op"] for op, ob in zip(sc["ops"], obs) if ob.get("r") == "ok" and op["op"] in
                ("put", "expire", "getput", "incr", "decr", "del", "lock", "unlock", "lease", "evict"))
    return len(kinds) >= 3


def run(res):
    dmapcheck.run_dmap_check(
        res, PID, gen_groups, dmaplib.judge_seq,
        rule="seeded random sequences (3-30 ops) over Put with every option, Expire, GetPut, Incr/Decr, Delete, Lock/Unlock/Lease, "
             "expiry + background eviction passes, on 1-3 keys through 7 client paths, on clusters (N,R) in {(3,2),(3,3),(2,2)} with table "
             "sizes 512..1MiB, plus 40-90 operation sequences with 30-110 byte values in 300-byte tables (fragments of many tables); after EVERY operation a white-box dump of every member's primary and backup copy; predicate = mirror "
             "(value, ttl, timestamp, presence, number of copies) + reference semantics; non-trivial = >= 3 kinds of acknowledged mutations",
        nontrivial=nontrivial)


    if getattr(res, "harness_error", None):
        return
    n, bad = lru_part(res)
    res.coverage["lru_mirror_scenarios"] = n
    res.coverage["lru_mirror_failures"] = bad
    n, bad, acks = conc_part(res)
    res.coverage["overlapping_scenarios"] = {"scenarios": n, "failures": bad, "acknowledged_operations": acks,
                                             "rule": "2-4 clients overlap on 1-2 keys (Incr/Decr, Put, GetPut, Expire, Delete through every path; a Lock that "
                                                     "waits while the holder renews its lease and lets it run out); all copies dumped at quiescence: mirror"}


def lru_part(res):
    """eviction inside a Put removes the evicted key from every copy: LRU-bounded DMaps (MaxKeys through a Custom entry) on
    3 members with 2 copies; after every Put the backup fragments must hold exactly as many keys as the primary fragments"""
    import c10
    scs, dmaps = [], {}
    sid = 7000
    for mk in ([3, 10] if res.tier == "quick" else [1, 3, 7, 10, 40]):
        rng = vlib.rng_for(res.seed, PID, "lru", sid)
        sc = c10.lru_scenario(rng, sid, "maxkeys", mk, 40 if res.tier == "quick" else 120, rng.choice(["uniform", "fresh", "hot"]))
        dmaps[sc["_d"]] = {"maxkeys": mk, "lru": True, "lrusamples": 5}
        scs.append(sc)
        sid += 1
    cfg = {"members": 3, "replicas": 2, "partitions": 7, "table": 1 << 16, "evict_workers": 1, "dmaps": dmaps}
    results = dmaplib.run_groups([(cfg, scs)])
    bad = 0
    for sc in scs:
        obs = results[sc["id"]]["obs"]
        for i, (op, ob) in enumerate(zip(sc["ops"], obs)):
            if op["op"] != "stats":
                continue
            m = dmaplib.mirror_lengths(ob, 2, 3)
            if m:
                bad += 1
                res.violation({"kind": "impl-violates-property", "cluster": cfg, "part": "lru", "scenario": {"ops": sc["ops"][:i + 1]}, "failed_step": i,
                               "predicate": {"name": "mirror (fragment lengths) after a Put with LRU eviction", "verdict": m}, "seed": res.seed})
                break
    return len(scs), bad


CONC_CFG = {"members": 3, "replicas": 2, "partitions": 7, "table": 4096, "evict_workers": 1}


def gen_conc(res):
    """operations of several clients that overlap on the same keys; the copies are compared at quiescence. A write reaches the
    backup in the order in which the owner applied it, whatever the order in which the operations were created: (a) a Lock that
    waits while the holder renews its lease and lets it run out (the waiting Lock keeps the timestamp of its call),
    (b) atomic operations, Puts and Expires queued behind each other on one key"""
    import conclib  # noqa: F401
    lpaths = [p for p in dmaplib.ALLPATHS if p != "pipe"]
    scs = []
    sid = 9000
    for i in range(4 if res.tier == "quick" else 24):
        rng = vlib.rng_for(res.seed, PID, "conc-lock", i)
        d = "c04w%d" % sid
        k = dmaplib.hx("waited")
        scs.append({"id": sid, "_keys": [(d, k)], "clients": [
            {"ops": [{"op": "lock", "c": rng.choice(lpaths), "d": d, "k": k, "ms": 600, "dl": 30, "tok": d + "-a"},
                     {"op": "sleep", "ms": 120},
                     {"op": "lease", "tok": d + "-a", "ms": 150}]},
            {"ops": [{"op": "sleep", "ms": 40},
                     {"op": "lock", "c": rng.choice(lpaths), "d": d, "k": k, "ms": 60000, "dl": 3000, "tok": d + "-b"}]}],
            "final": [{"op": "dump", "d": d, "k": k}]})
        sid += 1
    for i in range(8 if res.tier == "quick" else 60):
        rng = vlib.rng_for(res.seed, PID, "conc-mix", i)
        d = "c04c%d" % sid
        keys = [dmaplib.hx("k%d" % j) for j in range(rng.choice([1, 2]))]
        clients = []
        for c in range(rng.choice([2, 3, 4])):
            ops = []
            for _ in range(rng.randrange(4, 10)):
                k = rng.choice(keys)
                w = rng.random()
                path = rng.choice(dmaplib.ALLPATHS)
                if w < 0.35:
                    ops.append({"op": rng.choice(["incr", "decr"]), "c": path, "d": d, "k": k, "delta": rng.randrange(1, 5)})
                elif w < 0.6:
                    op = {"op": "put", "c": path, "d": d, "k": k, "v": dmaplib.hx(str(rng.randrange(100)))}
                    if rng.random() < 0.3:
                        op["px"] = 60000
                    ops.append(op)
                elif w < 0.75:
                    ops.append({"op": "getput", "c": rng.choice([p for p in dmaplib.ALLPATHS]), "d": d, "k": k, "v": dmaplib.hx(str(rng.randrange(100)))})
                elif w < 0.9:
                    ops.append({"op": "expire", "c": path, "d": d, "k": k, "ms": 60000})
                else:
                    ops.append({"op": "del", "c": path, "d": d, "k": k})
            clients.append({"ops": ops})
        scs.append({"id": sid, "_keys": [(d, k) for k in keys], "clients": clients,
                    "final": [{"op": "dump", "d": d, "k": k} for k in keys]})
        sid += 1
    return scs


def judge_conc(sc, r):
    fin = r.get("final") or []
    if len(fin) < len(sc["final"]):
        return (0, "the scenario did not finish")
    return dmaplib.check_mirror({"ops": sc["final"]}, fin, CONC_CFG["replicas"], CONC_CFG["members"])


def conc_part(res):
    import conclib
    scs = gen_conc(res)
    groups = [(CONC_CFG, scs[i::3]) for i in range(3)]
    results = conclib.run_groups(groups)
    bad = 0
    acks = 0
    for sc in scs:
        r = results.get(sc["id"])
        if r is None:
            continue
        acks += sum(1 for c in r.get("clients") or [] for ob in c if ob.get("r") == "ok")
        v = judge_conc(sc, r)
        if v:
            bad += 1
            if bad <= 3:
                res.violation({"kind": "impl-violates-property", "cluster": CONC_CFG, "part": "conc",
                               "scenario": {k_: v_ for k_, v_ in sc.items() if not k_.startswith("_")},
                               "impl_trace": {"clients": r.get("clients"), "final": r.get("final")},
                               "predicate": {"name": "mirror at quiescence after overlapping operations", "verdict": v[1]}, "seed": res.seed})
    return len(scs), bad, acks


def replay(res, path):
    import json
    obj = json.load(open(path))
    if obj.get("part") == "conc":
        import conclib
        ok, out = vlib.harness_build()
        if not ok:
            raise vlib.CheckError(out)
        sc = dict(obj["scenario"], id=0)
        for attempt in range(5):
            r = conclib.run_conc(obj["cluster"], [sc])[0]
            v = judge_conc(sc, r)
            if v:
                print(v[1])
                print("VIOLATION property=%s replay=%s" % (res.pid, path))
                return 1
        return 0
    if obj.get("part") == "lru":
        ok, out = vlib.harness_build()
        if not ok:
            raise vlib.CheckError(out)
        sc = {"id": 0, "ops": obj["scenario"]["ops"]}
        obs = dmaplib.run_groups([(obj["cluster"], [sc])])[0]["obs"]
        for i, (op, ob) in enumerate(zip(sc["ops"], obs)):
            if op["op"] == "stats":
                m = dmaplib.mirror_lengths(ob, 2, 3)
                if m:
                    print(m)
                    print("VIOLATION property=%s replay=%s" % (res.pid, path))
                    return 1
        return 0
    return dmapcheck.replay(res, path, dmaplib.judge_seq)
