# C20 - storage stays bounded under overwrite and delete churn (store level; DESIGN.md section 9).
import json
import math

import c11
import storelib
import vlib

PID = "C20"
META = 29


def churn(rng, sid, rounds, raw, cold=False):
    T = rng.choice([257, 509, 1021])
    per = rng.choice([3, 4, 6, 9])
    m = (T - 1) // per                      # entry size (all equal)
    nkeys = rng.choice([4, 8, 16])
    keys = list(range(1, nkeys + 1))
    B = 2 * T                               # compaction runs at least once per B bytes written
    ops = []
    ts = 1
    if cold:
        # skewed workload: keys written once that fill whole tables and are never touched again, then churn on the hot keys
        # only (the cold tables stay below the garbage threshold while the tables behind them fill up with garbage)
        for h in range(1000, 1000 + rng.choice([1, 2, 3]) * per + rng.randrange(0, per)):
            k = bytes([97 + h % 3])
            v = bytes([rng.randrange(256)]) * (m - META - 1)
            ops.append(["putraw" if raw else "put", "a", str(h), k.hex(), v.hex(), 0, ts])
            ts += 1
    for r in range(rounds):
        written = 0
        while written + m <= B:
            h = rng.choice(keys)
            what = rng.random()
            if what < 0.2:
                ops.append(["del", "a", str(h)])
            else:
                k = bytes([97 + h % 3])
                v = bytes([rng.randrange(256)]) * (m - META - 1)
                ops.append(["putraw" if raw else "put", "a", str(h), k.hex(), v.hex(), rng.choice([0, 1758600000123]), ts])
                ts += 1
                written += m
        ops.append(["compactall", "a"])
        ops.append(["stats", "a"])
    ops += [["range", "a"], ["scanall", "a", 7, 0]]
    return {"id": sid, "size": T, "fork": True, "expired": rng.random() < 0.5, "eqsize": True, "ops": ops,
            "_m": m, "_B": B, "_keys": nkeys}


def churn_mixed(rng, sid, rounds, raw):
    """entries of two sizes a < 0.4 T < 0.6 T < b with a + b > T: a table is sealed as soon as the next entry does not fit, so
    tables are sealed far from full; when their entries are superseded later they hold garbage below the ratio (D44)"""
    T = rng.choice([509, 1021])
    a = int(T * rng.choice([0.30, 0.34, 0.36, 0.38]))
    b = max(T - a + rng.randrange(1, 8), int(0.61 * T))
    nkeys = rng.choice([2, 3, 4])
    keys = list(range(1, nkeys + 1))
    ops = []
    ts = 1
    for r in range(rounds):
        for _ in range(rng.choice([2, 3, 4])):
            h = rng.choice(keys)
            if rng.random() < 0.12:
                ops.append(["del", "a", str(h)])
                continue
            m = rng.choice([a, b])
            k = bytes([97 + h % 3])
            v = bytes([rng.randrange(256)]) * (m - META - 1)
            ops.append(["putraw" if raw else "put", "a", str(h), k.hex(), v.hex(), 0, ts])
            ts += 1
        ops.append(["compactall", "a"])
        ops.append(["stats", "a"])
    ops += [["range", "a"], ["scanall", "a", 7, 0]]
    return {"id": sid, "size": T, "fork": True, "expired": True, "eqsize": False, "ops": ops, "_mixed": True, "_keys": nkeys}


def bound_pred(sc, obs):
    """after every compaction-to-completion: allocated <= T*(ceil(L/((1-rho)T - m)) + ceil(B/(T-m)) + 2)"""
    T = sc["size"]
    m = sc.get("_m")
    B = sc.get("_B")
    if sc.get("_mixed"):
        # after every compaction-to-completion (idle recycled tables freed): every table but the written one that holds
        # garbage holds a live entry too, so there are at most live + 2 tables
        prev = None
        for i, (op, ob) in enumerate(zip(sc["ops"], obs)):
            if op[0] == "compactall":
                prev = ob
            if op[0] == "stats" and prev is not None and ob[0] == "stats":
                alloc, inuse, garb, ln, tables = ob[1:6]
                if alloc > T * (ln + 2):
                    return (i, "allocated %d bytes in %d tables for %d live entries (%d bytes; table %d) after compaction: "
                               "tables without a live entry are kept" % (alloc, tables, ln, inuse, T))
                prev = None
        return None
    if not m:
        return None
    prev = None
    for i, (op, ob) in enumerate(zip(sc["ops"], obs)):
        if op[0] == "compactall":
            prev = ob
        if op[0] == "stats" and prev is not None and ob[0] == "stats":
            alloc, inuse, garb, ln, tables = ob[1:6]
            L = inuse
            bound = T * (math.ceil(L / (0.6 * T - m)) + math.ceil(B / (T - m)) + 2)
            if alloc > bound:
                return (i, "allocated %d exceeds the bound %d (live %d, table %d, entry %d) after compaction" % (alloc, bound, L, T, m))
            prev = None
    return None


def scenarios(res):
    scs = c11.corpus()
    sid = 0
    for s in scs:
        s["id"] = sid
        sid += 1
    ncorpus = len(scs)
    n = 40 if res.tier == "quick" else 400
    rounds = 12 if res.tier == "quick" else 40
    for i in range(n):
        rng = vlib.rng_for(res.seed, PID, i)
        scs.append(churn(rng, sid, rounds, raw=(i % 2 == 1), cold=(i % 4 >= 2)))
        sid += 1
    for i in range(n // 4):
        rng = vlib.rng_for(res.seed, PID, "mixed", i)
        scs.append(churn_mixed(rng, sid, 2 * rounds, raw=(i % 2 == 1)))
        sid += 1
    return scs, ncorpus, 0, n + n // 4


def nontrivial(sc, obs):
    """at least 5 compaction rounds that each needed more than one call (something was drained)"""
    return sum(1 for op, ob in zip(sc["ops"], obs) if op[0] == "compactall" and ob[0] == "steps" and (ob[1] or 0) > 1) >= 5


def run(res):
    _run_store(res)
    if getattr(res, "harness_error", None):
        return
    n = cluster_part(res)
    res.coverage["evaluations"] = res.coverage.get("evaluations", 0) + n


def _run_store(res):
    c11.run(res, pid=PID, scs_fn=scenarios, nontrivial_fn=nontrivial, extra_pred=bound_pred, shard=3,
            rule="corpus + seeded churn workloads on one store: rounds of overwrite/delete over a fixed key set with equal-sized "
                 "entries (Put on even cases = primary, PutRaw on odd cases = backup/merge path; half of the cases start with cold keys "
                 "that fill whole tables and are never touched again), Compaction() to completion once "
                 "per B=2T bytes written, Stats after each; plus churn with entries of two sizes (below 40% and above 60% of a table, so that "
                 "tables are sealed far from full); predicate = reference map + accounting + the closed-form bound on "
                 "allocated after every compaction; non-trivial = >= 5 rounds in which compaction drained a table")


# ---------------------------------------------------------------------------------------------------------------
# cluster level: the member's own compaction pass (internal/dmap/compaction.go triggerCompaction / doCompaction /
# callCompactionOnFragment) over primary and backup fragments

CL_CFG = {"members": 2, "replicas": 2, "partitions": 3, "table": 512, "evict_workers": 1}


def cluster_churn(rng, sid, rounds):
    import dmaplib
    T = CL_CFG["table"]
    d = "c20c%d" % sid
    nkeys = rng.choice([6, 10])
    vlen = rng.choice([40, 70, 100])
    keys = [dmaplib.hx("k%02d" % j) for j in range(nkeys)]
    B = 2 * T
    ops = []
    for r in range(rounds):
        written = 0
        while written < B:
            k = rng.choice(keys)
            if rng.random() < 0.15:
                ops.append({"op": "del", "c": rng.choice(["emb@owner", "cc"]), "d": d, "k": k})
            else:
                ops.append({"op": "put", "c": rng.choice(["emb@owner", "cc", "emb@other"]), "d": d, "k": k, "v": dmaplib.hx(chr(65 + r % 26) * vlen)})
                written += vlen + 40
        for m in range(CL_CFG["members"]):
            ops.append({"op": "compactworker", "m": m})
        ops.append({"op": "stats", "d": d})
    return {"id": sid, "ops": ops, "_kind": "churn", "_vlen": vlen, "_B": B, "_d": d}


CL_IDLE_CFG = dict(CL_CFG, table_idle_ms=300)


def cluster_quiesce(rng, sid):
    """a burst of overwrites of values larger than half a table (one entry per table: a table is entirely live or entirely dead), then
    the workload stops: after the compaction passes and the idle time of recycled tables the members must have given the peak back"""
    import dmaplib
    d = "c20q%d" % sid
    nkeys = rng.choice([4, 8])
    vlen = rng.choice([280, 330, 400])
    keys = [dmaplib.hx("k%02d" % j) for j in range(nkeys)]
    rounds = rng.choice([12, 25])
    ops = []
    for r in range(rounds):
        for k in keys:
            if r < rounds - 1 and rng.random() < 0.1:
                ops.append({"op": "del", "c": rng.choice(["emb@owner", "cc"]), "d": d, "k": k})
            else:
                ops.append({"op": "put", "c": rng.choice(["emb@owner", "cc", "emb@other"]), "d": d, "k": k, "v": dmaplib.hx(chr(97 + r % 26) * vlen)})
        if rng.random() < 0.2:
            ops.append({"op": "compactworker", "m": rng.randrange(CL_CFG["members"])})
    for rep in range(3):
        for m in range(CL_CFG["members"]):
            ops.append({"op": "compactworker", "m": m})
        ops.append({"op": "sleep", "ms": 700})
    ops.append({"op": "stats", "d": d})
    return {"id": sid, "ops": ops, "_kind": "quiesce", "_vlen": vlen, "_d": d}


def cluster_race(rng, sid):
    """the compaction pass of every member runs (many tables to drain, so many calls per fragment) while the DMap is destroyed:
    the pass must come to an end"""
    import dmaplib
    d = "c20r%d" % sid
    keys = [dmaplib.hx("k%03d" % j) for j in range(120)]
    ops = []
    for rnd in range(3):
        for k in keys:
            ops.append({"op": "put", "c": "emb@owner", "d": d, "k": k, "v": dmaplib.hx("x" * 60 + str(rnd))})
    ops.append({"op": "compactrace", "d": d, "ms": rng.choice([500, 2000, 5000])})
    for m in range(CL_CFG["members"]):
        ops.append({"op": "compactworker", "m": m})
    return {"id": sid, "ops": ops, "_kind": "race", "_d": d}


def judge_cluster(sc, obs):
    T = CL_CFG["table"]
    for i, (op, ob) in enumerate(zip(sc["ops"], obs)):
        if op["op"] in ("compactworker", "compactrace") and ob.get("r") != "ok":
            return (i, "the compaction pass of a member did not return within %d s%s" % (
                15 if op["op"] == "compactworker" else 8, " while the DMap was being destroyed" if op["op"] == "compactrace" else ""))
        if op["op"] in ("put", "del") and ob.get("r") != "ok":
            return (i, "%s returned %s" % (op["op"], ob.get("r")))
        if op["op"] == "stats" and sc["_kind"] == "churn":
            m = sc["_vlen"] + 60           # upper bound of the entry size (key, value, metadata)
            for st in ob.get("stats") or []:
                if not st["frags"]:
                    continue
                bound = T * (math.ceil(st["inuse"] / (0.6 * T - m)) + st["frags"] * (math.ceil(sc["_B"] / (T - m)) + 3))
                if st["alloc"] > bound:
                    return (i, "member %d holds %d bytes in %d tables for %d live bytes of its %s copies after its compaction pass (bound %d)" % (
                        st["m"], st["alloc"], st["tables"], st["inuse"], "primary" if st["kind"] == "p" else "backup", bound))
        if op["op"] == "stats" and sc["_kind"] == "quiesce":
            esz = sc["_vlen"] + 32         # one entry: 29 bytes of metadata, the 3-byte key, the value; more than half a table
            for st in ob.get("stats") or []:
                if not st["frags"]:
                    continue
                bound = T * (st["inuse"] // esz + 2 * st["frags"])
                if st["alloc"] > bound:
                    return (i, "member %d still holds %d bytes in %d tables for %d live bytes (%d entries, one per table) of its %s copies after the workload "
                               "stopped, its compaction passes ran and the idle time of recycled tables (300 ms) passed three times (bound %d)" % (
                                   st["m"], st["alloc"], st["tables"], st["inuse"], st["inuse"] // esz, "primary" if st["kind"] == "p" else "backup", bound))
    if len(obs) < len(sc["ops"]):
        return (len(obs), "scenario aborted")
    return None


def cluster_part(res):
    import dmaplib
    scs = []
    sid = 5000
    for i in range(3 if res.tier == "quick" else 16):
        scs.append(cluster_churn(vlib.rng_for(res.seed, PID, "clchurn", i), sid, 30 if res.tier == "quick" else 60))
        sid += 1
    for i in range(3 if res.tier == "quick" else 12):
        scs.append(cluster_race(vlib.rng_for(res.seed, PID, "clrace", i), sid))
        sid += 1
    for i in range(3 if res.tier == "quick" else 12):
        scs.append(cluster_quiesce(vlib.rng_for(res.seed, PID, "clquiesce", i), sid))
        sid += 1
    groups = [(CL_IDLE_CFG if sc["_kind"] == "quiesce" else CL_CFG, [sc]) for sc in scs]
    results = dmaplib.run_groups(groups)
    bad = 0
    for sc in scs:
        obs = results[sc["id"]]["obs"]
        v = judge_cluster(sc, obs)
        if v:
            bad += 1
            if bad <= 3:
                res.violation({"kind": "impl-violates-property", "part": "cluster", "cluster": CL_IDLE_CFG if sc["_kind"] == "quiesce" else CL_CFG,
                               "scenario": {"ops": sc["ops"][:v[0] + 1], "_kind": sc["_kind"], "_vlen": sc.get("_vlen"), "_B": sc.get("_B")},
                               "failed_step": v[0], "impl_trace": obs[max(0, v[0] - 3):v[0] + 1],
                               "predicate": {"name": "bounded allocation of primary and backup copies after the member's compaction pass; the pass ends", "verdict": v[1]},
                               "seed": res.seed})
    res.coverage["cluster_level"] = {"scenarios": len(scs), "failures": bad,
                                     "rule": "2 members, 2 copies, 512-byte tables: overwrite/delete churn on 6-10 keys with the member's REAL compaction pass "
                                             "(triggerCompaction) after every 2 tables written, Stats of primary and backup copies after each pass against "
                                             "the closed-form bound; the pass racing DM.DESTROY (it has to return); and a burst of one-entry-per-table overwrites followed by "
                                             "silence (maxIdleTableTimeout 300 ms): after the passes every recycled table has been released"}
    return len(scs)


def replay(res, path):
    obj0 = json.load(open(path))
    if obj0.get("part") == "cluster":
        import dmaplib
        ok, out = vlib.harness_build()
        if not ok:
            raise vlib.CheckError(out)
        sc = dict(obj0["scenario"], id=0)
        for attempt in range(3):
            obs = dmaplib.run_groups([(obj0["cluster"], [sc])])[0]["obs"]
            v = judge_cluster(sc, obs)
            if v:
                print(v[1])
                print("VIOLATION property=%s replay=%s" % (res.pid, path))
                return 1
        return 0
    return _replay_store(res, path)


def _replay_store(res, path):
    return c11.replay(res, path, extra_pred=bound_pred)
