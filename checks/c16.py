# C16 - no request can crash or wedge a member (DESIGN.md section 9, fixes/DESIGN-C16.md).
#
# (1) in-process: every protocol.Parse*Command and the real mux + wrapper, called under recover() and a 200 ms
#     watchdog on corpus vectors, on ALL vectors of bounded length over a 24-token alphabet per command and on seeded
#     random longer ones; outcome class and parsed fields are compared with Model/Proto.v inside Coq.
# (2) end to end: a real member in a child process; command vectors, pipelines, crafted internal payloads and raw
#     byte streams are written to its sockets; after each the child must be alive and answer PING on that connection
#     (a new one when the member closed it) and on a second connection; at the end it must be idle.
# The property predicate (implementation only): no panic, no hang, child alive and answering, nothing left spinning.
import itertools
import json
import os
import re

import protolib as P
import vlib

PID = "C16"


def printable(t):
    return t.decode("latin1").encode("unicode_escape").decode()


def vec_json(v):
    return {"hex": [P.hx(t) for t in v], "text": [printable(t) for t in v]}


def corpus():
    out = []
    d = os.path.join(vlib.VERIF, "corpus", PID)
    if os.path.isdir(d):
        for f in sorted(os.listdir(d)):
            if f.endswith(".json"):
                sc = json.load(open(os.path.join(d, f)))
                sc["_file"] = f
                out.append(sc)
    return out


# --------------------------------------------------------------------------------------------------
# scenario construction
# --------------------------------------------------------------------------------------------------

def random_vector(rng, fn, valid):
    """a longer vector: usually a valid prefix followed by a random option tail, sometimes anything"""
    al = P.alphabet(fn)
    name = P.wire_name(fn)
    if rng.random() < 0.15:
        name = [rng.choice([t.lower(), t.upper(), t.title()]) for t in name]
    if rng.random() < 0.8:
        head = list(valid)
        if head and rng.random() < 0.3:
            head[rng.randrange(len(head))] = rng.choice(al)
    else:
        head = [rng.choice(al) for _ in range(rng.randrange(0, 4))]
    tail = [rng.choice(al) for _ in range(rng.randrange(0, 9))]
    return name + head + tail


def inproc_requests(res, regs):
    """(requests compared with the model, requests judged by the predicate only, counts)"""
    quick = res.tier == "quick"
    full, sweep = [], []
    rid = 0
    info = {"corpus": 0, "flat": 0, "deep": 0, "options": 0, "random": 0, "dispatch": 0, "sweep": 0}
    # corpus
    for sc in corpus():
        if sc.get("level") != "inproc":
            continue
        v = [bytes.fromhex(h) for h in sc["v"]]
        if sc.get("dispatch"):
            r = P.vec_request(rid, "", [v], kind="dispatch", regs=regs, precond=sc.get("precond", True))
        else:
            r = P.vec_request(rid, sc["fn"], [v])
        r["_corpus"] = sc["_file"]
        full.append(r)
        rid += 1
        info["corpus"] += 1
    for fn, valid, opts in P.COMMANDS:
        name = P.wire_name(fn)
        al = P.alphabet(fn)
        small = P.alphabet(fn, small=True)
        # every vector `name t1..tn`, n <= 3, over the whole alphabet
        r = P.enum_request(rid, fn, name, al, 0, 3)
        full.append(r)
        rid += 1
        info["flat"] += P.enum_count(r)
        if not quick:
            # n = 4 over the command's relevant sub-alphabet
            for t in small:       # one request per first token: Coq reads the expectations as one list literal
                r = P.enum_request(rid, fn, name + [t], small, 3, 3)
                full.append(r)
                rid += 1
                info["deep"] += P.enum_count(r)
            # n = 4 and 5 over the whole alphabet: predicate only, one request per first token
            for t in al:
                r = P.enum_request(rid, fn, name + [t], al, 3, 4, full=False)
                sweep.append(r)
                rid += 1
                info["sweep"] += P.enum_count(r)
        if opts:
            # a valid call followed by every option tail
            r = P.enum_request(rid, fn, name + list(valid), al, 1, 2 if quick else 3)
            full.append(r)
            rid += 1
            info["options"] += P.enum_count(r)
            if not quick:
                for t in small:
                    r = P.enum_request(rid, fn, name + list(valid) + [t], small, 3, 3)
                    full.append(r)
                    rid += 1
                    info["options"] += P.enum_count(r)
        # seeded random longer vectors
        nrand = 150 if quick else 3000
        vecs = [random_vector(vlib.rng_for(res.seed, PID, "inproc", fn, i), fn, valid) for i in range(nrand)]
        for j in range(0, nrand, 500):
            r = P.vec_request(rid, fn, vecs[j:j + 500])
            full.append(r)
            rid += 1
        info["random"] += nrand
    # dispatch: real mux + wrapper with stub handlers under the names a member registers
    dal = P.dedupe([b"", b"d", b"\x00\xff\r\n$", b"pubsub", b"PUBSUB", b"PubSub", b"numpat", b"NUMPAT", b"channels", b"numsub",
                    b"foo", b"ping", b"PING", b"Ping", b"dm.put", b"DM.PUT", b"internal.node.updaterouting",
                    b"INTERNAL.NODE.UPDATEROUTING", b"pubsub numpat", b"publish.internal", b"CLUSTER.MEMBERS", b"pubsub "])
    for pre in (None, True, False):
        r = P.enum_request(rid, "", [], dal, 0, 2 if quick else 3, kind="dispatch", regs=regs, precond=pre)
        full.append(r)
        rid += 1
        info["dispatch"] += P.enum_count(r)
    return full, sweep, info


RAW_FIXED = [
    b"*0\r\n", b"*-1\r\n", b"*1\r\n$-1\r\n", b"\r\n", b"\r\n\r\n\r\n", b"*1\r\n$0\r\n\r\n", b"*2\r\n$4\r\nPING\r\n",
    b"PING\r\n", b"ping \"a b\" 'c\r\n", b"\"\r\n", b"*1\r\n:1\r\n", b"*x\r\n", b"$5\r\nhello\r\n", b"*1\r\n$999999999999\r\nab\r\n",
    b"*1\r\n$4\r\nPINGxx", b"\x00" * 64, b"\xff" * 64, b"*3\r\n$6\r\nDM.PUT\r\n$1\r\nd\r\n", b"DM.SCAN 0 d 0 MATCH\r\n",
    b"DM.PUT d k v PX\r\n", b"pubsub\r\n", b"*100000\r\n$1\r\na\r\n",
]

# redcon 1.6.2 iterates `for j := 0; j < count; j++` over a multibulk count it has not validated against the bytes
# received: a count of 2^63-1 keeps that goroutine busy for ever (a dependency of olric, see known_findings.json)
SPIN_WITNESS = b"*9223372036854775807\r\n"


def random_raw(rng):
    kind = rng.random()
    if kind < 0.35:
        return bytes(rng.randrange(256) for _ in range(rng.randrange(1, 200)))
    if kind < 0.8:
        # a well formed command with a few bytes damaged
        fn, valid, _ = rng.choice(P.COMMANDS)
        v = P.wire_name(fn) + list(valid) + [rng.choice(P.alphabet(fn)) for _ in range(rng.randrange(0, 3))]
        b = bytearray(b"*%d\r\n" % len(v) + b"".join(b"$%d\r\n%s\r\n" % (len(t), t) for t in v))
        for _ in range(rng.randrange(1, 4)):
            i = rng.randrange(len(b))
            if b[i:i + 1] == b"*" or (i > 0 and b[i - 1:i] == b"*"):
                continue      # multibulk counts are left alone (see SPIN_WITNESS, exercised separately)
            op = rng.random()
            if op < 0.5:
                b[i] = rng.randrange(256)
            elif op < 0.75:
                del b[i]
            else:
                b.insert(i, rng.choice(b"\r\n$*:+-0129 \"'"))
        out = bytes(b)
        return re.sub(rb"\*(\d{6})\d+", rb"*\1", out)
    # telnet style
    fn, valid, _ = rng.choice(P.COMMANDS)
    words = P.wire_name(fn) + list(valid) + [rng.choice(P.alphabet(fn)) for _ in range(rng.randrange(0, 4))]
    return b" ".join(w if w and not re.search(rb"[\s\"']", w) else b'"' + w.replace(b'"', b'\\"') + b'"' for w in words) + b"\r\n"


STATEFUL = [
    [[b"DM.PUTENTRY", b"d", b"k", b""], [b"DM.GET", b"d", b"k"], [b"DM.GETENTRY", b"d", b"k", b"RC"]],
    [[b"DM.PUTENTRY", b"d", b"k2", b"\x05ab"], [b"DM.GETENTRY", b"d", b"k2", b"RC"]] +
    [[b"DM.SCAN", b"%d" % i, b"d", b"0", b"RC"] for i in range(P.PARTS)],
    [[b"DM.PUT", b"d", b"n", b"notanumber"], [b"DM.INCR", b"d", b"n", b"1"], [b"DM.INCRBYFLOAT", b"d", b"n", b"1.5"],
     [b"DM.GETPUT", b"d", b"n", b"x", b"RW"]],
    # an atomic operation that fails on the stored value must leave the key usable: the following ones are answered
    [[b"DM.PUT", b"d", b"f", b"notanumber"], [b"DM.INCRBYFLOAT", b"d", b"f", b"1.5"], [b"DM.INCRBYFLOAT", b"d", b"f", b"2"],
     [b"DM.GETPUT", b"d", b"f", b"still-text"], [b"DM.INCRBYFLOAT", b"d", b"f", b"nan"], [b"DM.DECR", b"d", b"f", b"1"], [b"DM.INCR", b"d", b"f", b"1"]],
    [[b"DM.PUT", b"d", b"a", b"1"]] + [[b"DM.SCAN", b"%d" % i, b"d", b"0", b"COUNT", b"-5"] for i in range(P.PARTS)],
    [[b"DM.SCAN", b"%d" % i, b"d", b"0", b"COUNT", b"9223372036854775807"] for i in range(P.PARTS)],
    [[b"DM.SCAN", b"%d" % i, b"d", b"18446744073709551615", b"COUNT", b"1"] for i in range(P.PARTS)],
    [[b"DM.SCAN", b"%d" % i, b"d", b"0", b"MATCH", b"[a-"] for i in range(P.PARTS)],
    [[b"DM.PUT", b"d", b"e", b"v", b"EX", b"nan"], [b"DM.GET", b"d", b"e"], [b"DM.PUT", b"d", b"e", b"v", b"PXAT", b"-9223372036854775808"],
     [b"DM.GET", b"d", b"e"], [b"DM.EXPIRE", b"d", b"e", b"-inf"], [b"DM.PEXPIRE", b"d", b"e", b"-9223372036854775808"]],
    [[b"DM.LOCK", b"d", b"lk", b"0.01"], [b"DM.UNLOCK", b"d", b"lk", b"zz"], [b"DM.UNLOCK", b"d", b"lk", b""],
     [b"DM.LOCKLEASE", b"d", b"lk", b"", b"nan"], [b"DM.PLOCKLEASE", b"d", b"lk", b"00", b"-1"], [b"DM.LOCK", b"d", b"lk", b"nan"]],
    [[b"DM.PUT", b"d", b"big", b"x" * (P.TABLE + 5000)], [b"DM.PUT", b"d", b"big", b"x" * (P.TABLE - 40)],
     [b"DM.PUT", b"d", b"big", b"x" * (P.TABLE - 33)], [b"DM.PUT", b"d", b"k" * 300, b"v"], [b"DM.PUT", b"", b"", b""], [b"DM.GET", b"", b""]],
    [[b"DM.INCR", b"d", b"c", b"9223372036854775807"], [b"DM.INCR", b"d", b"c", b"1"], [b"DM.DECR", b"d", b"c", b"-9223372036854775808"]],
    [[b"PUBLISH", b"", b""], [b"PUBSUB", b"channels", b"["], [b"PUBSUB", b"numsub"], [b"pubsub"], [b"pubsub", b"foo"],
     [b"PSUBSCRIBE", b"["], [b"PUBLISH", b"[", b"x"]],
    [[b"SUBSCRIBE", b"a"], [b"DM.PUT", b"d", b"k", b"v", b"PX"], [b"PING"]],
    # a connection in subscribed mode is served by the pub/sub loop, not by the multiplexer
    [[b"SUBSCRIBE", b"a"], [b"UNSUBSCRIBE", b"b"], [b"PING"]],
    [[b"SUBSCRIBE", b"a"], [b"PUNSUBSCRIBE", b"q*"], [b"PUNSUBSCRIBE", b"a"], [b"PING"]],
    [[b"PSUBSCRIBE", b"p*"], [b"UNSUBSCRIBE", b"a"], [b"PUNSUBSCRIBE", b"zz"], [b"UNSUBSCRIBE", b"p*"], [b"PING"]],
    [[b"SUBSCRIBE", b"a"], [b"UNSUBSCRIBE", b"a"], [b"UNSUBSCRIBE", b"a"], [b"PING"]],
    [[b"SUBSCRIBE", b"a"], [b"SUBSCRIBE", b"a"], [b"UNSUBSCRIBE"], [b"PUNSUBSCRIBE"], [b"UNSUBSCRIBE"], [b"PING"]],
    [[b"SUBSCRIBE", b"a"], [b"SUBSCRIBE"], [b"PSUBSCRIBE"], [b"PING", b"x", b"y"], [b"DM.GET", b"d", b"k"], [b"PUBLISH", b"a", b"x"], [b"QUIT"]],
    [[b"PSUBSCRIBE", b"["], [b"PUNSUBSCRIBE", b"["], [b"PUNSUBSCRIBE", b"\\"], [b"UNSUBSCRIBE", b""], [b"PING"]],
    [[b"STATS", b"CR"], [b"CLUSTER.ROUTINGTABLE"], [b"CLUSTER.MEMBERS"], [b"DM.DESTROY", b"d"], [b"DM.DESTROY", b"d", b"LC"]],
    [[b"DM.DEL", b"d"] + [b"k%d" % i for i in range(1500)]],
] + [
    # keys around the largest key length the storage format can hold (one length byte): stored or refused, then read, scanned, counted, deleted
    [[b"DM.PUT", b"d", b"K" * n, b"v"], [b"DM.GET", b"d", b"K" * n], [b"DM.GETENTRY", b"d", b"K" * n], [b"DM.INCR", b"d", b"K" * n, b"1"],
     [b"DM.EXPIRE", b"d", b"K" * n, b"100"]] + [[b"DM.SCAN", b"%d" % i, b"d", b"0"] for i in range(P.PARTS)] + [[b"DM.DEL", b"d", b"K" * n], [b"PING"]]
    for n in (255, 256, 257, 511, 512, 65536)
]


def special_items():
    """crafted internal payloads: (item, model query or None)"""
    out = []
    P_ = P.PARTS
    allp = list(range(P_))
    for ids, nil in [(allp, False), (allp, True), (allp[:-1] + [P_], False), (allp[:-1] + [99], False),
                     (allp[:-1] + [18446744073709551615], False), (allp[:-1], False), (allp + [P_], False), ([], False)]:
        out.append(({"special": "routing", "ids": ids, "nilroute": nil, "coord": "self"},
                    ("routing", [(i, not nil) for i in ids])))
    out.append(({"special": "routing", "ids": allp, "coord": "12345"}, None))
    entry = bytes([1]) + b"a" + bytes(24) + bytes([0, 0, 0, 2]) + b"vv"
    good = {"offset": len(entry), "alloc": 1024, "inuse": len(entry), "mem": entry.hex(), "hkeys": {"5": 0}}
    out.append(({"special": "movefragment", "part": 0, "kindp": 1, "name": "mf", "inner": good}, None))
    bads = [
        dict(good, offset=5000),                         # offset beyond allocated
        dict(good, hkeys={"5": 1000}),                   # index entry outside the memory
        dict(good, hkeys={"5": len(entry) - 1}),         # header runs past the end
        dict(good, mem=(bytes([200]) + entry[1:]).hex()),            # key length runs past the end
        dict(good, mem=(entry[:26] + b"\xff\xff\xff\xff" + b"vv").hex()),   # value length runs past the end
        dict(good, alloc=1 << 60),                       # absurd allocation
        dict(good, alloc=1 << 40),                       # an allocation the header check lets through: the receiver must not allocate it (D50)
        dict(good, alloc=1 << 36),
        dict(good, badindex=True),
        dict(good, offset=0, mem="", hkeys={}),
    ]
    for b in bads:
        out.append(({"special": "movefragment", "part": 0, "kindp": 1, "name": "mf", "inner": b}, None))
    for part, kind in [(P_, 1), (99, 2), (18446744073709551615, 1), (0, 7)]:
        out.append(({"special": "movefragment", "part": part, "kindp": kind, "name": "mf", "inner": good}, None))
    out.append(({"special": "movefragment", "part": 0, "kindp": 1, "name": "mf", "innerraw": "c1c1c1"}, None))
    out.append(({"special": "movefragment", "part": 0, "kindp": 1, "name": "mf", "innerraw": ""}, None))
    return out


def id_probe_items():
    ids = list(range(P.PARTS + 3)) + [99, 4294967296, 9223372036854775808, 18446744073709551615]
    out = []
    for i in ids:
        out.append(([b"DM.SCAN", b"%d" % i, b"d", b"0"], ("scan", i)))
        out.append(([b"DM.SCAN", b"%d" % i, b"d", b"0", b"RC"], ("scan", i)))
        out.append(([b"INTERNAL.NODE.LENGTHOFPART", b"%d" % i], ("length", i)))
        out.append(([b"INTERNAL.NODE.LENGTHOFPART", b"%d" % i, b"RC"], ("length", i)))
    return out


def socket_items(res):
    quick = res.tier == "quick"
    items = []
    uid = [0]

    def add(**kw):
        kw["id"] = uid[0]
        uid[0] += 1
        items.append(kw)
        return kw

    for sc in corpus():
        if sc.get("level") != "socket":
            continue
        for it in sc["items"]:
            if "v" in it:
                add(v=[bytes.fromhex(h) for h in it["v"]], _src="corpus:" + sc["_file"])
            elif "raw" in it:
                add(raw=bytes.fromhex(it["raw"]), _src="corpus:" + sc["_file"])
            elif "pipe" in it:
                add(pipe=[[bytes.fromhex(h) for h in v] for v in it["pipe"]], _src="corpus:" + sc["_file"])
            else:
                add(_src="corpus:" + sc["_file"], **{k: v for k, v in it.items()})
    for v, q in id_probe_items():
        add(v=v, _src="ids", _query=q)
    for it, q in special_items():
        add(_src="special", _query=q, **it)
    for seq in STATEFUL:
        for v in seq:
            add(v=v, _src="stateful")
        add(pipe=seq, _src="stateful")
    # every vector of length <= 2 (quick) / 3 (thorough) after the name, for every command, and option tails
    for fn, valid, opts in P.COMMANDS:
        al = P.alphabet(fn)
        name = P.wire_name(fn)
        for L in range(0, 3 if quick else 4):
            for w in itertools.product(al if L < 3 else P.alphabet(fn, small=True), repeat=L):
                add(v=P.shape_for_socket(name + list(w), uid[0]), _src="flat", _fn=fn)
        if opts:
            for L in range(1, 3):
                for w in itertools.product(al, repeat=L):
                    add(v=P.shape_for_socket(name + list(valid) + list(w), uid[0]), _src="options", _fn=fn)
        for i in range(60 if quick else 600):
            rng = vlib.rng_for(res.seed, PID, "sock", fn, i)
            add(v=P.shape_for_socket(random_vector(rng, fn, valid), uid[0]), _src="random", _fn=fn)
    for i in range(20 if quick else 200):
        rng = vlib.rng_for(res.seed, PID, "pipe", i)
        seq = []
        for _ in range(rng.randrange(2, 12)):
            fn, valid, _o = rng.choice(P.COMMANDS)
            seq.append(P.shape_for_socket(random_vector(rng, fn, valid), uid[0] * 100 + len(seq)))
        add(pipe=seq, _src="random-pipe")
    for b in RAW_FIXED:
        add(raw=b, _src="raw")
    for i in range(150 if quick else 1500):
        add(raw=random_raw(vlib.rng_for(res.seed, PID, "raw", i)), _src="raw")
    return items


# --------------------------------------------------------------------------------------------------
# predicate, shrinking
# --------------------------------------------------------------------------------------------------

def item_scenario(it):
    o = {}
    if "v" in it:
        o["v"] = [P.hx(t) for t in it["v"]]
        o["text"] = [printable(t) for t in it["v"]][:12]
    elif "pipe" in it:
        o["pipe"] = [[P.hx(t) for t in v] for v in it["pipe"]]
        o["text"] = [[printable(t)[:40] for t in v][:8] for v in it["pipe"]]
    elif "raw" in it:
        o["raw"] = it["raw"].hex()
        o["text"] = printable(it["raw"])[:200]
    else:
        o.update({k: v for k, v in it.items() if not k.startswith("_") and k != "id"})
    return o


def scenario_item(o, iid=0):
    it = {"id": iid}
    if "v" in o:
        it["v"] = [bytes.fromhex(h) for h in o["v"]]
    elif "pipe" in o:
        it["pipe"] = [[bytes.fromhex(h) for h in v] for v in o["pipe"]]
    elif "raw" in o:
        it["raw"] = bytes.fromhex(o["raw"])
    else:
        it.update({k: v for k, v in o.items() if k != "text"})
    return it


SPIN_MS = 150


def socket_verdict(items):
    """run items on a fresh child; None when the predicate holds, else (kind, detail, index)"""
    hdr, rs, fin = P.run_socket(items)
    for k, it in enumerate(items):
        r = rs.get(it["id"])
        if r is None:
            return ("no-result", "the harness reported nothing for the item", k)
        if r.get("skipped"):
            continue
        if r.get("fail"):
            return (r["fail"], r.get("detail", ""), k)
    if fin is None or not fin.get("alive"):
        return ("dead", (fin or {}).get("detail", "the member did not survive the run"), len(items) - 1)
    if fin.get("idle_cpu_ms", 0) >= SPIN_MS:
        return ("spin", "with every connection closed the member still burns %d ms CPU per 300 ms" % fin["idle_cpu_ms"], len(items) - 1)
    return None


def shrink_list(xs, fails, max_rounds=60):
    xs = list(xs)
    n, rounds = 2, 0
    while len(xs) >= 2 and rounds < max_rounds:
        chunk = max(1, len(xs) // n)
        reduced = False
        for i in range(0, len(xs), chunk):
            cand = xs[:i] + xs[i + chunk:]
            if not cand:
                continue
            rounds += 1
            if fails(cand):
                xs, n, reduced = cand, max(n - 1, 2), True
                break
        if not reduced:
            if chunk == 1:
                break
            n = min(len(xs), n * 2)
    return xs


def shrink_socket_item(it, kind):
    def fails_items(its):
        v = socket_verdict([dict(x, id=i) for i, x in enumerate(its)])
        return v is not None and v[0] == kind
    if "v" in it:
        name, rest = it["v"][:1], it["v"][1:]
        rest = shrink_list(rest, lambda c: fails_items([{"v": name + c}]), max_rounds=14) if len(rest) > 1 else rest
        return {"v": name + rest}
    if "pipe" in it:
        seq = shrink_list(it["pipe"], lambda c: fails_items([{"pipe": c}]), max_rounds=14)
        if len(seq) == 1 and fails_items([{"v": seq[0]}]):
            return {"v": seq[0]}
        return {"pipe": seq}
    if "raw" in it:
        raw = it["raw"]
        bs = shrink_list([raw[i:i + 1] for i in range(len(raw))], lambda c: fails_items([{"raw": b"".join(c)}]), max_rounds=40)
        return {"raw": b"".join(bs)}
    return {k: v for k, v in it.items() if not k.startswith("_") and k != "id"}


def inproc_outcome(kind, fn, v, regs=None, precond=True):
    if kind == "dispatch":
        r = P.vec_request(0, "", [v], kind="dispatch", regs=regs, precond=precond)
    else:
        r = P.vec_request(0, fn, [v])
    rr = P.run_proto([r], jobs=1)[0]
    o = rr["runs"][0][1]
    detail = rr["bad"][0]["o"] if rr.get("bad") else o
    return o, detail


BAD_INPROC = ("IP", "IH", "JP", "JX")


def classify(kind, detail, scenario):
    k = {"kind": kind}
    if "raw" in scenario and re.search(rb"\*\d{7,}\r\n", bytes.fromhex(scenario["raw"])):
        k["class"] = "redcon-multibulk-count"
    return k


# --------------------------------------------------------------------------------------------------
# the check
# --------------------------------------------------------------------------------------------------

def model_queries(items, rs):
    """replies of the id probes and crafted routing tables as (query, accepted) pairs"""
    qs = []
    for it in items:
        q = it.get("_query")
        r = rs.get(it["id"])
        if not q or not r or r.get("fail") or r.get("skipped"):
            continue
        rep = r["r"]
        if rep.startswith("ok:"):
            acc = True
        elif rep.startswith("err:ERR:invalid partition") or rep.startswith("err:ERR:empty route"):
            acc = False
        else:
            continue
        qs.append((q, acc, it))
    return qs


def coq_id_cases(qs):
    terms = []
    for q, acc, _ in qs:
        if q[0] == "scan":
            t = "QScan %d%%N" % q[1]
        elif q[0] == "length":
            t = "QLength %d%%N" % q[1]
        else:
            t = "QRouting [%s]" % ";".join("(%d%%N,%s)" % (i, vlib.cbool(b)) for i, b in q[1])
        terms.append("(%s, %s)" % (t, vlib.cbool(acc)))
    text = P.HEADER + "Definition M := Eval vm_compute in id_mismatches %d%%N [\n%s\n] 0.\nPrint M.\n" % (P.PARTS, ";\n".join(terms))
    rc, out, err, dt = vlib.coq_eval("c16ids_%d" % os.getpid(), text)
    if rc != 0:
        raise vlib.CheckError("coqc failed on the id cases: " + err[-2000:])
    body = " ".join(out.split("M =", 1)[1].rsplit(":", 1)[0].split())
    if body.strip() in ("[]", "nil"):
        return []
    return [int(x) for x in re.findall(r"\d+", body)]


def run(res):
    proofs_ok = vlib.common_obligations(res, PID)
    if getattr(res, "harness_error", None):
        res.violation({"kind": "harness-build", "failed": "correspondence: the harness no longer compiles against /repo",
                       "detail": res.harness_error[-3000:]}, no_input=True)
        res.coverage.update({"evaluations": 0, "distinct_nontrivial": 0})
        return
    quick = res.tier == "quick"
    reported = set()

    def report(kind, scenario, trace, verdict):
        key = json.dumps(scenario, sort_keys=True)
        if key in reported or len(res.violations) >= 8:
            return
        reported.add(key)
        kf = vlib.match_known(PID, classify(kind, verdict, scenario))
        if kf:
            res.known_finding(kf["description"])
            return
        res.violation({"kind": "impl-violates-property", "scenario": scenario, "impl_trace": trace,
                       "predicate": {"name": "no panic, no hang, member alive and answering, nothing left spinning", "verdict": verdict},
                       "seed": res.seed})

    # ---------------- (2a) a first, short socket run tells which commands a member registers ----------------
    hdr, _, _ = P.run_socket([{"id": 0, "v": [b"PING"]}])
    regs = hdr["child"]["commands"]
    missing_cmds = [c[0] for c in P.COMMANDS if c[0] not in regs]
    extra_cmds = [c for c in regs if c not in P.FN_INDEX]

    # ---------------- (1) in-process ----------------
    full, sweep, info = inproc_requests(res, regs)
    results = P.run_proto(full + sweep)
    byid = {r["id"]: r for r in full + sweep}
    # a watchdog trip on a loaded machine is not a hang: a real one reproduces when the vector runs on its own
    transient = 0
    for rid in list(results):
        rr, rq = results[rid], byid[rid]
        hung = [b for b in rr.get("bad") or [] if b["o"] == "IH"]
        if not hung:
            continue
        if any(inproc_outcome(rq["k"], rq["fn"], P.enum_vector(rq, b["i"]), rq.get("regs"), rq.get("precond"))[0] == "IH" for b in hung[:3]):
            continue
        transient += len(hung)
        results[rid] = P.run_proto([rq], jobs=1)[rid]
    classes_by_fn, total_inproc, nontrivial = {}, 0, 0
    inproc_fail = []
    for rid, rr in results.items():
        rq = byid[rid]
        fnk = rq["fn"] or "<dispatch>"
        h = classes_by_fn.setdefault(fnk, {})
        for k, v in rr["classes"].items():
            k2 = k.replace("IE ", "")
            h[k2] = h.get(k2, 0) + v
            total_inproc += v
            if k not in ("IE EWrongArgs", "JU", "JW"):
                nontrivial += v
        for b in rr.get("bad") or []:
            inproc_fail.append((rq, b))
        if rr.get("incomplete"):
            inproc_fail.append((rq, {"i": rr["n"], "vec": None, "o": "IH"}))
    for rq in full + sweep:
        if rq["id"] not in results:
            raise vlib.CheckError("no result for in-process request %d" % rq["id"])
    for rq, b in inproc_fail[:12]:
        v = P.enum_vector(rq, b["i"])
        kind = rq["k"]
        okind = b["o"].split(" #")[0]

        def still(c, kind=kind, rq=rq, okind=okind):
            return inproc_outcome(kind, rq["fn"], c, rq.get("regs"), rq.get("precond"))[0] == okind
        small = shrink_list(v, still, max_rounds=40) if len(v) > 1 else v
        o, detail = inproc_outcome(kind, rq["fn"], small, rq.get("regs"), rq.get("precond"))
        if o not in BAD_INPROC:
            small = v
            o, detail = inproc_outcome(kind, rq["fn"], small, rq.get("regs"), rq.get("precond"))
        if o not in BAD_INPROC:
            transient += 1
            continue
        sc = {"level": "inproc", "fn": rq["fn"], "v": [P.hx(t) for t in small], "text": [printable(t) for t in small]}
        if kind == "dispatch":
            sc.update({"dispatch": True, "precond": rq.get("precond"), "regs": rq["regs"]})
        what = "panicked" if o in ("IP", "JP") else ("did not return within 200 ms" if o == "IH" else "unexpected reply")
        report("inproc-" + o, sc, detail, "%s %s on %s: %s" % ("dispatch" if kind == "dispatch" else "protocol parser of " + rq["fn"], what, sc["text"], detail))

    mism, coq_secs = P.coq_compare("c16", full, results, target=60000)

    # ---------------- (2) end to end ----------------
    items = socket_items(res)
    hdr, rs, finals = P.run_socket_parallel(items, jobs=8)
    sock_fail = []
    reply_hist, src_hist = {}, {}
    sock_nontrivial = 0
    for it in items:
        r = rs.get(it["id"])
        if r is None:
            raise vlib.CheckError("no result for socket item %d" % it["id"])
        src_hist[it["_src"]] = src_hist.get(it["_src"], 0) + 1
        if r.get("skipped"):
            reply_hist["skipped-after-4-failures"] = reply_hist.get("skipped-after-4-failures", 0) + 1
            continue
        if r.get("fail"):
            sock_fail.append((it, r))
            k = "FAIL:" + r["fail"]
        else:
            rep = r["r"]
            k = ":".join(rep.split(":")[:2]) if rep.startswith("err") else rep
            if not (rep.startswith("err:ERR:wrong number") or rep.startswith("err:ERR:unknown command")):
                sock_nontrivial += 1
        reply_hist[k] = reply_hist.get(k, 0) + 1
    seen_kinds = set()
    todo_fail = []
    for it, r in sock_fail:
        head = (it.get("v") or [b""])[0].lower() if "v" in it else it.get("special", "pipe" if "pipe" in it else "raw")
        sig = (r["fail"], head, (r.get("detail") or "").splitlines()[0][:60] if r.get("detail") else "")
        if sig not in seen_kinds:
            seen_kinds.add(sig)
            todo_fail.append((it, r))
    for it, r in todo_fail[:4]:
        small = shrink_socket_item(it, r["fail"])
        v = socket_verdict([dict(small, id=0)])
        if v is None:
            small = {k: x for k, x in it.items() if not k.startswith("_") and k != "id"}
            v = socket_verdict([dict(small, id=0)])
        if v is None:
            # not reproduced on a fresh member: replay the items that preceded it on the same child
            idx = items.index(it)
            prefix = [x for x in items[:idx + 1] if x["id"] % max(1, len(finals)) == it["id"] % max(1, len(finals))][-400:]
            v = socket_verdict([dict(x, id=i) for i, x in enumerate(prefix)])
            if v is None:
                transient += 1
                continue
            small = None
            sc = {"level": "socket", "items": [item_scenario(x) for x in prefix]}
            report("socket-" + v[0], sc, v[1][:3000], "member %s after a sequence of %d requests: %s" % (v[0], len(prefix), v[1].splitlines()[0] if v[1] else ""))
            continue
        sc = dict(item_scenario(small), level="socket")
        report("socket-" + v[0], sc, v[1][:3000], "member %s: %s" % (v[0], v[1].splitlines()[0] if v[1] else ""))
    spinning = [f for f in finals if f and f.get("alive") and f.get("idle_cpu_ms", 0) >= SPIN_MS]
    dead_end = [f for f in finals if not f or not f.get("alive")]
    if (spinning or dead_end) and not sock_fail:
        # something left a goroutine spinning (or killed the member late): find it among the raw streams and pipelines
        cand = [it for it in items if "raw" in it or "pipe" in it]
        kind = "spin" if spinning else "dead"

        def fails(c):
            v = socket_verdict([dict(x, id=i) for i, x in enumerate(c)])
            return v is not None and v[0] == kind
        if fails(cand):
            small = shrink_list(cand, fails, max_rounds=40)
            one = shrink_socket_item(small[0], kind) if len(small) == 1 else None
            sc = dict(item_scenario(one), level="socket") if one else {"level": "socket", "items": [item_scenario(x) for x in small]}
            v = socket_verdict([scenario_item(sc)]) if one else socket_verdict([dict(x, id=i) for i, x in enumerate(small)])
            report("socket-" + kind, sc, (v or (kind, ""))[1], "member %s after the run: %s" % (kind, (v or (kind, "?"))[1]))
        else:
            report("socket-" + kind, {"level": "socket", "items": "whole run", "seed": res.seed}, json.dumps(finals),
                   "the member was %s at the end of the run; no single raw stream reproduces it" % kind)
    # the spin witness of the dependency, on its own child
    spin_v = socket_verdict([{"id": 0, "raw": SPIN_WITNESS}])
    if spin_v is not None:
        sc = {"level": "socket", "raw": SPIN_WITNESS.hex(), "text": printable(SPIN_WITNESS)}
        report("socket-" + spin_v[0], sc, spin_v[1], "member %s: %s" % (spin_v[0], spin_v[1]))
    else:
        for kf in vlib.known_findings():
            if kf.get("status") == "open" and PID in kf.get("properties", []) and kf.get("matcher", {}).get("class") == "redcon-multibulk-count":
                print("NOTE: known finding %s is no longer reproduced (stale)" % kf["id"])

    # decisions on ids: model vs member
    qs = model_queries(items, rs)
    id_mism = coq_id_cases(qs) if qs else []

    # ---------------- correspondence verdicts ----------------
    if not res.violations:
        if mism:
            rid, idx, mobs = mism[0]
            rq = byid[rid]
            v = P.enum_vector(rq, idx) if idx >= 0 else []
            impl = next(itertools.islice(P.expand_runs(results[rid]["runs"]), idx, idx + 1), None) if idx >= 0 else None
            res.violation({"kind": "model-vs-impl", "failed": "correspondence Model/Proto.v vs %s: outcome of %s" % (
                "internal/server mux+wrapper" if rq["k"] == "dispatch" else "internal/protocol parser of " + rq["fn"],
                [printable(t) for t in v]), "scenario": {"level": "inproc", "fn": rq["fn"], "v": [P.hx(t) for t in v],
                                                         "dispatch": rq["k"] == "dispatch", "precond": rq.get("precond"), "regs": rq.get("regs")},
                "impl_outcome": impl, "model_outcome": mobs, "mismatching_vectors": len(mism),
                "note": "the predicate (no panic, no hang, alive and answering) holds on every explored input", "seed": res.seed},
                no_input=True)
        elif id_mism:
            q, acc, it = qs[id_mism[0]]
            res.violation({"kind": "model-vs-impl", "failed": "correspondence Model/Proto.v (decisions on partition ids) vs member: %s accepted=%s" % (q, acc),
                           "scenario": dict(item_scenario(it), level="socket"), "seed": res.seed}, no_input=True)
        elif missing_cmds or extra_cmds:
            res.violation({"kind": "model-vs-impl", "failed": "correspondence: command table of the model vs commands registered by a member",
                           "not_registered": missing_cmds, "not_modelled": extra_cmds}, no_input=True)
    if not proofs_ok and not res.violations:
        broken = [o for o in res.obligations if not o["ok"]]
        res.violation({"kind": "obligation-broken", "failed": [o["theorem"] for o in broken],
                       "detail": [o.get("detail", o.get("axioms")) for o in broken],
                       "note": "searched %d in-process vectors and %d socket items with the predicate, none failed" % (total_inproc, len(items))},
                      no_input=True)

    # ---------------- evidence ----------------
    sample_req = [r for r in full if r["fn"] == "dm.put" and "vecs" in r and "_corpus" not in r][0]
    sample_runs = list(itertools.islice(P.expand_runs(results[sample_req["id"]]["runs"]), 3))
    samples = [{"level": "inproc", "fn": "dm.put", "vector": [printable(t) for t in P.enum_vector(sample_req, i)], "impl_outcome": sample_runs[i]}
               for i in range(min(3, len(sample_runs)))]
    for it in items:
        if it["_src"] in ("special", "raw", "random-pipe") and len(samples) < 7 and not any(s.get("src") == it["_src"] for s in samples) and "r" in rs[it["id"]]:
            samples.append(dict(item_scenario(it), level="socket", src=it["_src"], reply=rs[it["id"]].get("r")))
    compared = sum(P.enum_count(r) for r in full)
    res.coverage.update({
        "evaluations": total_inproc + len(items),
        "distinct_nontrivial": nontrivial + sock_nontrivial,
        "rule": "in-process: corpus + ALL vectors `name t1..tn` (n <= 3) over a 24-token alphabet per command (keywords in both cases, "
                "valid/negative/overflowing/empty/non-numeric numbers, empty and binary strings) + every option tail of length <= %d after a valid call "
                "+ seeded random vectors of length <= 14%s; dispatch: all vectors of length <= %d over 22 name-like tokens x 3 precondition settings. "
                "socket: corpus, id probes, crafted UPDATEROUTING / MOVEFRAGMENT payloads, stateful sequences, every vector with n <= %d for every command, "
                "option tails, random vectors, random pipelines, fixed and random raw byte streams. "
                "non-trivial = the vector passed the argument-count check / command lookup (outcome other than wrong-number-of-arguments or unknown command)" % (
                    2 if quick else 4, "" if quick else " + n = 4 over a 16-token sub-alphabet + n <= 5 over the whole alphabet judged by the predicate only",
                    2 if quick else 3, 2 if quick else 3),
        "exhaustive": False,
        "exhaustive_part": {"alphabet": 24, "max_free_tokens_compared_with_model": 3, "max_free_tokens_predicate_only": 3 if quick else 5,
                            "inproc_counts": info},
        "inproc_vectors": total_inproc, "inproc_vectors_compared_with_model": compared, "socket_items": len(items),
        "outcome_histogram_by_command": classes_by_fn, "socket_reply_histogram": reply_hist, "socket_items_by_source": src_hist,
        "id_decisions_compared": len(qs), "id_decision_mismatches": len(id_mism),
        "traces_validated_against_impl": compared + len(qs),
        "model_vs_impl_mismatches": len(mism), "predicate_failures": max(0, len(inproc_fail) + len(sock_fail) + len(spinning) + len(dead_end) - transient),
        "coq_eval_seconds": round(coq_secs, 1), "children": len(finals), "watchdog_trips_not_reproduced": transient,
        "idle_cpu_ms_at_end": [f.get("idle_cpu_ms") for f in finals if f],
        "samples": samples,
    })
    res.assumptions += [
        "strconv.ParseFloat and the float64 -> time.Duration conversion are oracles of the model (their results per token are taken from the implementation)",
        "strings.ToUpper/ToLower are modelled on ASCII; tokens containing U+0130 U+0131 U+017F U+212A are not generated",
        "redcon's RESP reader is fuzzed, not modelled; it never delivers an empty argument vector",
        "DM.LOCK vectors with a deadline above 50 ms get a key of their own on the socket (a wait the client asked for is not a wedge)"]


def replay(res, path):
    obj = json.load(open(path))
    sc = obj.get("scenario")
    if not sc or (sc.get("level") == "socket" and sc.get("items") == "whole run"):
        print("replay has no scenario (names a broken obligation or a whole run): %s" % obj.get("failed", obj.get("predicate")))
        return 1
    ok, out = vlib.harness_build()
    if not ok:
        raise vlib.CheckError(out)
    if sc.get("level") == "inproc":
        v = [bytes.fromhex(h) for h in sc["v"]]
        o, detail = inproc_outcome("dispatch" if sc.get("dispatch") else "parse", sc.get("fn", ""), v, sc.get("regs"), sc.get("precond"))
        print(json.dumps({"vector": [printable(t) for t in v], "impl_outcome": o, "detail": detail}, indent=1))
        bad = o in BAD_INPROC
    else:
        its = [scenario_item(x, i) for i, x in enumerate(sc["items"])] if "items" in sc else [scenario_item(sc)]
        v = socket_verdict(its)
        print(json.dumps({"scenario": {k: x for k, x in sc.items() if k in ("text", "special", "ids", "inner")}, "verdict": v}, indent=1))
        bad = v is not None
    if bad:
        print("VIOLATION property=%s replay=%s" % (res.pid, path))
        return 1
    return 0
