# C12 - a full scan returns every stable key exactly once and nothing else.
# Store level here (kvstore cursors over shaped tables); the client iterator part is in c12's cluster section.
import json

import c11
import storelib
import vlib

PID = "C12"


def scenarios(res):
    scs = c11.corpus()
    sid = 0
    for s in scs:
        s["id"] = sid
        sid += 1
    ncorpus = len(scs)
    n = 300 if res.tier == "quick" else 4000
    W = {"put": 30, "putraw": 6, "get": 1, "getraw": 0, "getkey": 0, "getttl": 0, "check": 0, "del": 14,
         "updttl": 1, "stats": 1, "len": 0, "range": 1, "compact": 8, "compactall": 6, "scanall": 25, "xfer": 3}
    for i in range(n):
        rng = vlib.rng_for(res.seed, PID, i)
        sc = storelib.gen_random(rng, sid, nops=rng.randrange(15, 70), weights=W)
        # every scenario ends with full iterations at several page sizes and patterns
        for cnt in (1, 2, 3, 10, 1000):
            sc["ops"].append(["scanall", "a", cnt, 0])
        sc["ops"] += [["scanall", "a", 1, 98], ["scanall", "a", 2, 99], ["scanall", "a", 1, 123], ["scanall", "b", 1, 0]]
        scs.append(sc)
        sid += 1
    return scs, ncorpus, 0, n


def nontrivial(sc, obs):
    """a full scan over a store with a hole in the table numbering or >= 3 tables, after deletes/overwrites"""
    multi = any(op[0] == "stats" and ob[0] == "stats" and ob[5] >= 3 for op, ob in zip(sc["ops"], obs))
    compacted = any(op[0] in ("compact", "compactall", "xfer") for op in sc["ops"])
    scanned = any(op[0] == "scanall" and ob[0] == "keys" and ob[1] for op, ob in zip(sc["ops"], obs))
    return scanned and (multi or compacted)


def run(res):
    c11.run(res, pid=PID, scs_fn=scenarios, nontrivial_fn=nontrivial,
            rule="corpus (holes, recycled tables, stale versions) + seeded random histories of puts/overwrites/deletes/compaction/"
                 "transfer that shape the tables, each followed by full iterations from cursor 0 to cursor 0 with COUNT in "
                 "{1,2,3,10,1000} and patterns {none, ^a, ^b, ^z}; compared: sorted multiset of yielded keys (exactly the present "
                 "matching keys, each once) and termination; cursor values are not compared")


def replay(res, path):
    return c11.replay(res, path)
