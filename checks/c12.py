# C12 - a full scan returns every stable key exactly once and nothing else.
# Store level here (kvstore cursors over shaped tables); the client iterator part is in c12's cluster section.
import json

import c11
import storelib
import vlib

PID = "C12"


def scenarios(res):
    scs = c11.corpus()
    sid = 0
    for s in scs:
        s["id"] = sid
        sid += 1
    ncorpus = len(scs)
    n = 300 if res.tier == "quick" else 4000
    W = {"put": 30, "putraw": 6, "get": 1, "getraw": 0, "getkey": 0, "getttl": 0, "check": 0, "del": 14,
         "updttl": 1, "stats": 1, "len": 0, "range": 1, "compact": 8, "compactall": 6, "scanall": 25, "xfer": 3}
    for i in range(n):
        rng = vlib.rng_for(res.seed, PID, i)
        sc = storelib.gen_random(rng, sid, nops=rng.randrange(15, 70), weights=W)
        # every scenario ends with full iterations at several page sizes and patterns
        for cnt in (1, 2, 3, 10, 1000):
            sc["ops"].append(["scanall", "a", cnt, 0])
        sc["ops"] += [["scanall", "a", 1, 98], ["scanall", "a", 2, 99], ["scanall", "a", 1, 123], ["scanall", "b", 1, 0],
                      ["scanall", "a", 1000, 257 + 98]]
        # a pattern that is not anchored and matches inside the key: the byte some key of this scenario carries after its first
        inner = sorted({bytes.fromhex(op[3])[1] for op in sc["ops"] if op[0] in ("put", "putraw") and len(op[3]) >= 4 and bytes.fromhex(op[3])[1] < 128})   # Go's \xNN is a code point: only ASCII denotes one byte
        for b in inner[:2]:
            sc["ops"] += [["scanall", "a", 2, 257 + b], ["scanall", "a", 1, 257 + b]]
        scs.append(sc)
        sid += 1
    for i in range(30 if res.tier == "quick" else 400):
        scs.append(storelib.gen_paged_scan(vlib.rng_for(res.seed, PID, "paged", i), sid))
        sid += 1
    return scs, ncorpus, 0, n


def nontrivial(sc, obs):
    """a full scan over a store with a hole in the table numbering or >= 3 tables, after deletes/overwrites"""
    multi = any(op[0] == "stats" and ob[0] == "stats" and ob[5] >= 3 for op, ob in zip(sc["ops"], obs))
    compacted = any(op[0] in ("compact", "compactall", "xfer") for op in sc["ops"])
    scanned = any(op[0] == "scanall" and ob[0] == "keys" and ob[1] for op, ob in zip(sc["ops"], obs))
    return scanned and (multi or compacted)


def cluster_scan_scenario(rng, sid, members):
    import dmaplib
    d = "c12d%d" % sid
    n = rng.randrange(40, 260)
    keys = [dmaplib.hx("%s%04d" % (rng.choice("abz"), i)) for i in range(n)]
    ops = []
    live = set()
    for k in keys:
        ops.append({"op": "put", "c": rng.choice(["emb@owner", "cc", "emb@other"]), "d": d, "k": k, "v": dmaplib.hx("v" * rng.choice([1, 20, 60]))})
        live.add(k)
    for _ in range(n // 2):
        k = rng.choice(keys)
        if rng.random() < 0.5:
            ops.append({"op": "del", "c": "cc", "d": d, "k": k})
            live.discard(k)
        else:
            ops.append({"op": "put", "c": "emb@owner", "d": d, "k": k, "v": dmaplib.hx("w" * rng.choice([1, 30, 70]))})
            live.add(k)
    for m in range(members):
        ops.append({"op": "compact", "m": m, "d": d})
    scans = []
    for c in ("cc", "emb@owner", "emb@other"):
        for cnt in (0, 1, 3, 1000):
            scans.append({"op": "iterscan", "c": c, "d": d, "count": cnt})
        for pat in ("^61", "^7a7a", "."):          # keys are hex-decoded: ^a, ^zz (matches nothing), anything
            scans.append({"op": "iterscan", "c": c, "d": d, "count": rng.choice([0, 2]), "match": bytes.fromhex(pat[1:]).decode() if pat != "." else "."})
    for sc in scans:
        if sc.get("match") and sc["match"] != ".":
            sc["match"] = "^" + sc["match"]
    # patterns that are not anchored: a literal that occurs inside the key, a suffix, a literal followed by a class
    for c in ("cc", "emb@owner", "emb@other"):
        for pat in ("00", "5$", "1[0-9]$", "a00"):
            scans.append({"op": "iterscan", "c": c, "d": d, "count": rng.choice([0, 2]), "match": pat})
    return {"id": sid, "ops": ops + scans, "_live": sorted(live)}


def judge_cluster_scan(sc, obs):
    import re
    for i, (op, ob) in enumerate(zip(sc["ops"], obs)):
        if op["op"] in ("put", "del") and ob.get("r") != "ok":
            return (i, "%s returned %s" % (op["op"], ob.get("r")))
        if op["op"] in ("scan", "iterscan"):
            if ob.get("r") != "ok":
                return (i, "scan through %s returned %s" % (op["c"], ob.get("r")))
            pat = op.get("match")
            exp = [k for k in sc["_live"] if not pat or re.search(pat.encode(), bytes.fromhex(k))]
            got = ob.get("keys") or []
            if sorted(got) != sorted(exp):
                return (i, "iterator through %s (count=%s match=%s) yields %d keys (%d distinct), %d present keys match; missing %s extra %s" % (
                    op["c"], op.get("count"), pat, len(got), len(set(got)), len(exp), sorted(set(exp) - set(got))[:3], sorted(set(got) - set(exp))[:3]))
    return None


def iter_case_to_coq(cid, ob):
    """icase for Model/IterRun.v: keys are numbered in order of first appearance"""
    num = {}

    def kn(k):
        if k not in num:
            num[k] = len(num)
        return num[k]
    parts = []
    maxpages = 1
    for p, route in enumerate(ob["routes"]):
        tbl = []
        tot = 0
        for x in ob["pages"]:
            if x["part"] == p:
                tot += max(1, len(x["pages"]))
                tbl.append("(%s, %s, %s)" % (vlib.cbool(x["rep"]), vlib.cN(x["o"]),
                                            vlib.clist([vlib.clist([vlib.cN(kn(k)) for k in pg]) for pg in x["pages"]])))
        maxpages = max(maxpages, tot)
        parts.append("(%s, %s, %s)" % (vlib.clist([vlib.cN(o) for o in route["p"]]), vlib.clist([vlib.cN(o) for o in route["r"]]), vlib.clist(tbl)))
    obs = vlib.clist([vlib.cN(kn(k)) for k in ob["keys"]])
    return "(Build_icase %s %s %s %s)" % (vlib.cN(cid), vlib.clist(parts), vlib.cnat(min(4000, maxpages + 3)), obs)


def iter_coq_compare(cases, shard=40):
    import re
    if not cases:
        return []
    header = ("From Coq Require Import List NArith Bool.\nRequire Import Olric.Model.Iter Olric.Model.IterRun.\n"
              "Import ListNotations.\nLocal Open Scope N_scope.\n")
    shards = [cases[i:i + shard] for i in range(0, len(cases), shard)]
    texts = [header + "Definition cases : list icase := [\n" + ";\n".join(t for _, t in sh) +
             "\n].\nDefinition M := Eval vm_compute in mismatches cases.\nPrint M.\n" for sh in shards]
    outs = vlib.coq_eval_shards("c12iter", texts)
    bad = []
    tags = {}
    for tag, t in cases:
        m = re.match(r"\(Build_icase (\d+)%N", t)
        tags[int(m.group(1))] = tag
    for rc, out, err, dt in outs:
        if rc != 0:
            raise vlib.CheckError("coqc failed on generated iterator cases: " + err[-2000:])
        body = out.split("M =", 1)[1].rsplit(":", 1)[0] if "M =" in out else "?"
        flat = " ".join(body.split())
        if flat in ("[]", "nil"):
            continue
        ids = [int(x) for x in re.findall(r"(\d+)", flat.replace("%N", ""))]
        if not ids:
            raise vlib.CheckError("unparsed coq output: " + flat[:300])
        bad += [tags[i] for i in ids]
    return bad


def cluster_part(res):
    import dmaplib
    groups = []
    sid = 5000
    cfgs = [{"members": 1, "replicas": 1, "partitions": 7, "table": 512, "evict_workers": 1},
            {"members": 3, "replicas": 2, "partitions": 13, "table": 256, "evict_workers": 1},
            {"members": 2, "replicas": 1, "partitions": 7, "table": 1024, "evict_workers": 1}]
    if res.tier != "quick":
        # two replica owners per partition: predicate only when the iteration needed the periodic re-fetch of the
        # routing table (C12_two_replica_owners_need_refetch), model comparison otherwise
        cfgs.append({"members": 3, "replicas": 3, "partitions": 7, "table": 512, "evict_workers": 1})
    for cfg in cfgs:
        scs = []
        slow = cfg["replicas"] >= 3       # every iteration pauses ~1 s per partition there (re-fetch of the routing table)
        for i in range(2 if res.tier == "quick" else (3 if slow else 12)):
            sc = cluster_scan_scenario(vlib.rng_for(res.seed, PID, "cluster", sid), sid, cfg["members"])
            if slow:
                scans = [o for o in sc["ops"] if o["op"] == "iterscan"]
                keep = set(id(o) for o in scans[::5])
                sc["ops"] = [o for o in sc["ops"] if o["op"] != "iterscan" or id(o) in keep]
            scs.append(sc)
            sid += 1
        groups.append((cfg, scs))
    results = dmaplib.run_groups(groups)
    nscan = 0
    for cfg, scs in groups:
        for sc in scs:
            obs = results[sc["id"]]["obs"]
            nscan += sum(1 for o in sc["ops"] if o["op"] in ("scan", "iterscan"))
            v = judge_cluster_scan(sc, obs)
            if v:
                res.violation({"kind": "impl-violates-property", "level": "cluster-iterator", "cluster": cfg,
                               "scenario": {"ops": sc["ops"], "_live": sc["_live"]}, "failed_step": v[0],
                               "predicate": {"name": "iterator yields exactly the present matching keys, each once", "verdict": v[1]}, "seed": res.seed})
                break
    itercases = []
    for cfg, scs in groups:
        for sc in scs:
            obs = results[sc["id"]]["obs"]
            for i, (op, ob) in enumerate(zip(sc["ops"], obs)):
                if op["op"] == "iterscan" and ob.get("r") == "ok":
                    if ob.get("ms", 0) > 800:
                        res.coverage["iter_discarded_slow"] = res.coverage.get("iter_discarded_slow", 0) + 1
                        continue       # the periodic re-fetch of the routing table (1 s) is not in the model
                    itercases.append(((cfg, sc, i), iter_case_to_coq(len(itercases), ob)))
    bad = iter_coq_compare(itercases)
    res.coverage["iter_model_cases"] = len(itercases)
    res.coverage["iter_model_pages"] = sum(sum(len(x["pages"]) for x in results[sc["id"]]["obs"][i]["pages"]) for (cfg, sc, i), _ in itercases)
    for (cfg, sc, i) in bad[:3]:
        ob = results[sc["id"]]["obs"][i]
        res.violation({"kind": "model-vs-impl", "level": "cluster-iterator", "cluster": cfg, "op": sc["ops"][i],
                       "routes": ob["routes"], "pages": ob["pages"], "yielded": ob["keys"],
                       "theorem_or_correspondence": "Model/Iter.v iter_all vs cluster_iterator.go (yield sequence)",
                       "seed": res.seed}, no_input=True)
    return nscan, sum(len(s) for _, s in groups)


def gen_join_window(rng, sid):
    """a full iteration between a routing update and the migration it announces: a member has joined and is listed as the owner of
    partitions whose entries are still on the previous owner (no balancer pass yet); every key is present the whole time"""
    import dmaplib
    d = "c12w%d" % sid
    n = rng.choice([1, 2])
    keys = [dmaplib.hx("%s%03d" % (rng.choice("ab"), i)) for i in range(rng.choice([40, 90]))]
    ops = [{"op": "put", "c": "emb%d" % rng.randrange(n), "d": d, "k": k, "v": dmaplib.hx("v")} for k in keys]
    ops += [{"op": "join"}, {"op": "push"}, {"op": "waitsame"}]
    scans = [{"op": "scan", "c": c, "d": d, "_n": len(keys)} for c in ["emb0", "emb%d" % n, "cc"]]
    ops += scans
    for m in range(n + 1):
        ops.append({"op": "balance", "m": m})
    ops.append({"op": "waitstable", "ms": 30000})
    ops += [dict(o) for o in scans]
    cluster = {"members": n, "replicas": rng.choice([1, 2]) if n > 1 else 1, "partitions": rng.choice([7, 13]), "table": rng.choice([512, 4096]),
               "evict_workers": 1, "balancer_ms": 3600000, "push_ms": 3600000}
    return {"id": sid, "cluster": cluster, "ops": ops, "_keys": keys}


def judge_join_window(sc, obs):
    if len(obs) < len(sc["ops"]):
        return ("env", "scenario aborted")
    moved = False
    for i, (op, ob) in enumerate(zip(sc["ops"], obs)):
        o, r = op["op"], ob.get("r")
        if o in ("waitstable", "waitsame", "put", "join") and r != "ok":
            return ("env", "%s: %s" % (o, r))
        if o == "balance":
            moved = True
        if o == "scan":
            if r != "ok":
                return (i, "the iteration through %s failed: %s" % (op["c"], r))
            got = ob.get("keys") or []
            miss = set(sc["_keys"]) - set(got)
            when = "after the migration" if moved else "after the routing update, before the migration"
            if miss:
                return (i, "%s the iteration through %s misses %d of %d keys that were present all the time" % (when, op["c"], len(miss), len(sc["_keys"])))
            if len(got) != len(set(got)) or set(got) - set(sc["_keys"]):
                return (i, "%s the iteration through %s yields %d keys (%d distinct), %d are present" % (when, op["c"], len(got), len(set(got)), len(sc["_keys"])))
    return None


def join_window_part(res):
    import memberlib
    scs = [gen_join_window(vlib.rng_for(res.seed, PID, "joinwindow", j), 53000 + j) for j in range(3 if res.tier == "quick" else 16)]
    results = memberlib.run_membership(scs, jobs=4)
    bad = env = 0
    for sc in scs:
        r = results[sc["id"]]
        v = ("env", "") if (r.get("env", {}).get("error") or r.get("env", {}).get("flapped")) else judge_join_window(sc, r["obs"])
        if v and v[0] == "env":
            env += 1
            continue
        if v:
            bad += 1
            if bad <= 3:
                res.violation({"kind": "impl-violates-property", "part": "join-window", "cluster": sc["cluster"],
                               "scenario": {"ops": sc["ops"], "_keys": sc["_keys"]}, "failed_step": v[0], "impl_trace": r["obs"][v[0]],
                               "predicate": {"name": "iteration between routing update and migration", "verdict": v[1]}, "seed": res.seed})
    res.coverage["join_window"] = {"scenarios": len(scs), "environment": env, "failures": bad,
                                   "rule": "1-2 members, 40-90 keys, a member joins, the new routing table is on every member, no balancer pass: full "
                                           "iterations through the embedded client of an old and of the new member and the cluster client; again after the migration"}


def run(res):
    c11.run(res, pid=PID, scs_fn=scenarios, nontrivial_fn=nontrivial,
            rule="corpus (holes, recycled tables, stale versions) + seeded random histories of puts/overwrites/deletes/compaction/"
                 "transfer that shape the tables, each followed by full iterations from cursor 0 to cursor 0 with COUNT in "
                 "{1,2,3,10,1000} and patterns {none, ^a, ^b, ^z}; compared: sorted multiset of yielded keys (exactly the present "
                 "matching keys, each once) and termination; cursor values are not compared. Cluster level: 40-260 keys written, "
                 "overwritten, deleted and compacted on clusters of 1-3 members (R 1-2, tables 256..1024), then the client iterator "
                 "(cluster client, embedded owner / non-owner) with COUNT in {default,1,3,1000} and MATCH patterns (prefix, nothing, "
                 "everything): exactly the present matching keys, each once; and model comparison: for every iteration the harness records "
                 "the routing-table entry of every partition and the complete DM.SCAN page sequence of every listed owner, and "
                 "Model/Iter.v has to produce exactly the key sequence the real iterator handed out (same order)")
    if getattr(res, "harness_error", None):
        return
    nscan, nsc = cluster_part(res)
    res.coverage["cluster_iterations"] = nscan
    res.coverage["cluster_scenarios"] = nsc
    join_window_part(res)


def replay(res, path):
    obj = json.load(open(path))
    if obj.get("part") == "join-window":
        import memberlib
        ok, out = vlib.harness_build()
        if not ok:
            raise vlib.CheckError(out)
        sc = {"id": 0, "cluster": obj["cluster"], "ops": obj["scenario"]["ops"], "_keys": obj["scenario"]["_keys"]}
        for attempt in range(3):
            r = memberlib.run_membership([sc])[0]
            v = None if r.get("env", {}).get("error") else judge_join_window(sc, r["obs"])
            if v and v[0] != "env":
                print(v[1])
                print("VIOLATION property=%s replay=%s" % (res.pid, path))
                return 1
        return 0
    return c11.replay(res, path)
