# C19 - Destroy removes one DMap everywhere and DMaps never interfere (DESIGN.md section 9).
import dmapcheck
import dmaplib
import vlib
from vlib import cbytes, clist

PID = "C19"
PAIRS = [("ab", "a"), ("A19", "dmap.A19"), ("x", "y"), ("ab", "abc")]


def gen(rng, sid, a, b, nops, members):
    """interleaved operations on two DMaps whose names/keys collide as concatenations, with Destroy, eviction,
    locks and atomics; after every step both DMaps are read and dumped"""
    tag = "c19s%d" % sid
    A, B = tag + a, tag + b
    # keys chosen so that name+key coincide where the names allow it
    ka = ["c", "bc", "k1", "k2"]
    kb = ["bc", "c", "k1", "k2"] if not b.startswith(a) or a == b else [b[len(a):] + "c", "c", "k1", "k2"]
    if a.startswith(b) and a != b:
        kb = [a[len(b):] + k for k in ka]
    keysA = [dmaplib.hx(k) for k in ka]
    keysB = [dmaplib.hx(k) for k in kb]
    ops = []
    # content of B is written first and must never change or be revealed by operations on A
    for i, k in enumerate(keysB):
        ops.append({"op": "put", "c": "emb@owner", "d": B, "k": k, "v": dmaplib.hx("B%d" % i)})
    handles = 0
    for _ in range(nops):
        w = rng.random()
        c = rng.choice(dmaplib.ALLPATHS)
        k = rng.choice(keysA)
        if w < 0.30:
            op = {"op": "put", "c": c, "d": A, "k": k, "v": dmaplib.hx("A%d" % rng.randrange(100))}
            if rng.random() < 0.3:
                op["px"] = 200 if rng.random() < 0.5 else 60000
            ops.append(op)
        elif w < 0.40:
            ops.append({"op": "del", "c": c, "d": A, "k": k})
        elif w < 0.50:
            ops.append({"op": "incr", "c": c, "d": A, "k": k, "delta": 3})
        elif w < 0.58:
            ops.append({"op": "getput", "c": c, "d": A, "k": k, "v": dmaplib.hx("g")})
        elif w < 0.66:
            handles += 1
            ops.append({"op": "lock", "c": rng.choice([p for p in dmaplib.ALLPATHS if p != "pipe"]), "d": A, "k": k, "ms": 0, "dl": 20, "tok": "%s-h%d" % (tag, handles)})
        elif w < 0.74:
            ops.append({"op": "destroy", "c": rng.choice(["emb@owner", "emb@other", "cc", "raw@other"]), "d": A})
        elif w < 0.80:
            ops.append({"op": "sleep", "ms": 200 + 2 * dmaplib.MARGIN + 40})
        elif w < 0.88:
            ops.append({"op": "evict", "m": rng.randrange(members)})
        elif w < 0.94:
            ops.append({"op": "scan", "c": rng.choice(["emb@owner", "cc"]), "d": A})
        else:
            ops.append({"op": "expire", "c": c, "d": A, "k": k, "ms": 60000})
        # B must be untouched
        kb_ = rng.choice(keysB)
        ops.append({"op": "get", "c": rng.choice(["emb@owner", "cc"]), "d": B, "k": kb_})
        ops.append({"op": "dump", "d": B, "k": kb_})
    # a pipeline on A, executed and discarded, before A is destroyed and a pipeline on B afterwards: the client's pooled
    # command buffers must not carry A's commands into the later pipeline
    ops.append({"op": "put", "c": "pipe", "d": A, "k": keysA[1], "v": dmaplib.hx("piped")})
    ops.append({"op": "destroy", "c": "cc", "d": A})
    ops.append({"op": "get", "c": "pipe", "d": B, "k": keysB[0]})
    ops.append({"op": "get", "c": "pipe", "d": B, "k": keysB[1]})
    for k in keysA:
        ops.append({"op": "get", "c": "emb@other", "d": A, "k": k})
        ops.append({"op": "dump", "d": A, "k": k})
    ops.append({"op": "scan", "c": "cc", "d": A})
    ops.append({"op": "put", "c": "emb@other", "d": A, "k": keysA[0], "v": dmaplib.hx("again")})
    ops.append({"op": "get", "c": "cc", "d": A, "k": keysA[0]})
    for k in keysB:
        ops.append({"op": "get", "c": "emb@owner", "d": B, "k": k})
        ops.append({"op": "dump", "d": B, "k": k})
    ops.append({"op": "scan", "c": "cc", "d": B})
    return {"id": sid, "ops": ops, "_A": A, "_B": B, "_keysB": keysB}


def judge(sc, obs, cfg):
    v = dmaplib.judge_seq(sc, obs, cfg)
    if v:
        return v
    # scans: a scan yields exactly the keys the reference semantics holds for that DMap (keys with an expiry
    # are left out of the expectation and of the observation: a scan may or may not skip an expired key)
    ref = dmaplib.Ref(sc.get("default_ttl"))
    try:
        for i, (op, ob) in enumerate(zip(sc["ops"], obs)):
            o = op["op"]
            if o in ("sleep", "dump", "stats", "keyinfo", "janitor", "compact", "evict", "unlock", "lease"):
                continue
            if o == "lock":
                if ob.get("r") == "ok":
                    ref.m[(op["d"], op["k"])] = {"val": b"tok", "dl": None}
                continue
            if o == "scan":
                d = op["d"]
                ttlkeys = set(k for (dd, k), e in ref.m.items() if dd == d and e["dl"] is not None)
                exp = sorted(k for (dd, k), e in ref.m.items() if dd == d and e["dl"] is None)
                got = sorted(k for k in (ob.get("keys") or []) if k not in ttlkeys)
                if got != exp:
                    return (i, "scan of %s yields %s, the DMap holds %s" % (d, got, exp))
                if len(set(ob.get("keys") or [])) != len(ob.get("keys") or []):
                    return (i, "scan of %s yields a key twice: %s" % (d, ob.get("keys")))
                continue
            ref.step(op, ob)
    except dmaplib.Discard:
        return "discard"
    return None


def gen_config_interference(rng, sid, B, members):
    """a DMap B with its own configuration (idle eviction after 250 ms) next to DMaps without one whose names end in B and
    start with characters of the fragment prefix ("app."+B, "dmap."+B, "mad."+B): B's rule must never be applied to them"""
    names = ["app." + B, "dmap." + B, "mad." + B, "p" + B]
    ops = []
    keys = [dmaplib.hx("i%02d" % i) for i in range(10)]
    for d in names + [B]:
        for k in keys:
            ops.append({"op": "put", "c": rng.choice(["emb@owner", "cc"]), "d": d, "k": k, "v": dmaplib.hx(d[-6:] + "!")})
    ops.append({"op": "sleep", "ms": 250 + 2 * dmaplib.MARGIN + 80})
    for _ in range(2):
        for m in range(members):
            ops.append({"op": "evict", "m": m})
    for d in names:
        for k in keys:
            ops.append({"op": "get", "c": rng.choice(["emb@owner", "emb@other", "cc"]), "d": d, "k": k})
        ops.append({"op": "dump", "d": d, "k": keys[0]})
    return {"id": sid, "ops": ops, "_A": names[0], "_B": B, "_keysB": []}


def gen_groups(res):
    cfgs = [{"members": 3, "replicas": 2, "partitions": 7, "table": 1024, "evict_workers": 1},
            {"members": 1, "replicas": 1, "partitions": 7, "table": 1024, "evict_workers": 1},
            {"members": 2, "replicas": 2, "partitions": 13, "table": 4096, "evict_workers": 1}]
    n = 2 if res.tier == "quick" else 25
    groups = []
    sid = 0
    for cfg in cfgs:
        scs = []
        for (a, b) in PAIRS:
            for i in range(n):
                rng = vlib.rng_for(res.seed, PID, sid)
                scs.append(gen(rng, sid, a, b, rng.randrange(8, 30), cfg["members"]))
                sid += 1
        groups.append((cfg, scs))
    # per-DMap configuration must not leak to DMaps with similar names
    for members in ((1, 3) if res.tier != "quick" else (3,)):
        scs, dmaps = [], {}
        for i in range(2 if res.tier == "quick" else 6):
            B = "c19i%d" % sid
            dmaps[B] = {"maxidle_ms": 250}
            scs.append(gen_config_interference(vlib.rng_for(res.seed, PID, "cfg", sid), sid, B, members))
            sid += 1
        groups.append(({"members": members, "replicas": min(2, members), "partitions": 7, "table": 4096, "evict_workers": 1, "dmaps": dmaps}, scs))
    return groups


def gen_failover_destroy(rng, sid):
    """Destroy after a fail-over: a member has left, the surviving backup owner of its partitions has become their primary
    owner and still holds its backup fragment; new writes fill both. Destroy must remove every copy of every kind."""
    d = "c19f%d" % sid
    keys = [dmaplib.hx("%s-k%02d" % (d, i)) for i in range(30)]
    n = rng.choice([2, 3])
    ops = [{"op": "put", "c": "emb%d" % rng.randrange(n), "d": d, "k": k, "v": dmaplib.hx("old")} for k in keys]
    victim = rng.randrange(n)
    live = [m for m in range(n) if m != victim]
    ops += [{"op": "stop", "m": victim, "c": rng.choice(["graceful", "abrupt"])}, {"op": "waitstable", "ms": 30000}]
    ops += [{"op": "put", "c": "emb%d" % rng.choice(live), "d": d, "k": k, "v": dmaplib.hx("new")} for k in keys]
    ops += [{"op": "hstate", "d": d},
            {"op": "destroy", "c": rng.choice(["emb%d" % live[0], "cc"]), "d": d},
            {"op": "hstate", "d": d}]
    for k in keys:
        ops.append({"op": "get", "c": "emb%d" % rng.choice(live), "d": d, "k": k})
    ops.append({"op": "scan", "c": "cc", "d": d})
    ops.append({"op": "put", "c": "emb%d" % live[0], "d": d, "k": keys[0], "v": dmaplib.hx("again")})
    ops.append({"op": "get", "c": "cc", "d": d, "k": keys[0]})
    cluster = {"members": n, "replicas": 2, "partitions": 7, "table": 4096, "evict_workers": 1}
    return {"id": sid, "cluster": cluster, "ops": ops}


def gen_join_destroy(rng, sid):
    """Destroy through a cluster client that was created BEFORE a member joined: the new member holds fragments of the DMap
    (handed over to it) and the client has never talked to it"""
    d = "c19j%d" % sid
    keys = [dmaplib.hx("%s-k%02d" % (d, i)) for i in range(40)]
    n = rng.choice([1, 2])
    ops = [{"op": "put", "c": "cc", "d": d, "k": keys[0], "v": dmaplib.hx("old")}]      # creates the cluster client
    ops += [{"op": "put", "c": "emb%d" % rng.randrange(n), "d": d, "k": k, "v": dmaplib.hx("old")} for k in keys[1:]]
    ops += [{"op": "join"}, {"op": "waitstable", "ms": 30000, "c": "keepcc"},
            {"op": "hstate", "d": d},
            {"op": "destroy", "c": "cc", "d": d},
            {"op": "hstate", "d": d}]
    for k in keys:
        ops.append({"op": "get", "c": "emb%d" % rng.randrange(n + 1), "d": d, "k": k})
    ops.append({"op": "scan", "c": "emb%d" % n, "d": d})
    ops.append({"op": "put", "c": "emb0", "d": d, "k": keys[0], "v": dmaplib.hx("again")})
    ops.append({"op": "get", "c": "emb%d" % n, "d": d, "k": keys[0]})
    cluster = {"members": n, "replicas": rng.choice([1, 2]) if n > 1 else 1, "partitions": 7, "table": 4096, "evict_workers": 1}
    return {"id": sid, "cluster": cluster, "ops": ops}


def gen_join_names(rng, sid):
    """two DMaps whose names differ by an inner 'dmap.' (the prefix of fragment names) or are prefixes of each other hold data while
    a member joins and fragments migrate; then one of them is destroyed: each keeps exactly its own keys"""
    base = "c19n%d" % sid
    A, B = rng.choice([(base + ".dmap.s", base + ".s"), ("dmap." + base, base), (base + "dmap.", base), ("dmap.dmap." + base, "dmap." + base)])
    n = rng.choice([1, 2])
    keys = [dmaplib.hx("k%02d" % i) for i in range(30)]          # the same keys in both
    ops = []
    for k in keys:
        ops.append({"op": "put", "c": "emb%d" % rng.randrange(n), "d": A, "k": k, "v": dmaplib.hx("A" + k[-4:])})
        ops.append({"op": "put", "c": "emb%d" % rng.randrange(n), "d": B, "k": k, "v": dmaplib.hx("B" + k[-4:])})
    ops += [{"op": "fragnames", "d": A, "_when": "before"}, {"op": "join"}, {"op": "waitstable", "ms": 30000}]
    for m in range(n + 1):
        ops.append({"op": "balance", "m": m})
    ops.append({"op": "waitstable", "ms": 30000})
    ops.append({"op": "fragnames", "d": B, "_when": "after"})
    for k in keys:
        ops.append({"op": "get", "c": "emb%d" % rng.randrange(n + 1), "d": A, "k": k, "_want": dmaplib.hx("A" + k[-4:])})
        ops.append({"op": "get", "c": rng.choice(["cc", "emb%d" % n]), "d": B, "k": k, "_want": dmaplib.hx("B" + k[-4:])})
    ops.append({"op": "scan", "c": "emb%d" % n, "d": A, "_n": len(keys)})
    ops.append({"op": "scan", "c": "cc", "d": B, "_n": len(keys)})
    first, second = (A, B) if rng.random() < 0.5 else (B, A)
    ops.append({"op": "destroy", "c": "cc", "d": first})
    for k in keys:
        ops.append({"op": "get", "c": "emb%d" % rng.randrange(n + 1), "d": first, "k": k, "_want": None})
        ops.append({"op": "get", "c": "emb%d" % rng.randrange(n + 1), "d": second, "k": k, "_want": dmaplib.hx(("A" if second == A else "B") + k[-4:])})
    ops.append({"op": "scan", "c": "emb0", "d": first, "_n": 0})
    ops.append({"op": "scan", "c": "emb%d" % n, "d": second, "_n": len(keys)})
    cluster = {"members": n, "replicas": rng.choice([1, 2]) if n > 1 else 1, "partitions": 7, "table": 4096, "evict_workers": 1}
    return {"id": sid, "cluster": cluster, "ops": ops, "_kind": "names", "_A": A, "_B": B}


def judge_join_names(sc, obs):
    if len(obs) < len(sc["ops"]):
        return ("env", "scenario aborted")
    for i, (op, ob) in enumerate(zip(sc["ops"], obs)):
        o, r = op["op"], ob.get("r")
        if o == "waitstable" and r != "ok":
            return ("env", "cluster did not re-stabilise: %s" % r)
        if o in ("put", "destroy") and r != "ok":
            return ("env" if o == "put" else i, "%s returned %s" % (o, r))
        if o == "get":
            want = op["_want"]
            if want is None and r != "notfound":
                return (i, "key %s of the destroyed DMap %s reads %s %s" % (op["k"][-4:], op["d"], r, ob.get("val", "")))
            if want is not None and (r != "ok" or ob.get("val") != want):
                return (i, "key %s of DMap %s reads %s %s, written %s (nobody touched this DMap)" % (op["k"][-4:], op["d"], r, ob.get("val", ""), want))
        if o == "fragnames":
            want = sorted(("dmap." + x).encode().hex() for x in (sc["_A"], sc["_B"])) if sc.get("_A") else None
            if want is not None and ob.get("names") != want:
                return (i, "%s the migration the fragments that hold entries are named %s; written were the DMaps %s and %s" % (
                    op.get("_when"), [bytes.fromhex(x).decode(errors="replace") for x in ob.get("names") or []], sc["_A"], sc["_B"]))
        if o == "scan":
            if r != "ok":
                return (i, "scan of %s returned %s" % (op["d"], r))
            if len(ob.get("keys") or []) != op["_n"] or len(set(ob.get("keys") or [])) != op["_n"]:
                return (i, "scan of DMap %s yields %d keys, it holds %d" % (op["d"], len(ob.get("keys") or []), op["_n"]))
    return None


def judge_failover_destroy(sc, obs):
    if sc.get("_kind") == "names":
        return judge_join_names(sc, obs)
    if len(obs) < len(sc["ops"]):
        return ("env", "scenario aborted")
    destroyed = False
    last = len(sc["ops"]) - 1
    for i, (op, ob) in enumerate(zip(sc["ops"], obs)):
        o, r = op["op"], ob.get("r")
        if o == "waitstable" and r != "ok":
            return ("env", "cluster did not re-stabilise: %s" % r)
        if o == "put" and r != "ok" and i < last - 1 and not destroyed:
            if any(x["op"] == "stop" for x in sc["ops"][:i]) and not any(x["op"] == "waitstable" for x in sc["ops"][:i]):
                continue
            return ("env", "a Put of the set-up failed: %s" % r)
        if o == "destroy":
            if r != "ok":
                return (i, "Destroy returned %s" % r)
            destroyed = True
        if destroyed and o == "hstate":
            left = [(c[0], c[1]) for c in ob.get("copies") or []]
            if left:
                kinds = sorted(set("%s copy on member %d" % ("primary" if k == "p" else "backup", m) for m, k in left))
                return (i, "after Destroy %d copies of the DMap are left: %s" % (len(left), ", ".join(kinds)))
        if destroyed and o == "get" and i < last:
            if r != "notfound":
                return (i, "after Destroy key %s reads %s %s" % (op["k"][-8:], r, ob.get("val", "")))
        if destroyed and o == "scan":
            if r == "ok" and ob.get("keys"):
                return (i, "after Destroy a scan yields %d keys" % len(ob["keys"]))
        if i == last and (r != "ok" or ob.get("val") != dmaplib.hx("again")):
            return (i, "the DMap is not usable after Destroy: Get returns %s %s" % (r, ob.get("val")))
    return None


def failover_part(res):
    import memberlib
    scs = [gen_failover_destroy(vlib.rng_for(res.seed, PID, "failover", j), 50000 + j) for j in range(3 if res.tier == "quick" else 12)]
    scs += [gen_join_destroy(vlib.rng_for(res.seed, PID, "joindestroy", j), 51000 + j) for j in range(2 if res.tier == "quick" else 8)]
    scs += [gen_join_names(vlib.rng_for(res.seed, PID, "joinnames", j), 52000 + j) for j in range(3 if res.tier == "quick" else 12)]
    results = memberlib.run_membership(scs, jobs=4)
    bad = env = 0
    for sc in scs:
        r = results[sc["id"]]
        if r.get("env", {}).get("error") or r.get("env", {}).get("flapped"):
            env += 1
            continue
        v = judge_failover_destroy(sc, r["obs"])
        if v and v[0] == "env":
            env += 1
            continue
        if v:
            bad += 1
            if bad <= 3:
                res.violation({"kind": "impl-violates-property", "part": "failover", "cluster": sc["cluster"], "scenario": {"ops": sc["ops"], "_kind": sc.get("_kind"), "_A": sc.get("_A"), "_B": sc.get("_B")},
                               "failed_step": v[0], "impl_trace": r["obs"][max(0, v[0] - 2):v[0] + 1],
                               "predicate": {"name": "Destroy removes every copy after a fail-over", "verdict": v[1]}, "seed": res.seed})
    # fragment names against Model/FragName.v: the name derived for a DMap, the fragments that hold entries, and where they arrive
    ncases = []
    for sc in scs:
        if sc.get("_kind") != "names":
            continue
        obs = results[sc["id"]].get("obs") or []
        fr = [(op, ob) for op, ob in zip(sc["ops"], obs) if op["op"] == "fragnames" and ob.get("r") == "ok"]
        nm = lambda hx_: cbytes(bytes.fromhex(hx_))
        for op, ob in fr:
            if ob.get("fn") is not None:
                ncases.append((sc, "CName %s %s" % (cbytes(op["d"].encode()), nm(ob["fn"]))))
        if len(fr) == 2:
            ncases.append((sc, "CHolds %s %s" % (clist([cbytes(sc["_A"].encode()), cbytes(sc["_B"].encode())]), clist(nm(x) for x in fr[0][1]["names"]))))
            ncases.append((sc, "CMove %s %s" % (clist(nm(x) for x in fr[0][1]["names"]), clist(nm(x) for x in fr[1][1]["names"]))))
    if ncases:
        text = ("From Coq Require Import List NArith.\nRequire Import Olric.Model.FragName.\nImport ListNotations.\n"
                "Definition cases : list ncase := [\n" + ";\n".join(t for _, t in ncases) + "\n].\n"
                "Definition M := Eval vm_compute in mismatches cases 0.\nPrint M.\n")
        rc, out, err, dt = vlib.coq_eval_shards("c19names", [text], jobs=1)[0]
        if rc != 0:
            raise vlib.CheckError("coqc failed on generated cases: " + err[-2000:])
        flat = " ".join((out.split("M =", 1)[1] if "M =" in out else "?").rsplit(":", 1)[0].split())
        if flat not in ("[]", "nil") and not bad:
            import re as _re
            idx = [int(x) for x in _re.findall(r"\d+", flat)]
            sc = ncases[idx[0]][0] if idx and idx[0] < len(ncases) else ncases[0][0]
            res.violation({"kind": "model-vs-impl", "part": "failover", "cluster": sc["cluster"],
                           "scenario": {"ops": sc["ops"], "_kind": "names", "_A": sc["_A"], "_B": sc["_B"]},
                           "failed": "correspondence Model/FragName.v vs the implementation: " + (ncases[idx[0]][1] if idx and idx[0] < len(ncases) else flat)[:400],
                           "seed": res.seed}, no_input=True)
    res.coverage["fragment_name_cases"] = len(ncases)
    res.coverage["destroy_after_failover"] = {"scenarios": len(scs), "environment": env, "failures": bad,
                                              "rule": "2-3 members, 2 copies: 30 keys, a member stops, the keys are overwritten, Destroy; every copy of every "
                                                      "kind on every member must be gone, all keys read not-found, the scan is empty, the DMap takes new writes; and two DMaps whose "
                                                      "names differ by an inner or leading 'dmap.' hold the same 30 keys while a member joins and the fragments "
                                                      "migrate, then one is destroyed: each reads and scans exactly its own entries"}


def gen_conc_collision(rng, sid):
    """two DMaps whose name+key concatenations coincide, read and written by clients that overlap in time"""
    tag = "c19x%d" % sid
    A, B = "c19ab", "c19a"                # A + K == B + "b" + K: the same bytes, hence the same hash, partition and owner
    ka, kb = dmaplib.hx(tag[3:] + "c"), dmaplib.hx("b" + tag[3:] + "c")
    n = rng.randrange(60, 120)
    paths = ["emb@owner", "emb@other", "cc", "raw@owner"]
    ca, cb = rng.choice(paths), rng.choice(paths)
    opsa = [{"op": "put", "c": "emb@owner", "d": A, "k": ka, "v": dmaplib.hx("A-" + tag)}]
    opsb = [{"op": "put", "c": "emb@owner", "d": B, "k": kb, "v": dmaplib.hx("B-" + tag)}]
    opsa += [{"op": "get", "c": ca, "d": A, "k": ka} for _ in range(n)]
    opsb += [{"op": "get", "c": cb, "d": B, "k": kb} for _ in range(n)]
    # A's key is deleted half way: from then on its reader must see not-found while B's reader goes on seeing B's value
    opsa += [{"op": "del", "c": ca, "d": A, "k": ka}] + [{"op": "get", "c": ca, "d": A, "k": ka} for _ in range(n // 2)]
    opsb += [{"op": "get", "c": cb, "d": B, "k": kb} for _ in range(n // 2)]
    return {"id": sid, "clients": [{"ops": opsa}, {"ops": opsb}, {"ops": list(opsa[1:n + 1])}], "_tag": tag}


def judge_conc_collision(sc, r):
    for ci, (cl, obs) in enumerate(zip(sc["clients"][:2], r["clients"][:2])):
        want = cl["ops"][0]["v"]
        deleted = False
        for i, (op, ob) in enumerate(zip(cl["ops"], obs)):
            if op["op"] in ("put", "del"):
                if ob.get("r") != "ok":
                    return "client %d: %s returned %s" % (ci, op["op"], ob.get("r"))
                deleted = op["op"] == "del"
            elif op["op"] == "get":
                if deleted:
                    if ob.get("r") != "notfound":
                        return "client %d: Get of a deleted key of DMap %s returned %s %s (another DMap holds a value under a colliding name+key)" % (
                            ci, op["d"], ob.get("r"), bytes.fromhex(ob.get("val") or "").decode("latin1"))
                elif ob.get("r") != "ok" or ob.get("val") != want:
                    return "client %d: Get on DMap %s returned %s %r, its only writer stored %r (the other DMap's key collides as name+key)" % (
                        ci, op["d"], ob.get("r"), bytes.fromhex(ob.get("val") or "").decode("latin1"), bytes.fromhex(want).decode("latin1"))
    return None


def conc_part(res):
    import conclib
    groups = []
    sid = 60000
    for ci, cfg in enumerate([{"members": 1, "replicas": 1, "partitions": 7, "table": 1 << 16, "evict_workers": 1},
                              {"members": 3, "replicas": 2, "partitions": 7, "table": 1 << 16, "evict_workers": 1}]):
        scs = []
        for j in range(4 if res.tier == "quick" else 30):
            scs.append(gen_conc_collision(vlib.rng_for(res.seed, PID, "conc", ci, j), sid))
            sid += 1
        groups.append((cfg, scs))
    results = conclib.run_groups(groups)
    bad = 0
    for cfg, scs in groups:
        for sc in scs:
            r = results[sc["id"]]
            msg = judge_conc_collision(sc, r)
            if msg:
                bad += 1
                if bad <= 2:
                    res.violation({"kind": "impl-violates-property", "part": "conc-collision", "cluster": cfg,
                                   "scenario": {k: v for k, v in sc.items() if not k.startswith("_")}, "impl_trace": r["clients"],
                                   "predicate": {"name": "DMaps with colliding name+key never see each other's entries, also under overlapping reads", "verdict": msg},
                                   "seed": res.seed})
    res.coverage["overlapping_reads_on_colliding_names"] = {
        "scenarios": sum(len(scs) for _, scs in groups), "failures": bad,
        "rule": "DMaps 'c19ab' and 'c19a' with keys K and 'b'+K (the same name+key bytes, hence the same hash, partition and owner): each is written once by "
                "its own client and then read 60-120 times through embedded / cluster / raw paths while the other one is read at the same time; one key is "
                "deleted half way; every read returns its own DMap's value, the deleted key reads not-found"}


def run(res):
    _run(res)
    if not getattr(res, "harness_error", None):
        failover_part(res)
        conc_part(res)


def _run(res):
    dmapcheck.run_dmap_check(
        res, PID, gen_groups, judge, shard=4,
        rule="pairs of DMap names incl. the collision families ('ab'+'c' vs 'a'+'bc', A vs 'dmap.'+A, prefix pairs) on clusters of 1-3 members, "
             "R in 1..2: DMap B is filled first, then random operations on A (puts with ttl, deletes, incr, getput, locks, expire, scans, Destroy through "
             "4 paths, expiry + eviction passes); DMaps without configuration named 'app.'+B, 'dmap.'+B, 'mad.'+B next to a DMap B configured with idle eviction; after EVERY step a key of B is read and all its copies dumped; at the end A is destroyed, read, scanned "
             "and written again; predicate = reference semantics per DMap (so B never changes), mirror, scan contents")


def replay_failover(res, obj, path):
    import memberlib
    ok, out = vlib.harness_build()
    if not ok:
        raise vlib.CheckError(out)
    sc = {"id": 0, "cluster": obj["cluster"], "ops": obj["scenario"]["ops"], "_kind": obj["scenario"].get("_kind"), "_A": obj["scenario"].get("_A"), "_B": obj["scenario"].get("_B")}
    for attempt in range(3):
        r = memberlib.run_membership([sc])[0]
        v = None if r.get("env", {}).get("error") else judge_failover_destroy(sc, r["obs"])
        if v and v[0] != "env":
            print(v[1])
            print("VIOLATION property=%s replay=%s" % (res.pid, path))
            return 1
    return 0


def replay(res, path):
    import json as _json
    _obj = _json.load(open(path))
    if _obj.get("part") == "failover":
        return replay_failover(res, _obj, path)
    if _obj.get("part") == "conc-collision":
        import conclib
        ok, out = vlib.harness_build()
        if not ok:
            raise vlib.CheckError(out)
        sc = dict(_obj["scenario"], id=0)
        for attempt in range(3):
            r = conclib.run_conc(_obj["cluster"], [sc])[0]
            msg = judge_conc_collision(sc, r)
            if msg:
                print(msg)
                print("VIOLATION property=%s replay=%s" % (res.pid, path))
                return 1
        return 0
    return dmapcheck.replay(res, path, judge)
