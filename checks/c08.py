# C08 - distributed lock: mutual exclusion, token safety and timeout behaviour (DESIGN.md section 9).
import json

import conclib
import dmapcheck
import dmaplib
import vlib
from vlib import cZ

PID = "C08"
LPATHS = ["emb@owner", "emb@other", "emb@backup", "cc", "raw@owner", "raw@other"]


# ---------------------------------------------------------------- sequential scripts (tokens, timeouts)

def seq_script(rng, sid):
    d = "c08s%d" % sid
    ops = []
    n = 0
    TO = 260
    for path in LPATHS:
        n += 1
        k = dmaplib.hx("L%d" % n)
        h1, h2, h3 = "%s-a%d" % (d, n), "%s-b%d" % (d, n), "%s-c%d" % (d, n)
        # untimed lock: second locker is refused no earlier than its deadline; stale token after hand-over
        ops += [{"op": "lock", "c": path, "d": d, "k": k, "ms": 0, "dl": 30, "tok": h1},
                {"op": "dump", "d": d, "k": k},
                {"op": "lock", "c": rng.choice(LPATHS), "d": d, "k": k, "ms": 0, "dl": 40, "tok": h2},
                {"op": "unlock", "tok": h1},
                {"op": "unlock", "tok": h1},                      # stale: already released
                {"op": "lock", "c": rng.choice(LPATHS), "d": d, "k": k, "ms": 0, "dl": 30, "tok": h3},
                {"op": "unlock", "tok": h1},                      # stale: the lock changed hands
                {"op": "lease", "tok": h1, "ms": 60000},          # stale lease
                {"op": "unlock", "c": "raw@owner", "d": d, "k": k, "forge": "00112233445566778899aabbccddeeff", "tok": "forged"},
                {"op": "dump", "d": d, "k": k},
                {"op": "unlock", "tok": h3},
                {"op": "dump", "d": d, "k": k}]
        # timed lock through this path: held before the timeout, acquirable after it, stale afterwards
        n += 1
        k2 = dmaplib.hx("T%d" % n)
        t1, t2 = "%s-t%d" % (d, n), "%s-u%d" % (d, n)
        # over raw RESP the timeout is sent as PX <ms> or as EX <seconds> (fractional): both forms
        ops += [dict({"op": "lock", "c": path, "d": d, "k": k2, "ms": TO, "dl": 30, "tok": t1}, **({"ex": 1} if path == "raw@other" else {})),
                {"op": "dump", "d": d, "k": k2},
                {"op": "lock", "c": rng.choice(LPATHS), "d": d, "k": k2, "ms": 0, "dl": 30, "tok": t2}]
        # lease extends a timed lock
        n += 1
        k3 = dmaplib.hx("E%d" % n)
        e1, e2 = "%s-e%d" % (d, n), "%s-f%d" % (d, n)
        ops += [{"op": "lock", "c": path, "d": d, "k": k3, "ms": TO, "dl": 30, "tok": e1},
                {"op": "lease", "tok": e1, "ms": 60000},
                {"op": "dump", "d": d, "k": k3}]
        # lease SHORTENS a timed lock: the lock is released at the leased timeout, not at the original one
        n += 1
        k4 = dmaplib.hx("S%d" % n)
        s1 = "%s-s%d" % (d, n)
        ops += [{"op": "lock", "c": path, "d": d, "k": k4, "ms": 60000, "dl": 30, "tok": s1},
                {"op": "lease", "tok": s1, "ms": TO},
                {"op": "dump", "d": d, "k": k4}]
    ops.append({"op": "sleep", "ms": TO + 2 * dmaplib.MARGIN + 60})
    n2 = 0
    for path in LPATHS:
        n2 += 2
        k2 = dmaplib.hx("T%d" % n2)
        t1, t3 = "%s-t%d" % (d, n2), "%s-v%d" % (d, n2)
        ops += [{"op": "lock", "c": rng.choice(LPATHS), "d": d, "k": k2, "ms": 0, "dl": 30, "tok": t3},   # acquirable after the timeout
                {"op": "unlock", "tok": t1},                                                             # the expired holder's token is stale
                {"op": "lease", "tok": t1, "ms": 1000},
                {"op": "dump", "d": d, "k": k2},
                {"op": "unlock", "tok": t3}]
        n2 += 1
        k3 = dmaplib.hx("E%d" % n2)
        e1, e2 = "%s-e%d" % (d, n2), "%s-f%d" % (d, n2)
        ops += [{"op": "lock", "c": rng.choice(LPATHS), "d": d, "k": k3, "ms": 0, "dl": 30, "tok": e2},   # leased: still held
                {"op": "unlock", "tok": e1}]
        n2 += 1
        k4 = dmaplib.hx("S%d" % n2)
        s1, s2 = "%s-s%d" % (d, n2), "%s-w%d" % (d, n2)
        ops += [{"op": "lock", "c": rng.choice(LPATHS), "d": d, "k": k4, "ms": 0, "dl": 30, "tok": s2},   # the shortened lease ran out
                {"op": "unlock", "tok": s1},                                                             # stale
                {"op": "unlock", "tok": s2}]
    return {"id": sid, "ops": ops}


def rollover_script(rng, sid):
    """locks (with and without timeout) taken first; then ordinary Puts on the same DMap roll every fragment over into new
    tables, so the lock entries sit in older, read-only tables: they are still held (a competitor is refused), the holder's
    Lease and Unlock still work"""
    d = "c08r%d" % sid
    ops = []
    toks = []
    for n in range(10):
        k = dmaplib.hx("R%d" % n)
        t = "%s-h%d" % (d, n)
        ops.append({"op": "lock", "c": rng.choice(LPATHS), "d": d, "k": k, "ms": 0 if n % 2 else 3600000, "dl": 30, "tok": t})
        toks.append((k, t))
    for i in range(70):
        ops.append({"op": "put", "c": rng.choice(["emb@owner", "cc"]), "d": d, "k": dmaplib.hx("fill%02d" % i), "v": dmaplib.hx("f" * 70)})
    for n, (k, t) in enumerate(toks):
        ops.append({"op": "lock", "c": rng.choice(LPATHS), "d": d, "k": k, "ms": 0, "dl": 30, "tok": "%s-x%d" % (d, n)})   # held: refused
        ops.append({"op": "dump", "d": d, "k": k})
        ops.append({"op": "lease", "tok": t, "ms": 3600000})
        ops.append({"op": "unlock", "tok": t})
        ops.append({"op": "unlock", "tok": "%s-x%d" % (d, n)})
    return {"id": sid, "ops": ops}


def gen_seq_groups(res):
    cfgs = [{"members": 3, "replicas": 2, "partitions": 7, "table": 4096, "evict_workers": 1}]
    if res.tier == "thorough":
        cfgs.append({"members": 3, "replicas": 1, "partitions": 13, "table": 4096, "evict_workers": 1})
    groups = []
    sid = 0
    for cfg in cfgs:
        scs = []
        for i in range(2 if res.tier == "quick" else 8):
            scs.append(seq_script(vlib.rng_for(res.seed, PID, "seq", sid), sid))
            sid += 1
        groups.append((cfg, scs))
    # fragments of several tables (256-byte tables)
    scs = []
    for i in range(1 if res.tier == "quick" else 4):
        scs.append(rollover_script(vlib.rng_for(res.seed, PID, "roll", sid), sid))
        sid += 1
    groups.append(({"members": 2, "replicas": 2, "partitions": 3, "table": 256, "evict_workers": 1}, scs))
    return groups


# ---------------------------------------------------------------- competing lockers

def gen_conc(rng, sid, nclients, rounds, dup=False):
    d = "c08c%d" % sid
    k = dmaplib.hx("mutex")
    clients = []
    for c in range(nclients):
        path = rng.choice(LPATHS)
        ops = []
        for r in range(rounds):
            h = "%s-c%d-%d" % (d, c, r)
            ops.append({"op": "lock", "c": path, "d": d, "k": k, "ms": 0, "dl": rng.choice([15, 120]), "tok": h})
            ops.append({"op": "cs", "k": k + d.encode().hex(), "ms": rng.randrange(1, 4), "tok": h})
            if dup and c == 0:
                # the holder's Unlock arrives several times at once (a duplicated / re-sent request) while the other clients are
                # waiting for the key: the token releases the lock once, the copies of the request fail and change nothing
                ops.append({"op": "unlockdup", "tok": h, "count": rng.choice([2, 3, 4])})
            else:
                ops.append({"op": "unlock", "tok": h})
        clients.append({"ops": ops})
    return {"id": sid, "clients": clients, "_k": k, "_d": d}


def judge_conc(sc, r):
    toks = {}
    evs = []
    n = 0
    for ci, (cl, obs) in enumerate(zip(sc["clients"], r["clients"])):
        got = set()
        for op, ob in zip(cl["ops"], obs):
            o = op["op"]
            if o == "lock":
                if ob.get("r") == "ok":
                    got.add(op["tok"])
                    n += 1
                    toks[op["tok"]] = n
                    evs.append(conclib.ev(ob["n0"], ob["n1"], "LLock %s" % cZ(n), "LOk"))
                elif ob.get("r") == "locknotacquired":
                    if (ob["n1"] - ob["n0"]) / 1e6 + 1 < op["dl"]:
                        return "Lock failed after %.1f ms, before its deadline of %d ms" % ((ob["n1"] - ob["n0"]) / 1e6, op["dl"]), None
                    n += 1
                    evs.append(conclib.ev(ob["n0"], ob["n1"], "LLock %s" % cZ(n), "LNotAcquired"))
                else:
                    return "client %d: Lock returned %s" % (ci, ob.get("r")), None
            elif o == "cs":
                if op["tok"] in got and ob.get("occupants", 1) > 1:
                    return "%d clients were inside the critical section guarded by one lock" % ob["occupants"], None
            elif o == "unlockdup":
                if op["tok"] in got:
                    rs = ob.get("rs") or []
                    if sorted(rs) != ["nosuchlock"] * (len(rs) - 1) + ["ok"]:
                        return "client %d: the holder's Unlock sent %d times at once returned %s (the token is valid once)" % (ci, len(rs), rs), None
                    # all copies span the same interval: one of them releases, the others present a stale token
                    evs.append(conclib.ev(ob["n0"], ob["n1"], "LUnlock %s" % cZ(toks[op["tok"]]), "LOk"))
            elif o == "unlock":
                if op["tok"] in got:
                    if ob.get("r") != "ok":
                        return "client %d: Unlock by the holder returned %s" % (ci, ob.get("r")), None
                    evs.append(conclib.ev(ob["n0"], ob["n1"], "LUnlock %s" % cZ(toks[op["tok"]]), "LOk"))
    return None, evs


# ---------------------------------------------------------------- a timed lock acquired after waiting

TA, TB = 300, 700


def gen_wait(rng, sid, path):
    """A takes the lock for TA ms and keeps it; B asks for it with timeout TB and a long deadline, so it waits until A's
    lock expires; B's timeout must run from the moment B acquired the lock, not from its call."""
    d = "c08w%d" % sid
    k = dmaplib.hx("waited")
    return {"id": sid, "_path": path, "clients": [
        {"ops": [{"op": "lock", "c": rng.choice(LPATHS), "d": d, "k": k, "ms": TA, "dl": 30, "tok": d + "-a"}]},
        {"ops": [{"op": "sleep", "ms": 30},
                 {"op": "lock", "c": path, "d": d, "k": k, "ms": TB, "dl": 3000, "tok": d + "-b"},
                 {"op": "sleep", "ms": 560},
                 {"op": "lease", "tok": d + "-b", "ms": 60000}]},
        {"ops": [{"op": "sleep", "ms": TA + 480},
                 {"op": "lock", "c": rng.choice(LPATHS), "d": d, "k": k, "ms": 0, "dl": 15, "tok": d + "-c"}]}]}


def judge_wait(sc, r):
    """returns (verdict or None, judged?)"""
    a, b, c = r["clients"]
    la, lb, lc = a[0], b[1], c[1]
    if la.get("r") != "ok" or lb.get("r") != "ok":
        return "Lock by A returned %s, waiting Lock by B returned %s" % (la.get("r"), lb.get("r")), True
    # B cannot have acquired before A's lock expired; its timeout runs from its own acquisition
    held_until = max(la["n0"] / 1e6 + TA, lb["n0"] / 1e6) + TB
    judged = False
    if c[1]["n1"] / 1e6 < held_until - dmaplib.MARGIN and c[1]["n1"] < b[3]["n0"]:
        judged = True
        if lc.get("r") != "locknotacquired":
            return ("C's Lock returned %s %.0f ms after B acquired the lock with a %d ms timeout (B had waited %.0f ms for it)" % (
                lc.get("r"), (c[1]["n1"] - lb["n1"]) / 1e6, TB, (lb["n1"] - lb["n0"]) / 1e6)), True
    if b[3]["n1"] / 1e6 < held_until - dmaplib.MARGIN and lc.get("r") == "locknotacquired":
        judged = True
        if b[3].get("r") != "ok":
            return ("B's Lease returned %s %.0f ms after B acquired the lock with a %d ms timeout (B had waited %.0f ms for it)" % (
                b[3].get("r"), (b[3]["n1"] - lb["n1"]) / 1e6, TB, (lb["n1"] - lb["n0"]) / 1e6)), True
    return None, judged


def wait_part(res):
    cfg = {"members": 3, "replicas": 2, "partitions": 7, "table": 4096, "evict_workers": 1}
    scs = []
    sid = 3000
    for rep in range(1 if res.tier == "quick" else 6):
        for path in LPATHS:
            scs.append(gen_wait(vlib.rng_for(res.seed, PID, "wait", sid), sid, path))
            sid += 1
    results = conclib.run_groups([(cfg, scs)])
    judged = 0
    for sc in scs:
        r = results[sc["id"]]
        msg, j = judge_wait(sc, r)
        judged += 1 if j else 0
        if msg:
            res.violation({"kind": "impl-violates-property", "cluster": cfg, "part": "wait",
                           "scenario": {k: v for k, v in sc.items() if not k.startswith("_")}, "impl_trace": r["clients"],
                           "predicate": {"name": "a timed lock is held for its timeout counted from the acquisition", "verdict": msg}, "seed": res.seed})
    return len(scs), judged


def run(res):
    # part 1: sequential scripts through the shared DMap driver (reference semantics + model)
    dmapcheck.run_dmap_check(
        res, PID, gen_seq_groups, dmaplib.judge_seq, shard=1,
        rule="(1) scripted sequences per entry path (embedded owner / non-owner / backup owner, cluster client, raw RESP to owner / non-owner): untimed lock, refused "
             "second locker (returns no earlier than its deadline), stale token after release and after hand-over, stale Lease, forged token, timed lock (260 ms) through "
             "every path held before and acquirable after its timeout, Lease extension; judged by the reference semantics + mirror and compared with Model/DMap.v. "
             "(2) 3-6 competing lockers over all entry paths looping Lock -> critical section (occupancy counter in the harness) -> Unlock with deadlines 15/120 ms; "
             "predicates: never two occupants, failed Locks return no earlier than their deadline, the holder's Unlock succeeds; every history is judged by the "
             "linearizability checker with the lock specification inside Coq. (3) a Lock with timeout 700 ms that has to wait ~270 ms for a 300 ms lock to expire, through every "
             "entry path: a competitor's Lock and the holder's Lease placed in the last part of the timeout counted from the acquisition must find the lock held")
    if getattr(res, "harness_error", None):
        return
    seqcov = dict(res.coverage)
    # part 2: competing lockers
    rounds = 12 if res.tier == "quick" else 150
    cfgs = [{"members": 3, "replicas": 2, "partitions": 7, "table": 4096, "evict_workers": 1},
            {"members": 3, "replicas": 1, "partitions": 13, "table": 4096, "evict_workers": 1}]
    groups = []
    sid = 1000
    for ci, cfg in enumerate(cfgs):
        scs = []
        for i in range(rounds):
            rng = vlib.rng_for(res.seed, PID, "conc", ci, i)
            scs.append(gen_conc(rng, sid, rng.randrange(3, 7), rng.randrange(2, 4), dup=(i % 3 == 2)))
            sid += 1
        groups.append((cfg, scs))
    results = conclib.run_groups(groups)
    hists = []
    meta = {}
    failures = []
    contended = 0
    for cfg, scs in groups:
        for sc in scs:
            r = results[sc["id"]]
            msg, evs = judge_conc(sc, r)
            if msg:
                failures.append((cfg, sc, r, msg))
                continue
            hists.append((sc["id"], None, evs))
            meta[sc["id"]] = (cfg, sc, r)
            if any("LNotAcquired" in e for e in evs):
                contended += 1
    for cfg, sc, r, msg in failures[:4]:
        res.violation({"kind": "impl-violates-property", "cluster": cfg, "scenario": {k: v for k, v in sc.items() if not k.startswith("_")},
                       "impl_trace": r["clients"], "predicate": {"name": "mutual exclusion / deadline", "verdict": msg}, "seed": res.seed})
    verdict, secs = conclib.lin_eval("c08", "lock", hists, shard=12)
    nonlin = [h for h, v in verdict.items() if v is False]
    for hid in nonlin[:4]:
        cfg, sc, r = meta[hid]
        res.violation({"kind": "impl-violates-property", "cluster": cfg, "scenario": {k: v for k, v in sc.items() if not k.startswith("_")},
                       "history": [e for h, _, e in hists if h == hid][0], "impl_trace": r["clients"],
                       "predicate": {"name": "lin_lock (Model/Lin.v)", "verdict": "the lock history has no linearization: two clients held the lock at once or a token was honoured twice"},
                       "seed": res.seed})
    nwait, jwait = wait_part(res)
    res.coverage = seqcov
    res.coverage.update({
        "waited_lock_scenarios": nwait, "waited_lock_judged": jwait,
        "evaluations": seqcov.get("evaluations", 0) + len(hists) + len(failures),
        "distinct_nontrivial": seqcov.get("distinct_nontrivial", 0) + contended,
        "lock_histories": len(hists), "contended_histories": contended, "nonlinearizable": len(nonlin),
        "inconclusive": sum(1 for v in verdict.values() if v is None), "concurrent_predicate_failures": len(failures),
        "lin_eval_seconds": round(secs, 1),
    })
    res.assumptions += ["D23 (Unlock/Lease are Get; compare; Delete/Expire, not atomic w.r.t. expiry + re-acquisition) is an open known finding: "
                        "timed locks are not raced against their own expiry in the concurrent part"]
    kf = vlib.match_known(PID, {"kind": "unlock-vs-expiry-race"})
    if kf:
        res.known_finding(kf["description"])


def replay(res, path):
    obj = json.load(open(path))
    if obj.get("scenario", {}).get("ops"):
        return dmapcheck.replay(res, path, dmaplib.judge_seq)
    sc = obj.get("scenario")
    if not sc:
        print("replay names a broken obligation: %s" % obj.get("failed"))
        return 1
    ok, out = vlib.harness_build()
    if not ok:
        raise vlib.CheckError(out)
    bad = 0
    if obj.get("part") == "wait":
        for i in range(5):
            s = dict(sc, id=i)
            r = conclib.run_conc(obj["cluster"], [s])[i]
            msg, j = judge_wait(s, r)
            print("run %d: %s" % (i, msg or ("held as required" if j else "not judged (timing)")))
            bad += 1 if msg else 0
        if bad:
            print("VIOLATION property=%s replay=%s" % (res.pid, path))
            return 1
        return 0
    for i in range(30):
        s = dict(sc, id=i)
        r = conclib.run_conc(obj["cluster"], [s])[i]
        msg, evs = judge_conc(s, r)
        if msg:
            bad += 1
            continue
        v, _ = conclib.lin_eval("c08r", "lock", [(i, None, evs)])
        bad += sum(1 for x in v.values() if x is False)
    print("failing runs out of 30: %d" % bad)
    if bad:
        print("VIOLATION property=%s replay=%s" % (res.pid, path))
        return 1
    return 0
