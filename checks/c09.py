# C09 - a key is visible until its expiry and never after it (DESIGN.md section 9).
import dmapcheck
import dmaplib
import vlib

PID = "C09"
PATHS = ["emb@owner", "emb@other", "cc", "raw@other", "pipe"]
SOURCES = ["ex", "px", "exat", "pxat", "default", "expire"]
PROBES = ["get", "getput", "incr", "nx", "xx", "expire", "lease"]
TTL = 240


def script(dname, rng, evicted, paths):
    """three phases: set-up of many keys with a ttl from every source; probes before the deadline; sleep;
    (optionally forced eviction); probes after the deadline"""
    setup, before, after, final = [], [], [], []
    n = 0
    for src in SOURCES:
        for probe in PROBES:
            for path in paths:
                n += 1
                k = dmaplib.hx("%s-%d" % (dname, n))
                dn = dname + ("T" if src == "default" else "")
                p0 = rng.choice(dmaplib.ALLPATHS)
                if probe == "lease":
                    if src in ("default", "expire", "exat", "ex", "pxat"):
                        continue
                    h = "%s-h%d" % (dname, n)
                    setup.append({"op": "lock", "c": rng.choice([p for p in dmaplib.ALLPATHS if p != "pipe"]), "d": dn, "k": k, "ms": TTL, "dl": 20, "tok": h})
                    after.append({"op": "lease", "tok": h, "ms": 60000})
                    final.append({"op": "get", "c": "emb@owner", "d": dn, "k": k})
                    continue
                op = {"op": "put", "c": p0, "d": dn, "k": k, "v": dmaplib.hx("41")}
                if src == "ex":
                    if p0.startswith("raw"):
                        op["c"] = "cc"
                    op["ex"] = TTL
                elif src == "px":
                    op["px"] = TTL
                elif src == "exat":
                    if p0.startswith("raw"):
                        op["c"] = "cc"
                    op["exat"], op["rel"] = TTL, True
                elif src == "pxat":
                    op["pxat"], op["rel"] = TTL, True
                setup.append(op)
                if src == "expire":
                    setup.append({"op": "expire", "c": rng.choice(dmaplib.ALLPATHS), "d": dn, "k": k, "ms": TTL})
                # one read before the deadline
                if n % 3 == 0:
                    before.append({"op": "get", "c": path, "d": dn, "k": k})
                if probe == "get":
                    after.append({"op": "get", "c": path, "d": dn, "k": k})
                elif probe == "getput":
                    after.append({"op": "getput", "c": path, "d": dn, "k": k, "v": dmaplib.hx("gp")})
                elif probe == "incr":
                    after.append({"op": "incr", "c": path, "d": dn, "k": k, "delta": 1})
                elif probe == "nx":
                    after.append({"op": "put", "c": path, "d": dn, "k": k, "v": dmaplib.hx("n"), "nx": True})
                elif probe == "xx":
                    after.append({"op": "put", "c": path, "d": dn, "k": k, "v": dmaplib.hx("x"), "xx": True})
                elif probe == "expire":
                    after.append({"op": "expire", "c": path, "d": dn, "k": k, "ms": 60000})
                final.append({"op": "get", "c": "emb@owner", "d": dn, "k": k})
                final.append({"op": "dump", "d": dn, "k": k})
    ops = setup + before + [{"op": "sleep", "ms": TTL + 2 * dmaplib.MARGIN + 60}]
    if evicted:
        for m in range(3):
            ops.append({"op": "evict", "m": m})
            ops.append({"op": "evict", "m": m})
    return ops + after + final


def rules_script(dname, rng, paths):
    """which operations keep, set and clear an expiry, interleaved on different keys through every path: an Incr/Decr on
    a key that has an expiry keeps it, and must not leak it into later GetPut / Incr / Decr calls on other keys"""
    ops = []
    n = 0
    for path in paths:
        n += 1
        a, b, c, d, e = [dmaplib.hx("%s-r%d%s" % (dname, n, x)) for x in "abcde"]
        pp = [p for p in paths if p != "pipe"]
        ops += [{"op": "incr", "c": path, "d": dname, "k": a, "delta": 5},
                {"op": "expire", "c": rng.choice(pp), "d": dname, "k": a, "ms": 60000},
                {"op": rng.choice(["incr", "decr"]), "c": path, "d": dname, "k": a, "delta": 2},      # keeps the expiry
                {"op": "dump", "d": dname, "k": a},
                {"op": "getput", "c": rng.choice(paths), "d": dname, "k": b, "v": dmaplib.hx("g1")},  # no expiry
                {"op": "dump", "d": dname, "k": b},
                {"op": "incr", "c": rng.choice(paths), "d": dname, "k": c, "delta": 1},               # no expiry
                {"op": "dump", "d": dname, "k": c},
                {"op": "put", "c": rng.choice(pp), "d": dname, "k": d, "v": dmaplib.hx("p"), "px": 60000},
                {"op": "getput", "c": path, "d": dname, "k": d, "v": dmaplib.hx("g2")},               # clears the expiry
                {"op": "dump", "d": dname, "k": d},
                {"op": "decr", "c": rng.choice(paths), "d": dname, "k": e, "delta": 3},
                {"op": "dump", "d": dname, "k": e},
                {"op": "get", "c": path, "d": dname, "k": b},
                {"op": "get", "c": path, "d": dname, "k": c}]
    # on a DMap that has a default TTL: an explicit expiry wins over the default, Incr keeps the expiry Expire has set,
    # and only a write without an expiry of its own takes the default
    dT = dname + "T"
    late = []
    n = 0
    for path in paths:
        n += 1
        f, g, h = [dmaplib.hx("%s-t%d%s" % (dname, n, x)) for x in "fgh"]
        pp = [p for p in paths if p != "pipe"]
        put = {"op": "put", "c": path, "d": dT, "k": f, "v": dmaplib.hx("q")}
        form = rng.choice(["px", "pxat"] if path.startswith("raw") or path == "pipe" else ["ex", "px", "exat", "pxat"])
        put[form] = 60000
        if form.endswith("at"):
            put["rel"] = True
        ops += [put, {"op": "dump", "d": dT, "k": f},
                {"op": "incr", "c": rng.choice(paths), "d": dT, "k": g, "delta": 5},                   # takes the default TTL
                {"op": "expire", "c": rng.choice(pp), "d": dT, "k": g, "ms": 60000},
                {"op": rng.choice(["incr", "decr"]), "c": path, "d": dT, "k": g, "delta": 2},          # keeps Expire's deadline
                {"op": "dump", "d": dT, "k": g},
                {"op": "put", "c": path, "d": dT, "k": h, "v": dmaplib.hx("d")}]                       # default TTL
        late += [{"op": "get", "c": path, "d": dT, "k": f}, {"op": "get", "c": path, "d": dT, "k": g},
                 {"op": "get", "c": path, "d": dT, "k": h}]
    ops += [{"op": "sleep", "ms": TTL + 2 * dmaplib.MARGIN + 60}] + late
    return ops


def gen_groups(res):
    groups = []
    sid = 0
    cfgs = [({"members": 2, "replicas": 2, "partitions": 7, "table": 1 << 20, "evict_workers": 1}, 2),
            ({"members": 3, "replicas": 1, "partitions": 7, "table": 1 << 20, "evict_workers": 1}, 3)]
    rounds = 1 if res.tier == "quick" else 4
    for cfg, nm in cfgs:
        scs = []
        for r in range(rounds):
            for evicted in (False, True):
                rng = vlib.rng_for(res.seed, PID, sid)
                dname = "c09d%d" % sid
                c = dict(cfg)
                c["dmaps"] = dict(c.get("dmaps", {}))
                ops = script(dname, rng, evicted, dmaplib.ALLPATHS if res.tier == "thorough" else PATHS)
                if evicted:
                    ops = [o if o["op"] != "evict" or o["m"] < nm else None for o in ops]
                    ops = [o for o in ops if o]
                scs.append({"id": sid, "ops": ops, "default_ttl": {dname + "T": TTL}, "_dT": dname + "T"})
                sid += 1
            rng = vlib.rng_for(res.seed, PID, "rules", sid)
            dname = "c09r%d" % sid
            scs.append({"id": sid, "ops": rules_script(dname, rng, dmaplib.ALLPATHS if res.tier == "thorough" else PATHS),
                        "default_ttl": {dname + "T": TTL}, "_dT": dname + "T"})
            sid += 1
        # the per-DMap default TTL is a cluster configuration item
        c = dict(cfg)
        c["dmaps"] = {s["_dT"]: {"ttl_ms": TTL} for s in scs}
        groups.append((c, scs))
    return groups


def run(res):
    dmapcheck.run_dmap_check(
        res, PID, gen_groups, dmaplib.judge_seq, shard=1,
        rule="scripts in three phases around a %d ms deadline on (N,R) in {(2,2),(3,1)}: every ttl source {EX,PX,EXAT,PXAT,DMap default TTL,Expire} x "
             "every probe {Get, GetPut old value, Incr base, NX, XX, Expire, Lease} x client paths, reads before the deadline, probes after it, "
             "with background eviction either left alone or forced over every member; plus scripts of the ttl rules (Incr/Decr on a key with an "
             "expiry keeps it, GetPut clears it, neither leaks an expiry into later atomic calls on other keys) through every path; judged by the reference semantics with a %d ms margin and the "
             "mirror predicate; the same histories are evaluated by Model/DMap.v inside Coq" % (TTL, dmaplib.MARGIN))


    if getattr(res, "harness_error", None):
        return
    # an expired, not yet evicted copy on the partition owner that is the NEWEST version, next to older copies without a
    # deadline on a previous owner or a backup owner (a hand-over that has not finished, a backup that missed the last write):
    # the key must not come back with the older value (copy layouts of the C06 harness)
    import c06
    import qlib
    scs = []
    for j, rr in enumerate((False, True)):
        gets = [{"copies": list(l), "down": [], "expired": [0]} for l in ([3, 1, 0, 0], [3, 2, 1, 0], [2, 0, 1, 1], [3, 0, 0, 2], [2, 1, 1, 1])]
        scs.append({"id": 7000 + j, "rr": rr, "rq": 1, "gets": gets})
    results = qlib.run_harness("lww", [qlib.strip(s_) for s_ in scs], jobs=2)
    n = 0
    for s_ in scs:
        ob = results[s_["id"]]
        for i, g in enumerate(s_["gets"]):
            if i >= len(ob.get("gets", [])):
                break
            n += 1
            m = c06.check_get(s_, g, ob["gets"][i])
            if m:
                res.violation({"kind": "impl-violates-property", "part": "expired-newest", "scenario": dict(qlib.strip(s_), gets=[g]),
                               "impl_trace": ob["gets"][i], "predicate": {"name": "an expired newest copy hides older copies", "verdict": m}, "seed": res.seed})
                break
    res.coverage["expired_newest_copy_layouts"] = n


def replay(res, path):
    import json as _json
    obj = _json.load(open(path))
    if obj.get("part") == "expired-newest":
        import c06
        import qlib
        ok, out = vlib.harness_build()
        if not ok:
            raise vlib.CheckError(out)
        sc = dict(obj["scenario"], id=0)
        ob = qlib.run_harness("lww", [sc], jobs=1)[0]
        for g, o in zip(sc["gets"], ob.get("gets", [])):
            m = c06.check_get(sc, g, o)
            if m:
                print(m)
                print("VIOLATION property=%s replay=%s" % (res.pid, path))
                return 1
        return 0
    return dmapcheck.replay(res, path, dmaplib.judge_seq)
