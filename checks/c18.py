# C18 - returned values are private snapshots (DESIGN.md section 9, fixes/DESIGN-C17-C18.md).
#
# Scenario ops (harness subcommand `alias`, levels "engine" and "cluster"):
#   put / putbuf / putraw / get / getput / range / scan / del / compact / compactall / xfer / join   (the store)
#   buf / mut / mutbuf / read / readbuf                                                               (the caller's memory)
# Predicate (python, on the implementation's observations alone):
#   * every later look at a returned value (`read i`) shows what was returned, changed only by the caller's own
#     writes into that very handle;
#   * every Get / GetPut / Range returns what the last successful Put of that key wrote, whatever callers have
#     done to returned values and to the buffers they passed;
#   * a caller's buffer holds what the caller wrote.
# Coq: the same steps run on the heap model (Model/ByteTable.v part 2 through Model/AliasRun.v) and every
# reported observation is compared.
import json
import os

import vallib
import vlib
from vallib import META, cbytes, cN, cZ, cnat

PID = "C18"
PATHS = ["own", "non", "cc", "pipe"]


# ------------------------------------------------------------------------------------------
# predicate
# ------------------------------------------------------------------------------------------

def table_size(sc):
    return sc["size"] if sc["level"] == "engine" else sc["opts"].get("table", 1 << 20)


def keyid(sc, op):
    """identity of the key an op works on: engine -> the hkey, cluster -> the key bytes"""
    return op[1] if sc["level"] == "engine" else op[2]


def walk(sc, obs):
    """Replays the scenario against a reference map and reference caller memory.
    Returns (failure or None, trace) where trace[i] = dict with what the reference expects at step i
    (used by the Coq translation: which handle / buffer numbers exist)."""
    size = table_size(sc)
    eng = sc["level"] == "engine"
    store = {}
    handles = []      # bytearray (what the caller must see), kind
    bufs = []
    trace = []
    for i, op in enumerate(sc["ops"]):
        if i >= len(obs):
            return (i, "no observation (scenario aborted: %s)" % sc.get("_err", "")), trace
        ob = obs[i]
        name = op[0]
        info = {"nh": len(handles), "nb": len(bufs)}
        trace.append(info)
        if ob[0] == "skip":
            continue          # the harness could not perform the step (no such buffer, backup copy not settled in time)
        if ob[0] == "hang":
            return (i, "operation %s did not return (watchdog)" % name), trace
        if ob[0] == "panic":
            return (i, "operation %s panicked: %s" % (name, ob[1])), trace
        if name in ("put", "putbuf", "putraw", "putbufdefer"):
            k = keyid(sc, op)
            key = bytes.fromhex(op[2])
            if name == "put":
                val = bytes.fromhex(op[3])
            else:
                bi = int(op[3])
                if bi >= len(bufs):
                    continue
                val = bytes(bufs[bi])
                info["buflen"] = len(bufs[bi])
                if name == "putbufdefer" and int(op[4]) < len(bufs[bi]):
                    # the caller reuses the buffer after the pipelined Put returned (before Exec): the store must not see it
                    bufs[bi][int(op[4])] = int(op[5])
            info["val"] = val
            fits = len(key) + len(val) + META < size and (len(key) < 256 or name == "putraw")
            info["fits"] = fits
            if fits:
                if ob[1] != "nil":
                    return (i, "%s of a fitting entry returned %s" % (name, ob[1])), trace
                store[k] = val
            elif ob[1] == "nil":
                return (i, "%s of an entry that cannot be stored returned success" % name), trace
        elif name in ("get", "getput"):
            k = keyid(sc, op)
            cur = store.get(k)
            info["present"] = cur is not None
            if cur is None:
                if ob[1] not in ("notfound", "none"):
                    return (i, "%s of an absent key returned %s" % (name, ob[1:])), trace
            else:
                if ob[1] != "nil":
                    return (i, "%s of a present key returned %s" % (name, ob[1])), trace
                got = bytes.fromhex(ob[2])
                how = "byte" if eng else op[-1]
                handles.append((bytearray(got), how))
                if got != cur:
                    return (i, "%s returned %s but the last successful Put of this key wrote %s "
                               "(a write into a returned value or into a passed buffer reached the store)"
                            % (name, got.hex(), cur.hex())), trace
            if name == "getput":
                new = bytes.fromhex(op[3])
                if len(bytes.fromhex(op[2])) + len(new) + META < size:
                    store[k] = new
        elif name == "range":
            exp = sorted(((int(k), v) for k, v in store.items()))
            got = [(int(x[0]), bytes.fromhex(x[1])) for x in (ob[1] or [])]
            for _, v in got:
                handles.append((bytearray(v), "byte"))
            info["items"] = got
            if got != exp:
                return (i, "iteration returned %s, the store holds %s" %
                        ([(h, v.hex()) for h, v in got], [(h, v.hex()) for h, v in exp])), trace
        elif name == "scan":
            if ob[1] != "nil":
                return (i, "scan failed: %s" % ob[1]), trace
            got = [bytes.fromhex(x) for x in (ob[2] or [])]
            for kx in got:
                handles.append((bytearray(kx), "key"))
            exp = sorted(bytes.fromhex(k) for k in store)
            if got != exp:
                return (i, "scan returned keys %s, present: %s" % ([x.hex() for x in got], [x.hex() for x in exp])), trace
        elif name == "del":
            if ob[1] != "nil":
                return (i, "delete returned %s" % ob[1]), trace
            store.pop(keyid(sc, op), None)
        elif name in ("compact", "compactall", "xfer", "stats"):
            if ob[0] == "code" and ob[1] != "nil":
                return (i, "%s failed: %s" % (name, ob[1])), trace
        elif name == "join":
            if ob[1] != "ok":
                # the environment (membership did not settle in time): not a verdict on C18; the rest is discarded
                info["discard"] = True
                return None, trace
        elif name == "buf":
            bufs.append(bytearray(bytes.fromhex(op[1])))
        elif name == "mut":
            if ob == ["ok"]:
                handles[int(op[1])][0][int(op[2])] = int(op[3])
        elif name == "mutbuf":
            if ob == ["ok"]:
                bufs[int(op[1])][int(op[2])] = int(op[3])
        elif name == "read":
            if ob[0] == "read":
                exp = bytes(handles[int(op[1])][0])
                got = bytes.fromhex(ob[1])
                if got != exp:
                    return (i, "a value returned earlier changed: handle #%d (%s) held %s, now reads %s" %
                            (int(op[1]), handles[int(op[1])][1], exp.hex(), got.hex())), trace
        elif name == "readbuf":
            if ob[0] == "read":
                exp = bytes(bufs[int(op[1])])
                got = bytes.fromhex(ob[1])
                if got != exp:
                    return (i, "the caller's buffer #%d held %s, now reads %s" % (int(op[1]), exp.hex(), got.hex())), trace
        else:
            raise ValueError(name)
    return None, trace


def discarded(sc, r):
    """the cluster did not start or a join did not settle: the environment, not the property"""
    if r is None:
        return False
    if r.get("err", "").startswith("cluster:") and not r.get("obs"):
        return True
    return any(op[0] == "join" and len(ob) > 1 and ob[0] == "join" and ob[1] != "ok" for op, ob in zip(sc["ops"], r.get("obs") or []))


def check(sc, r):
    if r is None:
        return (0, "no result from the harness")
    if discarded(sc, r) and not r.get("obs"):
        return None
    if r.get("err") and not r.get("obs"):
        return (0, "harness: " + r["err"])
    sc = dict(sc, _err=r.get("err", ""))
    bad, _ = walk(sc, r["obs"])
    return bad


# ------------------------------------------------------------------------------------------
# Coq translation
# ------------------------------------------------------------------------------------------

HEADER = """From Coq Require Import List NArith ZArith Bool.
Require Import Olric.Gen.Consts Olric.Model.Codec Olric.Model.ByteTable Olric.Model.AliasRun.
Import ListNotations.
"""


def to_coq(sc, obs, I=None):
    """(table size, [(wop, expect)]) following the implementation's observations; stops at the first
    observation that has no model counterpart."""
    cbytes = I.b if I else vallib.cbytes
    _, trace = walk(sc, obs)
    eng = sc["level"] == "engine"
    keys = {}

    def hk(op):
        k = keyid(sc, op)
        if eng:
            return int(k)
        if k not in keys:
            keys[k] = len(keys) + 1
        return keys[k]

    steps = []
    mbufs = 0            # buffers of the model
    bufmap = []          # harness buffer -> model buffer
    mh = 0               # handles of the model
    hmap = []            # harness handle -> model handle or None

    def code(ob):
        c = vallib.CODES.get(ob[1])
        return "EObs (OCode %s)" % c if c else None

    for i, op in enumerate(sc["ops"]):
        if i >= len(obs) or i >= len(trace):
            break
        ob = obs[i]
        if ob[0] in ("hang", "panic", "?"):
            break
        if ob[0] == "skip":
            continue
        name = op[0]
        t = trace[i]
        if name in ("put", "putbuf", "putraw", "putbufdefer"):
            key = bytes.fromhex(op[2])
            if name == "put":
                steps.append(("WNewBuf %s" % cbytes(bytes.fromhex(op[3])), "EAny"))
                b = mbufs
                mbufs += 1
            else:
                if int(op[3]) >= len(bufmap):
                    continue
                b = bufmap[int(op[3])]
            e = code(ob)
            if e is None:
                break
            if name == "putraw":
                steps.append(("WPutRaw %s %s %s 0%%Z %s" % (cN(hk(op)), cbytes(key), cnat(b), cZ(i + 1)), e))
            else:
                steps.append(("WPut %s %s %s 0%%Z %s 0%%Z" % (cN(hk(op)), cbytes(key), cnat(b), cZ(i + 1)), e))
            if name == "putbufdefer" and int(op[4]) < t.get("buflen", 0):
                steps.append(("WMutBuf %s %s %d%%N" % (cnat(b), cnat(int(op[4])), int(op[5])), "EAny"))
        elif name in ("get", "getput"):
            if ob[1] == "nil":
                steps.append(("WGet %s 0%%Z" % cN(hk(op)), "EObs (OVal (Some %s))" % cbytes(bytes.fromhex(ob[2]))))
                hmap.append(mh)
                mh += 1
            elif ob[1] in ("notfound", "none"):
                steps.append(("WGet %s 0%%Z" % cN(hk(op)), "EObs (OVal None)"))
            else:
                break
            if name == "getput":
                steps.append(("WNewBuf %s" % cbytes(bytes.fromhex(op[3])), "EAny"))
                steps.append(("WPut %s %s %s 0%%Z %s 0%%Z" % (cN(hk(op)), cbytes(bytes.fromhex(op[2])), cnat(mbufs), cZ(i + 1)), "EAny"))
                mbufs += 1
        elif name == "range":
            for h, v in t.get("items", []):
                steps.append(("WGet %s 0%%Z" % cN(h), "EObs (OVal (Some %s))" % cbytes(v)))
                hmap.append(mh)
                mh += 1
        elif name == "scan":
            for _ in (ob[2] or []) if ob[1] == "nil" else []:
                hmap.append(None)
        elif name == "del":
            steps.append(("WDel %s" % cN(hk(op)), "EObs (OCode CNil)"))
        elif name == "compact":
            steps.append(("WCompact" if eng else "WCompactAll", "EAny"))
        elif name == "compactall":
            steps.append(("WCompactAll", "EAny"))
        elif name in ("xfer", "join"):
            steps.append(("WMigrate 0%Z", "EAny"))
        elif name == "buf":
            steps.append(("WNewBuf %s" % cbytes(bytes.fromhex(op[1])), "EAny"))
            bufmap.append(mbufs)
            mbufs += 1
        elif name == "mut":
            if ob == ["ok"] and hmap[int(op[1])] is not None:
                steps.append(("WMut %s %s %d%%N" % (cnat(hmap[int(op[1])]), cnat(int(op[2])), int(op[3])), "EAny"))
        elif name == "mutbuf":
            if ob == ["ok"]:
                steps.append(("WMutBuf %s %s %d%%N" % (cnat(bufmap[int(op[1])]), cnat(int(op[2])), int(op[3])), "EAny"))
        elif name == "read":
            if ob[0] == "read" and hmap[int(op[1])] is not None:
                steps.append(("WRead %s" % cnat(hmap[int(op[1])]), "EObs (OBytes (Some %s))" % cbytes(bytes.fromhex(ob[1]))))
        elif name == "readbuf":
            if ob[0] == "read":
                steps.append(("WReadBuf %s" % cnat(bufmap[int(op[1])]), "EObs (OBytes (Some %s))" % cbytes(bytes.fromhex(ob[1]))))
    return "(%s, [%s])" % (cnat(table_size(sc)), "; ".join("(%s, %s)" % s for s in steps)), len(steps)


def coq_compare(prefix, scs, results, shard=30, jobs=16):
    cases = []
    nsteps = 0
    for s in scs:
        r = results.get(s["id"])
        if not r or not r.get("obs"):
            continue
        I = vallib.Interner(str(s["id"]))
        term, n = to_coq(s, r["obs"], I)
        nsteps += n
        cases.append((s["id"], term, I.text()))
    mism, secs = vallib.coq_compare(prefix, HEADER, "nat * list (wop * expect)", "a_mismatches", cases, shard=shard, jobs=jobs)
    return mism, secs, nsteps


# ------------------------------------------------------------------------------------------
# generators
# ------------------------------------------------------------------------------------------

def rbytes(rng, n):
    return bytes(rng.randrange(256) for _ in range(n))


def gen_engine(rng, sid, nops=None):
    size = rng.choice([96, 128, 128, 256, 512])
    nkeys = rng.choice([2, 3, 4, 6])
    hks = [str(rng.randrange(1, 1 << 62)) if rng.random() < 0.2 else str(j + 1) for j in range(nkeys)]
    keyb = {h: bytes([107, 48 + j]) for j, h in enumerate(hks)}
    maxv = max(1, min(60, (size - META - 3) // rng.choice([1, 2, 3])))
    nops = nops or rng.randrange(20, 90)
    ops = []
    nh = nb = 0
    W = {"put": 26, "putbuf": 8, "putraw": 4, "get": 14, "range": 2, "del": 5, "compact": 4, "compactall": 5,
         "xfer": 1, "mut": 10, "read": 10, "buf": 5, "mutbuf": 6, "readbuf": 2}
    names = list(W)
    wts = [W[n] for n in names]
    for _ in range(nops):
        n = rng.choices(names, wts)[0]
        h = rng.choice(hks)
        if n == "put":
            ops.append(["put", h, keyb[h].hex(), rbytes(rng, rng.randrange(0, maxv + 1)).hex()])
        elif n in ("putbuf", "putraw"):
            if nb == 0:
                ops.append(["buf", rbytes(rng, rng.randrange(1, maxv + 1)).hex()])
                nb += 1
            ops.append([n, h, keyb[h].hex(), rng.randrange(nb)])
        elif n == "get":
            ops.append(["get", h])
            nh += 1          # upper bound
        elif n == "range":
            ops.append(["range"])
            nh += nkeys
        elif n == "del":
            ops.append(["del", h])
        elif n in ("compact", "compactall", "xfer"):
            ops.append([n])
        elif n == "mut" and nh:
            ops.append(["mut", rng.randrange(nh), rng.randrange(0, maxv), rng.randrange(256)])
        elif n == "read" and nh:
            ops.append(["read", rng.randrange(nh)])
        elif n == "buf":
            ops.append(["buf", rbytes(rng, rng.randrange(1, maxv + 1)).hex()])
            nb += 1
        elif n == "mutbuf" and nb:
            ops.append(["mutbuf", rng.randrange(nb), rng.randrange(0, maxv), rng.randrange(256)])
        elif n == "readbuf" and nb:
            ops.append(["readbuf", rng.randrange(nb)])
    ops += tail(nh, nb, [["get", h] for h in hks])
    return {"id": sid, "level": "engine", "size": size, "ops": ops}


def tail(nh, nb, gets):
    """every handle and buffer is looked at again and every key is read once more"""
    return [["read", i] for i in range(nh)] + [["readbuf", i] for i in range(nb)] + gets + [["read", i] for i in range(nh)]


def gen_churn_engine(rng, sid):
    """the directed shape: read, then overwrite until the table holding the value is garbage, compact (the table is
    recycled), write again (the recycled slab is rewritten), look at the value read first"""
    size = rng.choice([128, 256])
    vlen = rng.choice([8, 16, 24])
    per = (size - 1) // (2 + vlen + META)
    ops = [["put", "1", "6b31", rbytes(rng, vlen).hex()], ["put", "2", "6b32", rbytes(rng, vlen).hex()],
           ["get", "1"], ["get", "2"], ["range"]]
    for rnd in range(rng.randrange(2, 5)):
        for _ in range(per * rng.randrange(2, 4)):
            ops.append(["put", rng.choice(["1", "2", "3"]), "6b33", rbytes(rng, vlen).hex()])
        ops.append(["compactall"])
        ops += [["read", i] for i in range(4)]
        if rng.random() < 0.5:
            ops.append(["get", rng.choice(["1", "2", "3"])])
    ops += [["get", "1"], ["get", "2"], ["get", "3"]] + [["read", i] for i in range(4)]
    return {"id": sid, "level": "engine", "size": size, "ops": ops}


def gen_cluster(rng, sid, replicas=None, nops=None, join=None):
    replicas = replicas or rng.choice([1, 1, 2])
    members = rng.choice([1, 2]) if replicas == 1 else rng.choice([2, 3])
    table = rng.choice([256, 512])
    # (one partition over several members makes the consistent-hash library panic: not a C18 matter)
    # and the member count must never exceed the partition count)
    opts = {"members": members, "replicas": replicas, "partitions": rng.choice([p for p in (3, 7) if p > members]), "table": table}
    # (asynchronous replication is exercised by gen_async_reuse only: there a backup write may overtake an earlier one of the
    # same key, so the sequential reference of this generator does not apply to it - thorough-tier false alarm, DESIGN 13.5)
    nkeys = rng.choice([2, 3, 5])
    keys = [bytes([107, 48 + j]).hex() for j in range(nkeys)]
    maxv = rng.choice([8, 24, 48])
    nops = nops or rng.randrange(25, 70)
    join = (rng.random() < 0.6) if join is None else join
    joinat = rng.randrange(nops // 3, nops) if join else -1
    ops = []
    nh = nb = 0
    W = {"put": 24, "putbuf": 10, "putbufdefer": 6, "get": 18, "getput": 6, "del": 4, "compact": 5, "scan": 2,
         "mut": 10, "read": 10, "buf": 4, "mutbuf": 6, "readbuf": 2}
    names = list(W)
    wts = [W[n] for n in names]
    for j in range(nops):
        if j == joinat:
            ops.append(["join"])
            continue
        n = rng.choices(names, wts)[0]
        k = rng.choice(keys)
        path = rng.choice(PATHS if n != "getput" else ["own", "non", "cc"])
        if rng.random() < 0.45:
            path = "own"          # the only path that can share memory with the store
        if n == "get" and replicas > 1 and rng.random() < 0.25:
            path = "bak"          # the backup copy itself
        how = rng.choice(["byte", "byte", "string"])
        if n == "put":
            ops.append(["put", path, k, rbytes(rng, rng.randrange(1, maxv + 1)).hex()])
        elif n == "putbuf":
            if nb == 0:
                ops.append(["buf", rbytes(rng, rng.randrange(1, maxv + 1)).hex()])
                nb += 1
            ops.append(["putbuf", path, k, rng.randrange(nb)])
        elif n == "putbufdefer":
            if nb == 0:
                ops.append(["buf", rbytes(rng, rng.randrange(1, maxv + 1)).hex()])
                nb += 1
            ops.append(["putbufdefer", rng.choice(["own", "non", "cc"]), k, rng.randrange(nb), rng.randrange(0, maxv), rng.randrange(256)])
        elif n == "get":
            ops.append(["get", path, k, how])
            nh += 1
        elif n == "getput":
            ops.append(["getput", path, k, rbytes(rng, rng.randrange(1, maxv + 1)).hex(), how])
            nh += 1
        elif n == "del":
            ops.append(["del", path, k])
        elif n == "compact":
            ops.append(["compact"])
        elif n == "scan":
            if "pipe" == path:
                path = "cc"
            ops.append(["scan", path])
            nh += nkeys
        elif n == "mut" and nh:
            ops.append(["mut", rng.randrange(nh), rng.randrange(0, maxv), rng.randrange(256)])
        elif n == "read" and nh:
            ops.append(["read", rng.randrange(nh)])
        elif n == "buf":
            ops.append(["buf", rbytes(rng, rng.randrange(1, maxv + 1)).hex()])
            nb += 1
        elif n == "mutbuf" and nb:
            ops.append(["mutbuf", rng.randrange(nb), rng.randrange(0, maxv), rng.randrange(256)])
        elif n == "readbuf" and nb:
            ops.append(["readbuf", rng.randrange(nb)])
    ops += tail(nh, nb, [["get", "own", k, "byte"] for k in keys])
    return {"id": sid, "level": "cluster", "opts": opts, "dmap": "d", "ops": ops}


def gen_async_reuse(rng, sid):
    """asynchronous replication: the caller's buffer is reused right after Put returned; the backup copies, written by a
    goroutine that may still be running, must hold what was passed to Put"""
    opts = {"members": 2, "replicas": 2, "partitions": 3, "table": 512, "async": True}
    keys = [bytes([107, 48 + j]).hex() for j in range(8)]
    ops = [["buf", rbytes(rng, 40).hex()]]
    for rnd in range(3):
        for k in keys:
            ops.append(["putbuf", "own", k, 0])
            ops.append(["mutbuf", 0, rng.randrange(0, 40), rng.randrange(256)])
        for k in keys:
            ops.append(["get", "bak", k, "byte"])
            ops.append(["get", rng.choice(["own", "cc"]), k, "byte"])
    return {"id": sid, "level": "cluster", "opts": opts, "dmap": "d", "ops": ops}


def gen_churn_cluster(rng, sid, replicas=1):
    """handles (Byte and String, Get and GetPut) taken through the embedded client of the owner, then churn that
    fills tables with garbage, compaction of every fragment, more writes into the recycled tables, then the looks"""
    table = 256
    single = replicas == 1 and rng.random() < 0.5
    opts = {"members": 1 if single else 2, "replicas": replicas, "partitions": 1 if single else 3, "table": table}
    vlen = 16
    keys = ["6b30", "6b31", "6b32"]
    ops = [["put", "own", k, rbytes(rng, vlen).hex()] for k in keys]
    ops += [["get", "own", "6b30", "byte"], ["get", "own", "6b31", "string"],
            ["getput", "own", "6b32", rbytes(rng, vlen).hex(), "byte"], ["get", "cc", "6b30", "byte"], ["scan", "own"]]
    nh = 4 + 3
    for rnd in range(rng.randrange(2, 4)):
        for _ in range(rng.randrange(10, 20) * (1 if single else 3)):
            ops.append(["put", rng.choice(["own", "own", "cc"]), rng.choice(keys + ["6b39"]), rbytes(rng, vlen).hex()])
        ops.append(["compact"])
        ops += [["read", i] for i in range(nh)]
    if not single and rng.random() < 0.6:
        ops.append(["join"])
        ops += [["put", "own", rng.choice(keys), rbytes(rng, vlen).hex()] for _ in range(8)]
    ops += [["get", "own", k, "byte"] for k in keys] + [["read", i] for i in range(nh)]
    return {"id": sid, "level": "cluster", "opts": opts, "dmap": "d", "ops": ops}


def corpus():
    out = []
    d = os.path.join(vlib.VERIF, "corpus", PID)
    if os.path.isdir(d):
        for f in sorted(os.listdir(d)):
            if f.endswith(".json"):
                sc = json.load(open(os.path.join(d, f)))
                sc["_file"] = f
                out.append(sc)
    return out


def scenarios(res):
    scs = corpus()
    quick = res.tier == "quick"
    n_eng, n_churn, n_cl, n_clchurn = (260, 40, 22, 10) if quick else (5000, 600, 220, 80)
    gens = [(gen_engine, n_eng), (gen_churn_engine, n_churn), (gen_cluster, n_cl), (gen_churn_cluster, n_clchurn)]
    sid = len(scs)
    for gi, (g, n) in enumerate(gens):
        for i in range(n):
            rng = vlib.rng_for(res.seed, PID, gi, i)
            if g is gen_churn_cluster:
                scs.append(g(rng, 0, replicas=1 if i % 3 else 2))
            else:
                scs.append(g(rng, 0))
    for i in range(2 if quick else 12):
        scs.append(gen_async_reuse(vlib.rng_for(res.seed, PID, "async", i), 0))
    for i, s in enumerate(scs):
        s["id"] = i
    return scs


def run_impl(scs):
    eng = [s for s in scs if s["level"] == "engine"]
    clu = [s for s in scs if s["level"] == "cluster"]
    out = {}
    if eng:
        out.update(vallib.run_parallel("alias", eng, jobs=4))
    if clu:
        out.update(vallib.run_parallel("alias", clu, jobs=8))
    return out


# ------------------------------------------------------------------------------------------
# the check
# ------------------------------------------------------------------------------------------

def strip(sc):
    return {k: v for k, v in sc.items() if not k.startswith("_")}


def fails_pred(sc):
    r = run_impl([dict(strip(sc), id=0)]).get(0)
    return check(sc, r) is not None


def classify(sc, msg):
    return {"kind": "alias", "level": sc["level"], "what": msg.split(":")[0][:60]}


def nontrivial(sc, obs):
    """a handle was looked at again after the store had changed (write, delete, compaction, migration) or after
    some handle / buffer had been written by the caller"""
    have = False
    changed = False
    for op, ob in zip(sc["ops"], obs):
        n = op[0]
        if n in ("get", "getput", "range") and ob[0] in ("val", "range") and (ob[1] == "nil" or n == "range"):
            have = True
        elif have and n in ("put", "putbuf", "putbufdefer", "putraw", "del", "compact", "compactall", "xfer", "join", "mut", "mutbuf", "getput"):
            changed = True
        elif changed and n == "read" and ob[0] == "read":
            return True
    return False


def run(res):
    proofs_ok = vlib.common_obligations(res, PID)
    if getattr(res, "harness_error", None):
        res.violation({"kind": "harness-build", "failed": "correspondence: the harness no longer compiles against /repo",
                       "detail": res.harness_error[-3000:]}, no_input=True)
        res.coverage.update({"evaluations": 0, "distinct_nontrivial": 0})
        return
    scs = scenarios(res)
    results = run_impl(scs)
    byid = {s["id"]: s for s in scs}
    pred_fail = []
    ndisc = 0
    for s in scs:
        r = results.get(s["id"])
        if discarded(s, r):
            ndisc += 1
            # keep what happened before the failed join
            if r.get("obs"):
                k = next(i for i, (op, ob) in enumerate(zip(s["ops"], r["obs"])) if op[0] == "join" and ob[1] != "ok")
                s["ops"] = s["ops"][:k]
                r["obs"] = r["obs"][:k]
        bad = check(s, r)
        if bad:
            pred_fail.append((s, bad))
    ncluster = sum(1 for s in scs if s["level"] == "cluster")
    if ndisc * 2 > max(ncluster, 1):
        raise vlib.CheckError("%d of %d cluster scenarios could not start or settle" % (ndisc, ncluster))
    mism, coq_secs, nsteps = ([], 0.0, 0)
    coq_err = None
    try:
        mism, coq_secs, nsteps = coq_compare("c18", scs, results, shard=30 if res.tier == "quick" else 120)
    except vlib.CheckError as e:
        coq_err = str(e)
    mism_ids = {}
    for sid, step, mobs in mism:
        mism_ids.setdefault(sid, (step, mobs))

    reported = set()
    # one minimised failure per (level, kind of failure): the shortest failing scenario of each group
    groups = {}
    for s, bad in sorted(pred_fail, key=lambda x: len(x[0]["ops"])):
        groups.setdefault((s["level"], bad[1].split(":")[0][:40]), (s, bad))
    for s, bad in list(groups.values())[:8]:
        ops = vallib.shrink_list(s["ops"], lambda c: fails_pred(dict(strip(s), ops=c)), max_rounds=60 if s["level"] == "cluster" else 200)
        small = dict(strip(s), ops=ops, id=0)
        rr = run_impl([small]).get(0)
        b2 = check(small, rr) or bad
        key = json.dumps(small["ops"])
        if key in reported:
            continue
        reported.add(key)
        kf = vlib.match_known(PID, classify(small, b2[1]))
        if kf:
            res.known_finding(kf["description"])
            continue
        res.violation({"kind": "impl-violates-property", "scenario": small, "impl_trace": rr["obs"] if rr else None,
                       "failed_step": b2[0], "predicate": {"name": "private-snapshot", "verdict": b2[1]},
                       "original_scenario_id": s["id"], "seed": res.seed})
        if len(res.violations) >= 6:
            break
    failed_ids = {s["id"] for s, _ in pred_fail}
    only_model = [sid for sid in mism_ids if sid not in failed_ids]
    if only_model and not res.violations:
        sid = only_model[0]
        s = byid[sid]

        def differs(c):
            sc = dict(strip(s), ops=c, id=0)
            rr = run_impl([sc])
            mm, _, _ = coq_compare("c18s", [sc], rr, jobs=1)
            return bool(mm)
        ops = vallib.shrink_list(s["ops"], differs, max_rounds=30)
        small = dict(strip(s), ops=ops, id=0)
        rr = run_impl([small])
        mm, _, _ = coq_compare("c18s", [small], rr, jobs=1)
        res.violation({"kind": "model-vs-impl",
                       "failed": "correspondence Model/AliasRun.v (heap model) vs implementation: model step %s" % (mm[0][1] if mm else "?"),
                       "scenario": small, "impl_trace": rr[0]["obs"] if rr.get(0) else None, "model_obs": mm[0][2] if mm else None,
                       "note": "the private-snapshot predicate holds on every explored implementation trace", "seed": res.seed},
                      no_input=True)
    if coq_err and not res.violations:
        res.violation({"kind": "model-eval-failed", "failed": "correspondence: generated cases did not evaluate", "detail": coq_err[-2000:]}, no_input=True)
    if not proofs_ok and not res.violations:
        broken = [o for o in res.obligations if not o["ok"]]
        res.violation({"kind": "obligation-broken", "failed": [o["theorem"] for o in broken],
                       "detail": [o.get("detail", o.get("axioms")) for o in broken],
                       "note": "searched %d implementation traces with the private-snapshot predicate, none failed" % len(scs)},
                      no_input=True)
    # evidence
    hist, kinds = {}, {}
    nt = set()
    moved = recycled = 0
    paths = {}
    for s in scs:
        r = results.get(s["id"])
        if not r or not r.get("obs"):
            continue
        if nontrivial(s, r["obs"]):
            nt.add(json.dumps(s["ops"]))
        for op, ob in zip(s["ops"], r["obs"]):
            if not ob:
                continue
            hist[op[0]] = hist.get(op[0], 0) + 1
            kinds[ob[0]] = kinds.get(ob[0], 0) + 1
            if s["level"] == "cluster" and op[0] in ("get", "getput", "put", "putbuf", "putbufdefer"):
                kk = "%s/%s%s" % (op[0], op[1], "/" + op[-1] if op[0] in ("get", "getput") else "")
                paths[kk] = paths.get(kk, 0) + 1
        moved += (r.get("info") or {}).get("partitions_moved", 0)
        recycled += (r.get("info") or {}).get("compaction_calls", 0)
    sample = next((s for s in scs if s["level"] == "cluster" and not s.get("_file")), scs[-1])
    res.coverage.update({
        "evaluations": len(scs), "distinct_nontrivial": len(nt),
        "rule": "corpus + seeded random scenarios on the storage engine (table sizes 96..512) and on real in-process clusters "
                "(1-3 members, ReplicaCount 1 and 2, table sizes 256/512, with a join that migrates partitions) + directed churn "
                "scenarios that recycle and rewrite tables under earlier reads; non-trivial = a returned value was looked at "
                "again after the store changed or after a caller wrote into a returned value or a passed buffer",
        "exhaustive": False, "levels": {"engine": sum(1 for s in scs if s["level"] == "engine"), "cluster": sum(1 for s in scs if s["level"] == "cluster")},
        "op_histogram": hist, "result_histogram": kinds, "client_paths": paths,
        "partitions_moved": moved, "fragment_compaction_calls": recycled, "discarded_cluster_did_not_settle": ndisc,
        "traces_validated_against_impl": len(results), "model_steps_compared": nsteps,
        "model_vs_impl_mismatches": len(mism_ids), "predicate_failures": len(pred_fail),
        "coq_eval_seconds": round(coq_secs, 1),
        "samples": [{"scenario": strip(sample), "impl_obs": (results.get(sample["id"]) or {}).get("obs")}],
    })
    rr_part(res)
    res.assumptions += [
        "Go memory model: a []byte is (block, offset, length); copy() and make() behave as the heap model says",
        "cluster paths other than the embedded client of the partition owner return bytes read from the network (fresh blocks)",
        "String() handles are compared, never written (Go strings are immutable for a well-behaved caller)",
        "one logical store stands for all fragments of the DMap: observables do not depend on the slab layout once reads are copies"]


def gen_rr(rng, sid):
    """ReadRepair on: the bytes a Get returned are the caller's; what read repair writes to the lagging copies is the stored value"""
    members = rng.choice([2, 3])
    opts = {"members": members, "replicas": rng.choice([2, members]), "partitions": 7, "table": 4096, "readrepair": True}
    ops = [["rrscribble", bytes([114, 48 + j]).hex(), rbytes(rng, rng.randrange(6, 40)).hex()] for j in range(8)]
    return {"id": sid, "level": "cluster", "opts": opts, "dmap": "d", "ops": ops, "_kind": "rr"}


def judge_rr(sc, r):
    if r is None or r.get("env"):
        return None
    for op, ob in zip(sc["ops"], r.get("obs") or []):
        if not ob or ob[0] != "rr" or ob[1] != "ok":
            continue
        want = op[2]
        first, baks, later = ob[2], ob[3], ob[4]
        if first != want:
            return "Get returned %s, stored %s" % (first, want)
        for b in baks:
            if b == "notrepaired":
                continue        # read repair did not reach that copy in time: C06's subject
            if b != want:
                return ("after a Get with ReadRepair the backup copy holds %r, the stored value is %r: the caller wrote into the bytes it was handed "
                        "and the repair stored them" % (bytes.fromhex(b), bytes.fromhex(want)))
        for v in later:
            if v != want:
                return "a later Get returned %r, the stored value is %r (the first caller wrote into the bytes it was handed)" % (
                    v if v.startswith("err") else bytes.fromhex(v), bytes.fromhex(want))
    return None


def rr_part(res):
    scs = [gen_rr(vlib.rng_for(res.seed, PID, "rr", j), 900000 + j) for j in range(3 if res.tier == "quick" else 20)]
    results = vallib.run_parallel("alias", [strip(s) for s in scs], jobs=4)
    bad = judged = 0
    for sc in scs:
        r = results.get(sc["id"])
        judged += sum(1 for ob in ((r or {}).get("obs") or []) if ob and ob[0] == "rr" and ob[1] == "ok")
        msg = judge_rr(sc, r)
        if msg:
            bad += 1
            if bad <= 2:
                res.violation({"kind": "impl-violates-property", "part": "readrepair", "scenario": strip(sc), "impl_trace": (r or {}).get("obs"),
                               "predicate": {"name": "returned bytes are private also from read repair", "verdict": msg}, "seed": res.seed})
    res.coverage["read_repair_after_the_caller_wrote_into_the_value"] = {
        "scenarios": len(scs), "reads_judged": judged, "failures": bad,
        "rule": "ReadRepair on, 2-3 members, 2-3 copies: the backup owners hold a lagging copy (white-box), an embedded Get on the owner returns the value "
                "and the caller overwrites every returned byte at once; afterwards the repaired backup copies and Gets through the owner, a cluster "
                "client and another member have to hold the stored value"}


def replay(res, path):
    _o = json.load(open(path))
    if _o.get("part") == "readrepair":
        ok, out = vlib.harness_build()
        if not ok:
            raise vlib.CheckError(out)
        sc = dict(_o["scenario"], id=0)
        for attempt in range(3):
            r = vallib.run_parallel("alias", [sc], jobs=1).get(0)
            msg = judge_rr(sc, r)
            if msg:
                print(msg)
                print("VIOLATION property=%s replay=%s" % (res.pid, path))
                return 1
        return 0
    obj = json.load(open(path))
    sc = obj.get("scenario")
    if not sc:
        print("replay has no scenario (names a broken obligation): %s" % obj.get("failed"))
        return 1
    ok, out = vlib.harness_build()
    if not ok:
        raise vlib.CheckError(out)
    rr = run_impl([dict(sc, id=0)]).get(0)
    bad = check(sc, rr)
    print(json.dumps({"impl_trace": rr["obs"] if rr else None, "predicate": bad}, indent=1))
    if bad:
        print("VIOLATION property=%s replay=%s" % (res.pid, path))
        return 1
    return 0
