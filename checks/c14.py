# C14 - Pub/Sub delivers each message exactly once to every matching subscriber (DESIGN.md section 9).
import json
import os

import pubsublib as P
import vlib

PID = "C14"

RULE = ("corpus + every script of length <= L over the 13-op alphabet {sub a, sub b, psub a*, psub z*, unsub a, unsub, "
        "punsub, pub a, pub b, channels, numsub a, numpat, disconnect} on 2 connections (twice: on connection 0 with a "
        "background subscriber on another member, and with a seeded assignment of the ops to the 2 connections) + seeded "
        "random scripts (5-40 ops, 2-5 connections, 1-3 members, channels a/ab/b, patterns a*/z*/*b and kind-confused "
        "names, concurrent publishers); every script ends with CHANNELS/NUMSUB/NUMPAT on every member and two "
        "publications; non-trivial = some publication was delivered to >= 1 subscription while another subscription "
        "existed that must NOT receive it (non-matching pattern, other channel, or removed by unsubscribe/disconnect)")


def corpus():
    out = []
    d = os.path.join(vlib.VERIF, "corpus", PID)
    if os.path.isdir(d):
        for f in sorted(os.listdir(d)):
            if f.endswith(".json"):
                sc = json.load(open(os.path.join(d, f)))
                sc["_file"] = f
                sc["_kind"] = "corpus"
                out.append(sc)
    return out


def scenarios(res):
    scs = corpus()
    for i, s in enumerate(scs):
        s["id"] = i
    sid = ncorpus = len(scs)
    L = 3 if res.tier == "quick" else 4
    ex = P.gen_exhaustive(vlib.rng_for(res.seed, PID, "exhaustive"), L, first_id=sid)
    scs += ex
    sid += len(ex)
    nrand = 700 if res.tier == "quick" else 8000
    for i in range(nrand):
        scs.append(P.gen_random(vlib.rng_for(res.seed, PID, i), sid))
        sid += 1
    return scs, ncorpus, len(ex), nrand


def nontrivial(sc, r):
    """a publication reached somebody while some subscription existed (or had existed) that must not get it"""
    ever = set()
    delivered = False
    for op, ob in zip(sc["ops"], r["obs"]):
        if op[0] in ("sub", "psub"):
            for n in op[2:]:
                ever.add((op[1], op[0], n))
        if op[0] == "pub" and isinstance(ob["r"], int) and ob["r"] >= 1:
            # somebody who subscribed at some time did not get this one
            got = {(c, x[0] == "pmessage", x[1]) for c, l in enumerate(ob["d"]) for x in l}
            others = {(c, k == "psub", n) for (c, k, n) in ever} - got
            if others:
                delivered = True
    return delivered


def clean(sc):
    return {k: v for k, v in sc.items() if not k.startswith("_")}


def run(res):
    pid = PID
    proofs_ok = vlib.common_obligations(res, pid)
    if getattr(res, "harness_error", None):
        res.violation({"kind": "harness-build", "failed": "correspondence: the harness no longer compiles against /repo",
                       "detail": res.harness_error[-3000:]}, no_input=True)
        res.coverage.update({"evaluations": 0, "distinct_nontrivial": 0})
        return
    scs, ncorpus, nex, nrand = scenarios(res)
    results = P.run_impl(scs, jobs=8 if res.tier == "quick" else 14)
    byid = {s["id"]: s for s in scs}
    # 1. the property's predicate on the implementation's own observations
    pred_fail = []
    for s in scs:
        r = results.get(s["id"])
        if r is None:
            pred_fail.append((s, (0, "no result from the harness")))
            continue
        bad = P.predicate(s, r)
        if bad:
            pred_fail.append((s, bad))
    # 2. model vs implementation (inside Coq)
    mism, coq_secs = [], 0.0
    if not getattr(res, "coq_error", None):
        mism, coq_secs = P.coq_compare(pid.lower(), scs, results, shard=330 if res.tier == "quick" else 2200)
    mism_ids = {}
    for sid, step, mobs in mism:
        mism_ids.setdefault(sid, (step, mobs))

    def fails_like(k):
        # shrinking keeps the class of the failure (a CHANNELS failure is not minimised into a different one)
        def f(c):
            rr = P.run_impl([dict(clean(c), id=0)], jobs=1).get(0)
            if rr is None:
                return False
            b = P.predicate(c, rr)
            return b is not None and P.classify(b[1])["what"] == k
        return f

    # one report per distinct class of failure, the shortest failing scenario of each class first
    reported = set()
    classes = {}
    for s, bad in pred_fail:
        k = P.classify(bad[1])["what"]
        if k not in classes or len(s["ops"]) < len(classes[k][0]["ops"]):
            classes[k] = (s, bad)
    for k, (s, bad) in sorted(classes.items(), key=lambda kv: len(kv[1][0]["ops"]))[:8]:
        small = P.shrink(clean(s), fails_like(k))
        rr = P.run_impl([dict(small, id=0)], jobs=1)[0]
        b2 = P.predicate(small, rr) or bad
        key = json.dumps(small["ops"])
        if key in reported:
            continue
        reported.add(key)
        kf = vlib.match_known(pid, P.classify(b2[1]))
        if kf:
            res.known_finding(kf["description"])
            continue
        res.violation({"kind": "impl-violates-property", "scenario": small, "impl_trace": rr.get("obs"), "crash": rr.get("crash"),
                       "failed_step": b2[0], "predicate": {"name": "reference set of subscriptions", "verdict": b2[1]},
                       "original_scenario_id": s["id"], "seed": res.seed})
    failing_ids = {s["id"] for s, _ in pred_fail}
    only_model = [sid for sid in mism_ids if sid not in failing_ids]
    if only_model and not res.violations:
        sid = min(only_model, key=lambda i: len(byid[i]["ops"]))
        s = byid[sid]

        def differs(c):
            rr = P.run_impl([dict(clean(c), id=0)], jobs=1)
            mm, _ = P.coq_compare(pid.lower() + "s", [dict(c, id=0)], rr, jobs=1)
            return bool(mm)
        small = P.shrink(clean(s), differs, max_rounds=40)
        rr = P.run_impl([dict(small, id=0)], jobs=1)
        mm, _ = P.coq_compare(pid.lower() + "s", [dict(small, id=0)], rr, jobs=1)
        res.violation({"kind": "model-vs-impl",
                       "failed": "correspondence Model/PubSubRun.v vs internal/pubsub: observation at step %s" % (mm[0][1] if mm else "?"),
                       "scenario": small, "impl_trace": rr[0]["obs"], "model_obs": mm[0][2] if mm else None,
                       "note": "the reference-set predicate holds on every explored implementation trace", "seed": res.seed},
                      no_input=True)
    if not proofs_ok and not res.violations:
        broken = [o for o in res.obligations if not o["ok"]]
        res.violation({"kind": "obligation-broken", "failed": [o["theorem"] for o in broken],
                       "detail": [o.get("detail", o.get("axioms")) for o in broken],
                       "note": "searched %d implementation traces with the reference-set predicate, none failed" % len(scs)},
                      no_input=True)
    # evidence
    nt = set()
    hist, kinds, rk = {}, {}, {}
    dcount = {}
    discarded = 0
    for s in scs:
        r = results.get(s["id"])
        if not r:
            continue
        kinds[s.get("_kind", "?")] = kinds.get(s.get("_kind", "?"), 0) + 1
        if nontrivial(s, r):
            nt.add(json.dumps([s["members"], s["conns"], s["ops"]]))
        for op, ob in zip(s["ops"], r["obs"]):
            hist[op[0]] = hist.get(op[0], 0) + 1
            rr = ob["r"]
            if op[0] == "pub" and isinstance(rr, int):
                b = "publish->%s" % (rr if rr < 4 else "4+")
                rk[b] = rk.get(b, 0) + 1
            elif isinstance(rr, list) and rr and isinstance(rr[0], list) and rr[0] and rr[0][0] == "err":
                rk["error-reply"] = rk.get("error-reply", 0) + 1
            for l in ob["d"]:
                for x in l:
                    dcount[x[0]] = dcount.get(x[0], 0) + 1
    sample = scs[ncorpus + nex] if len(scs) > ncorpus + nex else scs[-1]
    res.coverage.update({
        "evaluations": len(scs), "distinct_nontrivial": len(nt), "rule": RULE,
        "exhaustive": False,
        "exhaustive_part": {"alphabet": len(P.ALPHABET), "max_length": 3 if res.tier == "quick" else 4, "connections": 2,
                            "variants": 2, "cases": nex},
        "corpus_cases": ncorpus, "random_cases": nrand, "scenario_kinds": kinds,
        "op_histogram": hist, "result_histogram": rk, "delivery_histogram": dcount,
        "discarded_for_timing": discarded,
        "traces_validated_against_impl": len(results),
        "model_vs_impl_mismatches": len(mism_ids), "predicate_failures": len(pred_fail),
        "coq_eval_seconds": round(coq_secs, 1),
        "samples": [{"scenario": clean(sample), "impl_obs": results[sample["id"]]["obs"]}],
    })
    res.assumptions += [
        "glob matching is tidwall/match, an oracle: evaluated by the harness on every (pattern, name) pair of a scenario and "
        "cross-checked against a reference glob for the generated patterns",
        "a PING answered on a connection after PUBLISH returned proves that everything that publication wrote to that "
        "connection has been read (PUBLISH flushes the subscribers' sockets before replying)",
        "the order of UNSUBSCRIBE-all confirmations and of PUBSUB CHANNELS is Go map order: compared as multisets",
        "the btree's ordered iteration is modelled by the set of items it selects"]


def replay(res, path):
    obj = json.load(open(path))
    sc = obj.get("scenario")
    if not sc:
        print("replay has no scenario (names a broken obligation): %s" % obj.get("failed"))
        return 1
    ok, out = vlib.harness_build()
    if not ok:
        raise vlib.CheckError(out)
    rr = P.run_impl([dict(clean(sc), id=0)], jobs=1)[0]
    bad = P.predicate(sc, rr)
    print(json.dumps({"impl_trace": rr["obs"], "predicate": bad}, indent=1))
    if bad:
        print("VIOLATION property=%s replay=%s" % (res.pid, path))
        return 1
    return 0
