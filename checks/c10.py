# C10 - eviction keeps a DMap within its configured bounds without harming fresh keys (DESIGN.md section 9).
import json

import dmaplib
import vlib
from vlib import cN, cnat, clist, cbytes

PID = "C10"
META = 29
HEADER = """From Coq Require Import List NArith Bool.
Require Import Olric.Model.Codec Olric.Model.LRU Olric.Model.LRURun.
Import ListNotations.
"""


def key_for(rng, dname, i):
    return dmaplib.hx("%s-%05d" % (dname[-4:], i))


def lru_scenario(rng, sid, limit_kind, limit, nputs, stream):
    dname = "c10d%d" % sid
    ops = []
    keys = [key_for(rng, dname, i) for i in range(max(nputs, 40))]
    for i in range(nputs):
        if stream == "uniform":
            k = rng.choice(keys)
        elif stream == "fresh":
            k = keys[i % len(keys)]
        else:   # hot: a few keys over and over, the rest fresh
            k = rng.choice(keys[:4]) if rng.random() < 0.5 else keys[i % len(keys)]
        v = dmaplib.hx("%06d" % i)
        ops.append({"op": "put", "c": rng.choice(["emb@owner", "emb@other", "cc"]), "d": dname, "k": k, "v": v})
        ops.append({"op": "get", "c": "emb@owner", "d": dname, "k": k})
        ops.append({"op": "fragkeys", "d": dname})
        ops.append({"op": "stats", "d": dname})
    return {"id": sid, "ops": ops, "_d": dname, "_kind": limit_kind, "_limit": limit, "_esz": len(bytes.fromhex(keys[0])) + 6 + META}


def idle_scenario(rng, sid, window, members, multitable=False):
    """multitable: the fragment's tables are small and filler entries are written after the hot keys, so the hot keys live in
    older (read-only) tables; they are kept alive by reads only (a Put would move them into the newest table)"""
    dname = "c10i%d" % sid
    hot = [dmaplib.hx("hot%d" % i) for i in range(6)]
    cold = [dmaplib.hx("cold%d" % i) for i in range(6)]
    ops = []
    for k in hot + cold:
        ops.append({"op": "put", "c": "emb@owner", "d": dname, "k": k, "v": dmaplib.hx("v")})
    if multitable:
        for i in range(10):
            k = dmaplib.hx("fill%d" % i)
            cold.append(k)
            ops.append({"op": "put", "c": "emb@owner", "d": dname, "k": k, "v": dmaplib.hx("f" * 70)})
    rounds = 5
    step = window // 3
    for r in range(rounds):
        ops.append({"op": "sleep", "ms": step})
        for k in hot:
            ops.append({"op": "get" if multitable else rng.choice(["get", "put"]), "c": rng.choice(["emb@owner", "cc", "emb@other"]), "d": dname, "k": k, "v": dmaplib.hx("v")})
        for m in range(members):
            ops.append({"op": "evict", "m": m})
    for k in hot + cold:
        ops.append({"op": "get", "c": "emb@owner", "d": dname, "k": k})
        ops.append({"op": "dump", "d": dname, "k": k})
    return {"id": sid, "ops": ops, "_d": dname, "_kind": "idle", "_hot": hot, "_cold": cold, "_window": window, "_span": rounds * step}


def idle_bg_scenario(rng, sid, window, wait_ms):
    """the member's own background eviction (evictKeysAtBackground -> evictKeys: a random partition per round, ten rounds a second)
    has to find idle keys in EVERY partition: nothing but Puts, a pause, then white-box dumps - no eviction pass driven by the harness"""
    dname = "c10b%d" % sid
    cold = [dmaplib.hx("bg%d" % i) for i in range(40)]
    ops = [{"op": "put", "c": rng.choice(["emb@owner", "cc", "emb@other"]), "d": dname, "k": k, "v": dmaplib.hx("v")} for k in cold]
    ops.append({"op": "sleep", "ms": wait_ms})
    for k in cold:
        ops.append({"op": "dump", "d": dname, "k": k})
    return {"id": sid, "ops": ops, "_d": dname, "_kind": "idle", "_hot": [], "_cold": cold, "_window": window, "_span": wait_ms}


def d52_scenario(sid):
    """D52 (open): the background sampler only ever looks at the table being written when that table holds 19 or more keys.
    Cold keys over two older tables, 30 hot keys rewritten every 100 ms for 12 s (they live in the newest table), idle window 300 ms:
    every cold key is idle forty times over and has to be gone (a table of 50 keys needs three of the ~40 rounds that start in it; also
    on a machine several times slower); on the unrepaired tree they are all still stored."""
    dname = "c10x%d" % sid
    cold = [dmaplib.hx("cold%03d" % i) for i in range(100)]
    hot = [dmaplib.hx("hot%02d" % i) for i in range(30)]
    ops = [{"op": "put", "c": "emb@owner", "d": dname, "k": k, "v": dmaplib.hx("v" * 20)} for k in cold]
    for r in range(120):
        ops += [{"op": "put", "c": "emb@owner", "d": dname, "k": k, "v": dmaplib.hx("h" * 20)} for k in hot]
        ops.append({"op": "sleep", "ms": 100})
    for k in cold:
        ops.append({"op": "dump", "d": dname, "k": k})
    return {"id": sid, "ops": ops, "_d": dname, "_kind": "d52", "_cold": cold}


def judge(sc, obs, cfg):
    kind = sc["_kind"]
    if kind == "idle":
        for i, (op, ob) in enumerate(zip(sc["ops"], obs)):
            if op["op"] in ("get", "put") and op["k"] in sc["_hot"] and ob.get("r") != "ok":
                return (i, "key %s accessed every %d ms (idle window %d ms) returned %s" % (op["k"], sc["_window"] // 3, sc["_window"], ob.get("r")))
        if sc["_span"] > sc["_window"] + 2 * dmaplib.MARGIN:
            for i, (op, ob) in enumerate(zip(sc["ops"], obs)):
                if op["op"] == "get" and op["k"] in sc["_cold"] and i > len(sc["ops"]) - 30 and ob.get("r") != "notfound":
                    return (i, "key %s untouched for %d ms (idle window %d ms) is still readable" % (op["k"], sc["_span"], sc["_window"]))
                if op["op"] == "dump" and op["k"] in sc["_cold"] and ob.get("copies"):
                    return (i, "key %s idle past the window still has %d copies after eviction passes" % (op["k"], len(ob["copies"])))
        return None
    limit = sc["_limit"]
    last_put = None
    for i, (op, ob) in enumerate(zip(sc["ops"], obs)):
        if op["op"] == "put":
            if ob.get("r") != "ok":
                return (i, "Put failed with %s on a DMap with %s=%d" % (ob.get("r"), kind, limit))
            last_put = op
        elif op["op"] == "get" and last_put is not None:
            if ob.get("r") != "ok" or ob.get("val") != last_put["v"]:
                return (i, "the key just written reads %s / %s" % (ob.get("r"), ob.get("val")))
        elif op["op"] == "stats":
            mm = dmaplib.mirror_lengths(ob, cfg.get("replicas", 1), cfg.get("members", 1))
            if mm:
                return (i, "after a Put with eviction: " + mm)
            owned = ob["owned"]
            live = [s for s in ob["stats"] if s["kind"] == "p"]
            for s, own in zip(live, owned):
                if own == 0:
                    continue
                share = limit // own
                total = 0
                for part, ln, inuse in s.get("parts") or []:
                    total += ln
                    if kind == "maxkeys" and ln > max(1, share):
                        return (i, "member %d partition %d holds %d keys, share is max(1, %d/%d)" % (s["m"], part, ln, limit, own))
                    if kind == "maxinuse" and inuse > share + sc["_esz"]:
                        return (i, "member %d partition %d has %d bytes in use, share is %d/%d + one entry (%d)" % (s["m"], part, inuse, limit, own, sc["_esz"]))
                if kind == "maxkeys" and total > max(own, limit):
                    return (i, "member %d holds %d keys, bound max(%d, %d)" % (s["m"], total, own, limit))
    return None


def fragment_cases(sc, obs):
    """per (member, partition): the Puts that hit it with reconstructed victims and observed key sets"""
    kind, limit = sc["_kind"], sc["_limit"]
    route = {}
    for op, ob in zip(sc["ops"], obs):
        if op["op"] == "keyinfo":
            route[op["k"]] = (ob["owner"], ob["part"])
    frags = {}      # (m, part) -> current key set
    steps = {}      # (m, part) -> list of (v1, v2, k, after)
    owned_of = {}
    pending = None
    for op, ob in zip(sc["ops"], obs):
        if op["op"] == "put":
            pending = op["k"]
        elif op["op"] == "fragkeys" and pending is not None:
            now = {(f[0], f[1]): set(f[2]) for f in (ob.get("frags") or [])}
            fk = route[pending]
            before = frags.get(fk, set())
            after = now.get(fk, set())
            gone = sorted(before - after - {pending})
            v = gone[0] if gone else ""
            steps.setdefault(fk, []).append((v if kind == "maxkeys" else "", v if kind == "maxinuse" else "", pending, sorted(after)))
            frags = now
            pending = None
        elif op["op"] == "stats":
            for s, own in zip([s for s in ob["stats"] if s["kind"] == "p"], ob["owned"]):
                owned_of[s["m"]] = own
    cases = []
    for (m, part), st in steps.items():
        own = owned_of.get(m, 1) or 1
        c = "{| maxkeys := %s; maxinuse := %s; owned := %s; esz := %s |}" % (
            cN(limit if kind == "maxkeys" else 0), cN(limit if kind == "maxinuse" else sc.get("_mi", 0)), cN(own), cN(sc["_esz"]))
        items = clist("(%s, %s, %s, %s)" % (cbytes(bytes.fromhex(a)), cbytes(bytes.fromhex(b)), cbytes(bytes.fromhex(k)),
                                              clist(cbytes(bytes.fromhex(x)) for x in after)) for a, b, k, after in st)
        cases.append(((sc["id"], m, part), "(%s, %s)" % (c, items)))
    return cases


def run(res):
    proofs_ok = vlib.common_obligations(res, PID)
    if getattr(res, "harness_error", None):
        res.violation({"kind": "harness-build", "failed": "correspondence: the harness no longer compiles against /repo",
                       "detail": res.harness_error[-3000:]}, no_input=True)
        res.coverage.update({"evaluations": 0, "distinct_nontrivial": 0})
        return
    groups = []
    sid = 0
    grid = []
    mks = [1, 3, 7, 10, 70] if res.tier == "thorough" else [1, 3, 10]
    for members, parts in ([(1, 7), (3, 7), (3, 13)] if res.tier == "thorough" else [(1, 7), (3, 13)]):
        scs = []
        dmaps = {}
        for mk in mks:
            for samples in ([0, 1, 2, 5] if res.tier == "thorough" else [0, 1, 5]):    # 0 = LRUSamples left unset in the Custom entry
                rng = vlib.rng_for(res.seed, PID, sid)
                sc = lru_scenario(rng, sid, "maxkeys", mk, 40 if res.tier == "quick" else 120, rng.choice(["uniform", "fresh", "hot"]))
                dmaps[sc["_d"]] = {"maxkeys": mk, "lru": True, "lrusamples": samples}
                scs.append(sc)
                sid += 1
        for mi in [64 * 3, 64 * 40]:
            rng = vlib.rng_for(res.seed, PID, sid)
            sc = lru_scenario(rng, sid, "maxinuse", mi, 40 if res.tier == "quick" else 120, "fresh")
            dmaps[sc["_d"]] = {"maxinuse": mi, "lru": True, "lrusamples": 3 if mi == 64 * 3 else 0}
            scs.append(sc)
            sid += 1
        if members == 1:
            # MaxKeys AND MaxInuse on one DMap, each partition's share being one key and one entry: the Put that finds its partition
            # full on both counts evicts for the first limit and has to look at the fragment again before it judges the second
            # (D51: it judged the second limit on the numbers taken before the first eviction, found nothing left to evict and
            # the Put failed with "nothing found to expire with LRU" - a Put failing because of a limit)
            rng = vlib.rng_for(res.seed, PID, sid)
            sc = lru_scenario(rng, sid, "maxkeys", parts, 40 if res.tier == "quick" else 120, "fresh")
            sc["_mi"] = parts * sc["_esz"]
            dmaps[sc["_d"]] = {"maxkeys": parts, "maxinuse": sc["_mi"], "lru": True, "lrusamples": 3}
            scs.append(sc)
            sid += 1
        rng = vlib.rng_for(res.seed, PID, sid)
        sc = idle_scenario(rng, sid, 360, members)
        dmaps[sc["_d"]] = {"maxidle_ms": 360}
        scs.append(sc)
        sid += 1
        cfg = {"members": members, "replicas": min(2, members), "partitions": parts, "table": 1 << 16, "evict_workers": 1, "dmaps": dmaps}
        groups.append((cfg, scs))
    # idle eviction on fragments that span several tables (keys in read-only tables kept alive by reads)
    for members, parts in ((1, 1), (2, 3)):
        scs, dmaps = [], {}
        for j in range(1 if res.tier == "quick" else 3):
            rng = vlib.rng_for(res.seed, PID, "idle-mt", sid)
            sc = idle_scenario(rng, sid, 360, members, multitable=True)
            dmaps[sc["_d"]] = {"maxidle_ms": 360}
            scs.append(sc)
            sid += 1
        groups.append(({"members": members, "replicas": min(2, members), "partitions": parts, "table": 256, "evict_workers": 1, "dmaps": dmaps}, scs))
    # idle keys found by the members' own background eviction, in every partition (one DMap per cluster: a round scans one DMap of
    # one random partition; 7 partitions, 20 s = 200 rounds per member, 60 on a machine three times slower: a partition is missed with probability (6/7)^60 < 1e-4)
    for members in ((2,) if res.tier == "quick" else (2, 3, 1)):
        rng = vlib.rng_for(res.seed, PID, "idle-bg", sid)
        sc = idle_bg_scenario(rng, sid, 300, 20000)
        groups.append(({"members": members, "replicas": 1, "partitions": 7, "table": 1 << 16, "evict_workers": 1,
                        "dmaps": {sc["_d"]: {"maxidle_ms": 300}}}, [sc]))
        sid += 1
    d52 = d52_scenario(sid)
    sid += 1
    groups.append(({"members": 1, "replicas": 1, "partitions": 1, "table": 4096, "evict_workers": 1, "dmaps": {d52["_d"]: {"maxidle_ms": 300}}}, [d52]))
    for cfg, scs in groups:
        for sc in scs:
            sc["ops"] = dmaplib.with_keyinfo(sc["ops"])
            sc["_cfg"] = cfg
    results = dmaplib.run_groups(groups)
    allsc = [sc for _, scs in groups for sc in scs]
    failures = []
    cases = []
    evictions = 0
    hist = {}
    for sc in allsc:
        obs = results[sc["id"]]["obs"]
        for op in sc["ops"]:
            hist[op["op"]] = hist.get(op["op"], 0) + 1
        if sc["_kind"] == "d52":
            left = sum(1 for op, ob in zip(sc["ops"], obs) if op["op"] == "dump" and ob.get("copies"))
            res.coverage["d52_cold_keys_still_stored_after_12s"] = "%d of %d" % (left, len(sc["_cold"]))
            if left:
                kf = vlib.match_known(PID, {"kind": "eviction-samples-newest-table-only"})
                if kf:
                    res.known_finding(kf["description"])
                else:
                    failures.append((sc, (len(obs) - 1, "%d of %d keys idle for 12 s (window 300 ms) in older storage tables are still stored: the background "
                                                   "eviction only samples the table being written" % (left, len(sc["_cold"])))))
            continue
        v = judge(sc, obs, sc["_cfg"])
        if v:
            failures.append((sc, v))
            continue
        if sc["_kind"] != "idle":
            cs = fragment_cases(sc, obs)
            cases += cs
    for sc, v in failures[:6]:
        res.violation({"kind": "impl-violates-property", "cluster": sc["_cfg"], "scenario": {k: x for k, x in sc.items() if k != "_cfg"},
                       "impl_trace": results[sc["id"]]["obs"][max(0, v[0] - 6):v[0] + 1], "failed_step": v[0],
                       "predicate": {"name": "C10 bounds/readable/idle", "verdict": v[1]}, "seed": res.seed})
    mism = []
    secs = 0.0
    if cases:
        shards = [cases[i:i + 40] for i in range(0, len(cases), 40)]
        texts = [HEADER + "Definition cases : list (lcfg * list (key * key * key * list key)) := [\n" + ";\n".join(t for _, t in sh) +
                 "\n].\nDefinition M := Eval vm_compute in mismatches cases 0.\nPrint M.\n" for sh in shards]
        outs = vlib.coq_eval_shards("c10", texts)
        import re
        for sh, (rc, out, err, dt) in zip(shards, outs):
            secs += dt
            if rc != 0 or "M =" not in out:
                raise vlib.CheckError("coqc failed on generated LRU cases: " + (err or out)[-1500:])
            flat = " ".join(out.split("M =", 1)[1].rsplit(":", 1)[0].split())
            for m in re.finditer(r"\((\d+)(?:%nat)?, (\d+)(?:%nat)?\)", flat):
                mism.append((sh[int(m.group(1))][0], int(m.group(2))))
    if mism and not res.violations:
        res.violation({"kind": "model-vs-impl", "failed": "correspondence Model/LRURun.v vs internal/dmap LRU eviction: fragment %s, put #%d" % (mism[0][0], mism[0][1]),
                       "note": "the bound / readable predicates hold on every explored trace", "seed": res.seed}, no_input=True)
    if not proofs_ok and not res.violations:
        broken = [o for o in res.obligations if not o["ok"]]
        res.violation({"kind": "obligation-broken", "failed": [o["theorem"] for o in broken],
                       "detail": [o.get("detail", o.get("axioms")) for o in broken]}, no_input=True)
    sample = allsc[0]
    res.coverage.update({
        "evaluations": len(allsc), "distinct_nontrivial": sum(1 for _, t in cases if "[" in t and t.count("(rp") + t.count("]%N") > 6),
        "rule": "grid MaxKeys x LRUSamples x key streams (uniform / fresh / hot) and MaxInuse with equal-sized entries on clusters (1 member, 7 partitions) and "
                "(3 members, 7/13 partitions), R=min(2,N); after EVERY Put: immediate Get of the key written, the key set of every primary fragment and per-partition "
                "Stats; predicate: per-partition and per-member bounds, Puts never fail, the key just written is readable; idle scenario: hot keys touched every "
                "window/3 must survive eviction passes, cold keys must be gone after the window; each fragment's evolution is replayed by Model/LRU.v with the victim "
                "reconstructed from the run; non-trivial = fragment sequences with several puts",
        "fragment_sequences": len(cases), "model_vs_impl_mismatches": len(mism), "predicate_failures": len(failures),
        "op_histogram": hist, "coq_eval_seconds": round(secs, 1), "traces_validated_against_impl": len(allsc),
        "samples": [{"cluster": {k: v for k, v in sample["_cfg"].items() if k != "dmaps"}, "dmap_config": sample["_cfg"]["dmaps"][sample["_d"]],
                     "ops": [o for o in sample["ops"] if o["op"] != "keyinfo"][:8]}],
    })


def replay(res, path):
    obj = json.load(open(path))
    sc = obj.get("scenario")
    if not sc:
        print("replay names a broken obligation / correspondence: %s" % obj.get("failed"))
        return 1
    ok, out = vlib.harness_build()
    if not ok:
        raise vlib.CheckError(out)
    c = dict(sc, id=0)
    rr = dmaplib.run_cluster(obj["cluster"], [c])[0]
    v = judge(c, rr["obs"], obj["cluster"])
    print(json.dumps({"verdict": v}, indent=1))
    if v:
        print("VIOLATION property=%s replay=%s" % (res.pid, path))
        return 1
    return 0
