# C13 - all members agree on a valid, balanced routing table (DESIGN.md section 9, fixes/DESIGN-C13.md).
#
# Three parts, all on the REAL code of /repo's working tree:
#   A. exact differential of distributePrimaryCopies / distributeBackups against Model/Routing.v on generated
#      (previous lists, live set, ring member set, fragment lengths incl. failing calls) cases, with the three ring
#      facts re-validated on every ring used;
#   B. end-to-end membership scripts on real in-process clusters (join, graceful stop, abrupt stop, coordinator
#      departure, re-join under the same address); after the cluster settled every live member's table, the RESP
#      views and a fresh cluster client's view are judged by the property predicate (python, implementation only)
#      and by Model/Routing.v (valid_table verdicts, coordinator = argmin birthdate, recomputation is a fixpoint);
#   C. the proof obligations of coq/props/C13.json.
import json
import os
import re
import time

import routelib as rl
import vlib

PID = "C13"
# A single routing recomputation (updateRouting on the coordinator) normally takes milliseconds. One LengthOfPart call
# can legitimately wait up to BootstrapTimeout (10 s) behind a fragment lock held by a balancer move to a member that
# is not bootstrapped yet; the defect fixed by fixes/01 blocked 12 s per partition (48-126 s observed). Anything above
# 30 s is reported as a stall.
STALL_MS = 30000
UNREPEATED_STALLS = []


def corpus():
    out = []
    d = os.path.join(vlib.VERIF, "corpus", PID)
    if os.path.isdir(d):
        for f in sorted(os.listdir(d)):
            if f.endswith(".json"):
                sc = json.load(open(os.path.join(d, f)))
                sc["_file"] = f
                out.append(sc)
    return out


def clean(sc):
    return {k: v for k, v in sc.items() if not k.startswith("_")}


def scenarios(res):
    cor = corpus()
    diff = [c for c in cor if c.get("kind") == "diff"]
    mem = [c for c in cor if c.get("kind") == "membership"]
    quick = res.tier == "quick"
    setup = rl.diff_setup(res.tier)
    ndiff = 3000 if quick else 40000
    for i in range(ndiff):
        c = rl.gen_diff_case(vlib.rng_for(res.seed, PID, "d", i), 0, setup)
        c["kind"] = "diff"
        diff.append(c)
    nmem = 9 if quick else 140
    for i in range(nmem):
        rng = vlib.rng_for(res.seed, PID, "m", i)
        s = rl.gen_script(rng, 0, res.tier, allow_kill_rejoin=(not quick and i % 3 == 0))
        s["kind"] = "membership"
        mem.append(s)
    if not quick:
        # every (P, R) combination at least once
        i = 0
        for P in (7, 13, 271):
            for R in (1, 2, 3):
                s = rl.gen_script(vlib.rng_for(res.seed, PID, "mg", i), 0, res.tier, P=P, R=R)
                s["kind"] = "membership"
                mem.append(s)
                i += 1
    reps = [c for c in cor if c.get("kind") == "reports"]
    for i in range(400 if quick else 4000):
        c = rl.gen_reports_case(vlib.rng_for(res.seed, PID, "r", i), 0, setup)
        c["kind"] = "reports"
        reps.append(c)
    for i, c in enumerate(diff):
        c["id"] = i
    for i, c in enumerate(reps):
        c["id"] = len(diff) + i
    for i, s in enumerate(mem):
        s["id"] = i
    return diff, mem, reps


def wire(c):
    return {k: v for k, v in c.items() if k != "kind" and not k.startswith("_")}


def shape(msg):
    """a verdict message without addresses and numbers (to report each kind of failure once)"""
    return re.sub(r"\d+", "#", re.sub(r"\d+\.\d+\.\d+\.\d+:\d+(#\d+)?", "M", msg))[:80]


def classify_membership(msgs, dump):
    if dump.get("max_sync_ms", 0) >= STALL_MS:
        return {"kind": "routing-stall"}
    m = msgs[0] if msgs else ""
    return {"kind": "membership", "what": shape(m)}


def stall_message(dump):
    return ("the coordinator's routing recomputation blocked for %.1f s while membership was already agreed "
            "(LengthOfPart to a listed owner that does not answer)" % (dump["max_sync_ms"] / 1000.0))


def membership_stable(dump):
    """the premise of C13: every dumped member sees exactly the live members (memberlist is external)"""
    live = sorted(m["self"]["id"] for m in dump.get("members") or [])
    return bool(live) and all(sorted(v["id"] for v in m["view"]) == live for m in dump["members"])


def judge_membership(sc, dump):
    """messages (empty = property holds on this dump)"""
    msgs = rl.membership_predicate(sc, dump)
    if dump.get("max_sync_ms", 0) >= STALL_MS:
        msgs.insert(0, stall_message(dump))
    return msgs


def gen_passive(rng, sid):
    """the routing table settles BY ITSELF (the members' own push and balancer timers; the harness only watches) after the
    member that was coordinator at start-up has gone and a member has joined while partitions hold data: every previous owner
    is drained and dropped from the owners lists, no departed member stays listed"""
    import dmaplib
    d = "c13p%d" % sid
    r = rng.choice([1, 2])
    keys = [dmaplib.hx("%s-k%02d" % (d, i)) for i in range(40)]
    ops = [{"op": "put", "c": rng.choice(["emb0", "emb1", "emb2", "cc"]), "d": d, "k": k, "v": dmaplib.hx("v" + k[-4:])} for k in keys]
    ops += [{"op": "stop", "m": 0, "c": rng.choice(["graceful", "abrupt"])},
            {"op": "waitpassive", "ms": 30000},
            {"op": "join"},
            {"op": "waitpassive", "ms": 30000}]
    for k in keys[::3]:
        ops.append({"op": "get", "c": "emb1", "d": d, "k": k})
    cluster = {"members": 3, "replicas": r, "partitions": rng.choice([7, 13]), "table": 4096, "evict_workers": 1,
               "push_ms": 400, "balancer_ms": 300}
    return {"id": sid, "cluster": cluster, "ops": ops}


def gen_clientroute(rng, sid):
    """every key maps to the same owner from any member AND from a cluster client, also while a partition's owners list has several
    entries: a member has joined and is listed last (the owner) behind the previous owner that still holds the data (no balancer
    pass yet); a cluster client created at that moment has to route where the members route"""
    import dmaplib
    d = "c13r%d" % sid
    n = rng.choice([1, 2])
    keys = [dmaplib.hx("%s-k%03d" % (d, i)) for i in range(120)]
    ops = [{"op": "put", "c": "emb%d" % rng.randrange(n), "d": d, "k": k, "v": dmaplib.hx("v")} for k in keys]
    ops += [{"op": "clientroute", "d": d, "ks": keys}, {"op": "join"}, {"op": "push"}, {"op": "waitsame"}, {"op": "clientroute", "d": d, "ks": keys}]
    for m in range(n + 1):
        ops.append({"op": "balance", "m": m})
    ops += [{"op": "waitstable", "ms": 30000}, {"op": "clientroute", "d": d, "ks": keys}]
    cluster = {"members": n, "replicas": 1, "partitions": rng.choice([7, 13, 31]), "table": 4096, "evict_workers": 1,
               "balancer_ms": 3600000, "push_ms": 3600000}
    return {"id": sid, "cluster": cluster, "ops": ops, "_kind": "clientroute"}


def judge_passive(sc, obs):
    if sc.get("_kind") == "clientroute":
        if len(obs) < len(sc["ops"]):
            return ("env", "scenario aborted")
        seen_multi = 0
        for i, (op, ob) in enumerate(zip(sc["ops"], obs)):
            r = str(ob.get("r"))
            if op["op"] in ("join", "waitsame", "waitstable", "put", "push") and r != "ok":
                return ("env", "%s: %s" % (op["op"], r))
            if op["op"] == "clientroute":
                if r != "ok":
                    return ("env", r)
                seen_multi += ob.get("multi_owner_keys", 0)
                if ob.get("diffs"):
                    x = ob["diffs"][0]
                    return (i, "key %s: member %s routes to %s, a cluster client created now routes to %s / %s (owners list of the partition has %s entries); %d keys differ" % (
                        bytes.fromhex(x["k"]).decode(), x.get("member"), x.get("member_owner"), x.get("client"), x.get("client_by_part"), x.get("owners"), len(ob["diffs"])))
        sc["_multi"] = seen_multi
        return None
    if len(obs) < len(sc["ops"]):
        return ("env", "scenario aborted")
    for i, (op, ob) in enumerate(zip(sc["ops"], obs)):
        r = str(ob.get("r"))
        if op["op"] == "join" and r != "ok":
            return ("env", "join failed: " + r)
        if op["op"] == "waitpassive" and r != "ok":
            if "sees" in r and "members" in r:
                return ("env", r)            # memberlist has not converged: the environment
            return (i, "30 s after the %s the routing table has not settled by itself: %s" % (
                "join" if sc["ops"][i - 1]["op"] == "join" else "loss of the start-up coordinator", r[len("unstable:"):]))
    return None


def passive_part(res):
    import memberlib
    scs = [gen_passive(vlib.rng_for(res.seed, PID, "passive", j), 60000 + j) for j in range(2 if res.tier == "quick" else 8)]
    scs += [gen_clientroute(vlib.rng_for(res.seed, PID, "clientroute", j), 61000 + j) for j in range(2 if res.tier == "quick" else 8)]
    results = memberlib.run_membership(scs, jobs=4)
    bad = env = 0
    for sc in scs:
        r = results[sc["id"]]
        if r.get("env", {}).get("error"):
            env += 1
            continue
        v = judge_passive(sc, r["obs"])
        if v and v[0] == "env":
            env += 1
            continue
        if v:
            # a whole-cluster scenario: reported when it shows again in one of two re-runs
            again = None
            for attempt in range(2):
                r2 = memberlib.run_membership([sc])[sc["id"]]
                v2 = None if r2.get("env", {}).get("error") else judge_passive(sc, r2["obs"])
                if v2 and v2[0] != "env":
                    again = (r2, v2)
                    break
            if again:
                bad += 1
                res.violation({"kind": "impl-violates-property", "part": "passive", "cluster": sc["cluster"], "scenario": {"ops": sc["ops"], "_kind": sc.get("_kind")},
                               "failed_step": again[1][0], "impl_trace": again[0]["obs"][max(0, again[1][0] - 2):again[1][0] + 1],
                               "predicate": {"name": "members and cluster clients route every key to the same owner" if sc.get("_kind") == "clientroute" else "the routing table settles by itself", "verdict": again[1][1]}, "seed": res.seed})
    res.coverage["client_routes_with_several_owners"] = {
        "scenarios": sum(1 for sc in scs if sc.get("_kind") == "clientroute"), "keys_in_partitions_with_several_owners": sum(sc.get("_multi", 0) for sc in scs),
        "rule": "1-2 members with 120 keys, a member joins, the new table is pushed, no balancer pass: the owners lists of the moved partitions name the "
                "previous owner first and the new owner last; a cluster client created at that moment (smartPick and clientByPartID) and every member "
                "must route every key to the same member; again before the join and after the migration"}
    res.coverage["passive_settling"] = {"scenarios": len(scs), "environment": env, "failures": bad,
                                        "rule": "3 members with data, the start-up coordinator stops, a member joins; push interval 400 ms, balancer 300 ms, "
                                                "the harness only watches: one owner per partition, no departed member listed, within 30 s"}


def run(res):
    _run(res)
    if not getattr(res, "harness_error", None):
        passive_part(res)


def _run(res):
    proofs_ok = vlib.common_obligations(res, PID)
    if getattr(res, "harness_error", None):
        res.violation({"kind": "harness-build", "failed": "correspondence: the harness no longer compiles against /repo",
                       "detail": res.harness_error[-3000:]}, no_input=True)
        res.coverage.update({"evaluations": 0, "distinct_nontrivial": 0})
        return
    quick = res.tier == "quick"
    diff, mem, reps = scenarios(res)

    # ---------------- B first: timing-sensitive, run while the machine is not busy with coqc -----------------
    t0 = time.time()
    mres = rl.run_membership([wire(s) for s in mem], procs=5 if quick else 8, timeout=1700 if quick else 3400)
    mem_secs = time.time() - t0
    env_errors, mem_fail, mem_terms = [], [], []
    settle_hist, op_hist = {}, {}
    for s in mem:
        d = mres[s["id"]]
        for op in s["script"]:
            op_hist[op[0]] = op_hist.get(op[0], 0) + 1
        if not d.get("env_error") and not membership_stable(d):
            d["env_error"] = "a member's membership view differs from the live members in the dump (memberlist suspicion during the dump)"
        if d.get("env_error"):
            env_errors.append((s, d["env_error"]))
            continue
        settle_hist[d["settle"]["kind"]] = settle_hist.get(d["settle"]["kind"], 0) + 1
        msgs = judge_membership(s, d)
        if msgs:
            mem_fail.append((s, d, msgs))
        mem_terms.append((s["id"], rl.mcase_to_coq(s, d)))
    env_problem = None
    if len(env_errors) > max(2, len(mem) // 3):
        env_problem = ("%d of %d membership scripts failed for environmental reasons (memberlist did not converge / "
                       "members did not start): %s" % (len(env_errors), len(mem), env_errors[0][1]))

    # ---------------- A: differential ---------------------------------------------------------------------------
    t0 = time.time()
    so, facts, dres = rl.run_routing([wire(c) for c in diff] + [wire(c) for c in reps])
    diff_secs = time.time() - t0
    rep_fail, rep_terms, rep_changed = [], [], 0
    for c in reps:
        r = dres.get(c["id"])
        if r is None or r.get("err"):
            raise vlib.CheckError("routing harness: reports case %d: %s" % (c["id"], (r or {}).get("err", "no result")))
        m = rl.reports_predicate(c, r)
        if m:
            rep_fail.append((c, r, m))
        if r["before"] != r["after"]:
            rep_changed += 1
        rep_terms.append((c["id"], rl.rcase_to_coq(c, r)))
    ring_bad = [f for f in facts if f["problems"]]
    own_ring_bad = [s for s in so if not s["own_ring_equal"]]
    diff_fail, diff_terms, nfacts = [], [], 0
    kinds = {"rejoined_pruned": 0, "dead_pruned": 0, "empty_pruned": 0, "failed_call_kept": 0, "extra_backup_kept": 0, "first_run": 0}
    nontrivial = set()
    for c in diff:
        r = dres.get(c["id"])
        if r is None or r.get("err"):
            raise vlib.CheckError("routing harness: case %d: %s" % (c["id"], (r or {}).get("err", "no result")))
        if rl.diff_facts(c, r):
            nfacts += 1
            m = rl.diff_predicate(c, r)
            if m:
                diff_fail.append((c, r, m))
        diff_terms.append((c["id"], rl.dcase_to_coq(c, r)))
        # coverage
        out_ids = {m["id"] for m in r["owners"]} | {m["id"] for m in r["backups"]}
        live_ids = {m["id"] for m in r["live"]}
        nt = False
        for key in ("prev_owners", "prev_backups"):
            refs = c[key]
            if not refs:
                kinds["first_run"] += 1
            for ref, m in zip(refs, r[key]):
                if ref["k"] == "rejoin":
                    kinds["rejoined_pruned"] += 1
                    nt = True
                elif ref["k"] == "dead":
                    kinds["dead_pruned"] += 1
                    nt = True
                elif m["id"] in live_ids and m["id"] not in out_ids:
                    kinds["empty_pruned"] += 1
                    nt = True
        for key, lk in (("owners", "len_p"), ("backups", "len_b")):
            for m in r[key][:-1]:
                idx = [str(i) for i, l in enumerate(r["live"]) if l["id"] == m["id"]]
                if idx and c[lk].get(idx[0]) == -1:
                    kinds["failed_call_kept"] += 1
                    nt = True
        if len(r["backups"]) > max(0, min(c["r"], len(r["ring_members"])) - 1):
            kinds["extra_backup_kept"] += 1
            nt = True
        if nt:
            nontrivial.add(c["id"])

    # ---------------- the model, inside Coq ---------------------------------------------------------------------
    dmm, dsecs = rl.coq_run("c13d", "d", diff_terms, 200 if quick else 400)
    mmm, msecs = rl.coq_run("c13m", "m", mem_terms, 1 if quick else 2)
    rmm, rsecs = rl.coq_run("c13r", "r", rep_terms, 100 if quick else 300)
    dbyid = {c["id"]: c for c in diff}
    mbyid = {s["id"]: s for s in mem}

    # ---------------- verdicts ----------------------------------------------------------------------------------
    for f in ring_bad[:3]:
        res.violation({"kind": "ring-fact", "failed": "assumption about buraksezer/consistent re-validated on a concrete ring",
                       "ring": f, "seed": res.seed}, no_input=True)
    for s in own_ring_bad[:1]:
        res.violation({"kind": "ring-config", "failed": "correspondence: the ring the harness builds answers differently from the routing table's own ring",
                       "cluster": s, "seed": res.seed}, no_input=True)

    reported = set()
    for c, r, msg in diff_fail[:12]:
        if shape(msg) in reported or len(reported) >= 3:
            continue

        def fails(cand):
            _, _, rr = rl.run_routing([wire(cand)])
            x = rr.get(cand["id"])
            return bool(x) and not x.get("err") and rl.diff_facts(cand, x) and rl.diff_predicate(cand, x) is not None
        small = rl.shrink_diff(clean(c), fails)
        _, _, rr = rl.run_routing([wire(small)])
        x = rr[small["id"]]
        verdict = (rl.diff_predicate(small, x) if rl.diff_facts(small, x) else None) or msg
        key = shape(verdict)
        if key in reported:
            continue
        reported.add(key)
        kf = vlib.match_known(PID, {"kind": "distribute", "what": verdict.split(" %")[0][:60]})
        if kf:
            res.known_finding(kf["description"])
            continue
        res.violation({"kind": "impl-violates-property", "scenario": small, "impl_trace": x,
                       "predicate": {"name": "C13 on one recomputed partition", "verdict": verdict},
                       "original_scenario_id": c["id"], "seed": res.seed})
        if len(res.violations) >= 4:
            break

    mreported = set()
    for c, r, msg in rep_fail[:2]:
        res.violation({"kind": "impl-violates-property", "scenario": clean(c), "impl_trace": r,
                       "predicate": {"name": "left-over-data reports: an unlisted reporter is put in front, nothing else changes", "verdict": msg},
                       "seed": res.seed})
    if rmm and not rep_fail and not res.violations:
        i, code = rmm[0]
        c = [x for x in reps if x["id"] == i][0]
        res.violation({"kind": "model-vs-impl", "failed": "correspondence Model/Routing.v vs left_over_data.go / update.go: " +
                       {0: "lists after processLeftOverDataReports", 1: "partitions listed by prepareLeftOverDataReport"}[code],
                       "scenario": clean(c), "impl_trace": dres[i], "seed": res.seed}, no_input=True)

    for s, d, msgs in mem_fail[:8]:
        klass = classify_membership(msgs, d)
        if json.dumps(klass) in mreported or len(mreported) >= 3:
            continue
        mreported.add(json.dumps(klass))
        kf = vlib.match_known(PID, klass)
        if kf:
            res.known_finding(kf["description"])
            continue
        if klass["kind"] == "routing-stall":
            # a verdict about time: one recomputation that waits on time-outs towards a member that has just been stopped can add up
            # to more than STALL_MS once (thorough run, seed 7: 39 s in a script with a restart under the same address, a stop and a
            # join in a row). The defect this predicate was written for (D39) blocked on every run: a stall is reported when it
            # shows again in one of two re-runs of the same script, otherwise it is counted.
            again = None
            for attempt in range(2):
                rr = rl.run_membership([wire(clean(s))], procs=1)[s["id"]]
                if not rr.get("env_error") and membership_stable(rr) and rr.get("max_sync_ms", 0) >= STALL_MS:
                    again = rr
                    break
            if again is None:
                UNREPEATED_STALLS.append({"scenario": s["id"], "max_sync_ms": d.get("max_sync_ms")})
                mreported.discard(json.dumps(klass))
                continue
            d, msgs = again, judge_membership(s, again)
        small, dsmall, msmall = clean(s), d, msgs
        if klass["kind"] != "routing-stall" and len(s["script"]) > 1:
            def mfails(cand):
                rr = rl.run_membership([wire(cand)], procs=1)[cand["id"]]
                return not rr.get("env_error") and membership_stable(rr) and bool(judge_membership(cand, rr))
            small = rl.shrink_script(clean(s), mfails, max_runs=6)
            rr = rl.run_membership([wire(small)], procs=1)[small["id"]]
            if not rr.get("env_error") and membership_stable(rr) and judge_membership(small, rr):
                dsmall, msmall = rr, judge_membership(small, rr)
            else:
                small = clean(s)
        res.violation({"kind": "impl-violates-property", "class": klass, "scenario": small,
                       "impl_trace": slim_dump(dsmall), "predicate": {"name": "C13 on the settled cluster", "verdict": msmall[:8]},
                       "original_scenario_id": s["id"], "seed": res.seed})

    pred_ids_d = {c["id"] for c, _, _ in diff_fail}
    pred_ids_m = {s["id"] for s, _, _ in mem_fail}
    only_model_d = [(i, code) for i, code in dmm if i not in pred_ids_d]
    only_model_m = [(i, code) for i, code in mmm if i not in pred_ids_m]
    if only_model_d and not res.violations:
        i, code = only_model_d[0]
        c = dbyid[i]
        what = {0: "owners list returned by distributePrimaryCopies", 1: "backups list returned by distributeBackups",
                2: "conclusion of C13_distribute_valid (owners) on the implementation's output",
                3: "conclusion of C13_distribute_valid (backups) on the implementation's output"}[code]

        def differs(cand):
            _, _, rr = rl.run_routing([wire(cand)])
            x = rr.get(cand["id"])
            if not x or x.get("err"):
                return False
            mm, _ = rl.coq_run("c13ds", "d", [(cand["id"], rl.dcase_to_coq(cand, x))], 1, jobs=1)
            return bool(mm)
        small = rl.shrink_diff(clean(c), differs)
        _, _, rr = rl.run_routing([wire(small)])
        x = rr[small["id"]]
        res.violation({"kind": "model-vs-impl", "failed": "correspondence Model/Routing.v vs internal/cluster/routingtable/distribute.go: " + what,
                       "scenario": small, "impl_trace": x, "model_obs": rl.coq_model_outputs(small, x),
                       "note": "the property predicate holds on every explored implementation output", "seed": res.seed},
                      no_input=True)
    if only_model_m and not res.violations:
        i, code = only_model_m[0]
        what = rl.M_CODES.get(code, "valid_table verdict of the model differs from the python predicate on table %d" % (code - 100))
        res.violation({"kind": "model-vs-impl", "failed": "correspondence Model/Routing.v vs the settled cluster: " + what,
                       "scenario": clean(mbyid[i]), "impl_trace": slim_dump(mres[i]),
                       "note": "the property predicate holds on every dumped table", "seed": res.seed}, no_input=True)
    if not proofs_ok and not res.violations:
        broken = [o for o in res.obligations if not o["ok"]]
        res.violation({"kind": "obligation-broken", "failed": [o["theorem"] for o in broken],
                       "detail": [o.get("detail", o.get("axioms")) for o in broken],
                       "note": "searched %d recomputations and %d membership scripts with the property predicate, none failed" % (len(diff), len(mem))},
                      no_input=True)

    if env_problem and not res.violations:
        raise vlib.CheckError(env_problem)

    # ---------------- evidence ----------------------------------------------------------------------------------
    sample_d = diff[-1]
    sample_m = mem[-1]
    mem_nontrivial = sum(1 for s in mem if not mres[s["id"]].get("env_error") and any(op[0] in ("stop", "kill", "rejoin") for op in s["script"]))
    res.coverage["unrepeated_routing_stalls"] = list(UNREPEATED_STALLS)
    res.coverage.update({
        "evaluations": len(diff) + len(mem) + len(reps),
        "distinct_nontrivial": len(nontrivial) + mem_nontrivial,
        "rule": "differential cases: previous owners/backups lists over live members, re-joined incarnations (same address, other id) and departed "
                "members, ring over all / a subset of the live members / with members that are not alive, fragment lengths 0 / >0 / failing call; "
                "non-trivial = a listed member was pruned (departed, re-joined, empty) or kept (failed call, extra backup with data). "
                "membership scripts: clusters of 1..6 real members, R in 1..3; non-trivial = the script stops, kills or re-joins a member",
        "exhaustive": False,
        "differential": {"cases": len(diff), "cases_under_theorem_hypotheses": nfacts, "shape_histogram": kinds,
                         "distinct_rings_checked_for_the_three_ring_facts": len(facts), "ring_fact_violations": len(ring_bad),
                         "bare_clusters": so and [{"n": s["n"], "p": s["p"]} for s in so], "harness_seconds": round(diff_secs, 1)},
        "left_over_reports": {"cases": len(reps), "cases_that_changed_a_list": rep_changed, "predicate_failures": len(rep_fail),
                              "model_vs_impl_mismatches": len(rmm)},
        "membership": {"scripts": len(mem), "environment_errors": len(env_errors), "environment_error_samples": [e for _, e in env_errors[:3]],
                       "settle_histogram": settle_hist, "op_histogram": op_hist,
                       "weak_settle_samples": [{"script": s["script"], "r": s["r"], "p": s["p"], "init": s["init"], "why": mres[s["id"]]["settle"].get("why")}
                                               for s in mem if not mres[s["id"]].get("env_error") and mres[s["id"]]["settle"]["kind"] == "weak"][:4], "harness_seconds": round(mem_secs, 1),
                       "max_sync_ms": max([mres[s["id"]].get("max_sync_ms", 0) for s in mem] + [0]),
                       "configs": sorted({(s["p"], s["r"]) for s in mem})},
        "corpus_cases": len(corpus()),
        "traces_validated_against_impl": len(dres) + len(mem) - len(env_errors),   # dres holds differential and reports cases
        "model_vs_impl_mismatches": len(dmm) + len(mmm) + len(rmm),
        "predicate_failures": len(diff_fail) + len(mem_fail) + len(rep_fail),
        "coq_eval_seconds": round(dsecs + msecs + rsecs, 1),
        "samples": [{"scenario": clean(sample_d), "impl_obs": {k: dres[sample_d["id"]][k] for k in ("ring_owner", "owners", "backups")}},
                    {"scenario": clean(sample_m), "settle": mres[sample_m["id"]].get("settle"), "steps": mres[sample_m["id"]].get("steps")}],
    })
    res.assumptions += [
        "the hash ring (buraksezer/consistent) is an oracle: owner of a partition is a ring member; GetClosestN returns n distinct members starting "
        "with the owner and ErrInsufficientMemberCount exactly for n > members; per-member load <= ceil(floor(P/N)*load) - re-validated on every ring used",
        "memberlist is external: membership (who is alive, birthdates) is an input; scripts whose members never agree on membership are counted "
        "as environment errors, not verdicts",
        "member names are unique among live members; member ids (hash of name and birthdate) do not collide",
    ]


def slim_dump(d):
    """the dump without the bulky parts (for replays)"""
    out = {k: d.get(k) for k in ("id", "env_error", "steps", "settle", "live", "addrs", "wall_ms", "max_sync_ms", "client")}
    out["members"] = [{k: m.get(k) for k in ("idx", "self", "view", "coordinator", "is_coordinator", "table", "lenp", "lenb",
                                               "resp_members", "keys", "verify_from_coordinator", "verify_from_other")}
                      for m in (d.get("members") or [])]
    return out


def replay_passive(res, obj, path):
    import memberlib
    ok, out = vlib.harness_build()
    if not ok:
        raise vlib.CheckError(out)
    sc = {"id": 0, "cluster": obj["cluster"], "ops": obj["scenario"]["ops"], "_kind": obj["scenario"].get("_kind")}
    for attempt in range(3):
        r = memberlib.run_membership([sc])[0]
        v = None if r.get("env", {}).get("error") else judge_passive(sc, r["obs"])
        print(json.dumps({"attempt": attempt, "verdict": v}))
        if v and v[0] != "env":
            print("VIOLATION property=%s replay=%s" % (res.pid, path))
            return 1
    return 0


def replay(res, path):
    obj = json.load(open(path))
    if obj.get("part") == "passive":
        return replay_passive(res, obj, path)
    sc = obj.get("scenario")
    if not sc:
        print("replay has no scenario (names a broken obligation): %s" % obj.get("failed"))
        return 1
    ok, out = vlib.harness_build()
    if not ok:
        raise vlib.CheckError(out)
    sc = dict(sc, id=0)
    if "script" in sc:
        # membership scripts depend on a race between memberlist and the routing service: a few attempts
        for attempt in range(5):
            d = rl.run_membership([wire(sc)], procs=1)[0]
            if d.get("env_error") or not membership_stable(d):
                print("attempt %d: environment: %s" % (attempt, d.get("env_error") or "membership not stable during the dump"))
                continue
            msgs = judge_membership(sc, d)
            print(json.dumps({"attempt": attempt, "settle": d["settle"], "max_sync_ms": d.get("max_sync_ms"), "predicate": msgs[:6]}, indent=1))
            if msgs:
                print("VIOLATION property=%s replay=%s" % (res.pid, path))
                return 1
        return 0
    if sc.get("op") == "reports":
        _, _, rr = rl.run_routing([wire(sc)])
        x = rr[0]
        bad = rl.reports_predicate(sc, x)
        mm, _ = rl.coq_run("c13r", "r", [(0, rl.rcase_to_coq(sc, x))], 1, jobs=1)
        print(json.dumps({"impl_trace": x, "predicate": bad, "model_mismatch_codes": [c for _, c in mm]}, indent=1))
        if bad or mm:
            print("VIOLATION property=%s replay=%s" % (res.pid, path))
            return 1
        return 0
    _, facts, rr = rl.run_routing([wire(sc)])
    x = rr[0]
    bad = rl.diff_predicate(sc, x) if rl.diff_facts(sc, x) else None
    mm, _ = rl.coq_run("c13r", "d", [(0, rl.dcase_to_coq(sc, x))], 1, jobs=1)
    print(json.dumps({"impl_trace": {k: x[k] for k in ("ring_owner", "closest", "prev_owners", "prev_backups", "owners", "backups")},
                      "predicate": bad, "model_mismatch_codes": [c for _, c in mm]}, indent=1))
    if bad or mm or [f for f in facts if f["problems"]]:
        print("VIOLATION property=%s replay=%s" % (res.pid, path))
        return 1
    return 0
