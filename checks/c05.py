# C05 - read, write and member-count quorums are enforced exactly (DESIGN.md section 9, fixes/DESIGN-C05-C06.md).
import itertools
import json

import qlib
import vlib
from vlib import cN, cZ, cnat, cbool, clist, cbytes, copt

PID = "C05"
TABLE = 4096
META = 29
NOW_MS = 4102444800000          # any clock reading after the harness' "expired" ttl (1 ms) and before year 2100
EXEMPT = "internal.node.updaterouting"


# ------------------------------------------------------------------------------------------------
# scenarios
# ------------------------------------------------------------------------------------------------

def subsets(n):
    for k in range(n + 1):
        for c in itertools.combinations(range(n), k):
            yield list(c)


def members_for(r):
    return 4 if r >= 3 else 3


def rw_scenario(sid, r, w, rq, rng, tier):
    nb = r - 1
    steps = []
    n = [0]

    def key(p):
        n[0] += 1
        return "%s%d-%d-%d-%d" % (p, r, w, rq, n[0])
    # every subset of the backup owners unreachable (includes exactly W-1 and exactly W reachable copies)
    for down in subsets(nb):
        steps.append({"op": "put", "key": key("p"), "down": down})
    # entries the owner rejects, with everything reachable and with a random subset unreachable
    for kind in ("klen", "vlen"):
        for down in ([[]] + ([rng.choice(list(subsets(nb)))] if nb else [])):
            st = {"op": "put", "key": key("x"), "down": down}
            if kind == "klen":
                st["klen"] = rng.choice([256, 257, 300])
            else:
                st["vlen"] = TABLE + rng.choice([0, 1, 100])
            steps.append(st)
    # reads: the owner's copy absent/present x every backup owner in {no copy, copy, copy but unreachable,
    # unreachable without copy, expired copy}
    states = ["none", "copy", "copy-down", "none-down"] + (["expired"] if tier == "thorough" else [])
    layouts = list(itertools.product([False, True], *([states] * nb)))
    if tier == "quick" and len(layouts) > 20:
        keep = [l for l in layouts if not any(s == "none-down" for s in l[1:])]
        layouts = keep
    for lay in layouts:
        tss = [rng.randrange(1, 4) for _ in range(1 + nb)]
        st = {"op": "get", "key": key("g"), "local": tss[0] if lay[0] else None, "backups": [], "down": [], "expired": []}
        for i, s in enumerate(lay[1:]):
            st["backups"].append(tss[1 + i] if s in ("copy", "copy-down", "expired") else None)
            if s.endswith("-down"):
                st["down"].append(i)
            if s == "expired":
                st["expired"].append(1 + i)
        steps.append(st)
    # Incr over the same layouts (integer copies): it reads with the read quorum first; an unreadable counter must be refused
    for lay in layouts:
        if any(s == "expired" for s in lay[1:]):
            continue
        tss = [rng.randrange(1, 4) for _ in range(1 + nb)]
        st = {"op": "incr", "key": key("i"), "local": tss[0] if lay[0] else None, "backups": [], "down": [], "expired": []}
        for i, s_ in enumerate(lay[1:]):
            st["backups"].append(tss[1 + i] if s_ in ("copy", "copy-down") else None)
            if s_.endswith("-down"):
                st["down"].append(i)
        steps.append(st)
    return {"id": sid, "kind": "rw", "members": members_for(r), "r": r, "w": w, "rq": rq, "table": TABLE, "steps": steps}


def scenarios(res):
    scs = qlib.corpus(PID)
    for i, s in enumerate(scs):
        s["id"] = i
    ncorpus = len(scs)
    sid = ncorpus
    seeds = [res.seed] if res.tier == "quick" else [res.seed, res.seed + 1, res.seed + 2]
    for sd in seeds:
        for r in (1, 2, 3):
            for w in range(1, r + 1):
                for rq in range(1, r + 1):
                    rng = vlib.rng_for(sd, PID, r, w, rq)
                    scs.append(rw_scenario(sid, r, w, rq, rng, res.tier))
                    sid += 1
    mcqs = [(3, 2), (3, 3)] if res.tier == "quick" else [(3, 2), (3, 3), (4, 2), (4, 3), (4, 4), (2, 2)]
    for members, mcq in mcqs:
        scs.append({"id": sid, "kind": "mcq", "members": members, "mcq": mcq, "r": 2})
        sid += 1
    return scs, ncorpus


# ------------------------------------------------------------------------------------------------
# the property, stated on the implementation's observations alone
# ------------------------------------------------------------------------------------------------

def put_validity(sc, st):
    klen = max(len(st["key"]), st.get("klen", 0))
    vlen = st.get("vlen", 0) or len("val-" + st["key"])
    if klen >= 256:
        return "keytoolarge", klen, vlen
    if klen + vlen + META >= sc.get("table", TABLE):
        return "entrytoolarge", klen, vlen
    return None, klen, vlen


def check_put(sc, st, ob):
    w = sc["w"]
    nb = ob["nbackup"]
    down = [d for d in st.get("down", []) if d < nb]
    have = [ob["p"]["found"]] + [b["found"] for b in ob["b"]]
    stored = sum(1 for x in have if x)
    if ob.get("stray"):
        return "a member that owns neither the partition nor a backup of it holds a copy: %s" % ob["stray"]
    if any(c.get("corrupt") for c in [ob["p"]] + ob["b"]):
        return "a holder stores bytes that do not decode as an entry (result %s)" % ob["res"]
    invalid, _, _ = put_validity(sc, st)
    if invalid:
        if ob["res"] == "ok":
            return "Put of an entry the owner rejects (%s) was acknowledged" % invalid
        if ob["res"] != invalid:
            return "Put of an entry the owner rejects returned %s (%s), expected the %s error" % (ob["res"], ob.get("err"), invalid)
        if stored:
            return "a rejected Put (%s) left %d copies behind" % (invalid, stored)
        return None
    if ob["res"] == "ok" and stored < w:
        return "Put acknowledged with %d stored copies, WriteQuorum is %d" % (stored, w)
    if ob["res"] != "ok" and stored >= w:
        return "Put failed (%s: %s) although %d >= WriteQuorum=%d copies were stored" % (ob["res"], ob.get("err"), stored, w)
    if ob["res"] not in ("ok", "writequorum"):
        return "Put failed with %s (%s): the only failure the quorum rule allows is the write-quorum error" % (ob["res"], ob.get("err"))
    reachable = 1 + nb - len(down)
    if reachable >= w and ob["res"] != "ok":
        return "%d unreachable backup(s) failed the Put (%s) although %d copies >= WriteQuorum=%d were reachable" % (len(down), ob["res"], reachable, w)
    want = [True] + [i not in down for i in range(nb)]
    if sc["r"] >= 2 and have != want:
        return "copies are on %s, the reachable holders are %s" % (have, want)
    if sc["r"] == 1 and not have[0]:
        return "the owner does not hold the entry"
    for c in [ob["p"]] + ob["b"]:
        if c["found"] and c.get("val") != ob.get("want"):
            return "a stored copy holds %r, written %r" % (c.get("val"), ob.get("want"))
    return None


def get_layout(sc, st, ob):
    nb = ob["nbackup"]
    exp = set(st.get("expired", []))
    down = set(d for d in st.get("down", []) if d < nb)
    local = st.get("local")
    bs = (st.get("backups") or []) + [None] * nb
    return nb, exp, down, local, bs[:nb]


def check_get(sc, st, ob):
    rq = sc["rq"]
    nb, exp, down, local, bs = get_layout(sc, st, ob)
    # a copy whose deadline has passed is a copy: its holder answers with it (D48, fixed) and the reader judges the winner's expiry
    obtained_max = (1 if local is not None else 0) + sum(1 for i in range(nb) if bs[i] is not None and i not in down)
    exists_reachable = (local is not None and 0 not in exp) or any(bs[i] is not None and i not in down and (1 + i) not in exp for i in range(nb))
    vals = set()
    if local is not None:
        vals.add(("p@%d" % local, local))
    for i in range(nb):
        if bs[i] is not None and i not in down:
            vals.add(("b%d@%d" % (i, bs[i]), bs[i]))
    if ob["res"] == "ok":
        if obtained_max < rq:
            return "Get returned a value with %d copies obtained, ReadQuorum is %d" % (obtained_max, rq)
        if (ob.get("val"), ob.get("ts")) not in vals:
            return "Get returned %r@%s which no reachable holder holds" % (ob.get("val"), ob.get("ts"))
    elif ob["res"] not in ("notfound", "readquorum"):
        return "Get failed with %s (%s)" % (ob["res"], ob.get("err"))
    if exists_reachable and obtained_max < rq and ob["res"] != "readquorum":
        return "the key exists on a reachable holder, %d < ReadQuorum=%d copies obtained, Get returned %s" % (obtained_max, rq, ob["res"])
    if not exp and exists_reachable and obtained_max >= rq and ob["res"] != "ok":
        return "%d >= ReadQuorum=%d copies were obtained, Get returned %s" % (obtained_max, rq, ob["res"])
    after = [ob["p"]] + ob["b"]
    before = [local] + bs
    if sc.get("readrepair"):
        # read repair is on: a successful read brings every reachable holder of an OLDER copy (and an owner without a copy) to the
        # version it returned; no copy ever becomes anything else than what it was or that version
        win = (ob.get("val"), ob.get("ts")) if ob["res"] == "ok" else None
        for i, (a, b) in enumerate(zip(after, before)):
            who = "the owner" if i == 0 else "backup owner %d" % (i - 1)
            same = a["found"] == (b is not None) and (not a["found"] or (a.get("ts") == b and not a.get("corrupt")
                                                       and a.get("val") == ("p@%d" % b if i == 0 else "b%d@%d" % (i - 1, b))))
            iswin = win is not None and a["found"] and not a.get("corrupt") and (a.get("val"), a.get("ts")) == win
            if not same and not iswin:
                return "after the read %s holds %r (before: version %s; the read returned %r)" % (who, a, b, win)
            reachable = i == 0 or (i - 1) not in down
            if win is not None and reachable and not iswin and ((b is not None and b < win[1]) or (i == 0 and b is None)):
                return "read repair left %s with version %s, the read returned version %s" % (who, b, win[1])
        return None
    # read repair is off: the read changes nothing
    for i, (a, b) in enumerate(zip(after, before)):
        if a["found"] != (b is not None) or (a["found"] and a.get("ts") != b):
            return "the read changed holder %d's copy (read repair is off)" % i
    return None


def rr_scenario(sid, r, rq, rng):
    """reads with ReadRepair on over every layout of copies (owner absent/present x every backup owner none/copy/unreachable)"""
    nb = r - 1
    steps = []
    states = ["none", "copy", "copy-down"]
    for n, lay in enumerate(itertools.product([False, True], *([states] * nb))):
        tss = [rng.randrange(1, 5) for _ in range(1 + nb)]
        st = {"op": "get", "key": "rr%d-%d-%d" % (r, rq, n), "local": tss[0] if lay[0] else None, "backups": [], "down": [], "expired": []}
        for i, s_ in enumerate(lay[1:]):
            st["backups"].append(tss[1 + i] if s_ in ("copy", "copy-down") else None)
            if s_.endswith("-down"):
                st["down"].append(i)
        steps.append(st)
    return {"id": sid, "kind": "rw", "members": members_for(r), "r": r, "w": 1, "rq": rq, "table": TABLE, "steps": steps, "readrepair": True}


def rr_part(res, pid):
    """used by C05 and C17: what a read with ReadRepair on leaves on the holders"""
    import random
    scs = [rr_scenario(9500 + j, r_, rq_, random.Random(res.seed * 77 + j))
           for j, (r_, rq_) in enumerate([(2, 1), (3, 1), (3, 2)] if res.tier == "thorough" else [(2, 1), (3, 2)])]
    out = qlib.run_harness("quorum", [qlib.strip(q) for q in scs], jobs=3)
    n = 0
    cases = []
    failed = False

    def cp(c):
        if not c["found"]:
            return "None"
        if c.get("corrupt"):
            return "(Some ([255%N], (-1)%Z))"       # bytes that do not decode: no model copy equals it
        return "(Some (%s, %s))" % (cbytes(c.get("val", "")), cZ(c.get("ts", 0)))
    for q in scs:
        ob = out[q["id"]]
        if ob.get("env"):
            res.coverage.setdefault("env_failures", []).append(ob["env"])
            continue
        for i, st in enumerate(q["steps"]):
            if i >= len(ob.get("steps", [])):
                break
            n += 1
            o = ob["steps"][i]
            m = check_get(q, st, o)
            if m:
                failed = True
                res.violation({"kind": "impl-violates-property", "part": "read-repair", "scenario": dict(qlib.strip(q), steps=[st]),
                               "impl_trace": o, "predicate": {"name": "read with ReadRepair on", "verdict": m}, "seed": res.seed})
                break
            nb, exp, down, local, bs = get_layout(q, st, o)
            loc = copt(qlib.centry("p@%d" % local, 0, local)) if local is not None else "None"
            bl = clist("(%s, %s)" % (cbool(j not in down), copt(qlib.centry("b%d@%d" % (j, bs[j]), 0, bs[j])) if bs[j] is not None else "None") for j in range(nb))
            if o["res"] == "ok":
                g = "(GValue %s %s)" % (cbytes(o.get("val", "")), cZ(o.get("ts", 0)))
            else:
                g = {"notfound": "GNotFound", "readquorum": "GReadQuorum"}.get(o["res"], "GOther")
            cases.append(((q, st, o), "CGetRR %s far_future_ms %s %s %s %s %s" % (cnat(q["rq"]), loc, bl, g, cp(o["p"]), clist(cp(b) for b in o["b"]))))
    # the same steps against Model/Quorum.v cluster_get with ReadRepair on (the subject of C06_read_repair): result and every copy afterwards
    mism, _secs = qlib.coq_mismatches("%src" % pid.lower(), HEADER, "qcase", cases, shard=60)
    if mism and not failed:
        (q, st, o), mobs = mism[0]
        res.violation({"kind": "model-vs-impl", "part": "read-repair", "failed": "correspondence Model/QuorumRun.v (CGetRR: cluster_get with read repair) vs the implementation",
                       "scenario": dict(qlib.strip(q), steps=[st]), "impl_trace": o, "model_obs": mobs, "seed": res.seed}, no_input=True)
    res.coverage["read_repair_model_mismatches"] = len(mism)
    res.coverage["read_repair_steps"] = n
    return n


def check_incr(sc, st, ob):
    """Incr = a read with the read quorum, then a write of value+1: a counter that exists on a reachable holder but cannot
    be read with ReadQuorum copies is refused (ErrReadQuorum) and nothing is written; otherwise the result continues the
    newest reachable copy"""
    rq = sc["rq"]
    nb, exp, down, local, bs = get_layout(sc, st, ob)
    obtained_max = (1 if local is not None else 0) + sum(1 for i in range(nb) if bs[i] is not None and i not in down)
    exists_reachable = local is not None or any(bs[i] is not None and i not in down for i in range(nb))
    cands = []
    if local is not None:
        cands.append((local, 100 + local))
    for i in range(nb):
        if bs[i] is not None and i not in down:
            cands.append((bs[i], 200 * (i + 1) + bs[i]))
    before = [local] + bs
    after = [ob["p"]] + ob["b"]
    unchanged = all(a["found"] == (b is not None) and (not a["found"] or a.get("ts") == b) for a, b in zip(after, before))
    if exists_reachable and obtained_max < rq:
        if ob["res"] != "readquorum":
            return ("the counter exists on a reachable holder but only %d < ReadQuorum=%d copies can be read; Incr returned %s %s "
                    "(it must be refused: the current value is unknown)" % (obtained_max, rq, ob["res"], ob.get("val", "")))
        if not unchanged:
            return "a refused Incr changed a copy"
        return None
    if ob["res"] == "ok":
        if cands:
            top = max(ts for ts, _ in cands)
            allowed = {str(v + 1) for ts, v in cands if ts == top}
        else:
            allowed = {"1"}
        if ob.get("val") not in allowed:
            return "Incr returned %s, the newest reachable copy holds %s" % (ob.get("val"), sorted(int(a) - 1 for a in allowed))
    elif ob["res"] == "readquorum":
        if obtained_max >= rq and exists_reachable:
            return "%d >= ReadQuorum=%d copies can be read, Incr was refused with ErrReadQuorum" % (obtained_max, rq)
        if not unchanged:
            return "a refused Incr changed a copy"
    elif ob["res"] != "writequorum":
        return "Incr failed with %s (%s)" % (ob["res"], ob.get("err"))
    return None


def check_mcq(sc, ob):
    if ob.get("crash"):
        return "the harness process died while the commands were sent: " + ob["crash"][-400:]
    for c in ob.get("above", []):
        if c["reply"] != "ok":
            raise vlib.CheckError("sanity: %s answered %s while the quorum was met" % (c["cmd"], c["text"]))
    if ob["seen"] >= sc["mcq"]:
        raise vlib.CheckError("the survivor never went below the quorum")
    for c in ob["cmds"]:
        if c["cmd"] == EXEMPT:
            continue          # the deliberate exemption (DESIGN.md 10.2)
        if c["reply"] != "clusterquorum":
            return "%s was answered %s (%s) by a member that sees %d < MemberCountQuorum=%d members" % (
                c["cmd"], c["reply"], c.get("text", ""), ob["seen"], sc["mcq"])
    for i, r in enumerate(ob["newdmap"]):
        if r != "clusterquorum":
            return "NewDMap (%s name) returned %s below the member-count quorum" % (["fresh", "existing"][i], r)
    if not ob["state_equal"]:
        return "the member's stored state changed below the member-count quorum: " + ob.get("state_diff", "")
    return None


def check(sc, ob):
    """[(step index or -1, message)]"""
    bad = []
    if sc["kind"] == "mcq":
        m = check_mcq(sc, ob)
        return [(-1, m)] if m else []
    if ob.get("crash"):
        return [(-1, "the harness process died: " + ob["crash"][-400:])]
    for i, st in enumerate(sc["steps"]):
        if i >= len(ob["steps"]):
            bad.append((i, "no observation"))
            break
        m = (check_put if st["op"] == "put" else check_incr if st["op"] == "incr" else check_get)(sc, st, ob["steps"][i])
        if m:
            bad.append((i, m))
    return bad


# ------------------------------------------------------------------------------------------------
# Coq side
# ------------------------------------------------------------------------------------------------

HEADER = """From Coq Require Import List NArith ZArith Bool.
Require Import Olric.Gen.Consts Olric.Model.Codec Olric.Model.LWW Olric.Model.Quorum Olric.Model.QuorumRun.
Import ListNotations.
"""
PCLASS = {"ok": "PAck", "writequorum": "PWriteQuorum", "keytoolarge": "PKeyTooLarge", "entrytoolarge": "PEntryTooLarge"}
RCLASS = {"clusterquorum": "QClusterQuorum"}


def rclass(c):
    if c["reply"] == "clusterquorum":
        return "QClusterQuorum"
    t = c.get("text", "")
    if "unknown command" in t:
        return "QUnknown"
    if "wrong number of arguments for 'pubsub'" in t:
        return "QWrongArgs"
    if c["reply"] == "neterr":
        return "QOther"
    return "QHandled"


def coq_cases(sc, ob):
    out = []
    if ob.get("crash"):
        return out
    if sc["kind"] == "mcq":
        reg = clist(cbytes(n) for n in ob["registered"])
        for j, c in enumerate(ob["cmds"]):
            name = c["name"]
            args = ([c["arg1"]] + ["x"] * (c["nargs"] - 1)) if c["nargs"] else []
            out.append(((sc["id"], "cmd", j), "CServe %s %s %s %s %s %s" % (
                reg, cZ(ob["seen"]), cZ(sc["mcq"]), cbytes(name), clist(cbytes(a) for a in args), rclass(c))))
        for j, r in enumerate(ob["newdmap"]):
            out.append(((sc["id"], "newdmap", j), "CNewDMap %s %s %s" % (cZ(ob["seen"]), cZ(sc["mcq"]), "QClusterQuorum" if r == "clusterquorum" else "QHandled")))
        return out
    for i, st in enumerate(sc["steps"]):
        if i >= len(ob["steps"]):
            break
        o = ob["steps"][i]
        nb = o["nbackup"]
        if st["op"] == "put":
            invalid, _, _ = put_validity(sc, st)
            lerr = {None: "None", "keytoolarge": "(Some LKeyTooLarge)", "entrytoolarge": "(Some LEntryTooLarge)"}[invalid]
            down = st.get("down", [])
            oks = clist(cbool(j not in down) for j in range(nb))
            out.append(((sc["id"], "step", i), "CPut %s %s %s %s %s %s %s" % (
                cnat(sc["r"]), cnat(sc["w"]), oks, lerr, PCLASS.get(o["res"], "POther"), cbool(o["p"]["found"]),
                clist(cbool(b["found"]) for b in o["b"]))))
        elif st["op"] == "incr":
            nb, exp, down, local, bs = get_layout(sc, st, o)
            loc = copt(qlib.centry(str(100 + local), 0, local)) if local is not None else "None"
            bl = clist("(%s, %s)" % (cbool(j not in down), copt(qlib.centry(str(200 * (j + 1) + bs[j]), 0, bs[j])) if bs[j] is not None else "None") for j in range(nb))
            if o["res"] == "ok":
                g = "(IcValue %s)" % cZ(int(o.get("val", "0")))
            else:
                g = {"readquorum": "IcRefused"}.get(o["res"], "IcOther")
            out.append(((sc["id"], "step", i), "CIncr %s %s %s %s %s" % (cnat(sc["rq"]), "far_future_ms", loc, bl, g)))
        else:
            nb, exp, down, local, bs = get_layout(sc, st, o)
            loc = copt(qlib.centry("p@%d" % local, 1 if 0 in exp else 0, local)) if local is not None else "None"
            bl = clist("(%s, %s)" % (cbool(j not in down), copt(qlib.centry("b%d@%d" % (j, bs[j]), 1 if (1 + j) in exp else 0, bs[j])) if bs[j] is not None else "None") for j in range(nb))
            if o["res"] == "ok":
                g = "(GValue %s %s)" % (cbytes(o.get("val", "")), cZ(o.get("ts", 0)))
            else:
                g = {"notfound": "GNotFound", "readquorum": "GReadQuorum"}.get(o["res"], "GOther")
            out.append(((sc["id"], "step", i), "CGet %s %s %s %s %s" % (cnat(sc["rq"]), "far_future_ms", loc, bl, g)))
    return out


# ------------------------------------------------------------------------------------------------

def run_one(sc):
    return qlib.run_harness("quorum", [dict(qlib.strip(sc), id=0)], jobs=1)[0]


def minimise(sc, step):
    """most failures are decided by one step: try it alone, then with its predecessors"""
    if sc["kind"] != "rw" or step < 0:
        return qlib.strip(sc), step
    for cand_steps, idx in (([sc["steps"][step]], 0), (sc["steps"][:step + 1], step)):
        c = dict(qlib.strip(sc), steps=cand_steps)
        ob = run_one(c)
        bad = check(c, ob)
        if any(i == idx for i, _ in bad):
            return c, idx
    return qlib.strip(sc), step


def classify(sc, msg):
    return {"kind": "quorum-" + sc["kind"], "what": msg.split(" (")[0][:60]}


def run(res):
    proofs_ok = vlib.common_obligations(res, PID)
    if getattr(res, "harness_error", None):
        res.violation({"kind": "harness-build", "failed": "correspondence: the harness no longer compiles against /repo",
                       "detail": res.harness_error[-3000:]}, no_input=True)
        res.coverage.update({"evaluations": 0, "distinct_nontrivial": 0})
        return
    scs, ncorpus = scenarios(res)
    results = qlib.run_harness("quorum", [qlib.strip(s) for s in scs], jobs=14)
    # 1. the property predicate on the implementation alone
    pred_fail = []
    for s in scs:
        for step, msg in check(s, results[s["id"]]):
            pred_fail.append((s, step, msg))
    # 2. model vs implementation
    cases = []
    for s in scs:
        cases += coq_cases(s, results[s["id"]])
    mism, coq_secs = qlib.coq_mismatches("c05", HEADER, "qcase", cases, shard=120 if res.tier == "quick" else 400)
    reported = set()
    import re as _re
    prekeys = set()
    for s, step, msg in pred_fail:
        prekey = _re.sub(r"\d+", "#", msg)[:70]
        if prekey in prekeys or len(prekeys) >= 8:
            continue
        prekeys.add(prekey)
        small, idx = minimise(s, step)
        ob = run_one(small)
        bad = check(small, ob)
        if not bad:
            raise vlib.CheckError("a predicate failure did not reproduce (scenario %s step %s: %s)" % (s["id"], step, msg))
        key = bad[0][1].split(" (")[0][:50] + json.dumps(small.get("steps", [{}])[0].get("op") if small.get("steps") else small["kind"])
        if key in reported:
            continue
        reported.add(key)
        kf = qlib.match_known(PID, classify(small, bad[0][1]))
        if kf:
            res.known_finding(kf["description"])
            continue
        res.violation({"kind": "impl-violates-property", "scenario": small, "impl_trace": ob, "failed_step": bad[0][0],
                       "predicate": {"name": "quorum", "verdict": bad[0][1]}, "original_scenario_id": s["id"], "seed": res.seed})
        if len(res.violations) >= 6:
            break
    failed_ids = {(s["id"], step) for s, step, _ in pred_fail}
    only_model = [(tag, m) for tag, m in mism if (tag[0], tag[2] if tag[1] == "step" else -1) not in failed_ids]
    if only_model and not res.violations:
        tag, m = only_model[0]
        s = [x for x in scs if x["id"] == tag[0]][0]
        small = qlib.strip(s)
        if tag[1] == "step":
            small = dict(small, steps=[s["steps"][tag[2]]])
        ob = run_one(small)
        res.violation({"kind": "model-vs-impl", "failed": "correspondence Model/QuorumRun.v vs the implementation: %s %s of scenario %s" % (tag[1], tag[2], tag[0]),
                       "scenario": small, "impl_trace": ob, "model_obs": m,
                       "note": "the quorum predicate holds on every explored implementation trace", "seed": res.seed}, no_input=True)
    if not proofs_ok and not res.violations:
        broken = [o for o in res.obligations if not o["ok"]]
        res.violation({"kind": "obligation-broken", "failed": [o["theorem"] for o in broken],
                       "detail": [o.get("detail", o.get("axioms")) for o in broken],
                       "note": "searched %d implementation scenarios with the quorum predicate, none failed" % len(scs)}, no_input=True)
    # evidence
    hist, rh = {}, {}
    nt = set()
    nsteps = 0
    for s in scs:
        ob = results[s["id"]]
        if s["kind"] == "mcq":
            hist["raw-command-below-quorum"] = hist.get("raw-command-below-quorum", 0) + len(ob.get("cmds", []))
            for c in ob.get("cmds", []):
                rh[c["reply"]] = rh.get(c["reply"], 0) + 1
            nt.add("mcq-%d-%d" % (s["members"], s["mcq"]))
            continue
        for st, o in zip(s["steps"], ob.get("steps", [])):
            nsteps += 1
            hist[st["op"]] = hist.get(st["op"], 0) + 1
            rh[o["res"]] = rh.get(o["res"], 0) + 1
            if st.get("down"):
                nt.add(json.dumps([s["r"], s["w"], s["rq"], st["op"], sorted(st["down"]), st.get("local") is not None,
                                   [b is not None for b in st.get("backups", [])]]))
    rr_part(res, PID)
    sample = next((s for s in scs if s["kind"] == "rw" and s["r"] == 3), scs[-1])
    res.coverage.update({
        "evaluations": nsteps + hist.get("raw-command-below-quorum", 0), "scenarios": len(scs), "distinct_nontrivial": len(nt),
        "rule": "grid R in {1,2,3} x W in 1..R x RQ in 1..R on real 3-4 member clusters; per configuration every subset of "
                "backup owners unreachable for Put (incl. exactly W-1 and exactly W reachable copies), rejected entries (key >= 256 "
                "bytes, entry >= table size), and for Get the owner's copy absent/present x every backup owner in {no copy, copy, copy but "
                "unreachable, unreachable, expired copy}; member-count quorum: every registered command in three spellings sent raw to a "
                "member below the quorum + NewDMap + state dump before/after. non-trivial = a step with at least one unreachable backup "
                "owner (distinct configuration/layout) or a member-count configuration",
        "exhaustive": True, "exhaustive_part": "all (R,W,RQ) with quorums <= R <= 3; all subsets of unreachable backup owners; all registered commands",
        "corpus_cases": ncorpus, "op_histogram": hist, "result_histogram": rh,
        "traces_validated_against_impl": len(cases), "model_vs_impl_mismatches": len(mism),
        "predicate_failures": len(pred_fail), "coq_eval_seconds": round(coq_secs, 1),
        "samples": [{"scenario": dict(qlib.strip(sample), steps=sample.get("steps", [])[:3]),
                     "impl_obs": results[sample["id"]].get("steps", [])[:3]}],
    })
    res.assumptions += [
        "an unreachable backup owner = its RESP port closes every connection while memberlist still lists it",
        "sync replication mode (async mode has no write quorum by design)",
        "the clock reading only matters through 'expired' copies, built with a ttl in the distant past",
        "INTERNAL.NODE.UPDATEROUTING (exact lower-case spelling) is exempt from the member-count precondition by design"]


def replay(res, path):
    obj = json.load(open(path))
    sc = obj.get("scenario")
    if not sc:
        print("replay has no scenario (names a broken obligation): %s" % obj.get("failed"))
        return 1
    ok, out = vlib.harness_build()
    if not ok:
        raise vlib.CheckError(out)
    ob = run_one(sc)
    bad = check(sc, ob)
    print(json.dumps({"impl_trace": ob, "predicate": bad}, indent=1))
    if bad:
        print("VIOLATION property=%s replay=%s" % (res.pid, path))
        return 1
    return 0
