# C07 - Incr, Decr, IncrByFloat and GetPut are atomic across all clients (DESIGN.md section 9).
import json

import conclib
import dmaplib
import vlib
from vlib import cZ

PID = "C07"
PATHS = ["emb@owner", "emb@other", "emb@backup", "cc", "raw@owner", "raw@other", "pipe"]


def gen(rng, sid, nclients, nops, mode):
    d = "c07d%d" % sid
    k = dmaplib.hx("ctr")
    clients = []
    val = [1000]
    for c in range(nclients):
        path = rng.choice(PATHS)
        ops = []
        for _ in range(nops):
            w = rng.random()
            if mode == "getput" or (mode == "mixed" and w < 0.3):
                val[0] += 1
                ops.append({"op": "getput", "c": path, "d": d, "k": k, "v": dmaplib.hx(str(val[0]))})
            elif mode == "float" and w < 0.45 and not path.startswith(("raw", "pipe")):
                # IncrByFloat with an integral amount, mixed with Incr/Decr on the same key: one counter, one lock
                ops.append({"op": "incrbyfloat", "c": path, "d": d, "k": k, "f": float(rng.choice([-3, -2, -1, 1, 2, 3, 4, 5]))})
            elif w < 0.7:
                ops.append({"op": "incr", "c": path, "d": d, "k": k, "delta": rng.randrange(1, 9)})
            else:
                ops.append({"op": "decr", "c": path, "d": d, "k": k, "delta": rng.randrange(1, 9)})
        clients.append({"ops": ops})
    setup = []
    init = None
    if rng.random() < 0.5:
        init = rng.randrange(-50, 50)
        setup = [{"op": "put", "c": "emb@owner", "d": d, "k": k, "v": dmaplib.hx(str(init))}]
    return {"id": sid, "clients": clients, "setup": setup, "final": [{"op": "get", "c": "emb@owner", "d": d, "k": k}],
            "_init": init, "_mode": mode}


def parse_int(hexs):
    try:
        return int(bytes.fromhex(hexs).decode())
    except Exception:
        return None


def delta_of(op):
    if op["op"] == "incrbyfloat":
        return int(op["f"])
    return op["delta"] if op["op"] == "incr" else -op["delta"]


def judge(sc, r):
    """closed-form predicates; returns None or message"""
    ops = conclib.flatten(sc, r)
    for ci, op, ob in ops:
        if ob.get("r") != "ok":
            return "client %d: %s returned %s" % (ci, op["op"], ob.get("r"))
    fin = r["final"][0]
    if sc["_mode"] in ("incr", "float"):
        total = (sc["_init"] or 0) + sum(delta_of(op) for _, op, _ in ops)
        got = parse_int(fin.get("val", "")) if fin.get("r") == "ok" else None
        if got != total:
            return "final value %s, initial %s plus the sum of the acknowledged deltas is %d (lost update)" % (got, sc["_init"], total)
    if sc["_mode"] == "getput":
        olds = [ob.get("old") for _, _, ob in ops]
        written = [op["v"] for _, op, _ in ops]
        nones = [o for o in olds if o is None]
        first = dmaplib.hx(str(sc["_init"])) if sc["_init"] is not None else None
        vals = [o for o in olds if o is not None]
        if len(set(vals)) != len(vals):
            return "a written value was returned twice as old value: %s" % vals
        for o in vals:
            if o not in written and o != first:
                return "GetPut returned %s which nobody wrote" % o
        if first is None and len(nones) != 1:
            return "%d GetPut calls saw no previous value (exactly one must)" % len(nones)
    return None


def to_events(sc, r):
    evs = []
    for ci, op, ob in conclib.flatten(sc, r):
        if ob.get("r") != "ok":
            return None
        if op["op"] in ("incr", "decr"):
            d = op["delta"] if op["op"] == "incr" else -op["delta"]
            evs.append(conclib.ev(ob["n0"], ob["n1"], "CIncr %s" % cZ(d), "CInt %s" % cZ(ob["n"])))
        elif op["op"] == "incrbyfloat":
            if ob.get("f") != int(ob.get("f", 0.5)):
                return None
            evs.append(conclib.ev(ob["n0"], ob["n1"], "CIncr %s" % cZ(int(op["f"])), "CInt %s" % cZ(int(ob["f"]))))
        elif op["op"] == "getput":
            old = parse_int(ob["old"]) if ob.get("old") is not None else None
            if ob.get("old") is not None and old is None:
                return None
            evs.append(conclib.ev(ob["n0"], ob["n1"], "CGetPut %s" % cZ(parse_int(op["v"])),
                                  "COld %s" % ("None" if old is None else "(Some %s)" % cZ(old))))
    fin = r["final"][0]
    v = parse_int(fin.get("val", "")) if fin.get("r") == "ok" else None
    evs.append(conclib.ev(fin["n0"], fin["n1"], "CRead", "COld %s" % ("None" if v is None else "(Some %s)" % cZ(v))))
    return evs


def run(res):
    proofs_ok = vlib.common_obligations(res, PID)
    if getattr(res, "harness_error", None):
        res.violation({"kind": "harness-build", "failed": "correspondence: the harness no longer compiles against /repo",
                       "detail": res.harness_error[-3000:]}, no_input=True)
        res.coverage.update({"evaluations": 0, "distinct_nontrivial": 0})
        return
    rounds = 30 if res.tier == "quick" else 300
    cfgs = [{"members": 3, "replicas": 2, "partitions": 7, "table": 4096, "evict_workers": 1},
            {"members": 3, "replicas": 1, "partitions": 13, "table": 4096, "evict_workers": 1}]
    groups = []
    sid = 0
    for ci, cfg in enumerate(cfgs):
        scs = []
        for i in range(rounds):
            rng = vlib.rng_for(res.seed, PID, ci, i)
            mode = ["incr", "getput", "mixed", "float"][i % 4]
            scs.append(gen(rng, sid, rng.choice([2, 3, 4]), rng.randrange(2, 5), mode))
            sid += 1
        groups.append((cfg, scs))
    results = conclib.run_groups(groups)
    hists = []
    meta = {}
    failures = []
    multi = 0
    for cfg, scs in groups:
        for sc in scs:
            r = results[sc["id"]]
            msg = judge(sc, r)
            if msg:
                failures.append((cfg, sc, r, msg))
                continue
            evs = to_events(sc, r)
            if evs is None:
                failures.append((cfg, sc, r, "an operation returned a value that is not a number"))
                continue
            init = "None" if sc["_init"] is None else "(Some %s)" % cZ(sc["_init"])
            hists.append((sc["id"], init, evs))
            meta[sc["id"]] = (cfg, sc, r)
            if len({op.get("c") for _, op, _ in conclib.flatten(sc, r)}) > 1:
                multi += 1
    for cfg, sc, r, msg in failures[:4]:
        res.violation({"kind": "impl-violates-property", "cluster": cfg, "scenario": {k: v for k, v in sc.items() if not k.startswith("_")},
                       "impl_trace": {"clients": r["clients"], "final": r["final"]}, "predicate": {"name": "sum / chain", "verdict": msg}, "seed": res.seed})
    verdict, secs = conclib.lin_eval("c07", "counter", hists, shard=15)
    nonlin = [h for h, v in verdict.items() if v is False]
    for hid in nonlin[:4]:
        cfg, sc, r = meta[hid]
        res.violation({"kind": "impl-violates-property", "cluster": cfg, "scenario": {k: v for k, v in sc.items() if not k.startswith("_")},
                       "history": [e for h, _, e in hists if h == hid][0], "impl_trace": {"clients": r["clients"], "final": r["final"]},
                       "predicate": {"name": "lin_counter (Model/Lin.v)", "verdict": "the returned values are not those of any order of the calls consistent with real time"},
                       "seed": res.seed})
    # Incr on a counter that cannot be read with the read quorum (a backup owner unreachable, or the owner without a copy):
    # it must be refused, never restarted from zero (the quorum harness and the layouts of C05)
    import c05
    import qlib
    import random
    qscs = []
    for j, (r_, w_, rq_) in enumerate([(2, 1, 2), (3, 1, 2), (3, 2, 3)] if res.tier == "thorough" else [(2, 1, 2), (3, 1, 2)]):
        q = c05.rw_scenario(9000 + j, r_, w_, rq_, random.Random(res.seed * 100 + j), res.tier)
        q["steps"] = [st for st in q["steps"] if st["op"] == "incr"]
        qscs.append(q)
    qres = qlib.run_harness("quorum", [qlib.strip(q) for q in qscs], jobs=3)
    nq = 0
    for q in qscs:
        ob = qres[q["id"]]
        for i, st in enumerate(q["steps"]):
            if i >= len(ob.get("steps", [])):
                break
            nq += 1
            m = c05.check_incr(q, st, ob["steps"][i])
            if m:
                res.violation({"kind": "impl-violates-property", "part": "quorum-incr", "scenario": dict(qlib.strip(q), steps=[st]),
                               "impl_trace": ob["steps"][i], "predicate": {"name": "Incr under read/write quorums", "verdict": m}, "seed": res.seed})
                break
    res.coverage["incr_under_quorum_steps"] = nq
    if not proofs_ok and not res.violations:
        broken = [o for o in res.obligations if not o["ok"]]
        res.violation({"kind": "obligation-broken", "failed": [o["theorem"] for o in broken],
                       "detail": [o.get("detail", o.get("axioms")) for o in broken]}, no_input=True)
    res.coverage.update({
        "evaluations": len(hists) + len(failures), "distinct_nontrivial": multi,
        "rule": "2-4 concurrent callers x 2-4 operations on one key, callers assigned to 7 entry points (embedded on owner / non-owner / backup owner, cluster client, raw "
                "DM.INCR/DM.GETPUT to owner / non-owner, pipeline), four modes: Incr/Decr only (final value = initial + sum of deltas), GetPut only (single chain), mixed, and Incr/Decr mixed with IncrByFloat of integral amounts on the same key (same sum); "
                "clusters (3,2),(3,1); every history incl. the final Get is judged by the linearizability checker with the counter/swap specification inside Coq; "
                "non-trivial = callers entered through at least two different entry points",
        "histories": len(hists), "nonlinearizable": len(nonlin), "inconclusive": sum(1 for v in verdict.values() if v is None),
        "predicate_failures": len(failures), "coq_eval_seconds": round(secs, 1), "traces_validated_against_impl": len(hists),
        "samples": [{"history": hists[0][2]}] if hists else [],
    })
    res.assumptions += ["IncrByFloat is exercised with integral amounts only (mixed with Incr/Decr on one key); non-integral amounts by the C15 grid (float text formatting is an oracle)"]


def replay(res, path):
    obj = json.load(open(path))
    if obj.get("part") == "quorum-incr":
        import c05
        import qlib
        ok, out = vlib.harness_build()
        if not ok:
            raise vlib.CheckError(out)
        q = dict(obj["scenario"], id=0)
        ob = qlib.run_harness("quorum", [q], jobs=1)[0]
        for st, o in zip(q["steps"], ob.get("steps", [])):
            m = c05.check_incr(q, st, o)
            if m:
                print(m)
                print("VIOLATION property=%s replay=%s" % (res.pid, path))
                return 1
        return 0
    sc = obj.get("scenario")
    if not sc:
        print("replay names a broken obligation: %s" % obj.get("failed"))
        return 1
    ok, out = vlib.harness_build()
    if not ok:
        raise vlib.CheckError(out)
    bad = 0
    for i in range(40):
        s = dict(sc, id=i)
        ops = [o for c in s["clients"] for o in c["ops"]]
        s["_mode"] = "incr" if all(o["op"] in ("incr", "decr") for o in ops) else ("getput" if all(o["op"] == "getput" for o in ops) else "mixed")
        s["_init"] = int(bytes.fromhex(s["setup"][0]["v"]).decode()) if s.get("setup") else None
        r = conclib.run_conc(obj["cluster"], [s])[i]
        if judge(s, r):
            bad += 1
            continue
        evs = to_events(s, r)
        init = "None" if s["_init"] is None else "(Some %s)" % cZ(s["_init"])
        v, _ = conclib.lin_eval("c07r", "counter", [(i, init, evs)])
        bad += sum(1 for x in v.values() if x is False)
    print("failing runs out of 40: %d" % bad)
    if bad:
        print("VIOLATION property=%s replay=%s" % (res.pid, path))
        return 1
    return 0
