# C07 - Incr, Decr, IncrByFloat and GetPut are atomic across all clients (DESIGN.md section 9).
import json

import conclib
import dmaplib
import vlib
from vlib import cZ

PID = "C07"
PATHS = ["emb@owner", "emb@other", "emb@backup", "cc", "raw@owner", "raw@other", "pipe"]


def gen(rng, sid, nclients, nops, mode):
    d = "c07d%d" % sid
    k = dmaplib.hx("ctr")
    clients = []
    val = [1000]
    for c in range(nclients):
        path = rng.choice(PATHS)
        ops = []
        for _ in range(nops):
            w = rng.random()
            if mode == "getput" or (mode == "mixed" and w < 0.3):
                val[0] += 1
                ops.append({"op": "getput", "c": path, "d": d, "k": k, "v": dmaplib.hx(str(val[0]))})
            elif mode == "float" and w < 0.45 and not path.startswith(("raw", "pipe")):
                # IncrByFloat with an integral amount, mixed with Incr/Decr on the same key: one counter, one lock
                ops.append({"op": "incrbyfloat", "c": path, "d": d, "k": k, "f": float(rng.choice([-3, -2, -1, 1, 2, 3, 4, 5]))})
            elif w < 0.7:
                ops.append({"op": "incr", "c": path, "d": d, "k": k, "delta": rng.randrange(1, 9)})
            else:
                ops.append({"op": "decr", "c": path, "d": d, "k": k, "delta": rng.randrange(1, 9)})
        clients.append({"ops": ops})
    setup = []
    init = None
    if rng.random() < 0.5:
        init = rng.randrange(-50, 50)
        setup = [{"op": "put", "c": "emb@owner", "d": d, "k": k, "v": dmaplib.hx(str(init))}]
    return {"id": sid, "clients": clients, "setup": setup, "final": [{"op": "get", "c": "emb@owner", "d": d, "k": k}],
            "_init": init, "_mode": mode}


def parse_int(hexs):
    try:
        return int(bytes.fromhex(hexs).decode())
    except Exception:
        return None


def delta_of(op):
    if op["op"] == "incrbyfloat":
        return int(op["f"])
    return op["delta"] if op["op"] == "incr" else -op["delta"]


def judge(sc, r):
    """closed-form predicates; returns None or message"""
    ops = conclib.flatten(sc, r)
    for ci, op, ob in ops:
        if ob.get("r") != "ok":
            return "client %d: %s returned %s" % (ci, op["op"], ob.get("r"))
    fin = r["final"][0]
    if sc["_mode"] in ("incr", "float"):
        total = (sc["_init"] or 0) + sum(delta_of(op) for _, op, _ in ops)
        got = parse_int(fin.get("val", "")) if fin.get("r") == "ok" else None
        if got != total:
            return "final value %s, initial %s plus the sum of the acknowledged deltas is %d (lost update)" % (got, sc["_init"], total)
    if sc["_mode"] == "getput":
        olds = [ob.get("old") for _, _, ob in ops]
        written = [op["v"] for _, op, _ in ops]
        nones = [o for o in olds if o is None]
        first = dmaplib.hx(str(sc["_init"])) if sc["_init"] is not None else None
        vals = [o for o in olds if o is not None]
        if len(set(vals)) != len(vals):
            return "a written value was returned twice as old value: %s" % vals
        for o in vals:
            if o not in written and o != first:
                return "GetPut returned %s which nobody wrote" % o
        if first is None and len(nones) != 1:
            return "%d GetPut calls saw no previous value (exactly one must)" % len(nones)
    return None


def to_events(sc, r):
    evs = []
    for ci, op, ob in conclib.flatten(sc, r):
        if ob.get("r") != "ok":
            return None
        if op["op"] in ("incr", "decr"):
            d = op["delta"] if op["op"] == "incr" else -op["delta"]
            evs.append(conclib.ev(ob["n0"], ob["n1"], "CIncr %s" % cZ(d), "CInt %s" % cZ(ob["n"])))
        elif op["op"] == "incrbyfloat":
            if ob.get("f") != int(ob.get("f", 0.5)):
                return None
            evs.append(conclib.ev(ob["n0"], ob["n1"], "CIncr %s" % cZ(int(op["f"])), "CInt %s" % cZ(int(ob["f"]))))
        elif op["op"] == "getput":
            old = parse_int(ob["old"]) if ob.get("old") is not None else None
            if ob.get("old") is not None and old is None:
                return None
            evs.append(conclib.ev(ob["n0"], ob["n1"], "CGetPut %s" % cZ(parse_int(op["v"])),
                                  "COld %s" % ("None" if old is None else "(Some %s)" % cZ(old))))
    fin = r["final"][0]
    v = parse_int(fin.get("val", "")) if fin.get("r") == "ok" else None
    evs.append(conclib.ev(fin["n0"], fin["n1"], "CRead", "COld %s" % ("None" if v is None else "(Some %s)" % cZ(v))))
    return evs


def run(res):
    proofs_ok = vlib.common_obligations(res, PID)
    if getattr(res, "harness_error", None):
        res.violation({"kind": "harness-build", "failed": "correspondence: the harness no longer compiles against /repo",
                       "detail": res.harness_error[-3000:]}, no_input=True)
        res.coverage.update({"evaluations": 0, "distinct_nontrivial": 0})
        return
    rounds = 30 if res.tier == "quick" else 300
    cfgs = [{"members": 3, "replicas": 2, "partitions": 7, "table": 4096, "evict_workers": 1},
            {"members": 3, "replicas": 1, "partitions": 13, "table": 4096, "evict_workers": 1}]
    groups = []
    sid = 0
    for ci, cfg in enumerate(cfgs):
        scs = []
        for i in range(rounds):
            rng = vlib.rng_for(res.seed, PID, ci, i)
            mode = ["incr", "getput", "mixed", "float"][i % 4]
            scs.append(gen(rng, sid, rng.choice([2, 3, 4]), rng.randrange(2, 5), mode))
            sid += 1
        groups.append((cfg, scs))
    results = conclib.run_groups(groups)
    hists = []
    meta = {}
    failures = []
    multi = 0
    for cfg, scs in groups:
        for sc in scs:
            r = results[sc["id"]]
            msg = judge(sc, r)
            if msg:
                failures.append((cfg, sc, r, msg))
                continue
            evs = to_events(sc, r)
            if evs is None:
                failures.append((cfg, sc, r, "an operation returned a value that is not a number"))
                continue
            init = "None" if sc["_init"] is None else "(Some %s)" % cZ(sc["_init"])
            hists.append((sc["id"], init, evs))
            meta[sc["id"]] = (cfg, sc, r)
            if len({op.get("c") for _, op, _ in conclib.flatten(sc, r)}) > 1:
                multi += 1
    for cfg, sc, r, msg in failures[:4]:
        res.violation({"kind": "impl-violates-property", "cluster": cfg, "scenario": {k: v for k, v in sc.items() if not k.startswith("_")},
                       "impl_trace": {"clients": r["clients"], "final": r["final"]}, "predicate": {"name": "sum / chain", "verdict": msg}, "seed": res.seed})
    verdict, secs = conclib.lin_eval("c07", "counter", hists, shard=15)
    nonlin = [h for h, v in verdict.items() if v is False]
    for hid in nonlin[:4]:
        cfg, sc, r = meta[hid]
        res.violation({"kind": "impl-violates-property", "cluster": cfg, "scenario": {k: v for k, v in sc.items() if not k.startswith("_")},
                       "history": [e for h, _, e in hists if h == hid][0], "impl_trace": {"clients": r["clients"], "final": r["final"]},
                       "predicate": {"name": "lin_counter (Model/Lin.v)", "verdict": "the returned values are not those of any order of the calls consistent with real time"},
                       "seed": res.seed})
    # Incr on a counter that cannot be read with the read quorum (a backup owner unreachable, or the owner without a copy):
    # it must be refused, never restarted from zero (the quorum harness and the layouts of C05)
    import c05
    import qlib
    import random
    qscs = []
    for j, (r_, w_, rq_) in enumerate([(2, 1, 2), (3, 1, 2), (3, 2, 3)] if res.tier == "thorough" else [(2, 1, 2), (3, 1, 2)]):
        q = c05.rw_scenario(9000 + j, r_, w_, rq_, random.Random(res.seed * 100 + j), res.tier)
        q["steps"] = [st for st in q["steps"] if st["op"] == "incr"]
        qscs.append(q)
    qres = qlib.run_harness("quorum", [qlib.strip(q) for q in qscs], jobs=3)
    nq = 0
    for q in qscs:
        ob = qres[q["id"]]
        for i, st in enumerate(q["steps"]):
            if i >= len(ob.get("steps", [])):
                break
            nq += 1
            m = c05.check_incr(q, st, ob["steps"][i])
            if m:
                res.violation({"kind": "impl-violates-property", "part": "quorum-incr", "scenario": dict(qlib.strip(q), steps=[st]),
                               "impl_trace": ob["steps"][i], "predicate": {"name": "Incr under read/write quorums", "verdict": m}, "seed": res.seed})
                break
    res.coverage["incr_under_quorum_steps"] = nq
    locker_part(res)
    if not proofs_ok and not res.violations:
        broken = [o for o in res.obligations if not o["ok"]]
        res.violation({"kind": "obligation-broken", "failed": [o["theorem"] for o in broken],
                       "detail": [o.get("detail", o.get("axioms")) for o in broken]}, no_input=True)
    res.coverage.update({
        "evaluations": len(hists) + len(failures), "distinct_nontrivial": multi,
        "rule": "2-4 concurrent callers x 2-4 operations on one key, callers assigned to 7 entry points (embedded on owner / non-owner / backup owner, cluster client, raw "
                "DM.INCR/DM.GETPUT to owner / non-owner, pipeline), four modes: Incr/Decr only (final value = initial + sum of deltas), GetPut only (single chain), mixed, and Incr/Decr mixed with IncrByFloat of integral amounts on the same key (same sum); "
                "clusters (3,2),(3,1); every history incl. the final Get is judged by the linearizability checker with the counter/swap specification inside Coq; "
                "non-trivial = callers entered through at least two different entry points",
        "histories": len(hists), "nonlinearizable": len(nonlin), "inconclusive": sum(1 for v in verdict.values() if v is None),
        "predicate_failures": len(failures), "coq_eval_seconds": round(secs, 1), "traces_validated_against_impl": len(hists),
        "samples": [{"history": hists[0][2]}] if hists else [],
    })
    res.assumptions += ["IncrByFloat is exercised with integral amounts only (mixed with Incr/Decr on one key); non-integral amounts by the C15 grid (float text formatting is an oracle)"]


_LOCKER_REPLAY = None
LOCKER_HEADER = """From Coq Require Import List NArith ZArith Bool.
Require Import Olric.Model.Locker Olric.Model.LockerRun.
Import ListNotations.
"""


def locker_part(res):
    """internal/locker (the per-key mutex of the atomic operations) against Model/Locker.v: the REAL Locker is driven by goroutines one
    call at a time; after every call: which Lock calls have returned, which are blocked, which names its map holds"""
    import json as _json
    from vlib import cN, cnat, cbool, clist
    n = 60 if res.tier == "quick" else 600
    scs = []
    for j in range(n):
        rng = vlib.rng_for(res.seed, PID, "locker", j)
        threads = rng.randrange(2, 6)
        names = ["a", "b", "c"][:rng.randrange(1, 4)]
        ops = []
        for _ in range(rng.randrange(6, 16)):
            if rng.random() < 0.55:
                ops.append({"op": "lock", "t": rng.randrange(threads), "n": rng.choice(names)})
            else:
                ops.append({"op": "unlock", "n": rng.choice(names)})
        ops += [{"op": "unlock", "n": x} for x in names * threads]      # drain: everybody gets the lock and releases it
        scs.append({"id": j, "threads": threads, "ops": ops})
    if _LOCKER_REPLAY:
        scs = _LOCKER_REPLAY
    outs = {}

    def run_chunk(chunk):
        p = vlib.harness(["locker"], input="".join(_json.dumps(s) + "\n" for s in chunk), timeout=600)
        o = {}
        for line in p.stdout.splitlines():
            if line.startswith("{"):
                r = _json.loads(line)
                o[r["id"]] = r
        if len(o) < len(chunk):
            raise vlib.CheckError("locker harness failed rc=%d: %s" % (p.returncode, p.stderr[-1000:]))
        return o
    from concurrent.futures import ThreadPoolExecutor
    with ThreadPoolExecutor(max_workers=8) as ex:
        for o in ex.map(run_chunk, [scs[i::8] for i in range(8) if scs[i::8]]):
            outs.update(o)
    nm = {"a": 1, "b": 2, "c": 3}
    cases = []
    calls = blockedcalls = handovers = 0
    bad = None
    for sc in scs:
        obs = outs[sc["id"]]["obs"]
        items = []
        inside = {}
        for op, ob in zip(sc["ops"], obs):
            if ob.get("skip"):
                continue
            calls += 1
            # the property on the observations alone: never two holders of one name; the holder's Unlock succeeds; no call returns unasked
            hs = {}
            for t, x in ob["holders"]:
                if x in hs and bad is None:
                    bad = (sc, "threads %d and %d are both past Lock(%r)" % (hs[x], t, x))
                hs[x] = t
            if "extra_return" in ob and bad is None:
                bad = (sc, "a second blocked Lock returned after one Unlock (thread %d)" % ob["extra_return"])
            if op["op"] == "unlock" and ob.get("err") and bad is None:
                bad = (sc, "the holder's Unlock(%r) returned an error" % op["n"])
            if op["op"] == "lock" and not ob["ret"]:
                inside[ob["t"]] = op["n"]
            if op["op"] == "unlock" and ob.get("woken", -1) >= 0:
                inside.pop(ob["woken"], None)
            leaked = set(ob["names"]) - set(hs) - set(inside.values())
            if leaked and bad is None:
                bad = (sc, "the map keeps entries %s nobody holds or waits for" % sorted(leaked))
            o_ = "(%s, %s, %s)" % (clist(cN(nm[x]) for x in sorted(ob["names"])),
                                   clist("(%s, %s)" % (cnat(t), cN(nm[x])) for t, x in sorted(ob["holders"])),
                                   clist(cnat(t) for t in sorted(ob["blocked"])))
            if op["op"] == "lock":
                if not ob["ret"]:
                    blockedcalls += 1
                items.append("(HLock %s %s %s, %s)" % (cnat(ob["t"]), cN(nm[op["n"]]), cbool(ob["ret"]), o_))
            else:
                if ob["woken"] >= 0:
                    handovers += 1
                items.append("(HUnlock %s %s %s %s, %s)" % (cnat(ob["t"]), cN(nm[op["n"]]), cbool(ob["err"]),
                                                            "None" if ob["woken"] < 0 else "(Some %s)" % cnat(ob["woken"]), o_))
        cases.append((sc, "(%s, %s)" % (cnat(sc["threads"]), clist(items))))
    if bad:
        res.violation({"kind": "impl-violates-property", "part": "locker", "scenario": bad[0], "impl_trace": outs[bad[0]["id"]]["obs"],
                       "predicate": {"name": "per-key mutex: one holder per name, the holder's Unlock succeeds, no leaked entry", "verdict": bad[1]},
                       "seed": res.seed})
    shards = [cases[i:i + 40] for i in range(0, len(cases), 40)]
    texts = [LOCKER_HEADER + "Definition cases : list lcase := [\n" + ";\n".join(t for _, t in sh) +
             "\n].\nDefinition M := Eval vm_compute in mismatches cases 0.\nPrint M.\n" for sh in shards]
    import re
    mism = []
    for sh, (rc, out, err, dt) in zip(shards, vlib.coq_eval_shards("c07locker", texts)):
        if rc != 0 or "M =" not in out:
            raise vlib.CheckError("coqc failed on generated locker cases: " + (err or out)[-1500:])
        flat = " ".join(out.split("M =", 1)[1].rsplit(":", 1)[0].split())
        for m in re.finditer(r"\((\d+)(?:%nat)?, (\d+)(?:%nat)?\)", flat):
            mism.append((sh[int(m.group(1))][0], int(m.group(2))))
    if mism and not bad:
        sc, step = mism[0]
        res.violation({"kind": "model-vs-impl", "part": "locker", "scenario": sc, "impl_trace": outs[sc["id"]]["obs"],
                       "failed": "correspondence Model/Locker.v vs internal/locker: scenario %d, call #%d (counting the calls that were not skipped)" % (sc["id"], step),
                       "seed": res.seed}, no_input=True)
    res.coverage["locker"] = {"scenarios": len(scs), "calls": calls, "lock_calls_that_blocked": blockedcalls, "unlocks_that_woke_a_waiter": handovers,
                              "model_vs_impl_mismatches": len(mism),
                              "rule": "the real internal/locker, 2-5 goroutines, 1-3 names, 6-15 random Lock / Unlock calls one at a time then a drain; after every call "
                                      "the returned and the blocked Lock calls and the names in the Locker's map (white-box) are compared with Model/Locker.v"}


def replay(res, path):
    obj = json.load(open(path))
    if obj.get("part") == "quorum-incr":
        import c05
        import qlib
        ok, out = vlib.harness_build()
        if not ok:
            raise vlib.CheckError(out)
        q = dict(obj["scenario"], id=0)
        ob = qlib.run_harness("quorum", [q], jobs=1)[0]
        for st, o in zip(q["steps"], ob.get("steps", [])):
            m = c05.check_incr(q, st, o)
            if m:
                print(m)
                print("VIOLATION property=%s replay=%s" % (res.pid, path))
                return 1
        return 0
    if obj.get("part") == "locker":
        ok, out = vlib.harness_build()
        if not ok:
            raise vlib.CheckError(out)
        class _R:       # a one-scenario run of locker_part's predicate and model comparison
            pass
        import types
        r2 = types.SimpleNamespace(seed=res.seed, tier="quick", coverage={}, violations=[], pid=res.pid)
        r2.violation = lambda o, no_input=False: r2.violations.append(o)
        _one = obj["scenario"]
        global _LOCKER_REPLAY
        _LOCKER_REPLAY = [dict(_one, id=0)]
        try:
            locker_part(r2)
        finally:
            _LOCKER_REPLAY = None
        if r2.violations:
            print(r2.violations[0].get("predicate", r2.violations[0].get("failed")))
            print("VIOLATION property=%s replay=%s" % (res.pid, path))
            return 1
        return 0
    sc = obj.get("scenario")
    if not sc:
        print("replay names a broken obligation: %s" % obj.get("failed"))
        return 1
    ok, out = vlib.harness_build()
    if not ok:
        raise vlib.CheckError(out)
    bad = 0
    for i in range(40):
        s = dict(sc, id=i)
        ops = [o for c in s["clients"] for o in c["ops"]]
        s["_mode"] = "incr" if all(o["op"] in ("incr", "decr") for o in ops) else ("getput" if all(o["op"] == "getput" for o in ops) else "mixed")
        s["_init"] = int(bytes.fromhex(s["setup"][0]["v"]).decode()) if s.get("setup") else None
        r = conclib.run_conc(obj["cluster"], [s])[i]
        if judge(s, r):
            bad += 1
            continue
        evs = to_events(s, r)
        init = "None" if s["_init"] is None else "(Some %s)" % cZ(s["_init"])
        v, _ = conclib.lin_eval("c07r", "counter", [(i, init, evs)])
        bad += sum(1 for x in v.values() if x is False)
    print("failing runs out of 40: %d" % bad)
    if bad:
        print("VIOLATION property=%s replay=%s" % (res.pid, path))
        return 1
    return 0
