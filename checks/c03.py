# C03 - rebalancing after joins and leaves neither loses, duplicates nor resurrects keys (DESIGN.md section 9).
import json

import dmaplib
import memberlib
import vlib

PID = "C03"


def gen(rng, sid, N0, R, njoins, leave):
    d = "c03d%d" % sid
    nkeys = rng.randrange(30, 70)
    keys = [dmaplib.hx("%s-k%02d" % (d, i)) for i in range(nkeys)]
    ver = {k: 0 for k in keys}
    live = list(range(N0))
    ops = []

    def burst(n, reads=True):
        out = []
        for _ in range(n):
            k = rng.choice(keys)
            c = rng.choice(["emb%d" % m for m in live] + ["cc"])
            w = rng.random()
            if w < 0.45:
                ver[k] += 1
                out.append({"op": "put", "c": c, "d": d, "k": k, "v": dmaplib.hx("%s#%d" % (k[-6:], ver[k]) + "." * rng.choice([0, 30, 60]))})
            elif w < 0.65:
                out.append({"op": "del", "c": c, "d": d, "k": k})
            elif reads:
                out.append({"op": "get", "c": c, "d": d, "k": k})
        return out

    # load: every key written once, some overwritten (several tables per fragment) and some deleted
    for k in keys:
        ver[k] += 1
        ops.append({"op": "put", "c": "emb%d" % rng.choice(live), "d": d, "k": k, "v": dmaplib.hx("%s#%d" % (k[-6:], ver[k]) + "." * 40)})
    ops += burst(rng.randrange(20, 60))
    for j in range(njoins):
        ops.append({"op": "join"})
        live.append(len(live))
        # after the routing push, before any fragment has moved
        ops.append({"op": "push"})
        ops += burst(rng.randrange(8, 25))
        # between table moves: single balancer runs of single members
        for _ in range(rng.randrange(0, 4)):
            ops.append({"op": "balance", "m": rng.choice(live)})
            ops += burst(rng.randrange(3, 10))
        if rng.random() < 0.7:
            ops.append({"op": "waitstable", "ms": 20000})
            ops += burst(rng.randrange(5, 15))
    if leave and R >= 2 and len(live) > R:
        ops.append({"op": "waitstable", "ms": 20000})
        victim = rng.choice(live)
        ops.append({"op": "stop", "m": victim, "c": "graceful"})
        live.remove(victim)
    ops.append({"op": "waitstable", "ms": 25000})
    ops.append({"op": "fragkeys", "d": d})
    for k in keys:
        for m in live:
            ops.append({"op": "get", "c": "emb%d" % m, "d": d, "k": k})
        ops.append({"op": "dump", "d": d, "k": k})
    ops.append({"op": "scan", "c": "cc", "d": d})
    ops.append({"op": "scan", "c": "emb%d" % live[0], "d": d})
    cluster = {"members": N0, "replicas": R, "partitions": rng.choice([7, 13]), "table": rng.choice([256, 512]), "evict_workers": 1}
    return {"id": sid, "cluster": cluster, "ops": ops, "_R": R, "_nlive": len(live), "_joins": njoins, "_leave": leave}


def judge(sc, obs):
    if len(obs) < len(sc["ops"]):
        return ("env", "scenario aborted")
    ref = {}
    unstable_after_stop = False
    for i, (op, ob) in enumerate(zip(sc["ops"], obs)):
        o, r = op["op"], ob.get("r")
        if o == "join" and r != "ok":
            return ("env", "join failed: %s" % r)
        if o == "waitstable":
            if r != "ok":
                return ("env", "cluster did not stabilise: %s" % r)
            unstable_after_stop = False
        if o == "stop":
            unstable_after_stop = True
        if o == "put":
            if r != "ok":
                if unstable_after_stop:
                    ref.pop(op["k"], None)
                    continue
                return (i, "Put through %s during the hand-over returned %s" % (op["c"], r))
            ref[op["k"]] = op["v"]
        elif o == "del":
            if r != "ok":
                return (i, "Delete through %s during the hand-over returned %s" % (op["c"], r))
            ref.pop(op["k"], None)
        elif o == "get":
            exp = ref.get(op["k"])
            if exp is None and r != "notfound":
                return (i, "key %s is deleted (or was never written); Get through %s returns %s %s" % (op["k"], op["c"], r, (ob.get("val") or "")[:24]))
            if exp is not None and (r != "ok" or ob.get("val") != exp):
                got = bytes.fromhex(ob["val"]).decode(errors="replace").rstrip(".") if ob.get("val") else None
                return (i, "Get through %s returns %s %s, the last acknowledged value is %s" % (op["c"], r, got, bytes.fromhex(exp).decode().rstrip(".")))
        elif o == "dump":
            copies = ob.get("copies", [])
            prim = [c for c in copies if c["kind"] == "p"]
            baks = [c for c in copies if c["kind"] == "b"]
            exp = ref.get(op["k"])
            if exp is None:
                if copies:
                    return (i, "deleted key %s still has %d copies (%s)" % (op["k"], len(copies), [(c["m"], c["kind"]) for c in copies]))
            else:
                # exactly-once primary placement is promised after joins; after a leave the surviving backup copies
                # serve the reads (C02) and a primary copy reappears with the next write
                if len(prim) != 1 and not (sc["_leave"] and len(prim) == 0 and baks):
                    return (i, "live key %s is stored %d times as a primary copy (%s)" % (op["k"], len(prim), [c["m"] for c in prim]))
                if prim and prim[0]["val"] != exp:
                    return (i, "the primary copy of %s holds an old value" % op["k"])
                want = min(sc["_R"], sc["_nlive"]) - 1
                if len(baks) < want and not sc["_leave"]:
                    return (i, "live key %s has %d backup copies, expected %d" % (op["k"], len(baks), want))
                for b in baks:
                    if b["val"] != exp:
                        return (i, "a backup copy of %s holds an old value" % op["k"])
        elif o == "scan":
            exp = sorted(ref)
            if sorted(ob.get("keys") or []) != exp:
                got = ob.get("keys") or []
                return (i, "scan through %s yields %d keys (%d distinct), %d are live; missing %s, extra %s" % (
                    op["c"], len(got), len(set(got)), len(exp), sorted(set(exp) - set(got))[:3], sorted(set(got) - set(exp))[:3]))
    return None


def run(res):
    proofs_ok = vlib.common_obligations(res, PID)
    if getattr(res, "harness_error", None):
        res.violation({"kind": "harness-build", "failed": "correspondence: the harness no longer compiles against /repo",
                       "detail": res.harness_error[-3000:]}, no_input=True)
        res.coverage.update({"evaluations": 0, "distinct_nontrivial": 0})
        return
    n = 36 if res.tier == "quick" else 240
    scs = []
    for i in range(n):
        rng = vlib.rng_for(res.seed, PID, i)
        R = rng.choice([1, 2, 2])
        N0 = rng.choice([1, 2]) if R == 1 else rng.choice([2, 3])
        scs.append(gen(rng, i, N0, R, rng.choice([1, 2, 3]) if res.tier == "quick" else rng.choice([1, 2, 3, 4]), rng.random() < 0.3))
    results = memberlib.run_membership(scs, jobs=6)
    failures, envfail = [], 0
    for sc in scs:
        r = results[sc["id"]]
        if r.get("env", {}).get("error"):
            envfail += 1
            continue
        v = judge(sc, r["obs"])
        if v and v[0] == "env":
            envfail += 1
            continue
        if v:
            failures.append((sc, r, v))
    if envfail * 3 > len(scs):
        raise vlib.CheckError("%d of %d rebalancing scenarios could not start or stabilise (environment)" % (envfail, len(scs)))
    for sc, r, v in failures[:5]:
        k = sc["ops"][v[0]].get("k")
        mini = [o for o in sc["ops"][:v[0] + 1] if o.get("k") == k or o["op"] in ("join", "push", "balance", "waitstable", "stop")]
        res.violation({"kind": "impl-violates-property", "cluster": sc["cluster"], "scenario": {"ops": sc["ops"]}, "ops_on_failing_key": mini[-30:],
                       "failed_step": v[0], "predicate": {"name": "reads follow data / no loss / no resurrection / exactly-once placement", "verdict": v[1]},
                       "_R": sc["_R"], "_nlive": sc["_nlive"], "_leave": sc["_leave"], "seed": res.seed})
    if not proofs_ok and not res.violations:
        broken = [o for o in res.obligations if not o["ok"]]
        res.violation({"kind": "obligation-broken", "failed": [o["theorem"] for o in broken],
                       "detail": [o.get("detail", o.get("axioms")) for o in broken]}, no_input=True)
    res.coverage.update({
        "evaluations": len(scs), "distinct_nontrivial": len(scs) - envfail,
        "rule": "one real cluster per scenario grown from 1-3 members by 1-3 (thorough: 4) joins, R in {1,2}, table 256/512 bytes so that fragments span several tables; "
                "30-70 keys loaded, overwritten and deleted; after each join: routing push, a burst of puts/deletes/gets through every member and a cluster client BEFORE any "
                "fragment moved, then single balancer runs of single members (one table per fragment) with bursts in between, then stabilisation (optional) and another "
                "burst; optional graceful leave; every Get at every point must return the last acknowledged value / not-found; at quiescence: every key from every member, "
                "white-box copies (exactly one primary copy with the current value, R-1 backup copies, none for deleted keys), scans through cluster and embedded clients",
        "environment_failures": envfail, "predicate_failures": len(failures), "traces_validated_against_impl": len(scs) - envfail,
        "samples": [{"cluster": scs[0]["cluster"], "joins": scs[0]["_joins"], "ops": [o for o in scs[0]["ops"] if o["op"] in ("join", "push", "balance", "waitstable", "stop")][:12]}],
    })


def replay(res, path):
    obj = json.load(open(path))
    sc = obj.get("scenario")
    if not sc:
        print("replay names a broken obligation: %s" % obj.get("failed"))
        return 1
    ok, out = vlib.harness_build()
    if not ok:
        raise vlib.CheckError(out)
    s = {"id": 0, "cluster": obj["cluster"], "ops": sc["ops"], "_R": obj.get("_R", 1), "_nlive": obj.get("_nlive", 1), "_leave": obj.get("_leave", False)}
    r = memberlib.run_membership([s])[0]
    v = judge(s, r["obs"])
    print(json.dumps({"verdict": v}))
    if v and v[0] != "env":
        print("VIOLATION property=%s replay=%s" % (res.pid, path))
        return 1
    return 0
