# C03 - rebalancing after joins and leaves neither loses, duplicates nor resurrects keys (DESIGN.md section 9).
import json

import balancelib
import dmaplib
import memberlib
import vlib

PID = "C03"


def gen(rng, sid, N0, R, njoins, leave):
    # some DMap names start with the fragment-name prefix itself (D41: such a DMap lost its keys on every hand-over)
    d = ("dmap.c03d%d" if sid % 4 == 1 else "c03d%d") % sid
    nkeys = rng.randrange(30, 70)
    keys = [dmaplib.hx("%s-k%02d" % (d, i)) for i in range(nkeys)]
    ver = {k: 0 for k in keys}
    live = list(range(N0))
    ops = []

    def burst(n, reads=True):
        out = []
        for _ in range(n):
            k = rng.choice(keys)
            c = rng.choice(["emb%d" % m for m in live] + ["cc"])
            w = rng.random()
            if w < 0.45:
                ver[k] += 1
                out.append({"op": "put", "c": c, "d": d, "k": k, "v": dmaplib.hx("%s#%d" % (k[-6:], ver[k]) + "." * rng.choice([0, 30, 60]))})
            elif w < 0.65:
                out.append({"op": "del", "c": c, "d": d, "k": k})
            elif reads:
                out.append({"op": "get", "c": c, "d": d, "k": k})
        return out

    # load: every key written once, some overwritten (several tables per fragment) and some deleted
    for k in keys:
        ver[k] += 1
        ops.append({"op": "put", "c": "emb%d" % rng.choice(live), "d": d, "k": k, "v": dmaplib.hx("%s#%d" % (k[-6:], ver[k]) + "." * 40)})
    ops += burst(rng.randrange(20, 60))
    # keys that expire while their partition is being handed over (the previous owner still holds them when their
    # deadline passes): D42 - a previous owner's eviction worker blocked the fragment for ~12 s per expired key
    expiring = [dmaplib.hx("%s-e%02d" % (d, i)) for i in range(12)] if sid % 3 == 2 else []
    for j in range(njoins):
        if j == 0:
            for k in expiring:
                ops.append({"op": "put", "c": "emb%d" % rng.choice(live), "d": d, "k": k, "v": dmaplib.hx("soon gone"), "px": 300, "_expiring": True})
        ops.append({"op": "join"})
        live.append(len(live))
        # after the routing push, before any fragment has moved
        ops.append({"op": "push"})
        if j == 0 and expiring:
            ops.append({"op": "sleep", "ms": 450})
            for k in expiring:
                ops.append({"op": "get", "c": "emb%d" % rng.choice(live), "d": d, "k": k, "_expiring": True})
        ops += burst(rng.randrange(8, 25))
        # between table moves: single balancer runs of single members
        for _ in range(rng.randrange(0, 4)):
            ops.append({"op": "balance", "m": rng.choice(live)})
            ops += burst(rng.randrange(3, 10))
        if rng.random() < 0.7:
            ops.append({"op": "waitstable", "ms": 20000})
            ops += burst(rng.randrange(5, 15))
    if leave and R >= 2 and len(live) > R:
        ops.append({"op": "waitstable", "ms": 20000})
        victim = rng.choice(live)
        ops.append({"op": "stop", "m": victim, "c": "graceful"})
        live.remove(victim)
    ops.append({"op": "waitstable", "ms": 25000})
    ops.append({"op": "fragkeys", "d": d})
    for k in keys:
        for m in live:
            ops.append({"op": "get", "c": "emb%d" % m, "d": d, "k": k})
        ops.append({"op": "dump", "d": d, "k": k})
    ops.append({"op": "scan", "c": "cc", "d": d})
    ops.append({"op": "scan", "c": "emb%d" % live[0], "d": d})
    # no timer-driven balancer / routing push: the hand-over advances only at the explicit push / balance / waitstable
    # operations, so that every other operation falls BETWEEN its steps (operations racing a move in flight are D43)
    cluster = {"members": N0, "replicas": R, "partitions": rng.choice([7, 13]), "table": rng.choice([256, 512]), "evict_workers": 1,
               "balancer_ms": 3600000, "push_ms": 3600000}
    model = (sid % 2 == 0) and not leave and not expiring
    if model:
        # model correspondence: a white-box dump after every operation
        ops2 = [{"op": "hstate", "d": d}]
        for o in ops:
            ops2.append(o)
            if o["op"] not in ("dump", "fragkeys", "scan"):
                ops2.append({"op": "hstate", "d": d})
        ops = ops2
    return {"id": sid, "cluster": cluster, "ops": ops, "_R": R, "_nlive": len(live), "_joins": njoins, "_leave": leave,
            "_model": model, "_N0": N0}


STALL_MS = 5000      # no single Put/Get/Delete takes that long in-process unless it waits for a lock or a network timeout


CRASH_POINTS = [("move.exported", "self"),      # the sender is lost before anything was sent
                ("move.sent", "self"),          # the sender is lost after the owner merged the table, before its Drop
                ("move.sent", "receiver"),      # the new owner is lost after it merged and acknowledged (the sender drops)
                ("merge.begin", "self"),        # the new owner is lost before the import
                ("merge.entry", "self")]        # the new owner is lost in the middle of the import


def gen_crash(rng, sid, point, victim):
    """3 members, R=2: load, arm a fail point, join a 4th member and run the balancer of the old members one by one: the
    victim stops abruptly at the armed step of some fragment move; then stabilise and read everything back"""
    d = "c03x%d" % sid
    nkeys = rng.randrange(30, 60)
    keys = [dmaplib.hx("%s-k%02d" % (d, i)) for i in range(nkeys)]
    ver = {k: 0 for k in keys}
    paths = ["emb@owner", "emb@other", "emb@backup", "cc"]
    ops = []

    def burst(n, cs=paths):
        out = []
        for _ in range(n):
            k = rng.choice(keys)
            c = rng.choice(cs)
            w = rng.random()
            if w < 0.45:
                ver[k] += 1
                out.append({"op": "put", "c": c, "d": d, "k": k, "v": dmaplib.hx("%s#%d" % (k[-6:], ver[k]) + "." * rng.choice([0, 30, 60]))})
            elif w < 0.65:
                out.append({"op": "del", "c": c, "d": d, "k": k})
            else:
                out.append({"op": "get", "c": c, "d": d, "k": k})
        return out

    for k in keys:
        ver[k] += 1
        ops.append({"op": "put", "c": rng.choice(paths), "d": d, "k": k, "v": dmaplib.hx("%s#%d" % (k[-6:], ver[k]) + "." * 40)})
    ops += burst(rng.randrange(20, 50))
    ops.append({"op": "arm", "c": point, "tok": victim, "m": rng.choice([1, 1, 2, 3]) if point != "merge.entry" else rng.choice([1, 2, 4, 7])})
    ops.append({"op": "join"})
    ops.append({"op": "push"})
    order = [0, 1, 2]
    rng.shuffle(order)
    for m in order:
        ops.append({"op": "balance", "m": m})
        ops += burst(rng.randrange(2, 6), cs=["cc"])
    ops.append({"op": "fired"})
    ops.append({"op": "waitstable", "ms": 30000})
    ops += burst(rng.randrange(10, 25))
    ops.append({"op": "waitstable", "ms": 30000})
    for k in keys:
        for c in paths:
            ops.append({"op": "get", "c": c, "d": d, "k": k})
        ops.append({"op": "dump", "d": d, "k": k})
    ops.append({"op": "scan", "c": "cc", "d": d})
    ops2 = [{"op": "hstate", "d": d}]
    for o in ops:
        ops2.append(o)
        if o["op"] not in ("dump", "fragkeys", "scan", "get", "arm", "fired"):
            ops2.append({"op": "hstate", "d": d})
    cluster = {"members": 3, "replicas": 2, "partitions": 7, "table": rng.choice([256, 512]), "evict_workers": 1,
               "balancer_ms": 3600000, "push_ms": 3600000}
    return {"id": sid, "cluster": cluster, "ops": ops2, "_R": 2, "_nlive": 3, "_joins": 1, "_leave": True, "_crash": (point, victim),
            "_model": False, "_N0": 3}


def colocated_keys(sc, obs):
    """D40: keys whose every copy sat on the lost member when it was lost, although ReplicaCount copies existed: the
    primary copy had (just) been moved onto the member that still held the partition's backup copy.  Returns the
    key set and the victim.  A key counts only if no survivor holds a copy afterwards and every copy a survivor held
    in the last dump before the loss was a primary-kind copy of a previous owner whose partition owner was the
    victim, or a backup-kind copy of an old backup owner whose current backup owner was the victim (i.e. it was
    legitimately handed over to the victim); any other lost copy on a survivor is never explained."""
    victim = None
    for op, ob in zip(sc["ops"], obs):
        if op["op"] == "fired" and ob.get("fired"):
            victim = ob["fired"].get("victim")
    if victim is None or victim < 0:
        return set(), victim
    pre = post = None
    for op, ob in zip(sc["ops"], obs):
        if op["op"] != "hstate" or ob.get("r") != "ok":
            continue
        if any(c[0] == victim for c in ob["copies"]):
            pre, post = ob, None
        elif pre is not None and post is None:
            post = ob
    if pre is None or post is None:
        return set(), victim
    owner_of, backup_of = {}, {}
    for p in pre["parts"]:
        ow = p["owners"] or []
        bw = p["backups"] or []
        owner_of[p["p"]] = ow[-1] if ow else None
        backup_of[p["p"]] = bw[-1] if bw else None
    after = {c[3] for c in post["copies"]}
    out = set()
    for key in {c[3] for c in pre["copies"]}:
        if key in after:
            continue
        cs = [c for c in pre["copies"] if c[3] == key]
        on_victim = [c for c in cs if c[0] == victim]
        others = [c for c in cs if c[0] != victim]
        # a survivor's copy that legitimately went to the victim: the primary fragment of a previous owner whose partition
        # owner was the victim, or the backup fragment of an old backup owner whose current backup owner was the victim
        if on_victim and all((c[1] == "p" and owner_of.get(c[2]) == victim) or (c[1] == "b" and backup_of.get(c[2]) == victim)
                             for c in others):
            out.add(key)
    return out, victim


def gen_d40(rng, sid):
    """the D40 witness, directed: the harness looks for a partition whose new primary owner still holds the backup
    copy, lets the previous owner hand the primary fragment over and stops the new owner before it has moved its
    backup fragment on (op "colocate")"""
    d = "c03y%d" % sid
    keys = [dmaplib.hx("%s-k%02d" % (d, i)) for i in range(60)]
    paths = ["emb@owner", "emb@other", "emb@backup", "cc"]
    ops = [{"op": "put", "c": rng.choice(paths), "d": d, "k": k, "v": dmaplib.hx("%s#1" % k[-6:] + "." * 20)} for k in keys]
    ops += [{"op": "arm", "c": "none", "tok": "self", "m": 1}, {"op": "join"}, {"op": "push"}, {"op": "colocate", "d": d}, {"op": "fired"},
            {"op": "waitstable", "ms": 30000}]
    for k in keys:
        ops.append({"op": "get", "c": rng.choice(paths), "d": d, "k": k})
    ops2 = [{"op": "hstate", "d": d}]
    for o in ops:
        ops2.append(o)
        if o["op"] not in ("get", "arm", "fired"):
            ops2.append({"op": "hstate", "d": d})
    cluster = {"members": 3, "replicas": 2, "partitions": 13, "table": 512, "evict_workers": 1, "balancer_ms": 3600000, "push_ms": 3600000}
    return {"id": sid, "cluster": cluster, "ops": ops2, "_R": 2, "_nlive": 3, "_joins": 1, "_leave": True, "_crash": ("colocate", "owner"),
            "_model": False, "_N0": 3}


def gen_d43(rng, sid):
    """the D43 witness, directed (harness op "d43"): a Delete stopped right after it took the owner's fragment lock, the
    previous owner's move of the same partition started meanwhile, the Delete released; the lock cycle is broken by client
    timeouts and the acknowledged Delete is undone by the merges still queued on the owner"""
    d = "c03z%d" % sid
    keys = [dmaplib.hx("%s-k%02d" % (d, i)) for i in range(40)]
    ops = [{"op": "put", "c": "emb0", "d": d, "k": k, "v": dmaplib.hx("%s#1" % k[-6:])} for k in keys]
    ops += [{"op": "join"}, {"op": "push"}, {"op": "d43", "d": d}, {"op": "waitstable", "ms": 30000}]
    for k in keys:
        ops.append({"op": "get", "c": rng.choice(["emb0", "emb1", "cc"]), "d": d, "k": k})
    cluster = {"members": 1, "replicas": 1, "partitions": 7, "table": 4096, "evict_workers": 1, "balancer_ms": 3600000, "push_ms": 3600000}
    return {"id": sid, "cluster": cluster, "ops": ops, "_R": 1, "_nlive": 2, "_joins": 1, "_leave": False, "_model": False, "_N0": 1, "_d43": True}


def gen_leave_before_move(rng, sid):
    """a member joins and becomes the owner of some partitions; before ANY table has moved every key is overwritten (the new
    owner and the backup owners take the new versions, the previous owner keeps the old ones in its primary fragment); then
    the new owner leaves and the partitions fall back to the previous owner: reads must return the overwritten values, which
    now live in the backup copies only. Timers off: fully determined by the script."""
    d = "c03v%d" % sid
    keys = [dmaplib.hx("%s-k%02d" % (d, i)) for i in range(48)]
    ops = [{"op": "put", "c": rng.choice(["emb0", "emb1", "cc"]), "d": d, "k": k, "v": dmaplib.hx("%s#1" % k[-6:])} for k in keys]
    ops += [{"op": "join"}, {"op": "push"}, {"op": "waitsame"}]
    for k in keys:
        ops.append({"op": "put", "c": rng.choice(["emb2", "emb0", "cc"]), "d": d, "k": k, "v": dmaplib.hx("%s#2" % k[-6:])})
    ops += [{"op": "stop", "m": 2, "c": rng.choice(["graceful", "abrupt"])}, {"op": "waitstable", "ms": 30000}]
    for k in keys:
        ops.append({"op": "get", "c": rng.choice(["emb0", "emb1"]), "d": d, "k": k})
        ops.append({"op": "get", "c": "cc", "d": d, "k": k})
    cluster = {"members": 2, "replicas": 2, "partitions": 7, "table": 256, "evict_workers": 1, "balancer_ms": 3600000, "push_ms": 3600000}
    return {"id": sid, "cluster": cluster, "ops": ops, "_R": 2, "_nlive": 2, "_joins": 1, "_leave": True, "_model": False, "_N0": 2}


def gen_d46(rng, sid):
    """D46 (repaired), directed (harness op "d46"): the receiver of a fragment move has looked its fragment up (created it,
    empty) and waits for its lock when the receiver's janitor passes and removes the empty fragment; the import must go into the
    fragment that is registered afterwards, not into the detached one (the sender drops its table on OK)"""
    d = "c03j%d" % sid
    keys = [dmaplib.hx("%s-k%02d" % (d, i)) for i in range(60)]
    ops = [{"op": "put", "c": "emb0", "d": d, "k": k, "v": dmaplib.hx("%s#1" % k[-6:])} for k in keys]
    ops += [{"op": "join"}, {"op": "push"}, {"op": "d46", "c": "write.loaded"}]
    for _ in range(6):
        ops += [{"op": "balance", "m": 0}, {"op": "balance", "m": 1}]
    ops.append({"op": "waitstable", "ms": 30000})
    for k in keys:
        ops.append({"op": "get", "c": rng.choice(["emb0", "emb1", "cc"]), "d": d, "k": k})
    cluster = {"members": 1, "replicas": 1, "partitions": 7, "table": 4096, "evict_workers": 1, "balancer_ms": 3600000, "push_ms": 3600000}
    return {"id": sid, "cluster": cluster, "ops": ops, "_R": 1, "_nlive": 2, "_joins": 1, "_leave": False, "_model": False, "_N0": 1, "_d46": True}


def judge(sc, obs):
    if len(obs) < len(sc["ops"]):
        return ("env", "scenario aborted")
    ref = {}
    d40 = sc.get("_d40") or set()
    ambiguous = set()          # keys whose last Put/Delete failed while a member was being lost: outcome unknown
    unstable_after_stop = False
    for i, (op, ob) in enumerate(zip(sc["ops"], obs)):
        o, r = op["op"], ob.get("r")
        if o in ("put", "get", "del") and not unstable_after_stop and ob.get("t1", 0) - ob.get("t0", 0) > STALL_MS:
            return (i, "%s through %s took %d ms during the hand-over (returned %s)" % (o, op.get("c"), ob["t1"] - ob["t0"], r))
        if op.get("_expiring"):
            if o == "get" and r not in ("notfound",):
                return (i, "Get of a key whose deadline passed 150 ms ago returned %s during the hand-over" % r)
            continue
        if o == "join" and r != "ok":
            return ("env", "join failed: %s" % r)
        if o == "waitsame" and r != "ok":
            return ("env", "the members' routing tables did not become equal: %s" % r)
        if o == "waitstable":
            if r != "ok":
                return ("env", "cluster did not stabilise: %s" % r)
            unstable_after_stop = False
        if o == "d46":
            if str(r).startswith("harness:"):
                return ("env", r)
            if not ob.get("hit"):
                sc["_d46_nohit"] = i
            continue
        if o == "d43":
            if ob.get("found"):
                if ob.get("del") == "ok":
                    ref.pop(ob["k"], None)
                    if ob.get("get") == "ok":
                        # reported by the caller as D43 (known finding) or as a violation
                        sc["_d43_hit"] = (i, "an acknowledged Delete (%d ms, racing the move of its partition) was undone: Get returns %s" % (
                            ob.get("ms", 0), bytes.fromhex(ob.get("val", "")).decode(errors="replace")))
                        ambiguous.add(ob["k"])
                else:
                    ambiguous.add(ob["k"])
            continue
        if o in ("stop", "arm"):
            unstable_after_stop = True
        if o == "put":
            if r != "ok":
                if unstable_after_stop:
                    ref.pop(op["k"], None)
                    ambiguous.add(op["k"])
                    continue
                return (i, "Put through %s during the hand-over returned %s" % (op["c"], r))
            ref[op["k"]] = op["v"]
            ambiguous.discard(op["k"])
        elif o == "del":
            if r != "ok":
                if unstable_after_stop:
                    ambiguous.add(op["k"])
                    continue
                return (i, "Delete through %s during the hand-over returned %s" % (op["c"], r))
            ref.pop(op["k"], None)
            ambiguous.discard(op["k"])
        elif o == "get":
            if unstable_after_stop or op["k"] in ambiguous or op["k"] in d40:
                continue
            exp = ref.get(op["k"])
            if exp is None and r != "notfound":
                return (i, "key %s is deleted (or was never written); Get through %s returns %s %s" % (op["k"], op["c"], r, (ob.get("val") or "")[:24]))
            if exp is not None and (r != "ok" or ob.get("val") != exp):
                got = bytes.fromhex(ob["val"]).decode(errors="replace").rstrip(".") if ob.get("val") else None
                return (i, "Get through %s returns %s %s, the last acknowledged value is %s" % (op["c"], r, got, bytes.fromhex(exp).decode().rstrip(".")))
        elif o == "dump":
            if op["k"] in ambiguous or op["k"] in d40:
                continue
            copies = ob.get("copies", [])
            prim = [c for c in copies if c["kind"] == "p"]
            baks = [c for c in copies if c["kind"] == "b"]
            exp = ref.get(op["k"])
            if exp is None:
                if copies:
                    return (i, "deleted key %s still has %d copies (%s)" % (op["k"], len(copies), [(c["m"], c["kind"]) for c in copies]))
            else:
                # exactly-once primary placement is promised after joins; after a leave the surviving backup copies
                # serve the reads (C02) and a primary copy reappears with the next write
                if len(prim) != 1 and not (sc["_leave"] and len(prim) == 0 and baks):
                    return (i, "live key %s is stored %d times as a primary copy (%s)" % (op["k"], len(prim), [c["m"] for c in prim]))
                if sc.get("_crash"):
                    # after the loss of the owner the previous owner's (older) copy is the primary copy again and the
                    # newest one lives on the backup owner: reads resolve it (checked by the Gets and by the model)
                    continue
                if prim and prim[0]["val"] != exp:
                    return (i, "the primary copy of %s holds an old value" % op["k"])
                want = min(sc["_R"], sc["_nlive"]) - 1
                if len(baks) < want and not sc["_leave"]:
                    return (i, "live key %s has %d backup copies, expected %d" % (op["k"], len(baks), want))
                for b in baks:
                    if b["val"] != exp:
                        return (i, "a backup copy of %s holds an old value" % op["k"])
        elif o == "scan":
            exp = sorted(ref)
            if ambiguous or d40:
                continue
            # a scan may still list a key whose deadline has passed but which has not been evicted yet (C09 enumerates the
            # operations that must not observe it; scans are not among them, C12 speaks of deleted and never stored keys)
            gone = {o["k"] for o in sc["ops"] if o.get("_expiring")}
            if sorted(k for k in (ob.get("keys") or []) if k not in gone) != exp:
                got = [k for k in (ob.get("keys") or []) if k not in gone]
                return (i, "scan through %s yields %d keys (%d distinct), %d are live; missing %s, extra %s" % (
                    op["c"], len(got), len(set(got)), len(exp), sorted(set(exp) - set(got))[:3], sorted(set(got) - set(exp))[:3]))
    return None


def run(res):
    proofs_ok = vlib.common_obligations(res, PID)
    if getattr(res, "harness_error", None):
        res.violation({"kind": "harness-build", "failed": "correspondence: the harness no longer compiles against /repo",
                       "detail": res.harness_error[-3000:]}, no_input=True)
        res.coverage.update({"evaluations": 0, "distinct_nontrivial": 0})
        return
    # the balancer's decisions (which fragments a run moves, and where): real primaryCopies/backupCopies over recording
    # fragments against Model/Balancer.v
    import balancerlib
    nbal = balancerlib.run(res, PID)
    n = 36 if res.tier == "quick" else 240
    scs = []
    for i in range(n):
        rng = vlib.rng_for(res.seed, PID, i)
        R = rng.choice([1, 2, 2])
        N0 = rng.choice([1, 2]) if R == 1 else rng.choice([2, 3])
        scs.append(gen(rng, i, N0, R, rng.choice([1, 2, 3]) if res.tier == "quick" else rng.choice([1, 2, 3, 4]), rng.random() < 0.3))
    ncrash = 10 if res.tier == "quick" else 80
    for j in range(ncrash):
        point, victim = CRASH_POINTS[j % len(CRASH_POINTS)]
        scs.append(gen_crash(vlib.rng_for(res.seed, PID, "crash", j), 10000 + j, point, victim))
    for j in range(2 if res.tier == "quick" else 8):
        scs.append(gen_d40(vlib.rng_for(res.seed, PID, "d40", j), 20000 + j))
    for j in range(1 if res.tier == "quick" else 3):
        scs.append(gen_d43(vlib.rng_for(res.seed, PID, "d43", j), 30000 + j))
    for j in range(2 if res.tier == "quick" else 6):
        scs.append(gen_d46(vlib.rng_for(res.seed, PID, "d46", j), 40000 + j))
    for j in range(2 if res.tier == "quick" else 8):
        scs.append(gen_leave_before_move(vlib.rng_for(res.seed, PID, "lbm", j), 45000 + j))
    results = memberlib.run_membership(scs, jobs=6)
    failures, envfail = [], 0
    d40_scenarios, d40_keys = 0, 0
    kf40 = vlib.match_known(PID, {"kind": "copies-colocated-on-lost-member"})
    for sc in scs:
        r = results[sc["id"]]
        if r.get("env", {}).get("error") or r.get("env", {}).get("flapped"):
            envfail += 1
            continue
        if sc.get("_crash") and kf40 and len(r["obs"]) >= len(sc["ops"]):
            ks, victim = colocated_keys(sc, r["obs"])
            # only keys that had been written (acknowledged) count; the set is excluded from the judgement below and
            # from the model comparison, and reported as the known finding
            if ks:
                sc["_d40"] = ks
                d40_scenarios += 1
                d40_keys += len(ks)
        v = judge(sc, r["obs"])
        if v and v[0] == "env":
            envfail += 1
            continue
        if v:
            failures.append((sc, r, v))
        elif sc.get("_d43_hit"):
            kf43 = vlib.match_known(PID, {"kind": "delete-races-move"})
            if kf43:
                res.known_finding(kf43["description"] + " [this run: %s]" % sc["_d43_hit"][1])
                res.coverage["d43_reproduced"] = res.coverage.get("d43_reproduced", 0) + 1
            else:
                failures.append((sc, r, sc["_d43_hit"]))
    # D46 window: the directed scenarios hold the receiver of a move between the lookup of its fragment and the lock. When no
    # move passes that fail point any more the window is not probed: the tie between Model/Lifecycle.v (the receiver takes the
    # current fragment under its lock) and mergeFragments is broken.
    d46 = [sc for sc in scs if sc.get("_d46") and len(results[sc["id"]].get("obs", [])) >= len(sc["ops"])
           and not results[sc["id"]].get("env", {}).get("error")]
    res.coverage["d46_window_probed"] = sum(1 for sc in d46 if sc.get("_d46_nohit") is None)
    if d46 and all(sc.get("_d46_nohit") is not None for sc in d46) and not failures:
        res.violation({"kind": "correspondence", "failed": "correspondence Model/Lifecycle.v vs internal/dmap mergeFragments: no fragment move reached the fail point "
                       "write.loaded (loadOrCreateFragmentForWrite) in %d directed scenarios; the receiver of a move no longer takes its fragment the way "
                       "the write paths do, the janitor window (D46) cannot be probed" % len(d46),
                       "scenario": {"ops": d46[0]["ops"]}, "cluster": d46[0]["cluster"]}, no_input=True)
    if envfail * 3 > len(scs):
        raise vlib.CheckError("%d of %d rebalancing scenarios could not start or stabilise (environment)" % (envfail, len(scs)))
    # A failure of a whole-cluster scenario is reported when it shows again in one of three re-runs of the same scenario:
    # scenarios on real clusters depend on memberlist, ports and scheduling, and a single unrepeatable failure cannot be
    # told from such an incident (it is counted and described in the evidence instead).
    confirmed, unrepeated = [], []
    for sc, r, v in failures[:8]:
        again = None
        for attempt in range(3):
            s2 = {kk: vv for kk, vv in sc.items() if kk not in ("_d40", "_d43_hit")}
            r2 = memberlib.run_membership([s2])[s2["id"]]
            if r2.get("env", {}).get("error") or r2.get("env", {}).get("flapped") or len(r2["obs"]) < len(s2["ops"]):
                continue
            if s2.get("_crash") and vlib.match_known(PID, {"kind": "copies-colocated-on-lost-member"}):
                ks, _ = colocated_keys(s2, r2["obs"])
                if ks:
                    s2["_d40"] = ks
            v2 = judge(s2, r2["obs"])
            if v2 and v2[0] != "env":
                again = (s2, r2, v2)
                break
        if again:
            confirmed.append(again)
        else:
            unrepeated.append({"scenario_id": sc["id"], "cluster": sc["cluster"], "verdict": v[1], "failed_step": v[0]})
    res.coverage["unrepeated_failures"] = unrepeated
    for u in unrepeated:
        vlib.log("[c03] note: scenario %s failed once (%s) and passed 3 re-runs; not reported" % (u["scenario_id"], u["verdict"][:120]))
    for sc, r, v in confirmed[:5]:
        k = sc["ops"][v[0]].get("k")
        mini = [o for o in sc["ops"][:v[0] + 1] if o.get("k") == k or o["op"] in ("join", "push", "balance", "waitstable", "stop")]
        res.violation({"kind": "impl-violates-property", "cluster": sc["cluster"], "scenario": {"ops": sc["ops"]}, "ops_on_failing_key": mini[-30:],
                       "failed_step": v[0], "predicate": {"name": "reads follow data / no loss / no resurrection / exactly-once placement", "verdict": v[1]},
                       "_R": sc["_R"], "_nlive": sc["_nlive"], "_leave": sc["_leave"], "seed": res.seed})
    # model correspondence (Model/Balance.v, BalanceCrash.v evaluated by Coq on the abstracted dumps)
    tcases, scases = [], []
    mstats = {}
    ccases = []
    fired = {}
    for sc in scs:
        r = results[sc["id"]]
        if not (sc.get("_model") or sc.get("_crash")) or r.get("env", {}).get("error") or r.get("env", {}).get("flapped") or len(r["obs"]) < len(sc["ops"]):
            continue
        if sc.get("_crash"):
            f = [ob.get("fired") for op, ob in zip(sc["ops"], r["obs"]) if op["op"] == "fired"]
            key = "%s/%s" % sc["_crash"]
            fired.setdefault(key, [0, 0])
            fired[key][0] += 1
            fired[key][1] += 1 if (f and f[0]) else 0
        t, s_, st = balancelib.build_cases(sc, r["obs"], with_backup=(sc["_R"] == 2 and sc["_N0"] >= 2), crash=bool(sc.get("_crash")),
                                           exclude=sc.get("_d40") or set())
        tcases += t
        scases += s_
        ccases += st.pop("crash_states")
        for k, v in st.items():
            if isinstance(v, dict):
                d0 = mstats.setdefault(k, {})
                for kk, vv in v.items():
                    d0[kk] = d0.get(kk, 0) + vv
            else:
                mstats[k] = mstats.get(k, 0) + v
    badc = balancelib.coq_mismatches("c03c", "scase", "sc_mismatches", ccases)
    badt = balancelib.coq_mismatches("c03t", "tcase", "t_mismatches", tcases)
    bads = balancelib.coq_mismatches("c03s", "scase", "s_mismatches", scases)
    byid = {sc["id"]: sc for sc in scs}
    casetext = {("transition",) + t: x for t, x in tcases}
    casetext.update({("state",) + t: x for t, x in scases})
    casetext.update({("state-after-member-loss",) + t: x for t, x in ccases})
    for kind, bad in (("transition", badt), ("state", bads), ("state-after-member-loss", badc)):
        for (sid, step, part) in bad[:3]:
            sc = byid[sid]
            res.violation({"kind": "model-vs-impl", "what": kind, "cluster": sc["cluster"], "scenario": {"ops": sc["ops"]}, "failed_step": step,
                           "partition": part, "op": sc["ops"][step], "model_case": casetext.get((kind, sid, step, part), "")[:6000],
                           "theorem_or_correspondence": "Model/BalanceRun.v %s on the abstracted white-box dump" % {"transition": "explains", "state": "state_ok"}.get(kind, "state_ok_crash"),
                           "_R": sc["_R"], "_nlive": sc["_nlive"], "_leave": sc["_leave"], "seed": res.seed}, no_input=True)
    res.coverage["model"] = dict(mstats, transition_cases=len(tcases), state_cases=len(scases), crash_state_cases=len(ccases),
                                 transition_mismatches=len(badt), state_mismatches=len(bads), crash_state_mismatches=len(badc))
    if d40_scenarios:
        res.known_finding(kf40["description"] + " [this run: %d keys in %d scenarios]" % (d40_keys, d40_scenarios))
    res.coverage["d40_scenarios"] = d40_scenarios
    res.coverage["fail_points"] = {k: {"scenarios": v[0], "fired": v[1]} for k, v in fired.items()}
    if not proofs_ok and not res.violations:
        broken = [o for o in res.obligations if not o["ok"]]
        res.violation({"kind": "obligation-broken", "failed": [o["theorem"] for o in broken],
                       "detail": [o.get("detail", o.get("axioms")) for o in broken]}, no_input=True)
    res.coverage.update({
        "evaluations": len(scs) + nbal, "distinct_nontrivial": len(scs) - envfail,
        "rule": "one real cluster per scenario grown from 1-3 members by 1-3 (thorough: 4) joins, R in {1,2}, table 256/512 bytes so that fragments span several tables; "
                "30-70 keys loaded, overwritten and deleted; after each join: routing push, a burst of puts/deletes/gets through every member and a cluster client BEFORE any "
                "fragment moved, then single balancer runs of single members (one table per fragment) with bursts in between, then stabilisation (optional) and another "
                "burst; optional graceful leave; every Get at every point must return the last acknowledged value / not-found; at quiescence: every key from every member, "
                "white-box copies (exactly one primary copy with the current value, R-1 backup copies, none for deleted keys), scans through cluster and embedded clients",
        "environment_failures": envfail, "predicate_failures": len(failures), "traces_validated_against_impl": len(scs) - envfail,
        "samples": [{"cluster": scs[0]["cluster"], "joins": scs[0]["_joins"], "ops": [o for o in scs[0]["ops"] if o["op"] in ("join", "push", "balance", "waitstable", "stop")][:12]}],
    })


def replay(res, path):
    obj = json.load(open(path))
    if obj.get("part") == "balancer-decisions":
        import balancerlib
        return balancerlib.replay(res, obj, path)
    sc = obj.get("scenario")
    if not sc:
        print("replay names a broken obligation: %s" % obj.get("failed"))
        return 1
    ok, out = vlib.harness_build()
    if not ok:
        raise vlib.CheckError(out)
    s = {"id": 0, "cluster": obj["cluster"], "ops": sc["ops"], "_R": obj.get("_R", 1), "_nlive": obj.get("_nlive", 1), "_leave": obj.get("_leave", False)}
    r = memberlib.run_membership([s])[0]
    v = judge(s, r["obs"])
    print(json.dumps({"verdict": v}))
    if v and v[0] != "env":
        print("VIOLATION property=%s replay=%s" % (res.pid, path))
        return 1
    return 0
