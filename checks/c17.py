# C17 - values and keys read back identical to what was written (DESIGN.md section 9, fixes/DESIGN-C17-C18.md).
#
# Scenarios (harness subcommand `values`):
#   codec   : Encoder.Encode / Scan in process: boundary and random values of every integer width, bool, duration,
#             strings; texts that must be rejected (out of range, malformed); floats / time / BinaryMarshaler (tested
#             only)
#   cluster : typed Put -> Get -> accessor and Scan into the same type through embedded-owner, embedded-non-owner,
#             cluster client and pipeline on real clusters (ReplicaCount 1 and 2), the copies read white-box and with
#             DM.GETENTRY [RC], keys of length 0..257 with arbitrary bytes, entry sizes around the table size, reads
#             into other integer types, and everything again after a member joined and partitions migrated
# Predicate (python, implementation observations only): what is read equals what was written, in the same type,
# on every path and copy; what must be rejected is rejected with the documented error and leaves no trace.
# Coq: encoder texts / Scan results against Model/Resp.v, the cluster runs against Resp.v + the byte-level store of
# Model/ByteTable.v (through Model/ValuesRun.v).
import json
import os
import struct

import vallib
import vlib
from vallib import META, MAXKEY, INT_TYPES, MODELLED, COQ_TY, cbytes, cN, cnat, cbool, cgval, ref_encode, ref_scan, same_value

PID = "C17"
PATHS = ["own", "non", "cc", "pipe"]

# ------------------------------------------------------------------------------------------
# value corpora
# ------------------------------------------------------------------------------------------


def int_boundaries(t):
    lo, hi = vallib.int_range(t)
    c = {lo, lo + 1, hi - 1, hi, 0, 1}
    if lo < 0:
        c |= {-1, -9, -10, -11, -99, -100}
    k = 1
    while k <= hi:
        c |= {k - 1, k, k + 1}
        if lo < 0:
            c |= {-(k - 1), -k, -(k + 1)}
        k *= 10
    k = 1
    while k <= hi:
        c |= {k - 1, k}
        if lo < 0:
            c |= {-k, -k - 1}
        k *= 2
    return sorted(x for x in c if lo <= x <= hi)


def int_random(rng, t):
    lo, hi = vallib.int_range(t)
    if rng.random() < 0.5:
        return rng.randint(lo, hi)
    bits = rng.randrange(1, INT_TYPES[t][1] + 1)
    v = rng.getrandbits(bits)
    if lo < 0 and rng.random() < 0.5:
        v = -v
    return max(lo, min(hi, v))


FLOAT64 = ["0000000000000000", "8000000000000000", "0000000000000001", "8000000000000001", "000fffffffffffff",
           "0010000000000000", "7fefffffffffffff", "ffefffffffffffff", "7ff0000000000000", "fff0000000000000",
           "7ff8000000000001", "fff8000000000000", "7ff0000000000001", "3ff0000000000000", "bff0000000000000",
           "3fb999999999999a", "400921fb54442d18", "43e0000000000000", "c3e0000000000000", "4340000000000001",
           "3ca0000000000000", "7fe0000000000000", "0000000000000002", "41dfffffffc00000"]
FLOAT32 = ["00000000", "80000000", "00000001", "80000001", "007fffff", "00800000", "7f7fffff", "ff7fffff",
           "7f800000", "ff800000", "7fc00000", "ffc00001", "3f800000", "bf800000", "3dcccccd", "40490fdb",
           "4f000000", "cf000000", "4b800001", "33800000"]
TIMES = ["0,0,0", "1758600000,123456789,3600", "1758600000,0,-28800", "-1,999999999,0", "253402300799,999999999,0",
         "-62135596800,0,0", "1,1,19800", "951782400,500000000,-12600", "1758600000,100000000,0", "1758600000,120,46800"]


def est_text_len(t, r):
    """length of the text a tested-only value is stored as (estimate; only used to keep such values well inside a table)"""
    from decimal import Decimal
    if t in ("float32", "float64"):
        x = struct.unpack(">f" if t == "float32" else ">d", bytes.fromhex(r))[0]
        if x != x or x in (float("inf"), float("-inf")):
            return 4
        return len(format(Decimal(repr(x)), "f"))
    if t == "time":
        return 36
    return len(r) // 2 + 1


def weird_bytes(rng, n):
    alphabet = [0, 13, 10, 255, 32, 36, 42, 43, 45, 58, 127, 128, 200]
    return bytes(rng.choice(alphabet) if rng.random() < 0.6 else rng.randrange(256) for _ in range(n))


MALFORMED = [b"", b"+", b"-", b"+-1", b"-+1", b"--1", b"1_000", b"0x10", b" 1", b"1 ", b"1.0", b"1e3", b"1,0",
             b"\xd9\xa3", b"1\x00", b"\x001", b"12a", b"a12", b"+0", b"-0", b"007", b"-007", b"+007",
             b"0" * 30 + b"1", b"-" + b"0" * 30 + b"1", b"1\r\n", b"\n1", b"Inf", b"NaN", b"true", b"0b1", b"0o7", b"1+", b"1-"]


def gen_codec(res, nrand):
    items = []
    for t in INT_TYPES:
        lo, hi = vallib.int_range(t)
        for v in int_boundaries(t):
            items.append(["enc", t, str(v)])
        for i in range(nrand):
            items.append(["enc", t, str(int_random(vlib.rng_for(res.seed, PID, "enc", t, i), t))])
        # texts around the range and malformed ones
        outs = [lo - 1, lo - 2, hi + 1, hi + 2, 1 << 64, (1 << 64) + 1, -(1 << 63) - 1, 10 ** 25, -(10 ** 25), lo, hi, lo + 1, hi - 1]
        for v in outs:
            items.append(["scan", t, str(v).encode().hex()])
            if v >= 0:
                items.append(["scan", t, ("+" + str(v)).encode().hex()])
                items.append(["scan", t, ("00" + str(v)).encode().hex()])
        for m in MALFORMED:
            items.append(["scan", t, m.hex()])
        for i in range(nrand // 2):
            rng = vlib.rng_for(res.seed, PID, "scan", t, i)
            # a numeral of some other width, or a valid numeral with one byte damaged
            t2 = rng.choice(list(INT_TYPES))
            txt = bytearray(str(int_random(rng, t2)).encode())
            if rng.random() < 0.5:
                pos = rng.randrange(len(txt) + 1)
                if rng.random() < 0.5 and pos < len(txt):
                    txt[pos] = rng.choice([43, 45, 46, 47, 58, 48, 57, 32, 0, 95, 101, 255])
                else:
                    txt.insert(pos, rng.choice([43, 45, 46, 47, 58, 48, 57, 32, 0, 95, 101, 255]))
            items.append(["scan", t, bytes(txt).hex()])
    for b in ("true", "false"):
        items.append(["enc", "bool", b])
    for m in [b"1", b"0", b"", b"11", b"true", b"\x01", b"2", b"1\n", b" 1", b"10"]:
        items.append(["scan", "bool", m.hex()])
    for i in range(max(20, nrand // 2)):
        rng = vlib.rng_for(res.seed, PID, "str", i)
        n = rng.choice([0, 1, 2, 3, 10, 100, 1000])
        for t in ("string", "bytes"):
            items.append(["enc", t, weird_bytes(rng, n).hex()])
            items.append(["scan", t, weird_bytes(rng, n).hex()])
    for r in FLOAT64:
        items.append(["enc", "float64", r])
    for r in FLOAT32:
        items.append(["enc", "float32", r])
    for i in range(nrand):
        rng = vlib.rng_for(res.seed, PID, "flt", i)
        items.append(["enc", "float64", "%016x" % rng.getrandbits(64)])
        items.append(["enc", "float32", "%08x" % rng.getrandbits(32)])
    for r in TIMES:
        items.append(["enc", "time", r])
    for i in range(20):
        rng = vlib.rng_for(res.seed, PID, "binm", i)
        items.append(["enc", "binm", weird_bytes(rng, rng.choice([0, 1, 5, 60])).hex()])
    scs = []
    per = 2500
    for j in range(0, len(items), per):
        scs.append({"kind": "codec", "items": items[j:j + per]})
    return scs


# ------------------------------------------------------------------------------------------
# cluster scenarios
# ------------------------------------------------------------------------------------------

CONFIGS = [
    # name, opts, long values, reject tests (key length; only without replicas, see D26)
    ("r2", {"members": 2, "replicas": 2, "partitions": 7, "table": 1024}, 0, True),
    ("r2big", {"members": 3, "replicas": 2, "partitions": 7, "table": 4096}, 3000, True),
    ("r1small", {"members": 1, "replicas": 1, "partitions": 3, "table": 128}, 0, True),
    ("r1", {"members": 2, "replicas": 1, "partitions": 7, "table": 1024}, 0, True),
]


def special_keys(rng):
    ks = [b"", b"\x00", b"\r", b"\n", b"\xff", b"a", b"\x00\x00", b"\r\n", b"a\x00", b"\xff\xfe"]
    for n in (254, 255):
        ks.append(weird_bytes(rng, n))
        ks.append(bytes([65 + n % 7]) * n)
    return ks


def gen_values_cluster(rng, cfg):
    name, opts, longv, rejects = cfg
    table = opts["table"]
    ops = []
    keys = []          # (key bytes, type) in insertion order, for the sweeps
    nk = [0]

    def newkey(prefix=b"k"):
        nk[0] += 1
        return prefix + str(nk[0]).encode()

    def fits(key, t, r):
        txt = ref_encode(t, r)
        return txt is None or len(key) + len(txt) + META < table

    def item(key, t, r, cross=None, path=None):
        path = path or rng.choice(PATHS)
        ops.append(["put", path, key.hex(), t, r])
        if len(key) < MAXKEY and fits(key, t, r):
            if (key, t) not in keys:
                keys.append((key, t))
        for p in PATHS:
            ops.append(["get", p, key.hex(), t])
        if cross:
            for t2 in cross:
                ops.append(["get", rng.choice(PATHS), key.hex(), t2])
        ops.append(["copies", key.hex()])
        ops.append(["getentry", key.hex(), "pri"])
        if opts["replicas"] > 1:
            ops.append(["getentry", key.hex(), "rc"])

    small = table <= 128
    # every integer type: boundaries and random values, read back in the same and in other types
    for t in INT_TYPES:
        lo, hi = vallib.int_range(t)
        vals = [lo, hi, 0] + [int_random(rng, t) for _ in range(1 if small else 2)]
        for v in vals:
            cross = rng.sample([x for x in INT_TYPES if x != t], 2) + ["string"] if rng.random() < 0.5 else None
            item(newkey(), t, str(v), cross=cross)
    item(newkey(), "bool", "true", cross=["int8", "string"])
    item(newkey(), "bool", "false", cross=["uint64"])
    for n in ([0, 1, 2, 17] if small else [0, 1, 2, 17, 300]) + ([longv] if longv else []):
        for t in ("string", "bytes"):
            item(newkey(), t, weird_bytes(rng, n).hex())
    item(newkey(), "string", b"-12".hex(), cross=["int8", "uint8", "duration"])
    item(newkey(), "bytes", b"+0012".hex(), cross=["int16", "uint16"])
    # keys: every length class, arbitrary bytes
    for k in special_keys(rng):
        t = rng.choice(["string", "bytes", "int64", "uint8"])
        r = weird_bytes(rng, rng.choice([0, 3, 9])).hex() if t in ("string", "bytes") else str(int_random(rng, t))
        if fits(k, t, r):
            item(k, t, r)
    # tested-only types on their own keys
    fl64 = rng.sample([r for r in FLOAT64 if est_text_len("float64", r) <= 60], 4 if small else 10)
    fl32 = rng.sample([r for r in FLOAT32 if est_text_len("float32", r) <= 60], 3 if small else 8)
    for r in fl64:
        item(newkey(b"f"), "float64", r)
    for r in fl32:
        item(newkey(b"f"), "float32", r)
    for r in rng.sample(TIMES, 3 if small else 6):
        item(newkey(b"f"), "time", r)
    item(newkey(b"f"), "binm", weird_bytes(rng, 7).hex())
    # entry sizes around what a table accepts (the largest accepted entry has table-1 bytes)
    for delta in (-2, -1, 0, 1, 40):
        k = newkey(b"s")
        vlen = table + delta - META - len(k)
        if vlen >= 0:
            item(k, "bytes", weird_bytes(rng, vlen).hex(), path=rng.choice(PATHS))
    # an oversized value over an existing key must leave the old value
    k = newkey(b"s")
    item(k, "string", b"old".hex())
    item(k, "bytes", weird_bytes(rng, table).hex())
    if rejects:
        for n in (256, 257, 300):
            if n + META + 2 < table:
                kk = weird_bytes(rng, n)
                item(kk, "string", b"xy".hex())
        kk = bytes([75]) * 256
        if 256 + META + 2 < table:
            for p in PATHS:
                item(kk, "uint8", "7", path=p)
    # overwrite with another type
    k = newkey()
    item(k, "int64", "-5")
    item(k, "string", b"five".hex(), cross=["int64"])
    # a member joins, partitions migrate, everything is read again
    sweep = []
    for key, t in keys:
        sweep.append(["get", rng.choice(PATHS), key.hex(), t])
    ops += sweep
    ops.append(["join"])
    for key, t in keys:
        for p in (PATHS if rng.random() < 0.3 else [rng.choice(PATHS)]):
            ops.append(["get", p, key.hex(), t])
        ops.append(["copies", key.hex()])
        if opts["replicas"] > 1 and rng.random() < 0.5:
            ops.append(["getentry", key.hex(), "rc"])
    # several writes queued in one pipeline before Exec (Put and GetPut, different keys, types and values)
    for _ in range(2):
        items = []
        for t in rng.sample(["int32", "uint64", "string", "bytes", "int64", "uint8"], rng.choice([2, 3, 4])):
            k = newkey(b"b")
            r = weird_bytes(rng, rng.choice([3, 9, 17])).hex() if t in ("string", "bytes") else str(int_random(rng, t))
            items.append([k.hex(), t, r, rng.choice(["put", "getput", "getput"])])
        ops.append(["bput", items])
        for kx, t, r, _ in items:
            for p in (rng.choice(PATHS), "own"):
                ops.append(["get", p, kx, t])
            ops.append(["copies", kx])
    # writes after the join, too
    for t in ("int32", "uint64", "string"):
        k = newkey()
        r = weird_bytes(rng, 5).hex() if t == "string" else str(int_random(rng, t))
        item(k, t, r)
    # the keys as iterators hand them out (over the wire and in process): identical bytes, CR / LF / NUL included
    ops.append(["keys", "cc"])
    ops.append(["keys", "non"])
    return {"kind": "cluster", "opts": dict(opts), "dmap": "d", "ops": ops, "_cfg": name}


def gen_long_default_table(rng):
    """very long values at the default table size (1 MiB); not evaluated by the Coq model (size)"""
    ops = []
    for i, n in enumerate([70000, 150000]):
        k = b"L%d" % i
        for t in ("string", "bytes"):
            kk = k + t[:1].encode()
            ops.append(["put", PATHS[(i * 2 + len(t)) % 4], kk.hex(), t, weird_bytes(rng, n).hex()])
            for p in PATHS:
                ops.append(["get", p, kk.hex(), t])
            ops.append(["copies", kk.hex()])
    # the largest entry a default table accepts, and one byte more
    for i, total in enumerate([(1 << 20) - 1, 1 << 20]):
        kk = b"M%d" % i
        ops.append(["put", "cc", kk.hex(), "bytes", weird_bytes(rng, total - META - len(kk)).hex()])
        ops.append(["get", "own", kk.hex(), "bytes"])
    return {"kind": "cluster", "opts": {"members": 2, "replicas": 2, "partitions": 7}, "dmap": "d", "ops": ops, "_cfg": "default-table", "_nocoq": True}


def d26_probe():
    return {"kind": "cluster", "opts": {"members": 2, "replicas": 2, "partitions": 7, "table": 1024}, "dmap": "d",
            "ops": [["put", "own", (b"K" * 256).hex(), "string", b"ab".hex()]], "_cfg": "d26-probe", "_probe": True, "_nocoq": True}


# ------------------------------------------------------------------------------------------
# predicate
# ------------------------------------------------------------------------------------------

def table_of(sc):
    return sc["opts"].get("table") or (1 << 20)


def check_codec(sc, obs):
    for i, it in enumerate(sc["items"]):
        if i >= len(obs):
            return (i, "no observation")
        ob = obs[i]
        kind, t = it[0], it[1]
        if kind == "enc":
            if len(ob) < 4:
                return (i, "encoder failed on %s %s: %s" % (t, it[2], ob[1:]))
            txt = ref_encode(t, it[2])
            if txt is not None and bytes.fromhex(ob[1]) != txt:
                return (i, "%s %s is written as %r, expected %r" % (t, it[2], bytes.fromhex(ob[1]), txt))
            if not ob[2]:
                return (i, "%s %s (written as %r) cannot be read back" % (t, it[2], bytes.fromhex(ob[1])))
            if not same_value(t, ob[3], it[2]):
                return (i, "%s %s reads back as %s" % (t, it[2], ob[3]))
        else:
            exp = ref_scan(t, bytes.fromhex(it[2]))
            got = ("ok", ob[2]) if ob[1] == "ok" else ("err",)
            if exp is not None and exp != got:
                return (i, "reading %r into %s gives %s, expected %s" % (bytes.fromhex(it[2]), t, got, exp))
    return None


def check_cluster(sc, obs):
    table = table_of(sc)
    repl = sc["opts"].get("replicas", 1) > 1
    store = {}      # key hex -> (type, repr, text or None)
    for i, op in enumerate(sc["ops"]):
        if i >= len(obs):
            return (i, "no observation (scenario aborted: %s)" % sc.get("_err", ""))
        ob = obs[i]
        if ob[0] == "hang":
            return (i, "operation %s did not return (watchdog)" % op[0])
        if ob[0] == "panic":
            return (i, "operation %s panicked: %s" % (op[0], ob[1]))
        name = op[0]
        if name == "bput":
            if ob[1] != "nil":
                return (i, "a pipeline with %d queued writes failed: %s" % (len(op[1]), ob[1]))
            for (kx, t, r, kind), code in zip(op[1], ob[2]):
                key = bytes.fromhex(kx)
                txt = ref_encode(t, r)
                if (txt is not None and len(key) + len(txt) + META >= table) or len(key) >= MAXKEY:
                    continue
                if code != "nil":
                    return (i, "pipelined %s of a fitting %s returned %s" % (kind, t, code))
                store[kx] = (t, r, txt)
            continue
        if name == "put":
            kx, t, r = op[2], op[3], op[4]
            key = bytes.fromhex(kx)
            txt = ref_encode(t, r)
            toolarge = txt is not None and len(key) + len(txt) + META >= table
            longkey = len(key) >= MAXKEY
            if toolarge or longkey:
                allowed = set()
                if toolarge:
                    allowed.add("entrytoolarge")
                if longkey:
                    allowed.add("keytoolarge")
                if ob[1] not in allowed:
                    return (i, "put of %s (key %d bytes, entry %s bytes, table %d) returned %s, expected %s" %
                            (t, len(key), "?" if txt is None else len(key) + len(txt) + META, table, ob[1], "/".join(sorted(allowed))))
            else:
                if ob[1] != "nil":
                    return (i, "put of a fitting %s (key %d bytes) through %s returned %s" % (t, len(key), op[1], ob[1]))
                store[kx] = (t, r, txt)
        elif name == "get":
            kx, t2 = op[2], op[3]
            cur = store.get(kx)
            if cur is None:
                if ob[1] != "notfound":
                    return (i, "get of a key that was never stored (rejected or absent) returned %s" % (ob[1:4],))
                continue
            t, r, txt = cur
            if ob[1] not in ("nil", "scanerr"):
                return (i, "get of a stored key through %s returned %s" % (op[1], ob[1]))
            raw = bytes.fromhex(ob[4])
            if txt is None:
                # tested-only type: the stored text is whatever the first read showed; all reads must agree
                store[kx] = (t, r, raw)
                txt = raw
            if raw != txt:
                return (i, "key %s holds %r, written %r (%s %s) [path %s]" % (kx[:40], raw[:60], txt[:60], t, r[:40], op[1]))
            if t2 == t:
                if ob[1] != "nil":
                    return (i, "%s %s cannot be read back into %s through %s: %s" % (t, r[:40], t2, op[1], ob[2:4]))
                if not (same_value(t, ob[2], r) and same_value(t, ob[3], r)):
                    return (i, "%s %s reads back as %s / %s through %s" % (t, r[:60], ob[2][:60], ob[3][:60], op[1]))
            else:
                exp = ref_scan(t2, txt)
                if exp is None:
                    continue
                if exp == ("err",):
                    if ob[1] != "scanerr":
                        return (i, "text %r read into %s gave %s, expected an error" % (txt[:40], t2, ob[2:4]))
                elif ob[1] != "nil" or ob[2] != exp[1] or ob[3] != exp[1]:
                    return (i, "text %r read into %s gave %s, expected %s" % (txt[:40], t2, ob[1:4], exp[1]))
        elif name == "copies":
            kx = op[1]
            cur = store.get(kx)
            copies = ob[1] or []
            owner, backups = ob[2], ob[3] or []
            if cur is None:
                if copies:
                    return (i, "a rejected / absent key has copies: %s" % [(c[0], c[1]) for c in copies])
                continue
            txt = cur[2]
            for m, kind, ck, cv in copies:
                if ck != kx:
                    return (i, "%s copy on member %d has key %s, written %s" % (kind, m, ck[:40], kx[:40]))
                if txt is not None and bytes.fromhex(cv) != txt:
                    return (i, "%s copy on member %d holds %r, written %r" % (kind, m, bytes.fromhex(cv)[:60], txt[:60]))
            if not any(m == owner and kind == "primary" for m, kind, _, _ in copies):
                return (i, "the partition owner (member %d) holds no primary copy" % owner)
            if repl and backups:
                # while a backup fragment is being handed over (a member joined) the list names the old and the new
                # backup owner and only one of them holds the copy at any moment; which one is C03's subject, not C17's
                if not any(m in backups and kind == "backup" for m, kind, _, _ in copies):
                    return (i, "none of the backup owners %s holds a backup copy" % backups)
        elif name == "getentry":
            kx = op[1]
            cur = store.get(kx)
            if ob[1] == "nobackup":
                continue
            if cur is None:
                if ob[1] != "notfound":
                    return (i, "GETENTRY of an absent key returned %s" % (ob[1:],))
                continue
            if ob[1] != "nil":
                return (i, "GETENTRY %s of a stored key returned %s" % (op[2], ob[1]))
            if ob[2] != kx:
                return (i, "GETENTRY %s returned key %s, written %s" % (op[2], ob[2][:40], kx[:40]))
            if cur[2] is not None and bytes.fromhex(ob[3]) != cur[2]:
                return (i, "GETENTRY %s returned %r, written %r" % (op[2], bytes.fromhex(ob[3])[:60], cur[2][:60]))
        elif name == "sleep":
            pass
        elif name == "keys":
            if ob[1] != "nil":
                return (i, "a full iteration through %s failed: %s" % (op[1], ob[1]))
            exp = sorted(store)
            got = sorted(ob[2] or [])
            if got != exp:
                miss = [k for k in exp if k not in got][:3]
                extra = [k for k in got if k not in exp][:3]
                return (i, "the iterator through %s hands out keys that were never written %s / misses stored keys %s" % (
                    op[1], [bytes.fromhex(k)[:24] for k in extra], [bytes.fromhex(k)[:24] for k in miss]))
        elif name == "join":
            if ob[1] != "ok":
                return None      # the environment: see discarded()
        else:
            raise ValueError(name)
    return None


def discarded(sc, r):
    """the cluster did not start or a join did not settle: the environment, not the property"""
    if r is None or sc["kind"] != "cluster":
        return False
    if r.get("err", "").startswith("cluster:") and not r.get("obs"):
        return True
    return any(op[0] == "join" and len(ob) > 1 and ob[0] == "join" and ob[1] != "ok" for op, ob in zip(sc["ops"], r.get("obs") or []))


def check(sc, r):
    if r is None:
        return (0, "no result from the harness")
    if discarded(sc, r) and not r.get("obs"):
        return None
    if r.get("err") and not r.get("obs"):
        return (0, "harness: " + r["err"])
    if sc["kind"] == "codec":
        return check_codec(sc, r["obs"])
    if sc.get("_probe"):
        return None
    return check_cluster(dict(sc, _err=r.get("err", "")), r["obs"])


# ------------------------------------------------------------------------------------------
# Coq translation
# ------------------------------------------------------------------------------------------

HEADER = """From Coq Require Import List NArith ZArith Bool.
Require Import Olric.Gen.Consts Olric.Model.Codec Olric.Model.Resp Olric.Model.ByteTable Olric.Model.ValuesRun.
Import ListNotations.
"""


def cgv(I, t, r):
    """a value as a Coq term, long byte strings interned"""
    if t in ("string", "bytes"):
        return "(GT %s)" % I.b(bytes.fromhex(r))
    return cgval(t, r)


def codec_to_coq(sc, obs, I):
    steps = []
    for it, ob in zip(sc["items"], obs):
        t = it[1]
        if t not in MODELLED:
            continue
        if it[0] == "enc":
            if len(ob) < 4:
                continue
            steps.append("(VEnc %s %s, VText %s)" % (COQ_TY[t], cgv(I, t, it[2]), I.b(bytes.fromhex(ob[1]))))
        else:
            v = "(Some %s)" % cgv(I, t, ob[2]) if ob[1] == "ok" else "None"
            steps.append("(VScan %s %s, VVal %s)" % (COQ_TY[t], I.b(bytes.fromhex(it[2])), v))
    return "(0%%nat, false, [%s])" % "; ".join(steps), len(steps)


def cluster_to_coq(sc, obs, I):
    cbytes = I.b
    table = table_of(sc)
    repl = sc["opts"].get("replicas", 1) > 1
    ids = {}
    skip = set()         # keys that ever held a tested-only type
    for op in sc["ops"]:
        if op[0] == "put" and op[3] not in MODELLED:
            skip.add(op[2])
        if op[0] == "bput":
            for kx, t, r, kind in op[1]:
                if t not in MODELLED:
                    skip.add(kx)
    steps = []

    def hk(kx):
        if kx not in ids:
            ids[kx] = len(ids) + 1
        return cN(ids[kx])

    for op, ob in zip(sc["ops"], obs):
        name = op[0]
        if ob[0] in ("hang", "panic", "?"):
            break
        if name == "bput":
            if ob[1] != "nil":
                break
            stop = False
            for (kx, t, r, kind), code in zip(op[1], ob[2]):
                if kx in skip:
                    continue
                c = vallib.CODES.get(code)
                if c is None:
                    stop = True
                    break
                steps.append("(VPut %s %s %s %s, VCode %s)" % (hk(kx), cbytes(bytes.fromhex(kx)), COQ_TY[t], cgv(I, t, r), c))
            if stop:
                break
            continue
        if name == "put":
            kx, t, r = op[2], op[3], op[4]
            if kx in skip:
                continue
            c = vallib.CODES.get(ob[1])
            if c is None:
                break
            steps.append("(VPut %s %s %s %s, VCode %s)" % (hk(kx), cbytes(bytes.fromhex(kx)), COQ_TY[t], cgv(I, t, r), c))
        elif name == "get":
            kx, t2 = op[2], op[3]
            if kx in skip or t2 not in MODELLED:
                continue
            if ob[1] == "nil":
                steps.append("(VGet %s %s, VTyped (Some (Some %s)))" % (hk(kx), COQ_TY[t2], cgv(I, t2, ob[2])))
                if op[1] == "own":
                    steps.append("(VRaw %s, VBytes (Some %s))" % (hk(kx), cbytes(bytes.fromhex(ob[4]))))
            elif ob[1] == "scanerr":
                steps.append("(VGet %s %s, VTyped (Some None))" % (hk(kx), COQ_TY[t2]))
            elif ob[1] == "notfound":
                steps.append("(VGet %s %s, VTyped None)" % (hk(kx), COQ_TY[t2]))
            else:
                break
        elif name == "copies":
            kx = op[1]
            if kx in skip:
                continue
            copies = ob[1] or []
            owner, backups = ob[2], ob[3] or []
            pri = [c for c in copies if c[0] == owner and c[1] == "primary"]
            if pri:
                steps.append("(VRaw %s, VBytes (Some %s))" % (hk(kx), cbytes(bytes.fromhex(pri[0][3]))))
                steps.append("(VKey %s, VBytes (Some %s))" % (hk(kx), cbytes(bytes.fromhex(pri[0][2]))))
            else:
                steps.append("(VRaw %s, VBytes None)" % hk(kx))
            if repl and backups:
                # after a join the list names the old and the new backup owner; one of them holds the copy (see check())
                bk = [c for c in copies if c[0] in backups and c[1] == "backup"]
                if bk:
                    steps.append("(VRawB %s, VBytes (Some %s))" % (hk(kx), cbytes(bytes.fromhex(bk[0][3]))))
                    steps.append("(VKeyB %s, VBytes (Some %s))" % (hk(kx), cbytes(bytes.fromhex(bk[0][2]))))
                else:
                    steps.append("(VRawB %s, VBytes None)" % hk(kx))
        elif name == "getentry":
            kx = op[1]
            if kx in skip or ob[1] == "nobackup":
                continue
            which = "VRawB" if op[2] == "rc" else "VRaw"
            if ob[1] == "nil":
                steps.append("(%s %s, VBytes (Some %s))" % (which, hk(kx), cbytes(bytes.fromhex(ob[3]))))
            elif ob[1] == "notfound":
                steps.append("(%s %s, VBytes None)" % (which, hk(kx)))
            else:
                break
        elif name == "join":
            if ob[1] != "ok":
                break
            steps.append("(VMigrate, VCode CNil)")
    return "(%s, %s, [%s])" % (cnat(table), cbool(repl), "; ".join(steps)), len(steps)


def coq_compare(prefix, scs, results, jobs=16):
    cases = []
    nsteps = 0
    for s in scs:
        r = results.get(s["id"])
        if not r or not r.get("obs") or s.get("_nocoq"):
            continue
        I = vallib.Interner(str(s["id"]))
        if s["kind"] == "codec":
            term, n = codec_to_coq(s, r["obs"], I)
        else:
            term, n = cluster_to_coq(s, r["obs"], I)
        nsteps += n
        cases.append((s["id"], term, I.text()))
    mism, secs = vallib.coq_compare(prefix, HEADER, "nat * bool * list (vop * vobs)", "v_mismatches", cases, shard=1, jobs=jobs)
    return mism, secs, nsteps


# ------------------------------------------------------------------------------------------
# the check
# ------------------------------------------------------------------------------------------

def corpus():
    out = []
    d = os.path.join(vlib.VERIF, "corpus", PID)
    if os.path.isdir(d):
        for f in sorted(os.listdir(d)):
            if f.endswith(".json"):
                sc = json.load(open(os.path.join(d, f)))
                sc["_file"] = f
                out.append(sc)
    return out


def gen_async_rejects(rng):
    """asynchronous replication: a Put the owner rejects (key of 256 bytes or more, entry larger than a table) must not reach
    the backup owners either - there the raw entry is stored without the checks of the owner's write path"""
    opts = {"members": 2, "replicas": 2, "partitions": 7, "table": 1024, "async": True}
    ops = []
    ks = []
    for n in (256, 257, 300, 1000):
        for path in ("own", "cc", "non"):
            k = bytes([65 + (n + len(ks)) % 20]) * n
            ks.append(k)
            ops.append(["put", path, k.hex(), "string", weird_bytes(rng, 5).hex()])
    big = b"big1"
    ops.append(["put", "own", big.hex(), "bytes", weird_bytes(rng, 1100).hex()])
    ks.append(big)
    ok = b"fits"
    ops.append(["put", "own", ok.hex(), "string", weird_bytes(rng, 9).hex()])
    ops.append(["sleep", 400])
    for k in ks:
        ops.append(["get", rng.choice(PATHS), k.hex(), "string"])
        ops.append(["copies", k.hex()])
    ops.append(["get", "cc", ok.hex(), "string"])
    return {"kind": "cluster", "opts": opts, "dmap": "d", "ops": ops, "_cfg": "async-rejects", "_nocoq": True}


def scenarios(res):
    quick = res.tier == "quick"
    scs = corpus()
    scs += gen_codec(res, 30 if quick else 2500)
    rounds = 1 if quick else 16
    for rd in range(rounds):
        for ci, cfg in enumerate(CONFIGS):
            scs.append(gen_values_cluster(vlib.rng_for(res.seed, PID, "cl", rd, ci), cfg))
    scs.append(gen_long_default_table(vlib.rng_for(res.seed, PID, "long")))
    for i in range(1 if quick else 4):
        scs.append(gen_async_rejects(vlib.rng_for(res.seed, PID, "asyncrej", i)))
    scs.append(d26_probe())
    for i, s in enumerate(scs):
        s["id"] = i
    return scs


def run_impl(scs):
    cod = [s for s in scs if s["kind"] == "codec"]
    clu = [s for s in scs if s["kind"] == "cluster"]
    out = {}
    if cod:
        out.update(vallib.run_parallel("values", cod, jobs=4))
    if clu:
        out.update(vallib.run_parallel("values", clu, jobs=8))
    return out


def strip(sc):
    return {k: v for k, v in sc.items() if not k.startswith("_")}


def shrink(sc, failed_step=None, budget_s=90):
    """minimise a failing scenario: cut everything after the failing step, then delta debugging of its items / ops
    (re-running the harness) within a time budget"""
    import time
    field = "items" if sc["kind"] == "codec" else "ops"
    t0 = time.time()
    if failed_step is not None and failed_step + 1 < len(sc[field]):
        cut = dict(sc, id=0)
        cut[field] = sc[field][:failed_step + 1]
        if check(cut, run_impl([cut]).get(0)) is not None:
            sc = cut

    def fails(c):
        if time.time() - t0 > budget_s:
            return False
        s2 = dict(sc, id=0)
        s2[field] = c
        return check(s2, run_impl([s2]).get(0)) is not None
    small = dict(sc, id=0)
    small[field] = vallib.shrink_list(sc[field], fails, max_rounds=40 if sc["kind"] == "cluster" else 200)
    return small


def classify(sc, msg):
    return {"kind": "values", "scenario_kind": sc["kind"], "what": msg.split(" (")[0][:50]}


def run(res):
    proofs_ok = vlib.common_obligations(res, PID)
    if getattr(res, "harness_error", None):
        res.violation({"kind": "harness-build", "failed": "correspondence: the harness no longer compiles against /repo",
                       "detail": res.harness_error[-3000:]}, no_input=True)
        res.coverage.update({"evaluations": 0, "distinct_nontrivial": 0})
        return
    scs = scenarios(res)
    results = run_impl(scs)
    byid = {s["id"]: s for s in scs}
    pred_fail = []
    ndisc = 0
    for s in scs:
        r = results.get(s["id"])
        if discarded(s, r):
            ndisc += 1
            if r.get("obs"):
                k = next(i for i, (op, ob) in enumerate(zip(s["ops"], r["obs"])) if op[0] == "join" and ob[1] != "ok")
                s["ops"] = s["ops"][:k]
                r["obs"] = r["obs"][:k]
        bad = check(s, r)
        if bad:
            pred_fail.append((s, bad))
    ncluster = sum(1 for s in scs if s["kind"] == "cluster")
    if ndisc * 2 > max(ncluster, 1):
        raise vlib.CheckError("%d of %d cluster scenarios could not start or settle" % (ndisc, ncluster))
    # D26 (syncPutOnCluster ships the entry to the backups before the owner validates it): recorded, owned by C04/C16
    d26 = None
    for s in scs:
        if s.get("_probe"):
            r = results.get(s["id"]) or {}
            code = (r.get("obs") or [["?", "?"]])[0][1]
            d26 = code
            if code != "keytoolarge":
                kf = vlib.match_known(PID, {"kind": "long-key-accepted-with-replicas"})
                if kf:
                    res.known_finding(kf["description"])
                else:
                    res.violation({"kind": "impl-violates-property", "scenario": strip(s), "impl_trace": r.get("obs"),
                                   "predicate": {"name": "rejects-cleanly", "verdict": "Put of a 256-byte key with ReplicaCount=2 returned %s, expected keytoolarge" % code},
                                   "seed": res.seed})
    mism, coq_secs, nsteps = ([], 0.0, 0)
    coq_err = None
    try:
        mism, coq_secs, nsteps = coq_compare("c17", scs, results)
    except vlib.CheckError as e:
        coq_err = str(e)
    mism_ids = {}
    for sid, step, mobs in mism:
        mism_ids.setdefault(sid, (step, mobs))

    reported = set()
    groups = {}
    for s, bad in pred_fail:
        groups.setdefault((s["kind"], bad[1].split(" (")[0][:40]), (s, bad))
    for s, bad in list(groups.values())[:4]:
        small = shrink(strip(s), bad[0])
        rr = run_impl([small]).get(0)
        b2 = check(small, rr) or bad
        key = json.dumps(small.get("ops") or small.get("items"))
        if key in reported:
            continue
        reported.add(key)
        kf = vlib.match_known(PID, classify(small, b2[1]))
        if kf:
            res.known_finding(kf["description"])
            continue
        res.violation({"kind": "impl-violates-property", "scenario": small, "impl_trace": rr["obs"] if rr else None,
                       "failed_step": b2[0], "predicate": {"name": "reads-back-identical", "verdict": b2[1]},
                       "original_scenario_id": s["id"], "seed": res.seed})
    failed_ids = {s["id"] for s, _ in pred_fail}
    only_model = [sid for sid in mism_ids if sid not in failed_ids]
    if only_model and not res.violations:
        sid = only_model[0]
        s = byid[sid]
        field = "items" if s["kind"] == "codec" else "ops"

        def differs(c):
            sc = dict(strip(s), id=0)
            sc[field] = c
            rr = run_impl([sc])
            mm, _, _ = coq_compare("c17s", [sc], rr, jobs=1)
            return bool(mm)
        small = dict(strip(s), id=0)
        small[field] = vallib.shrink_list(s[field], differs, max_rounds=30)
        rr = run_impl([small])
        mm, _, _ = coq_compare("c17s", [small], rr, jobs=1)
        res.violation({"kind": "model-vs-impl",
                       "failed": "correspondence Model/ValuesRun.v (Resp.v + ByteTable.v) vs implementation: model step %s" % (mm[0][1] if mm else "?"),
                       "scenario": small, "impl_trace": rr[0]["obs"] if rr.get(0) else None, "model_obs": mm[0][2] if mm else None,
                       "note": "the reads-back-identical predicate holds on every explored implementation trace", "seed": res.seed},
                      no_input=True)
    if coq_err and not res.violations:
        res.violation({"kind": "model-eval-failed", "failed": "correspondence: generated cases did not evaluate", "detail": coq_err[-2000:]}, no_input=True)
    if not proofs_ok and not res.violations:
        broken = [o for o in res.obligations if not o["ok"]]
        res.violation({"kind": "obligation-broken", "failed": [o["theorem"] for o in broken],
                       "detail": [o.get("detail", o.get("axioms")) for o in broken],
                       "note": "searched %d implementation traces with the reads-back-identical predicate, none failed" % len(scs)},
                      no_input=True)
    # evidence
    types, paths, codes, keylens = {}, {}, {}, {}
    tested = {"float32": 0, "float64": 0, "time": 0, "binm": 0}
    tested_fail = 0
    evals = 0
    moved = 0
    after_join = 0
    nt = set()
    for s in scs:
        r = results.get(s["id"])
        if not r or not r.get("obs"):
            continue
        if s["kind"] == "codec":
            for it, ob in zip(s["items"], r["obs"]):
                evals += 1
                types[it[0] + ":" + it[1]] = types.get(it[0] + ":" + it[1], 0) + 1
                if it[1] in tested:
                    tested[it[1]] += 1
                nt.add((it[0], it[1], it[2]))
        else:
            joined = False
            for op, ob in zip(s["ops"], r["obs"]):
                evals += 1
                if len(ob) < 2:
                    continue
                if op[0] == "join":
                    joined = True
                if op[0] in ("put", "get"):
                    paths[op[0] + "/" + op[1]] = paths.get(op[0] + "/" + op[1], 0) + 1
                    kl = len(op[2]) // 2
                    klass = str(kl) if kl in (0, 1, 2, 254, 255, 256, 257) else ("3..253" if kl < 254 else ">257")
                    keylens[klass] = keylens.get(klass, 0) + 1
                    if op[3] in tested:
                        tested[op[3]] += 1
                    if op[0] == "get" and ob[1] == "nil":
                        nt.add((op[2], op[3], ob[4][:64], s.get("_cfg")))
                        if joined:
                            after_join += 1
                if op[0] == "put":
                    codes[ob[1]] = codes.get(ob[1], 0) + 1
                if op[0] == "bput":
                    paths["bput/pipe(%d)" % len(op[1])] = paths.get("bput/pipe(%d)" % len(op[1]), 0) + 1
            moved += (r.get("info") or {}).get("partitions_moved", 0)
    for s, bad in pred_fail:
        if any(t in bad[1] for t in tested):
            tested_fail += 1
    # the copy which read repair writes to a backup owner is the entry which was read (the layouts of C05, ReadRepair on)
    import c05
    evals += c05.rr_part(res, PID)
    sample = next((s for s in scs if s["kind"] == "cluster" and s.get("_cfg") == "r1small"), scs[-1])
    res.coverage.update({
        "evaluations": evals, "distinct_nontrivial": len(nt),
        "rule": "codec: boundary + seeded random values of every integer width, bool, duration, strings, and texts that must be "
                "rejected; cluster: typed round trips through 4 client paths on 4 cluster shapes (ReplicaCount 1/2, table 128/1024/4096, "
                "1-3 members + a join) plus very long values at the default table size; non-trivial = distinct (key, type, stored text) "
                "successfully read back, or distinct codec item",
        "exhaustive": False, "scenarios": len(scs),
        "type_histogram": types, "client_paths": paths, "put_result_histogram": codes, "key_length_classes": keylens,
        "reads_after_migration": after_join, "partitions_moved": moved, "discarded_cluster_did_not_settle": ndisc,
        "tested_not_proved": {"what": "float32/float64 (strconv), time.Time (RFC3339Nano), BinaryMarshaler: differential round trips only, "
                                      "no theorem (strconv and time are oracles)", "round_trips": tested, "failures": tested_fail},
        "d26_probe": {"put_256_byte_key_with_replicas_returned": d26,
                      "note": "D26 (syncPutOnCluster replicates before the owner validates) belongs to C04/C16; C17 asserts key-length rejection only without replicas"},
        "traces_validated_against_impl": len(results), "model_steps_compared": nsteps,
        "model_vs_impl_mismatches": len(mism_ids), "predicate_failures": len(pred_fail),
        "coq_eval_seconds": round(coq_secs, 1),
        "samples": [{"scenario": dict(strip(sample), ops=sample.get("ops", [])[:12]), "impl_obs": ((results.get(sample["id"]) or {}).get("obs") or [])[:12]}],
    })
    res.assumptions += [
        "strconv.AppendInt/AppendUint/ParseInt/ParseUint behave as Model/Resp.v says (checked on every run by the codec differential)",
        "strconv float formatting/parsing, time RFC3339Nano and user BinaryMarshalers are oracles (tested, not proved)",
        "go-redis / redcon carry bulk strings binary safe",
        "hkeys of distinct keys are distinct (64-bit hash)",
        "one logical primary and one logical backup store stand for all fragments of the DMap"]


def replay(res, path):
    obj = json.load(open(path))
    sc = obj.get("scenario")
    if not sc:
        print("replay has no scenario (names a broken obligation): %s" % obj.get("failed"))
        return 1
    ok, out = vlib.harness_build()
    if not ok:
        raise vlib.CheckError(out)
    if obj.get("part") == "read-repair":
        import c05
        ob = c05.run_one(sc)
        bad = c05.check(sc, ob)
        print(json.dumps({"impl_trace": ob, "predicate": bad}, indent=1)[:6000])
        if bad:
            print("VIOLATION property=%s replay=%s" % (res.pid, path))
            return 1
        return 0
    rr = run_impl([dict(sc, id=0)]).get(0)
    bad = check(sc, rr)
    print(json.dumps({"impl_trace": (rr or {}).get("obs"), "predicate": bad}, indent=1)[:6000])
    if bad:
        print("VIOLATION property=%s replay=%s" % (res.pid, path))
        return 1
    return 0
