# C02 - acknowledged writes survive the loss of up to ReplicaCount-1 members (DESIGN.md section 9).
import json

import dmaplib
import memberlib
import vlib

PID = "C02"


def gen(rng, sid, N, R, rr):
    d = "c02d%d" % sid
    nkeys = rng.randrange(12, 30)
    keys = [dmaplib.hx("%s-k%d" % (d, i)) for i in range(nkeys)]
    ver = {k: 0 for k in keys}

    def write_phase(n, members):
        ops = []
        for _ in range(n):
            k = rng.choice(keys)
            c = rng.choice(["emb%d" % m for m in members] + ["cc"])
            if rng.random() < 0.22:
                ops.append({"op": "del", "c": c, "d": d, "k": k})
            else:
                ver[k] += 1
                ops.append({"op": "put", "c": c, "d": d, "k": k, "v": dmaplib.hx("%s#%d" % (k[-6:], ver[k]))})
        return ops

    live = list(range(N))
    ops = write_phase(rng.randrange(20, 50), live)
    nfail = rng.randrange(1, R)          # 1 .. R-1 members fail
    failed = []
    for f in range(nfail):
        role = rng.choice(["coordinator", "random", "random"])
        victim = live[0] if role == "coordinator" else rng.choice(live)
        mode = rng.choice(["graceful", "abrupt"])
        ops.append({"op": "stop", "m": victim, "c": mode})
        live.remove(victim)
        failed.append((victim, mode))
        if rng.random() < 0.5:
            # operations issued while the failure is being detected: acknowledged ones must survive
            ops += write_phase(rng.randrange(3, 10), live)
        ops.append({"op": "waitstable", "ms": 20000})
        if f + 1 < nfail:
            ops += write_phase(rng.randrange(5, 15), live)
    # read phase: every surviving member and a fresh cluster client
    for k in keys:
        for m in live:
            ops.append({"op": "get", "c": "emb%d" % m, "d": d, "k": k})
        ops.append({"op": "get", "c": "cc", "d": d, "k": k})
    # operations after the failure behave as in a healthy cluster
    ops += write_phase(rng.randrange(10, 25), live)
    for k in keys:
        ops.append({"op": "get", "c": "emb%d" % rng.choice(live), "d": d, "k": k})
    cluster = {"members": N, "replicas": R, "wq": 1, "rq": 1, "partitions": rng.choice([7, 13]), "table": rng.choice([512, 4096]),
               "readrepair": rr, "evict_workers": 1}
    return {"id": sid, "cluster": cluster, "ops": ops, "_failed": failed}


def judge(sc, obs):
    """reference map of the last acknowledged value; an operation that returned an error leaves its key uncertain
    (either outcome is accepted) until the next acknowledged write/delete of that key"""
    if len(obs) < len(sc["ops"]):
        return ("env", "scenario aborted: %s" % obs)
    ref = {}
    uncertain = set()
    stable = True
    for i, (op, ob) in enumerate(zip(sc["ops"], obs)):
        o = op["op"]
        r = ob.get("r")
        if o == "stop":
            stable = False
            continue
        if o == "waitstable":
            if r != "ok":
                return ("env", "cluster did not re-stabilise: %s" % r)
            stable = True
            continue
        if o == "put":
            if r == "ok":
                ref[op["k"]] = op["v"]
                uncertain.discard(op["k"])
            else:
                if stable:
                    return (i, "Put through %s on the re-stabilised cluster returned %s" % (op["c"], r))
                uncertain.add(op["k"])
        elif o == "del":
            if r == "ok":
                ref.pop(op["k"], None)
                uncertain.discard(op["k"])
            else:
                if stable:
                    return (i, "Delete through %s on the re-stabilised cluster returned %s" % (op["c"], r))
                uncertain.add(op["k"])
        elif o == "get":
            if not stable or op["k"] in uncertain:
                continue
            exp = ref.get(op["k"])
            if exp is None:
                if r != "notfound":
                    return (i, "key %s was deleted (or never written); Get through %s returns %s %s" % (op["k"], op["c"], r, ob.get("val")))
            else:
                if r != "ok" or ob.get("val") != exp:
                    return (i, "Get through %s returns %s %s, the last acknowledged value is %s" % (op["c"], r, bytes.fromhex(ob.get("val", "")).decode(errors="replace") if ob.get("val") else None, bytes.fromhex(exp).decode()))
    return None


def run(res):
    proofs_ok = vlib.common_obligations(res, PID)
    if getattr(res, "harness_error", None):
        res.violation({"kind": "harness-build", "failed": "correspondence: the harness no longer compiles against /repo",
                       "detail": res.harness_error[-3000:]}, no_input=True)
        res.coverage.update({"evaluations": 0, "distinct_nontrivial": 0})
        return
    n = 14 if res.tier == "quick" else 150
    scs = []
    for i in range(n):
        rng = vlib.rng_for(res.seed, PID, i)
        R = rng.choice([2, 2, 3])
        N = rng.choice([3, 4, 5]) if R == 2 else rng.choice([4, 5])
        scs.append(gen(rng, i, N, R, rng.random() < 0.5))
    results = memberlib.run_membership(scs, jobs=7)
    failures, envfail = [], 0
    roles = {}
    for sc in scs:
        r = results[sc["id"]]
        if r.get("env", {}).get("error"):
            envfail += 1
            continue
        v = judge(sc, r["obs"])
        if v and v[0] == "env":
            envfail += 1
            continue
        for f in sc["_failed"]:
            roles[f[1]] = roles.get(f[1], 0) + 1
        if v:
            failures.append((sc, r, v))
    if envfail * 3 > len(scs):
        raise vlib.CheckError("%d of %d failover scenarios could not start or re-stabilise (environment)" % (envfail, len(scs)))
    for sc, r, v in failures[:5]:
        kf = vlib.match_known(PID, {"kind": "failover"})
        if kf:
            res.known_finding(kf["description"])
            continue
        k = sc["ops"][v[0]].get("k")
        mini = [o for o in sc["ops"] if o.get("k") == k or o["op"] in ("stop", "waitstable")]
        res.violation({"kind": "impl-violates-property", "cluster": sc["cluster"], "scenario": {"ops": sc["ops"]}, "ops_on_failing_key": mini,
                       "failed_members": sc["_failed"], "failed_step": v[0], "predicate": {"name": "last acknowledged value from every survivor", "verdict": v[1]},
                       "seed": res.seed})
    if not proofs_ok and not res.violations:
        broken = [o for o in res.obligations if not o["ok"]]
        res.violation({"kind": "obligation-broken", "failed": [o["theorem"] for o in broken],
                       "detail": [o.get("detail", o.get("axioms")) for o in broken]}, no_input=True)
    res.coverage.update({
        "evaluations": len(scs), "distinct_nontrivial": len(scs) - envfail,
        "rule": "one real cluster per scenario, N in 3..5, R in {2,3}, read-repair on/off, partitions 7/13, table 512/4096: a workload of puts/overwrites/deletes over 12-30 keys "
                "through every member and a cluster client; then 1..R-1 members stop (the coordinator or a random member; graceful Shutdown or abrupt = memberlist stopped "
                "without leave + listener closed), optionally with operations issued during detection (unacknowledged ones leave their key uncertain); after "
                "re-stabilisation every key is read from EVERY survivor and from a fresh cluster client and must be the last acknowledged value (deleted keys not-found); "
                "then a post-failure workload and reads; non-trivial = scenarios that started and re-stabilised",
        "environment_failures": envfail, "predicate_failures": len(failures), "failure_modes": roles,
        "traces_validated_against_impl": len(scs) - envfail,
        "samples": [{"cluster": scs[0]["cluster"], "failed": scs[0]["_failed"], "ops": scs[0]["ops"][:6]}],
    })
    res.assumptions += ["memberlist detects a stopped member (tuned: probe 50 ms, suspicion x1); an operation in flight during the failure may or may not take effect",
                        "simultaneous loss of >= R members and network partitions are outside the property"]


def replay(res, path):
    obj = json.load(open(path))
    sc = obj.get("scenario")
    if not sc:
        print("replay names a broken obligation: %s" % obj.get("failed"))
        return 1
    ok, out = vlib.harness_build()
    if not ok:
        raise vlib.CheckError(out)
    s = {"id": 0, "cluster": obj["cluster"], "ops": sc["ops"]}
    r = memberlib.run_membership([s])[0]
    v = judge(s, r["obs"])
    print(json.dumps({"verdict": v}))
    if v and v[0] != "env":
        print("VIOLATION property=%s replay=%s" % (res.pid, path))
        return 1
    return 0
