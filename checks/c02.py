# C02 - acknowledged writes survive the loss of up to ReplicaCount-1 members (DESIGN.md section 9).
import json

import balancelib
import dmaplib
import memberlib
import vlib

PID = "C02"


def gen(rng, sid, N, R, rr):
    d = "c02d%d" % sid
    nkeys = rng.randrange(12, 30)
    keys = [dmaplib.hx("%s-k%d" % (d, i)) for i in range(nkeys)]
    ver = {k: 0 for k in keys}

    def write_phase(n, members):
        ops = []
        for _ in range(n):
            k = rng.choice(keys)
            c = rng.choice(["emb%d" % m for m in members] + ["cc"])
            if rng.random() < 0.22:
                ops.append({"op": "del", "c": c, "d": d, "k": k})
            else:
                ver[k] += 1
                ops.append({"op": "put", "c": c, "d": d, "k": k, "v": dmaplib.hx("%s#%d" % (k[-6:], ver[k]))})
        return ops

    live = list(range(N))
    ops = write_phase(rng.randrange(20, 50), live)
    nfail = rng.randrange(1, R)          # 1 .. R-1 members fail
    failed = []
    for f in range(nfail):
        role = rng.choice(["coordinator", "random", "random"])
        victim = live[0] if role == "coordinator" else rng.choice(live)
        mode = rng.choice(["graceful", "abrupt"])
        ops.append({"op": "stop", "m": victim, "c": mode})
        live.remove(victim)
        failed.append((victim, mode))
        if rng.random() < 0.5:
            # operations issued while the failure is being detected: acknowledged ones must survive
            ops += write_phase(rng.randrange(3, 10), live)
        ops.append({"op": "waitstable", "ms": 20000})
        if f + 1 < nfail:
            ops += write_phase(rng.randrange(5, 15), live)
    # read phase: every surviving member and a fresh cluster client
    for k in keys:
        for m in live:
            ops.append({"op": "get", "c": "emb%d" % m, "d": d, "k": k})
        ops.append({"op": "get", "c": "cc", "d": d, "k": k})
    # operations after the failure behave as in a healthy cluster
    ops += write_phase(rng.randrange(10, 25), live)
    for k in keys:
        ops.append({"op": "get", "c": "emb%d" % rng.choice(live), "d": d, "k": k})
    cluster = {"members": N, "replicas": R, "wq": 1, "rq": 1, "partitions": rng.choice([7, 13]), "table": rng.choice([512, 4096]),
               "readrepair": rr, "evict_workers": 1}
    model = sid % 2 == 0
    if model:
        ops = with_dumps(ops, d)
    return {"id": sid, "cluster": cluster, "ops": ops, "_failed": failed, "_model": model}


def with_dumps(ops, d):
    """a white-box dump (harness op hstate) after every operation that can change the state, for the model comparison"""
    out = [{"op": "hstate", "d": d}]
    for o in ops:
        out.append(o)
        if o["op"] not in ("get", "arm", "fired"):
            out.append({"op": "hstate", "d": d})
    return out


def gen_two_failures(rng, sid, first, second, mode1, mode2):
    """ReplicaCount 3 on exactly 3 members: two members are lost one after the other, with stabilisation and balancer runs
    in between (the cluster is below ReplicaCount members after the first loss); the last member must still serve every
    acknowledged write"""
    d = "c02t%d" % sid
    keys = [dmaplib.hx("%s-k%d" % (d, i)) for i in range(40)]
    ops = []
    for i, k in enumerate(keys):
        ops.append({"op": "put", "c": rng.choice(["emb0", "emb1", "emb2", "cc"]), "d": d, "k": k, "v": dmaplib.hx("%s#1" % k[-6:])})
    for k in keys[::5]:
        ops.append({"op": "del", "c": "cc", "d": d, "k": k})
    live = [0, 1, 2]
    ops.append({"op": "stop", "m": first, "c": mode1})
    live.remove(first)
    ops.append({"op": "waitstable", "ms": 25000})
    for m in live:
        ops.append({"op": "balance", "m": m})
    ops.append({"op": "waitstable", "ms": 25000})
    for k in keys[1::7]:
        ops.append({"op": "put", "c": "emb%d" % rng.choice(live), "d": d, "k": k, "v": dmaplib.hx("%s#2" % k[-6:])})
    ops.append({"op": "hstate", "d": d})
    ops.append({"op": "stop", "m": second, "c": mode2})
    live.remove(second)
    ops.append({"op": "waitstable", "ms": 25000})
    for k in keys:
        ops.append({"op": "get", "c": "emb%d" % live[0], "d": d, "k": k})
        ops.append({"op": "get", "c": "cc", "d": d, "k": k})
    cluster = {"members": 3, "replicas": 3, "wq": 1, "rq": 1, "partitions": 7, "table": 4096, "readrepair": False, "evict_workers": 1}
    return {"id": sid, "cluster": cluster, "ops": ops, "_failed": [(first, mode1), (second, mode2)], "_model": False, "_two": second}


def gen_loss_overwrite_loss(rng, sid, first, second, mode1, mode2):
    """ReplicaCount 2 on 4 members, fragments of several tables, balancer timer off: a member is lost; while the backup
    fragments are still being handed over (one table per balancer run) every key is overwritten; the hand-over is completed;
    then a second member is lost. Only one member was lost since the overwrites were acknowledged: they must all be readable."""
    d = "c02u%d" % sid
    keys = [dmaplib.hx("%s-k%03d" % (d, i)) for i in range(160)]
    ops = []
    for k in keys:
        ops.append({"op": "put", "c": rng.choice(["emb0", "emb1", "emb2", "emb3", "cc"]), "d": d, "k": k, "v": dmaplib.hx("%s#1%s" % (k[-6:], "." * 40))})
    live = [0, 1, 2, 3]
    ops.append({"op": "stop", "m": first, "c": mode1})
    live.remove(first)
    ops.append({"op": "waitstable", "ms": 25000})
    for k in keys:
        ops.append({"op": "put", "c": "emb%d" % rng.choice(live), "d": d, "k": k, "v": dmaplib.hx("%s#2%s" % (k[-6:], "." * 40))})
    for _ in range(8):
        for m in live:
            ops.append({"op": "balance", "m": m})
    ops.append({"op": "waitstable", "ms": 25000})
    ops.append({"op": "hstate", "d": d})
    ops.append({"op": "stop", "m": second, "c": mode2})
    live.remove(second)
    ops.append({"op": "waitstable", "ms": 25000})
    for k in keys:
        ops.append({"op": "get", "c": "emb%d" % rng.choice(live), "d": d, "k": k})
        ops.append({"op": "get", "c": "cc", "d": d, "k": k})
    cluster = {"members": 4, "replicas": 2, "wq": 1, "rq": 1, "partitions": 31, "table": 256, "readrepair": False, "evict_workers": 1,
               "balancer_ms": 3600000}
    return {"id": sid, "cluster": cluster, "ops": ops, "_failed": [(first, mode1), (second, mode2)], "_model": False, "_two": second}


def colocated_before_loss(sc, obs):
    """D40 after a fail-over: below ReplicaCount members the re-balancing can leave the primary AND the backup copy of a
    partition on one member (the previous owner hands the primary fragment to the new owner, which already holds the backup
    copy and, being a current backup owner itself, never passes that on). Keys of which the member lost next held two
    copies of different kinds while no other member held any are explained by that finding; a key with a single remaining
    copy is not."""
    victim = sc["_two"]
    pre = None
    for op, ob in zip(sc["ops"], obs):
        if op["op"] == "hstate" and ob.get("r") == "ok":
            pre = ob
    if pre is None:
        return set()
    out = set()
    for key in {c[3] for c in pre["copies"]}:
        cs = [c for c in pre["copies"] if c[3] == key]
        if all(c[0] == victim for c in cs) and {c[1] for c in cs} == {"p", "b"}:
            out.add(key)
    return out


PUT_POINTS = ["put.local", "put.backup", "delete.others"]


def gen_opcrash(rng, sid, point):
    """the partition owner stops abruptly in the middle of a Put (after its own write / after a backup write) or of a
    Delete (after the remote copies were removed, before its own): the interrupted operation is not acknowledged, every
    acknowledged one must survive"""
    d = "c02x%d" % sid
    R = rng.choice([2, 2, 3])
    N = rng.choice([3, 4]) if R == 2 else 4
    keys = [dmaplib.hx("%s-k%d" % (d, i)) for i in range(rng.randrange(12, 24))]
    ver = {k: 0 for k in keys}

    def phase(n, paths):
        out = []
        for _ in range(n):
            k = rng.choice(keys)
            if rng.random() < 0.3:
                out.append({"op": "del", "c": rng.choice(paths), "d": d, "k": k})
            else:
                ver[k] += 1
                out.append({"op": "put", "c": rng.choice(paths), "d": d, "k": k, "v": dmaplib.hx("%s#%d" % (k[-6:], ver[k]))})
        return out

    ops = phase(rng.randrange(25, 45), ["emb@owner", "emb@other", "emb@backup", "cc"])
    ops.append({"op": "arm", "c": point, "tok": "self", "m": rng.randrange(1, 6)})
    ops += phase(12, ["cc"])
    ops.append({"op": "fired"})
    ops.append({"op": "waitstable", "ms": 25000})
    for k in keys:
        for c in ("emb@owner", "emb@other", "cc"):
            ops.append({"op": "get", "c": c, "d": d, "k": k})
    ops += phase(rng.randrange(8, 16), ["emb@owner", "emb@other", "cc"])
    for k in keys:
        ops.append({"op": "get", "c": rng.choice(["emb@owner", "emb@other", "cc"]), "d": d, "k": k})
    cluster = {"members": N, "replicas": R, "wq": 1, "rq": 1, "partitions": 7, "table": 4096, "readrepair": False, "evict_workers": 1}
    return {"id": sid, "cluster": cluster, "ops": with_dumps(ops, d), "_failed": [(point, "fail-point")], "_model": True, "_point": point}


def judge(sc, obs):
    """reference map of the last acknowledged value; an operation that returned an error leaves its key uncertain
    (either outcome is accepted) until the next acknowledged write/delete of that key"""
    if len(obs) < len(sc["ops"]):
        return ("env", "scenario aborted: %s" % obs)
    ref = {}
    uncertain = set(sc.get("_d40") or ())
    stable = True
    for i, (op, ob) in enumerate(zip(sc["ops"], obs)):
        o = op["op"]
        r = ob.get("r")
        if o in ("stop", "arm"):
            stable = False
            continue
        if o == "waitstable":
            if r != "ok":
                return ("env", "cluster did not re-stabilise: %s" % r)
            stable = True
            continue
        if o == "put":
            if r == "ok":
                ref[op["k"]] = op["v"]
                if op["k"] not in (sc.get("_d40") or ()):
                    uncertain.discard(op["k"])
            else:
                if stable:
                    if not any(o2["op"] in ("stop", "arm") for o2 in sc["ops"][:i]) and "client is closed" in str(r):
                        # nobody was stopped yet: memberlist suspected a live member (busy machine) and its peers closed
                        # their connections to it. Environment, not the property.
                        return ("env", "a live member was suspected dead before any failure was injected: %s" % r)
                    return (i, "Put through %s on the re-stabilised cluster returned %s" % (op["c"], r))
                uncertain.add(op["k"])
        elif o == "del":
            if r == "ok":
                ref.pop(op["k"], None)
                uncertain.discard(op["k"])
            else:
                if stable:
                    return (i, "Delete through %s on the re-stabilised cluster returned %s" % (op["c"], r))
                uncertain.add(op["k"])
        elif o == "get":
            if not stable or op["k"] in uncertain:
                continue
            exp = ref.get(op["k"])
            if exp is None:
                if r != "notfound":
                    return (i, "key %s was deleted (or never written); Get through %s returns %s %s" % (op["k"], op["c"], r, ob.get("val")))
            else:
                if r != "ok" or ob.get("val") != exp:
                    return (i, "Get through %s returns %s %s, the last acknowledged value is %s" % (op["c"], r, bytes.fromhex(ob.get("val", "")).decode(errors="replace") if ob.get("val") else None, bytes.fromhex(exp).decode()))
    return None


def run(res):
    proofs_ok = vlib.common_obligations(res, PID)
    if getattr(res, "harness_error", None):
        res.violation({"kind": "harness-build", "failed": "correspondence: the harness no longer compiles against /repo",
                       "detail": res.harness_error[-3000:]}, no_input=True)
        res.coverage.update({"evaluations": 0, "distinct_nontrivial": 0})
        return
    n = 14 if res.tier == "quick" else 150
    scs = []
    for i in range(n):
        rng = vlib.rng_for(res.seed, PID, i)
        R = rng.choice([2, 2, 3])
        # R=3 on exactly 3 members (the cluster is below ReplicaCount after the first loss) is the subject of the directed
        # two-failure scenarios, which can tell D40 from other losses
        N = rng.choice([3, 4, 5]) if R == 2 else rng.choice([4, 5])
        scs.append(gen(rng, i, N, R, rng.random() < 0.5))
    orders = [(a, b) for a in range(3) for b in range(3) if a != b]
    for j, (a, b) in enumerate(orders if res.tier != "quick" else orders[::2]):
        rng = vlib.rng_for(res.seed, PID, "two", j)
        scs.append(gen_two_failures(rng, 7000 + j, a, b, rng.choice(["graceful", "abrupt"]), rng.choice(["graceful", "abrupt"])))
    for j in range(4 if res.tier == "quick" else 16):
        rng = vlib.rng_for(res.seed, PID, "lol", j)
        a, b = rng.sample(range(4), 2)
        scs.append(gen_loss_overwrite_loss(rng, 8000 + j, a, b, rng.choice(["graceful", "abrupt"]), rng.choice(["graceful", "abrupt"])))
    nop = 6 if res.tier == "quick" else 45
    for j in range(nop):
        scs.append(gen_opcrash(vlib.rng_for(res.seed, PID, "opcrash", j), 5000 + j, PUT_POINTS[j % len(PUT_POINTS)]))
    results = memberlib.run_membership(scs, jobs=7)
    failures, envfail = [], 0
    roles = {}
    kf40 = vlib.match_known(PID, {"kind": "copies-colocated-on-lost-member"})
    d40n = 0
    for sc in scs:
        r = results[sc["id"]]
        if r.get("env", {}).get("error") or r.get("env", {}).get("flapped"):
            envfail += 1
            continue
        if "_two" in sc and kf40 and len(r["obs"]) >= len(sc["ops"]):
            ks = colocated_before_loss(sc, r["obs"])
            if ks:
                sc["_d40"] = ks
                d40n += len(ks)
        v = judge(sc, r["obs"])
        if v and v[0] == "env":
            envfail += 1
            continue
        for f in sc["_failed"]:
            roles[f[1]] = roles.get(f[1], 0) + 1
        if v:
            failures.append((sc, r, v))
    if envfail * 3 > len(scs):
        raise vlib.CheckError("%d of %d failover scenarios could not start or re-stabilise (environment)" % (envfail, len(scs)))
    # see checks/c03.py: a failure of a whole-cluster scenario is reported when one of three re-runs fails again
    confirmed, unrepeated = [], []
    for sc, r, v in failures[:8]:
        again = None
        for attempt in range(3):
            s2 = {kk: vv for kk, vv in sc.items() if kk != "_d40"}
            r2 = memberlib.run_membership([s2])[s2["id"]]
            if r2.get("env", {}).get("error") or r2.get("env", {}).get("flapped") or len(r2["obs"]) < len(s2["ops"]):
                continue
            if "_two" in s2 and kf40:
                ks = colocated_before_loss(s2, r2["obs"])
                if ks:
                    s2["_d40"] = ks
            v2 = judge(s2, r2["obs"])
            if v2 and v2[0] != "env":
                again = (s2, r2, v2)
                break
        if again:
            confirmed.append(again)
        else:
            unrepeated.append({"scenario_id": sc["id"], "cluster": sc["cluster"], "verdict": v[1], "failed_step": v[0]})
    res.coverage["unrepeated_failures"] = unrepeated
    for u in unrepeated:
        vlib.log("[c02] note: scenario %s failed once (%s) and passed 3 re-runs; not reported" % (u["scenario_id"], u["verdict"][:120]))
    for sc, r, v in confirmed[:5]:
        k = sc["ops"][v[0]].get("k")
        mini = [o for o in sc["ops"] if o.get("k") == k or o["op"] in ("stop", "waitstable")]
        res.violation({"kind": "impl-violates-property", "cluster": sc["cluster"], "scenario": {"ops": sc["ops"]}, "ops_on_failing_key": mini,
                       "failed_members": sc["_failed"], "failed_step": v[0], "predicate": {"name": "last acknowledged value from every survivor", "verdict": v[1]},
                       "seed": res.seed})
    # model comparison (Model/Balance.v + BalanceCrash.v on the abstracted white-box dumps): transitions while the cluster is
    # healthy, the invariant of the theorems in every healthy state, and the member-loss invariant in every state afterwards
    tcases, scases, ccases, mstats, fired = [], [], [], {}, {}
    for sc in scs:
        r = results[sc["id"]]
        if not sc.get("_model") or r.get("env", {}).get("error") or r.get("env", {}).get("flapped") or len(r["obs"]) < len(sc["ops"]):
            continue
        if sc.get("_point"):
            f = [ob.get("fired") for op, ob in zip(sc["ops"], r["obs"]) if op["op"] == "fired"]
            fired.setdefault(sc["_point"], [0, 0])
            fired[sc["_point"]][0] += 1
            fired[sc["_point"]][1] += 1 if (f and f[0]) else 0
        t, s_, st = balancelib.build_cases(sc, r["obs"], with_backup=True, crash=True, arm_ops=("arm", "stop"), clear_on_stop=False)
        tcases += t
        scases += s_
        ccases += st.pop("crash_states")
        for k, v in st.items():
            if isinstance(v, dict):
                d0 = mstats.setdefault(k, {})
                for kk, vv in v.items():
                    d0[kk] = d0.get(kk, 0) + vv
            else:
                mstats[k] = mstats.get(k, 0) + v
    badt = balancelib.coq_mismatches("c02t", "tcase", "t_mismatches", tcases)
    bads = balancelib.coq_mismatches("c02s", "scase", "s_mismatches", scases)
    badc = balancelib.coq_mismatches("c02c", "scase", "sc_mismatches", ccases)
    byid = {sc["id"]: sc for sc in scs}
    casetext = {("transition",) + t: x for t, x in tcases}
    casetext.update({("state",) + t: x for t, x in scases})
    casetext.update({("state-after-member-loss",) + t: x for t, x in ccases})
    for kind, bad in (("transition", badt), ("state", bads), ("state-after-member-loss", badc)):
        for (sid, step, part) in bad[:3]:
            sc = byid[sid]
            res.violation({"kind": "model-vs-impl", "what": kind, "cluster": sc["cluster"], "scenario": {"ops": sc["ops"]}, "failed_step": step,
                           "partition": part, "op": sc["ops"][step], "model_case": casetext.get((kind, sid, step, part), "")[:6000], "failed_members": sc["_failed"],
                           "theorem_or_correspondence": "Model/BalanceRun.v %s on the abstracted white-box dump" % {
                               "transition": "explains", "state": "state_ok"}.get(kind, "state_ok_crash"), "seed": res.seed}, no_input=True)
    res.coverage["model"] = dict(mstats, transition_cases=len(tcases), state_cases=len(scases), crash_state_cases=len(ccases),
                                 transition_mismatches=len(badt), state_mismatches=len(bads), crash_state_mismatches=len(badc))
    res.coverage["fail_points"] = {k: {"scenarios": v[0], "fired": v[1]} for k, v in fired.items()}
    res.coverage["d40_keys"] = d40n
    if d40n:
        res.known_finding(kf40["description"] + " [this run: %d keys lost that way after a fail-over below ReplicaCount members]" % d40n)
    if not proofs_ok and not res.violations:
        broken = [o for o in res.obligations if not o["ok"]]
        res.violation({"kind": "obligation-broken", "failed": [o["theorem"] for o in broken],
                       "detail": [o.get("detail", o.get("axioms")) for o in broken]}, no_input=True)
    res.coverage.update({
        "evaluations": len(scs), "distinct_nontrivial": len(scs) - envfail,
        "rule": "one real cluster per scenario, N in 3..5, R in {2,3}, read-repair on/off, partitions 7/13, table 512/4096: a workload of puts/overwrites/deletes over 12-30 keys "
                "through every member and a cluster client; then 1..R-1 members stop (the coordinator or a random member; graceful Shutdown or abrupt = memberlist stopped "
                "without leave + listener closed), optionally with operations issued during detection (unacknowledged ones leave their key uncertain); after "
                "re-stabilisation every key is read from EVERY survivor and from a fresh cluster client and must be the last acknowledged value (deleted keys not-found); "
                "then a post-failure workload and reads; ReplicaCount 3 on exactly 3 members losing two of them one after the other with balancer runs in between; plus scenarios in which the partition owner stops abruptly at a fail point inside a Put (after "
                "its own write, after a backup write) or a Delete (after the remote copies were removed); half of the scenarios dump every copy after every "
                "operation and are compared with Model/Balance.v + BalanceCrash.v inside Coq (transitions, invariant, member-loss invariant); "
                "non-trivial = scenarios that started and re-stabilised",
        "environment_failures": envfail, "predicate_failures": len(failures), "failure_modes": roles,
        "traces_validated_against_impl": len(scs) - envfail,
        "samples": [{"cluster": scs[0]["cluster"], "failed": scs[0]["_failed"], "ops": scs[0]["ops"][:6]}],
    })
    res.assumptions += ["memberlist detects a stopped member (tuned: probe 50 ms, suspicion x1); an operation in flight during the failure may or may not take effect",
                        "simultaneous loss of >= R members and network partitions are outside the property"]


def replay(res, path):
    obj = json.load(open(path))
    sc = obj.get("scenario")
    if not sc:
        print("replay names a broken obligation: %s" % obj.get("failed"))
        return 1
    ok, out = vlib.harness_build()
    if not ok:
        raise vlib.CheckError(out)
    s = {"id": 0, "cluster": obj["cluster"], "ops": sc["ops"]}
    r = memberlib.run_membership([s])[0]
    v = judge(s, r["obs"])
    print(json.dumps({"verdict": v}))
    if v and v[0] != "env":
        print("VIOLATION property=%s replay=%s" % (res.pid, path))
        return 1
    return 0
