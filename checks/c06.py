# C06 - conflicting copies resolve to the newest write: LWW on read, fragment merge, read-repair
# (DESIGN.md section 9, fixes/DESIGN-C05-C06.md).
import itertools
import json

import qlib
import vlib
from vlib import cN, cZ, cnat, cbool, clist, cbytes, copt

PID = "C06"
NOW_MS = 4102444800000
LWW_TABLE = 256         # table size of the receiving cluster (harness lww.go: lwwTable)
KLEN = 4                # "key<h>" with one-digit h


# ------------------------------------------------------------------------------------------------
# scenarios
# ------------------------------------------------------------------------------------------------

def merge_orders(n=3):
    """all permutations of the fragments and all single re-deliveries (one fragment delivered twice)"""
    out = [list(p) for p in itertools.permutations(range(n))]
    seen = set(tuple(o) for o in out)
    for p in itertools.permutations(range(n)):
        for dup in range(n):
            for pos in range(n + 1):
                o = list(p[:pos]) + [dup] + list(p[pos:])
                if tuple(o) not in seen:
                    seen.add(tuple(o))
                    out.append(o)
    return out


def gen_frags(rng, big_p=0.0, exp_p=0.0):
    """3 fragments x 3 keys, timestamps from {absent,1,2,3} (ties included)"""
    frags = []
    for f in range(3):
        fr = []
        for h in (1, 2, 3):
            ts = rng.choice([0, 1, 2, 3])
            if ts:
                fr.append({"h": h, "ts": ts})
        frags.append(fr)
    if rng.random() < big_p:
        # one fragment consists of a single entry the receiver's storage rejects
        f = rng.randrange(3)
        frags[f] = [{"h": rng.choice([1, 2, 3]), "ts": rng.choice([1, 2, 3]), "big": True}]
    if rng.random() < exp_p:
        # some copies carry a deadline that has passed (not evicted yet): still the copy with the newest timestamp wins
        for fr in frags:
            for e in fr:
                if not e.get("big") and rng.random() < 0.4:
                    e["exp"] = True
    return frags


def scenarios(res):
    scs = qlib.corpus(PID)
    for i, s in enumerate(scs):
        s["id"] = i
    ncorpus = len(scs)
    sid = ncorpus
    quick = res.tier == "quick"
    # (a)/(c): every layout of 4 holders x {absent,1,2,3}, read-repair on and off
    layouts = list(itertools.product([0, 1, 2, 3], repeat=4))
    chunk = 128
    for rr in (False, True):
        for i in range(0, len(layouts), chunk):
            scs.append({"id": sid, "rr": rr, "rq": 1, "gets": [{"copies": list(l), "down": [], "expired": []} for l in layouts[i:i + chunk]]})
            sid += 1
    # layouts with unreachable holders / expired copies (seeded)
    nrand = 50 if quick else 600
    for rr in (False, True):
        gets = []
        for j in range(nrand):
            rng = vlib.rng_for(res.seed, PID, "get", rr, j)
            l = [rng.choice([0, 1, 2, 3]) for _ in range(4)]
            down = [h for h in (1, 2, 3) if rng.random() < 0.3]
            # expired copies only in BACKUP fragments: the background eviction workers scan primary fragments and
            # delete an expired key cluster-wide within ~100 ms, which would make the layout a race
            exp = [h for h in (2, 3) if l[h] and rng.random() < 0.2]
            gets.append({"copies": l, "down": down, "expired": exp})
        for i in range(0, len(gets), 100):
            scs.append({"id": sid, "rr": rr, "rq": 1, "gets": gets[i:i + 100]})
            sid += 1
    # the owner's own copy is the newest one and its deadline has passed (not evicted yet): the read reports not-found, an older
    # copy without a deadline on a previous owner or a backup owner must not win (only the result is judged, see check_get)
    for rr in (False, True):
        gets = []
        for l in ([3, 1, 0, 0], [3, 2, 1, 0], [2, 0, 1, 1], [3, 0, 0, 2], [2, 1, 1, 1], [3, 3, 0, 0]):
            gets.append({"copies": list(l), "down": [], "expired": [0]})
        scs.append({"id": sid, "rr": rr, "rq": 1, "gets": gets})
        sid += 1
    # (d): Expire as the newest write, then an older copy turns up
    for rr in (False, True):
        scs.append({"id": sid, "rr": rr, "rq": 1, "expires": [{"mode": "merge"}, {"mode": "backup"}, {"mode": "merge"}]})
        sid += 1
    # (b): merges through the real MOVEFRAGMENT handler
    orders = merge_orders(3)
    ncontent = 6 if quick else 60
    for j in range(ncontent):
        rng = vlib.rng_for(res.seed, PID, "merge", j)
        frags = gen_frags(rng, big_p=0.25, exp_p=0.5 if j % 2 else 0.0)
        scs.append({"id": sid, "rr": False, "rq": 1, "merges": [{"frags": frags, "order": o} for o in orders]})
        sid += 1
    # the newest copy of a key carries a deadline that has passed, older copies carry none
    frags = [[{"h": 1, "ts": 3, "exp": True}, {"h": 2, "ts": 1}], [{"h": 1, "ts": 1}, {"h": 2, "ts": 2, "exp": True}, {"h": 3, "ts": 2, "exp": True}],
             [{"h": 1, "ts": 2}, {"h": 3, "ts": 1}]]
    scs.append({"id": sid, "rr": False, "rq": 1, "merges": [{"frags": frags, "order": o} for o in orders]})
    sid += 1
    # the read-repair / Delete schedule (D24)
    scs.append({"id": sid, "rr": True, "rq": 1, "race": True})
    sid += 1
    scs.append({"id": sid, "rr": False, "rq": 1, "race": True})
    sid += 1
    return scs, ncorpus


# ------------------------------------------------------------------------------------------------
# the property on the implementation's observations alone
# ------------------------------------------------------------------------------------------------

def val_of(i, ts):
    return "%d@%d" % (i, ts)


def check_get(sc, g, ob):
    copies = g["copies"]
    down = set(g.get("down", []))
    exp = set(g.get("expired", []))
    # what the read has to look at: the copy of every reachable holder, whether its deadline has passed or not (C06: "a read
    # returns the copy with the newest timestamp"; D48: a remote holder used to hide its expired copy, so an older copy won)
    cand = [(i, copies[i]) for i in range(4) if copies[i] and i not in down]
    if ob["res"] not in ("ok", "notfound"):
        return "Get failed with %s (%s)" % (ob["res"], ob.get("err"))
    if not cand:
        if ob["res"] != "notfound":
            return "Get returned %r although no reachable holder has a copy" % ob.get("val")
    else:
        mx = max(ts for _, ts in cand)
        newest = [i for i, ts in cand if ts == mx]
        if ob["res"] == "ok":
            if ob["ts"] != mx:
                return "Get returned the copy with timestamp %d, the newest reachable copy has %d%s" % (
                    ob["ts"], mx, " (its deadline has passed: the key is absent)" if all(i in exp for i in newest) else "")
            if ob["val"] not in [val_of(i, mx) for i in newest]:
                return "Get returned %r which is not one of the newest copies" % ob["val"]
            if all(i in exp for i in newest):
                return "Get returned %r although the deadline of every newest copy has passed" % ob["val"]
        elif not any(i in exp for i in newest):
            return "Get returned %s although the newest copy (holders %s, timestamp %d) is not expired" % (ob["res"], newest, mx)
    if 0 in exp:
        return None       # the owner's expired copy is evicted cluster-wide within ~100 ms: the copies after the read are a race
    # copies after the read
    before = [None] * 8
    for i in range(4):
        if copies[i]:
            before[2 * i if i < 2 else 2 * i + 1] = (val_of(i, copies[i]), copies[i])
    after = [((a.get("val"), a.get("ts")) if a["found"] else None) for a in ob["after"]]
    if not sc.get("rr") or ob["res"] != "ok":
        if after != before:
            return "the read changed the stored copies (read-repair %s, result %s): %s -> %s" % (
                "on" if sc.get("rr") else "off", ob["res"], before, after)
        return None
    win = (ob["val"], ob["ts"])
    # the owner's own copy
    if after[0] is None or after[0][1] != win[1]:
        return "read-repair on: the owner's copy after the read is %s, the winner is %s" % (after[0], win)
    if (before[0] is None or before[0][1] != win[1]) and after[0] != win:
        return "read-repair on: the owner's stale copy became %s, the winner is %s" % (after[0], win)
    # every reachable backup copy, expired or not
    for i in (2, 3):
        s = 2 * i + 1
        if i in down:
            if after[s] != before[s]:
                return "an unreachable backup copy changed: %s -> %s" % (before[s], after[s])
            continue
        if before[s] is None:
            continue
        if after[s] is None or after[s][1] != win[1]:
            return "read-repair on: backup %d holds %s after the read, the winner is %s" % (i - 2, after[s], win)
        if before[s][1] != win[1] and after[s] != win:
            return "read-repair on: stale backup %d became %s, the winner is %s" % (i - 2, after[s], win)
    return None


def check_merge(sc, m, ob):
    frags, order = m["frags"], m["order"]
    if ob.get("evicted") and any(e.get("exp") for fr in frags for e in fr):
        return None     # the background eviction removed a key while the fragments were delivered: the case is not judged
    if len(ob["replies"]) != len(order):
        return "%d replies for %d deliveries" % (len(ob["replies"]), len(order))
    final = {it["h"]: (it["val"], it["ts"]) for it in (ob.get("final") or [])}
    okd = set()
    for fi, rep in zip(order, ob["replies"]):
        big = any(e.get("big") for e in frags[fi])
        if rep == "ok":
            okd.add(fi)
        elif not big:
            return "delivery of fragment %d (every entry fits) was answered %s" % (fi, rep)
    # an OK reply promises that every entry of the fragment is kept or superseded by a newer copy: the sender
    # drops its table on OK
    for fi in okd:
        for e in frags[fi]:
            got = final.get(e["h"])
            if got is None or got[1] < e["ts"]:
                return "fragment %d was acknowledged but its entry (key %d, ts %d) is not in the receiver (holds %s)" % (fi, e["h"], e["ts"], got)
    delivered = set(order)
    for h in (1, 2, 3):
        ents = [(fi, e["ts"], bool(e.get("big"))) for fi in delivered for e in frags[fi] if e["h"] == h]
        got = final.get(h)
        fit = [(fi, ts) for fi, ts, big in ents if not big]
        if got is None:
            if fit:
                return "key %d is missing, fragments %s carried it" % (h, sorted(set(fi for fi, _ in fit)))
            continue
        names = [("%d@%d" % (fi, ts), ts) for fi, ts in fit]
        if got not in names:
            return "key %d: the receiver holds %s which no delivered fragment contains" % (h, got)
        mx = max(ts for _, ts in fit)
        if got[1] != mx:
            return "key %d: the receiver holds timestamp %d, the newest delivered copy has %d" % (h, got[1], mx)
        newest = sorted(set(n for n in names if n[1] == mx))
        if len(newest) == 1 and got != newest[0]:
            return "key %d: the receiver holds %s, the newest copy is %s" % (h, got, newest[0])
    return None


def check_race(sc, ob):
    if not ob or not ob.get("done"):
        return None
    if ob["del"] == "ok" and (ob["primary"]["found"] or ob["get2"] == "ok"):
        return ("after an acknowledged Delete the key is back: a read that overlapped the Delete wrote %r into the owner's "
                "fragment by read-repair; a later Get returns %s" % (ob["primary"].get("val"), ob.get("get2val", ob["get2"])))
    return None


def check(sc, ob):
    bad = []
    if ob.get("crash"):
        return [("crash", 0, "the harness process died: " + ob["crash"][-400:])]
    for i, g in enumerate(sc.get("gets", [])):
        m = check_get(sc, g, ob["gets"][i])
        if m:
            bad.append(("get", i, m))
    for i, mg in enumerate(sc.get("merges", [])):
        m = check_merge(sc, mg, ob["merges"][i])
        if m:
            bad.append(("merge", i, m))
    for i, x in enumerate(sc.get("expires", [])):
        m = check_expire(sc, x, (ob.get("expires") or [None] * (i + 1))[i])
        if m:
            bad.append(("expire", i, m))
    if sc.get("race"):
        m = check_race(sc, ob.get("race"))
        if m:
            bad.append(("race", 0, m))
    return bad


def check_expire(sc, x, o):
    """Put; Expire (the newest write: same value, a deadline, a newer timestamp); then an older copy of the key turns up
    (re-delivered fragment / stale backup): the owner keeps the Expire's entry, Get reports its deadline, and with
    read-repair the stale backup is brought to it"""
    if o is None:
        return "the harness returned no observation"
    nw = o["newest"]
    if not (nw.get("found") and nw.get("ttl", 0) > 0 and nw.get("ts", 0) > o["old"].get("ts", 0)):
        return None            # the Expire did not produce a newer entry on the backups: not this predicate's subject (C04/C09)
    ow = o["owner"]
    if not ow.get("found") or ow.get("ttl", 0) != nw["ttl"]:
        return "after %s of the pre-Expire copy the owner's copy has ttl %s, the newest write (Expire) set %s: the older copy won" % (
            "a re-delivered fragment" if x["mode"] == "merge" else "a stale backup + Get", ow.get("ttl", 0), nw["ttl"])
    if o["get"] != "ok" or o.get("get_ttl", 0) != nw["ttl"]:
        return "Get returns %s with ttl %s after an older copy turned up (%s), the newest write (Expire) set %s" % (
            o["get"], o.get("get_ttl"), x["mode"], nw["ttl"])
    if x["mode"] == "backup" and sc.get("rr") and o["backup"].get("ttl", 0) != nw["ttl"]:
        return "read-repair left the stale backup copy (ttl %s) although the winner has ttl %s" % (o["backup"].get("ttl", 0), nw["ttl"])
    return None


# ------------------------------------------------------------------------------------------------
# Coq side
# ------------------------------------------------------------------------------------------------

HEADER = """From Coq Require Import List NArith ZArith Bool.
Require Import Olric.Gen.Consts Olric.Model.Codec Olric.Model.LWW Olric.Model.Quorum Olric.Model.LWWRun.
Import ListNotations.
"""


def cview(c):
    return "(Some (%s, %s))" % (cbytes(c["val"]), cZ(c["ts"])) if c["found"] else "None"


def coq_cases(sc, ob):
    out = []
    if ob.get("crash"):
        return out
    for i, g in enumerate(sc.get("gets", [])):
        o = ob["gets"][i]
        exp = set(g.get("expired", []))
        down = set(g.get("down", []))
        if 0 in exp:
            continue      # the owner's expired copy is evicted cluster-wide at any moment: the copies after the read are a race
        held = clist(copt(qlib.centry(val_of(h, g["copies"][h]), 1 if h in exp else 0, g["copies"][h])) if g["copies"][h] else "None" for h in range(4))
        reach = clist(cbool(h not in down) for h in range(4))
        if o["res"] == "ok":
            r = "(GVal (%s, %s))" % (cbytes(o["val"]), cZ(o["ts"]))
        else:
            r = {"notfound": "GNotFound", "readquorum": "GReadQuorum"}.get(o["res"], "GOther")
        out.append(((sc["id"], "get", i), "LGet %s %s %s %s %s %s %s" % (
            cnat(sc.get("rq", 1)), cbool(sc.get("rr", False)), "far_future_ms", held, reach, r, clist(cview(c) for c in o["after"]))))
    merges = sc.get("merges", [])
    i = 0
    while i < len(merges):
        # consecutive merge cases over the same fragments are printed as one Coq case (the fragments once)
        j = i
        while j + 1 < len(merges) and merges[j + 1]["frags"] == merges[i]["frags"]:
            j += 1
        m = merges[i]
        if any(e.get("exp") for fr in m["frags"] for e in fr) and any(ob["merges"][k].get("evicted") for k in range(i, j + 1)):
            i = j + 1       # the background eviction interfered (see check_merge): not compared
            continue
        frs = []
        for fi, fr in enumerate(m["frags"]):
            es = []
            for e in fr:
                v = ("%d@%d" % (fi, e["ts"])).encode() + (b"B" * (2 * LWW_TABLE) if e.get("big") else b"")
                es.append("(%s, %s)" % (cN(e["h"]), qlib.centry(v, 1 if e.get("exp") else 0, e["ts"])))
            frs.append(clist(es))
        keys = [1, 2, 3]
        runs = []
        for k in range(i, j + 1):
            o = ob["merges"][k]
            final = {it["h"]: it for it in (o.get("final") or [])}
            fin = []
            for h in keys:
                it = final.get(h)
                if it is None:
                    fin.append("None")
                else:
                    v = it["val"]
                    vb = v.encode() if not v.endswith("+big") else v[:-4].encode() + b"B" * (2 * LWW_TABLE)
                    fin.append("(Some (%s, %s))" % (cbytes(vb), cZ(it["ts"])))
            runs.append("(%s, %s, %s)" % (clist(cnat(x) for x in merges[k]["order"]), clist(cbool(r == "ok") for r in o["replies"]), clist(fin)))
        out.append(((sc["id"], "merge", i), "LMerge %s %s %s %s %s" % (
            cN(LWW_TABLE), cN(KLEN), clist(frs), clist(cN(h) for h in keys), clist(runs))))
        i = j + 1
    return out


# ------------------------------------------------------------------------------------------------

def run_one(sc):
    return qlib.run_harness("lww", [dict(qlib.strip(sc), id=0)], jobs=1)[0]


def minimise(sc, what, idx):
    base = {"rr": sc.get("rr", False), "rq": sc.get("rq", 1)}
    if what == "get":
        c = dict(base, gets=[sc["gets"][idx]])
    elif what == "merge":
        c = dict(base, merges=[sc["merges"][idx]])
        # drop deliveries one at a time while the failure stays
        changed = True
        while changed and len(c["merges"][0]["order"]) > 1:
            changed = False
            for k in range(len(c["merges"][0]["order"])):
                o = c["merges"][0]["order"]
                cand = dict(base, merges=[dict(c["merges"][0], order=o[:k] + o[k + 1:])])
                if check(cand, run_one(cand)):
                    c = cand
                    changed = True
                    break
    elif what == "race":
        c = dict(base, race=True)
    elif what == "expire":
        c = dict(base, expires=[sc["expires"][idx]])
    else:
        return qlib.strip(sc)
    if check(c, run_one(c)):
        return c
    return qlib.strip(sc)


def classify(what, msg):
    if what == "race":
        return {"kind": "rr-race", "steps": "get.lookup|delete.ack|get.repair"}
    return {"kind": "lww-" + what, "what": msg.split(":")[0][:60]}


def run(res):
    proofs_ok = vlib.common_obligations(res, PID)
    if getattr(res, "harness_error", None):
        res.violation({"kind": "harness-build", "failed": "correspondence: the harness no longer compiles against /repo",
                       "detail": res.harness_error[-3000:]}, no_input=True)
        res.coverage.update({"evaluations": 0, "distinct_nontrivial": 0})
        return
    scs, ncorpus = scenarios(res)
    results = qlib.run_harness("lww", [qlib.strip(s) for s in scs], jobs=14)
    pred_fail = []
    for s in scs:
        for what, idx, msg in check(s, results[s["id"]]):
            pred_fail.append((s, what, idx, msg))
    cases = []
    for s in scs:
        cases += coq_cases(s, results[s["id"]])
    mism, coq_secs = qlib.coq_mismatches("c06", HEADER, "lcase", cases, shard=100 if res.tier == "quick" else 400)
    reported = set()
    prekeys = set()
    import re as _re
    stale_known = {f["id"] for f in qlib.all_findings() if f.get("status") == "open" and PID in f.get("properties", [])}
    seen_known = set()
    for s, what, idx, msg in pred_fail:
        kf = qlib.match_known(PID, classify(what, msg))
        if kf:
            res.known_finding(kf["description"])
            seen_known.add(kf["id"])
            continue
        prekey = what + _re.sub(r"\d+", "#", msg)[:70]
        if len(reported) >= 6 or prekey in prekeys:
            continue
        prekeys.add(prekey)
        small = minimise(s, what, idx)
        ob = run_one(small)
        bad = check(small, ob)
        if not bad:
            raise vlib.CheckError("a predicate failure did not reproduce (scenario %s %s %s: %s)" % (s["id"], what, idx, msg))
        key = what + bad[0][2].split(":")[0][:50]
        if key in reported:
            continue
        reported.add(key)
        res.violation({"kind": "impl-violates-property", "scenario": small, "impl_trace": ob,
                       "predicate": {"name": "lww-" + bad[0][0], "verdict": bad[0][2]}, "original_scenario_id": s["id"], "seed": res.seed})
    for fid in sorted(stale_known - seen_known):
        vlib.log("[c06] note: open finding %s was not reproduced in this run (stale?)" % fid)
        res.coverage.setdefault("stale_known_findings", []).append(fid)
    failed = {(s["id"], what, idx) for s, what, idx, _ in pred_fail}
    import re as _re

    def real_tag(tag, m):
        if tag[1] == "merge":       # a group of orders over the same fragments: Coq names the run
            mm = _re.match(r"MMerge (\d+)", m)
            return (tag[0], "merge", tag[2] + (int(mm.group(1)) if mm else 0))
        return tag
    mism = [(real_tag(tag, m), m) for tag, m in mism]
    only_model = [(tag, m) for tag, m in mism if tag not in failed]
    if only_model and not res.violations:
        tag, m = only_model[0]
        s = [x for x in scs if x["id"] == tag[0]][0]
        small = dict({"rr": s.get("rr", False), "rq": s.get("rq", 1)}, **{tag[1] + "s": [s[tag[1] + "s"][tag[2]]]})
        ob = run_one(small)
        res.violation({"kind": "model-vs-impl", "failed": "correspondence Model/LWWRun.v vs the implementation: %s %d of scenario %d" % (tag[1], tag[2], tag[0]),
                       "scenario": small, "impl_trace": ob, "model_obs": m,
                       "note": "the LWW predicate holds on every explored implementation trace", "seed": res.seed}, no_input=True)
    if not proofs_ok and not res.violations:
        broken = [o for o in res.obligations if not o["ok"]]
        res.violation({"kind": "obligation-broken", "failed": [o["theorem"] for o in broken],
                       "detail": [o.get("detail", o.get("axioms")) for o in broken],
                       "note": "searched %d implementation cases with the LWW predicate, none failed" % len(cases)}, no_input=True)
    # evidence
    ngets = sum(len(s.get("gets", [])) for s in scs)
    nmerges = sum(len(s.get("merges", [])) for s in scs)
    nt = set()
    rh = {}
    for s in scs:
        ob = results[s["id"]]
        for g, o in zip(s.get("gets", []), ob.get("gets", [])):
            rh["get:" + o["res"]] = rh.get("get:" + o["res"], 0) + 1
            if len(set(c for c in g["copies"] if c)) >= 2:
                nt.add(json.dumps([s.get("rr"), g]))
        for m, o in zip(s.get("merges", []), ob.get("merges", [])):
            if any(e.get("exp") for fr in m["frags"] for e in fr):
                k_ = "merge_cases_with_expired_copies" if not o.get("evicted") else "merge_cases_not_judged_eviction_interfered"
                rh[k_] = rh.get(k_, 0) + 1
            for r in o["replies"]:
                rh["merge:" + r] = rh.get("merge:" + r, 0) + 1
            per = {}
            for fr in m["frags"]:
                for e in fr:
                    per.setdefault(e["h"], set()).add(e["ts"])
            if any(len(v) >= 2 for v in per.values()):
                nt.add(json.dumps(m))
    sample = scs[ncorpus]
    res.coverage.update({
        "evaluations": ngets + nmerges + 2, "scenarios": len(scs), "distinct_nontrivial": len(nt),
        "rule": "reads: every layout of (owner, previous owner, backup 0, backup 1) x timestamps {absent,1,2,3} with read-repair on "
                "and off on a real 4-member R=3 cluster (exhaustive, 2x256) + seeded layouts with unreachable holders and expired copies; "
                "merges: seeded contents of 3 fragments x 3 keys x timestamps {absent,1,2,3} (some with an entry the receiver rejects), each in "
                "all 6 permutations and all single re-deliveries (42 orders) through the real INTERNAL.NODE.MOVEFRAGMENT handler; one "
                "deterministic read-repair/Delete schedule. non-trivial = at least two different timestamps among the copies of a key",
        "exhaustive": True, "exhaustive_part": "4 holders x {absent,1,2,3} x read-repair on/off; all permutations and single duplications of 3 fragments",
        "corpus_cases": ncorpus, "get_cases": ngets, "merge_cases": nmerges, "result_histogram": rh,
        "traces_validated_against_impl": len(cases), "model_vs_impl_mismatches": len(mism),
        "predicate_failures": len(pred_fail), "coq_eval_seconds": round(coq_secs, 1),
        "samples": [{"scenario": dict(qlib.strip(sample), gets=sample.get("gets", [])[:3], merges=sample.get("merges", [])[:1]),
                     "impl_obs": {"gets": results[sample["id"]].get("gets", [])[:3], "merges": results[sample["id"]].get("merges", [])[:1]}}],
    })
    res.assumptions += [
        "copies are built white-box (VerifPutCopy) in the fragment where the read looks for them; the previous owner is entered in the owner's own partition table",
        "ReadQuorum = 1 (quorum arithmetic is C05's)", "the order in which Import walks a received table is Go map order: fragments hold one entry per key, so it does not matter",
        "timestamps tie only when generated so; theorems promising THE newest copy assume distinct timestamps"]


def replay(res, path):
    obj = json.load(open(path))
    sc = obj.get("scenario")
    if not sc:
        print("replay has no scenario (names a broken obligation): %s" % obj.get("failed"))
        return 1
    ok, out = vlib.harness_build()
    if not ok:
        raise vlib.CheckError(out)
    ob = run_one(sc)
    bad = check(sc, ob)
    print(json.dumps({"impl_trace": ob, "predicate": bad}, indent=1))
    real = [b for b in bad if not qlib.match_known(PID, classify(b[0], b[2]))]
    for b in bad:
        kf = qlib.match_known(PID, classify(b[0], b[2]))
        if kf:
            print("KNOWN-FINDING: property=%s %s" % (res.pid, kf["description"]))
    if real:
        print("VIOLATION property=%s replay=%s" % (res.pid, path))
        return 1
    return 0
