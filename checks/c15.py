# C15 - an operation means the same thing through every client path (DESIGN.md section 9).
import json
import os

import dmapcheck
import dmaplib
import vlib

PID = "C15"
PATHS = ["emb@owner", "emb@other", "emb@backup", "cc", "raw@owner", "raw@other", "pipe"]
CONDS = [{}, {"nx": True}, {"xx": True}]
EXPS = [{}, {"ex": 60000}, {"px": 60000}, {"exat": 60000, "rel": True}, {"pxat": 60000, "rel": True}]
STATES = ["absent", "present", "expired"]


def hexs(s):
    return s.encode().hex()


def grid(seed, dname, paths=None):
    """one scenario: every (operation, options, prior state, path) on its own key"""
    setup, tests, finals = [], [], []
    labels = {}
    n = 0

    def fresh(state):
        nonlocal n
        n += 1
        k = hexs("k%04d" % n)
        if state == "present":
            setup.append({"op": "put", "c": "emb@owner", "d": dname, "k": k, "v": hexs("old%d" % n)})
        elif state == "expired":
            setup.append({"op": "put", "c": "emb@owner", "d": dname, "k": k, "v": hexs("exp%d" % n), "px": 150})
        return k

    for path in (paths or PATHS):
        for st in STATES:
            for cond in CONDS:
                for exp in EXPS:
                    k = fresh(st)
                    op = {"op": "put", "c": path, "d": dname, "k": k, "v": hexs("new%d" % n)}
                    op.update(cond)
                    op.update(exp)
                    tests.append(op)
                    labels[k] = ("put", path, st, cond, exp)
            # expire, getput, incr, decr, delete
            k = fresh(st)
            tests.append({"op": "expire", "c": path, "d": dname, "k": k, "ms": 60000})
            k = fresh(st)
            tests.append({"op": "getput", "c": path, "d": dname, "k": k, "v": hexs("gp%d" % n)})
            if st != "absent":
                # numeric base with an expiry that must be kept / ignored
                n += 1
                k = hexs("k%04d" % n)
                setup.append({"op": "put", "c": "emb@owner", "d": dname, "k": k, "v": hexs("41"),
                              "px": 150 if st == "expired" else 60000})
            else:
                k = fresh(st)
            tests.append({"op": "incr", "c": path, "d": dname, "k": k, "delta": 5})
            tests.append({"op": "decr", "c": path, "d": dname, "k": k, "delta": 50})
            k = fresh(st)
            tests.append({"op": "del", "c": path, "d": dname, "k": k})
        # Lock with a timeout: the embedded and cluster clients send PX <ms>; over raw RESP both PX and EX <seconds> exist
        if path != "pipe":
            for form in ([{}, {"ex": 1}] if path.startswith("raw") else [{}]):
                k = fresh("absent")
                tests.append(dict({"op": "lock", "c": path, "d": dname, "k": k, "ms": 60500, "dl": 20, "tok": "%s-l%d" % (dname, n)}, **form))
        # multi-key delete spread over owners
        ks = []
        for j in range(6):
            ks.append(fresh("present"))
        ks.append(fresh("absent"))
        # two of the keys are named twice: the answer counts the keys NAMED, through every path (seeded/C15-g: the cluster client
        # dropped repeated keys before sending DM.DEL and answered the number of distinct ones)
        named = ks[:3] + [ks[0]] + ks[3:] + [ks[1]]
        tests.append({"op": "mdel", "c": path, "d": dname, "ks": named})
        for kk in ks:
            finals.append({"op": "get", "c": "emb@owner", "d": dname, "k": kk})
            finals.append({"op": "dump", "d": dname, "k": kk})
    ops = setup + [{"op": "sleep", "ms": 150 + 2 * dmaplib.MARGIN + 60}]
    for t in tests:
        ops.append(t)
        if t["op"] == "lock":
            ops.append({"op": "dump", "d": dname, "k": t["k"]})
        elif t["op"] != "mdel":
            ops.append({"op": "get", "c": "emb@owner", "d": dname, "k": t["k"]})
            ops.append({"op": "dump", "d": dname, "k": t["k"]})
    ops += finals
    # several commands queued in ONE pipeline before Exec (different keys, different values): the same results and stored
    # entries as the same commands issued one by one
    if paths == ["pipe"] or paths is None:
        for rnd in range(2):
            bk = [fresh("present" if j % 2 else "absent") for j in range(8)] if rnd == 0 else bk
            if rnd == 0:
                ops += setup[-4:]          # the "present" keys of the batch (fresh() queued their set-up Puts)
            batch = []
            for j, k in enumerate(bk):
                what = ["getput", "getput", "put", "getput", "incr", "getput", "expire", "getput"][j] if rnd == 0 else \
                       ["getput", "get", "getput", "getput", "decr", "getput", "del", "put"][j]
                it = {"op": what, "k": k}
                if what in ("getput", "put"):
                    it["v"] = hexs("b%d-%d-%s" % (rnd, j, "x" * (3 * j)))
                if what == "put" and rnd == 0:
                    it["px"] = 60000
                if what in ("incr", "decr"):
                    it["delta"] = 7 + j
                if what == "expire":
                    it["ms"] = 60000
                batch.append(it)
            ops.append({"op": "pipebatch", "d": dname, "batch": batch})
            for k in bk:
                ops.append({"op": "get", "c": "emb@owner", "d": dname, "k": k})
                ops.append({"op": "dump", "d": dname, "k": k})
    return ops


def gen_groups(res):
    cfgs = [{"members": 3, "replicas": 2, "partitions": 7, "table": 4096, "evict_workers": 1}]
    if res.tier == "thorough":
        cfgs += [{"members": 3, "replicas": 1, "partitions": 13, "table": 4096, "evict_workers": 1},
                 {"members": 4, "replicas": 3, "partitions": 7, "table": 1024, "evict_workers": 1},
                 {"members": 2, "replicas": 2, "partitions": 7, "table": 4096, "evict_workers": 1}]
    groups = []
    sid = 0
    for cfg in cfgs:
        scs = []
        for path in PATHS:
            scs.append({"id": sid, "ops": grid(res.seed, "c15g%d" % sid, [path]), "_path": path})
            sid += 1
        groups.append((cfg, scs))
    return groups


def classify(msg, sc):
    return {"kind": "dmap-path", "path": sc.get("_path", "?").split("@")[0]}


def run(res):
    dmapcheck.run_dmap_check(
        res, PID, gen_groups, dmaplib.judge_seq, shard=1, classify=classify,
        rule="exhaustive grid per client path: {none,NX,XX} x {none,EX,PX,EXAT,PXAT} x {absent,present,expired-not-necessarily-evicted} for Put, "
             "plus Expire/GetPut/Incr/Decr/Delete per prior state and a 7-key Delete spread over the owners; 7 paths (embedded on owner / "
             "non-owner / backup owner, cluster client, raw RESP to owner / non-owner, pipeline); each operation on a fresh key, followed by "
             "Get through the owner and a white-box dump of all copies; judged by the reference semantics (the same for every path) and the "
             "mirror predicate, and compared with Model/DMap.v inside Coq")


def replay(res, path):
    return dmapcheck.replay(res, path, dmaplib.judge_seq)
