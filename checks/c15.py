# C15 - an operation means the same thing through every client path (DESIGN.md section 9).
import json
import os

import dmaplib
import vlib

PID = "C15"
PATHS = ["emb@owner", "emb@other", "emb@backup", "cc", "raw@owner", "raw@other", "pipe"]
CONDS = [{}, {"nx": True}, {"xx": True}]
EXPS = [{}, {"ex": 60000}, {"px": 60000}, {"exat": 60000, "rel": True}, {"pxat": 60000, "rel": True}]
STATES = ["absent", "present", "expired"]


def hexs(s):
    return s.encode().hex()


def grid(seed, dname):
    """one scenario: every (operation, options, prior state, path) on its own key"""
    setup, tests, finals = [], [], []
    labels = {}
    n = 0

    def fresh(state):
        nonlocal n
        n += 1
        k = hexs("k%04d" % n)
        if state == "present":
            setup.append({"op": "put", "c": "emb@owner", "d": dname, "k": k, "v": hexs("old%d" % n)})
        elif state == "expired":
            setup.append({"op": "put", "c": "emb@owner", "d": dname, "k": k, "v": hexs("exp%d" % n), "px": 150})
        return k

    for path in PATHS:
        for st in STATES:
            for cond in CONDS:
                for exp in EXPS:
                    k = fresh(st)
                    op = {"op": "put", "c": path, "d": dname, "k": k, "v": hexs("new%d" % n)}
                    op.update(cond)
                    op.update(exp)
                    tests.append(op)
                    labels[k] = ("put", path, st, cond, exp)
            # expire, getput, incr, decr, delete
            k = fresh(st)
            tests.append({"op": "expire", "c": path, "d": dname, "k": k, "ms": 60000})
            k = fresh(st)
            tests.append({"op": "getput", "c": path, "d": dname, "k": k, "v": hexs("gp%d" % n)})
            if st != "absent":
                # numeric base with an expiry that must be kept / ignored
                n += 1
                k = hexs("k%04d" % n)
                setup.append({"op": "put", "c": "emb@owner", "d": dname, "k": k, "v": hexs("41"),
                              "px": 150 if st == "expired" else 60000})
            else:
                k = fresh(st)
            tests.append({"op": "incr", "c": path, "d": dname, "k": k, "delta": 5})
            tests.append({"op": "decr", "c": path, "d": dname, "k": k, "delta": 50})
            k = fresh(st)
            tests.append({"op": "del", "c": path, "d": dname, "k": k})
        # multi-key delete spread over owners
        ks = []
        for j in range(6):
            ks.append(fresh("present"))
        ks.append(fresh("absent"))
        tests.append({"op": "mdel", "c": path, "d": dname, "ks": ks})
        for kk in ks:
            finals.append({"op": "get", "c": "emb@owner", "d": dname, "k": kk})
            finals.append({"op": "dump", "d": dname, "k": kk})
    ops = setup + [{"op": "sleep", "ms": 150 + 2 * dmaplib.MARGIN + 60}]
    for t in tests:
        ops.append(t)
        if t["op"] != "mdel":
            ops.append({"op": "get", "c": "emb@owner", "d": dname, "k": t["k"]})
            ops.append({"op": "dump", "d": dname, "k": t["k"]})
    ops += finals
    return ops


def classify(msg, op):
    return {"kind": "dmap", "op": op.get("op"), "path": (op.get("c") or "").split("@")[0]}


def run(res):
    proofs_ok = vlib.common_obligations(res, PID)
    if getattr(res, "harness_error", None):
        res.violation({"kind": "harness-build", "failed": "correspondence: the harness no longer compiles against /repo",
                       "detail": res.harness_error[-3000:]}, no_input=True)
        res.coverage.update({"evaluations": 0, "distinct_nontrivial": 0})
        return
    groups = []
    sid = 0
    cfgs = [{"members": 3, "replicas": 2, "partitions": 7, "table": 4096, "evict_workers": 1}]
    if res.tier == "thorough":
        cfgs += [{"members": 3, "replicas": 1, "partitions": 13, "table": 4096, "evict_workers": 1},
                 {"members": 4, "replicas": 3, "partitions": 7, "table": 1024, "evict_workers": 1},
                 {"members": 2, "replicas": 2, "partitions": 7, "table": 4096, "evict_workers": 1}]
    allsc = {}
    for ci, cfg in enumerate(cfgs):
        sc = {"id": sid, "ops": grid(res.seed, "c15g%d" % sid), "_cfg": cfg}
        allsc[sid] = sc
        groups.append((cfg, [sc]))
        sid += 1
    results = dmaplib.run_groups(groups)
    nviol = 0
    discarded = 0
    evaluated = 0
    hist = {}
    rhist = {}
    seen_classes = set()
    for sidx, sc in allsc.items():
        obs = results[sidx]["obs"]
        cfg = sc["_cfg"]
        # judge every test op independently (each lives on its own key): semantics + mirror
        ref = dmaplib.Ref()
        for i, (op, ob) in enumerate(zip(sc["ops"], obs)):
            hist[op["op"]] = hist.get(op["op"], 0) + 1
            rhist[str(ob.get("r"))] = rhist.get(str(ob.get("r")), 0) + 1
            if op["op"] in ("sleep", "stats", "keyinfo"):
                continue
            bad = None
            try:
                if op["op"] == "dump":
                    bad = dmaplib.check_mirror({"ops": [op]}, [ob], cfg["replicas"], cfg["members"])
                    if bad:
                        bad = bad[1]
                else:
                    evaluated += 1
                    exp = ref.step(op, ob)
                    bad = dmaplib.compare_obs(op, ob, exp)
            except dmaplib.Discard:
                discarded += 1
                continue
            if bad:
                # the operation under test is the last non-get/dump op on that key
                culprit = op
                j = i
                while j >= 0 and (sc["ops"][j]["op"] in ("get", "dump") or sc["ops"][j].get("k") != op.get("k")):
                    j -= 1
                if j >= 0:
                    culprit = sc["ops"][j]
                klass = classify(bad, culprit)
                key = json.dumps([klass, {k: v for k, v in culprit.items() if k in ("nx", "xx", "ex", "px", "exat", "pxat")}, bad.split(" returned")[0]], sort_keys=True)
                if key in seen_classes:
                    continue
                seen_classes.add(key)
                kf = vlib.match_known(PID, klass)
                if kf:
                    res.known_finding(kf["description"])
                    continue
                nviol += 1
                if nviol <= 12:
                    # minimal replay: the ops on that key
                    kk = op.get("k")
                    mini = [o for o in sc["ops"] if o.get("k") == kk or (o["op"] == "sleep") or (o["op"] == "mdel" and kk in o.get("ks", []))]
                    res.violation({"kind": "impl-violates-property", "cluster": cfg, "scenario": {"ops": mini},
                                   "failed_op": culprit, "observed": ob, "predicate": {"name": "reference-semantics/mirror", "verdict": bad},
                                   "seed": res.seed})
    if not proofs_ok and not res.violations:
        broken = [o for o in res.obligations if not o["ok"]]
        res.violation({"kind": "obligation-broken", "failed": [o["theorem"] for o in broken],
                       "detail": [o.get("detail", o.get("axioms")) for o in broken]}, no_input=True)
    res.coverage.update({
        "evaluations": evaluated, "distinct_nontrivial": evaluated - discarded,
        "rule": "exhaustive grid {none,NX,XX} x {none,EX,PX,EXAT,PXAT} x {absent,present,expired-not-necessarily-evicted} x 7 client paths "
                "for Put, plus Expire/GetPut/Incr/Decr/Delete per (state,path) and a 7-key Delete spread over the owners per path; "
                "each on a fresh key, followed by Get through the owner and a white-box dump of all copies; non-trivial = judged (not discarded for timing)",
        "exhaustive": True, "discarded_for_timing": discarded, "op_histogram": hist, "result_histogram": rhist,
        "traces_validated_against_impl": len(allsc),
        "samples": [allsc[0]["ops"][300:306]],
    })


def replay(res, path):
    obj = json.load(open(path))
    ok, out = vlib.harness_build()
    if not ok:
        raise vlib.CheckError(out)
    sc = {"id": 0, "ops": obj["scenario"]["ops"]}
    r = dmaplib.run_cluster(obj["cluster"], [sc])[0]
    print(json.dumps(r["obs"], indent=1)[:4000])
    bad = dmaplib.check_semantics(sc, r["obs"]) or dmaplib.check_mirror(sc, r["obs"], obj["cluster"]["replicas"], obj["cluster"]["members"])
    if bad and bad != "discard":
        print("VIOLATION property=%s replay=%s" % (res.pid, path))
        return 1
    return 0
