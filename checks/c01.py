# C01 - per-key linearizability in a stable cluster, from any entry point (DESIGN.md section 9).
import json

import conclib
import dmaplib
import vlib
from vlib import cZ

PID = "C01"
PATHS = ["emb@owner", "emb@other", "emb@backup", "cc", "raw@owner", "raw@other"]


def gen(rng, sid, nclients, nops, members):
    d = "c01d%d" % sid
    keys = [dmaplib.hx("%s-k%d" % (d, i)) for i in range(rng.choice([1, 1, 2]))]
    clients = []
    val = [1]
    for c in range(nclients):
        path = rng.choice(PATHS)
        ops = []
        for _ in range(nops):
            k = rng.choice(keys)
            w = rng.random()
            if w < 0.40:
                op = {"op": "put", "c": path, "d": d, "k": k, "v": dmaplib.hx(str(val[0]) + "x" * rng.choice([0, 40, 90]))}
                val[0] += 1
                x = rng.random()
                if x < 0.2:
                    op["nx"] = True
                elif x < 0.4:
                    op["xx"] = True
                if rng.random() < 0.4:
                    op[rng.choice(["ex", "px"])] = 600000      # an expiry far beyond the run: the condition is still the condition
                ops.append(op)
            elif w < 0.80:
                ops.append({"op": "get", "c": path, "d": d, "k": k})
            else:
                ops.append({"op": "del", "c": path, "d": d, "k": k})
        clients.append({"ops": ops})
    return {"id": sid, "clients": clients, "_keys": keys, "_d": d,
            "background": rng.choice(["", "", "evict"])}


def to_events(sc, result):
    """per key: list of Coq event terms, or (None, reason) when an observation has no place in the spec"""
    per = {k: [] for k in sc["_keys"]}
    for ci, op, ob in conclib.flatten(sc, result):
        r = ob.get("r")
        k = op["k"]
        if op["op"] == "put":
            v = int(bytes.fromhex(op["v"]).decode().rstrip("x"))
            if op.get("nx"):
                o = "RPutNX %s" % cZ(v)
                if r not in ("ok", "keyfound"):
                    return None, (ci, op, ob)
                rr = "ROk" if r == "ok" else "RKeyFound"
            elif op.get("xx"):
                o = "RPutXX %s" % cZ(v)
                if r not in ("ok", "notfound"):
                    return None, (ci, op, ob)
                rr = "ROk" if r == "ok" else "RNotFound"
            else:
                o = "RPut %s" % cZ(v)
                if r != "ok":
                    return None, (ci, op, ob)
                rr = "ROk"
        elif op["op"] == "get":
            o = "RGet"
            if r == "ok":
                rr = "RValue %s" % cZ(int(bytes.fromhex(ob["val"]).decode().rstrip("x")))
            elif r == "notfound":
                rr = "RNotFound"
            else:
                return None, (ci, op, ob)
        elif op["op"] == "del":
            o = "RDel"
            if r != "ok":
                return None, (ci, op, ob)
            rr = "ROk"
        else:
            continue
        per[k].append(conclib.ev(ob["n0"], ob["n1"], o, rr))
    return per, None


def seq_groups(res):
    """sequential histories on few keys with values sized so that a fragment spans many tables: overwrite / delete /
    conditional puts across table boundaries through every entry path"""
    cfgs = [{"members": 1, "replicas": 1, "partitions": 1, "table": 256, "evict_workers": 1},
            {"members": 3, "replicas": 2, "partitions": 3, "table": 300, "evict_workers": 1}]
    groups = []
    sid = 9000
    n = 8 if res.tier == "quick" else 80
    for ci, cfg in enumerate(cfgs):
        scs = []
        for i in range(n):
            rng = vlib.rng_for(res.seed, PID, "seq", ci, i)
            d = "c01s%d" % sid
            keys = [dmaplib.hx("%s-k%d" % (d, j)) for j in range(rng.choice([3, 5, 8]))]
            ops = []
            v = 0
            for _ in range(rng.randrange(40, 120)):
                k = rng.choice(keys)
                c = rng.choice(dmaplib.ALLPATHS)
                w = rng.random()
                if w < 0.5:
                    v += 1
                    op = {"op": "put", "c": c, "d": d, "k": k, "v": dmaplib.hx(str(v) + "p" * rng.choice([30, 70, 110]))}
                    x = rng.random()
                    if x < 0.12:
                        op["nx"] = True
                    elif x < 0.24:
                        op["xx"] = True
                    if rng.random() < 0.3:
                        op[rng.choice(["ex", "px"])] = 600000
                    ops.append(op)
                elif w < 0.8:
                    ops.append({"op": "get", "c": c, "d": d, "k": k})
                else:
                    ops.append({"op": "del", "c": c, "d": d, "k": k})
            for k in keys:
                ops.append({"op": "get", "c": "emb@owner", "d": d, "k": k})
                ops.append({"op": "dump", "d": d, "k": k})
            scs.append({"id": sid, "ops": ops})
            sid += 1
        groups.append((cfg, scs))
    # one bulk history: an old table that holds more live entries than compaction moves per call (1001) next to >= 40%
    # garbage, then a second table, compaction to completion, conditional Puts and reads
    d = "c01bulk"
    ops = []
    small = [dmaplib.hx("s%04d" % i) for i in range(1300)]
    for k in small:
        ops.append({"op": "put", "c": "emb@owner", "d": d, "k": k, "v": dmaplib.hx("x")})
    big = [dmaplib.hx("g%04d" % i) for i in range(600)]
    for k in big:
        ops.append({"op": "put", "c": "emb@owner", "d": d, "k": k, "v": dmaplib.hx("G" * 60)})
    for k in big:
        ops.append({"op": "del", "c": "emb@owner", "d": d, "k": k})
    for i in range(500):
        ops.append({"op": "put", "c": "emb@owner", "d": d, "k": dmaplib.hx("t%04d" % i), "v": dmaplib.hx("T" * 60)})
    for _ in range(4):
        ops.append({"op": "compact", "m": 0, "d": d})
    for k in small[::7] + big[::50]:
        ops.append({"op": "get", "c": "cc", "d": d, "k": k})
    for k in small[3::97]:
        ops.append({"op": "put", "c": "cc", "d": d, "k": k, "v": dmaplib.hx("n"), "nx": True})
        ops.append({"op": "get", "c": "emb@owner", "d": d, "k": k})
    groups.append(({"members": 1, "replicas": 1, "partitions": 1, "table": 1 << 17, "evict_workers": 1}, [{"id": sid, "ops": ops}]))
    return groups


def run(res):
    import dmapcheck
    dmapcheck.run_dmap_check(
        res, PID, seq_groups, dmaplib.judge_seq, shard=2,
        rule="(a) sequential histories of 40-120 operations {Put, Put NX, Put XX, Get, Delete} on 3-8 keys with 30-110 byte values at table sizes 256/300 "
             "(fragments span many tables) through 7 entry paths, judged by the reference semantics + mirror and compared with Model/DMap.v; "
             "(b) 2-5 concurrent clients (embedded on owner / non-owner / backup owner, cluster client, raw RESP) issue 3-5 operations each on 1-2 keys with "
             "distinct values, on clusters (N,R) in {(3,2),(3,3),(2,1),(1,1)}, with or without background eviction passes, plus writers racing back-to-back "
             "janitor passes; every per-key history (monotonic invocation/response instants) is judged by the linearizability checker of Model/Lin.v "
             "evaluated inside Coq; non-trivial = the history contains operations that overlap in time")
    if getattr(res, "harness_error", None):
        return
    seqcov = dict(res.coverage)
    proofs_ok = all(o["ok"] for o in res.obligations)
    rounds = 40 if res.tier == "quick" else 400
    cfgs = [{"members": 3, "replicas": 2, "partitions": 7, "table": 256, "evict_workers": 1},
            {"members": 3, "replicas": 3, "partitions": 13, "table": 512, "evict_workers": 1},
            {"members": 2, "replicas": 1, "partitions": 7, "table": 256, "evict_workers": 1},
            {"members": 1, "replicas": 1, "partitions": 7, "table": 1 << 20, "evict_workers": 1}]
    groups = []
    sid = 0
    for ci, cfg in enumerate(cfgs):
        scs = []
        for i in range(rounds):
            rng = vlib.rng_for(res.seed, PID, ci, i)
            scs.append(gen(rng, sid, rng.randrange(2, 6), rng.randrange(3, 6), cfg["members"]))
            sid += 1
        groups.append((cfg, scs))
    # writers racing the empty-fragment janitor: put / get / delete cycles on the only key of a fragment while
    # janitor passes run back to back (D22)
    jcfg = {"members": 1, "replicas": 1, "partitions": 1, "table": 1 << 20, "evict_workers": 1}
    jscs = []
    for i in range(60 if res.tier == "quick" else 600):
        d = "c01j%d" % sid
        k = dmaplib.hx("k")
        clients = []
        v = 1
        for c in range(3):
            ops = []
            for j in range(5):
                ops.append({"op": "put", "c": "emb@owner", "d": d, "k": k, "v": dmaplib.hx(str(v))})
                v += 1
                ops.append({"op": "get", "c": "emb@owner", "d": d, "k": k})
                ops.append({"op": "del", "c": "emb@owner", "d": d, "k": k})
            clients.append({"ops": ops})
        jscs.append({"id": sid, "clients": clients, "_keys": [k], "_d": d, "background": "janitor"})
        sid += 1
    groups.append((jcfg, jscs))
    results = conclib.run_groups(groups)
    hists = []
    meta = {}
    unexpected = []
    overlap = 0
    for cfg, scs in groups:
        for sc in scs:
            r = results[sc["id"]]
            per, bad = to_events(sc, r)
            if per is None:
                unexpected.append((cfg, sc, r, bad))
                continue
            for k, evs in per.items():
                if evs:
                    hid = (sc["id"], k)
                    hists.append((hid, None, evs))
                    meta[hid] = (cfg, sc, r)
                    # concurrent = some pair of operations overlaps in time
                    iv = sorted((int(re_[0]), int(re_[1])) for re_ in [__import__("re").findall(r"\((-?\d+)\)%Z", e)[:2] for e in evs])
                    if any(iv[i + 1][0] < iv[i][1] for i in range(len(iv) - 1)):
                        overlap += 1
    for cfg, sc, r, bad in unexpected[:4]:
        res.violation({"kind": "impl-violates-property", "cluster": cfg, "scenario": {k: v for k, v in sc.items() if not k.startswith("_")},
                       "impl_trace": r["clients"], "predicate": {"name": "register-results", "verdict": "client %d: %s returned %s" % (bad[0], bad[1]["op"], bad[2].get("r"))},
                       "seed": res.seed})
    verdict, secs = conclib.lin_eval("c01", "register", hists, shard=20)
    nonlin = [h for h, v in verdict.items() if v is False]
    inconclusive = [h for h, v in verdict.items() if v is None]
    for hid in nonlin[:4]:
        cfg, sc, r = meta[hid]
        evs = [e for h, _, e in hists if h == hid][0]
        res.violation({"kind": "impl-violates-property", "cluster": cfg, "scenario": {k: v for k, v in sc.items() if not k.startswith("_")},
                       "key": hid[1], "history": evs, "impl_trace": r["clients"],
                       "predicate": {"name": "lin_register (Model/Lin.v, sound by LinProofs.search_sound; exhaustive search below its fuel)",
                                     "verdict": "the recorded history of key %s has no linearization w.r.t. the register specification" % hid[1]},
                       "seed": res.seed})
    res.coverage = seqcov
    res.coverage.update({
        "evaluations": seqcov.get("evaluations", 0) + len(hists), "distinct_nontrivial": seqcov.get("distinct_nontrivial", 0) + overlap,
        "histories": len(hists), "nonlinearizable": len(nonlin), "inconclusive": len(inconclusive), "unexpected_results": len(unexpected),
        "coq_eval_seconds": round(secs, 1), "traces_validated_against_impl": len(hists),
        "samples": [{"key": hists[0][0][1], "history": hists[0][2][:8]}] if hists else [],
    })
    res.assumptions += ["the fragment lock makes putOnCluster / deleteKey / a local lookup atomic (Go runtime; attacked by these concurrent runs)",
                        "monotonic clock of one process orders invocations and responses"]


def replay(res, path):
    obj = json.load(open(path))
    sc = obj.get("scenario")
    if not sc:
        print("replay names a broken obligation: %s" % obj.get("failed"))
        return 1
    ok, out = vlib.harness_build()
    if not ok:
        raise vlib.CheckError(out)
    # a schedule cannot be replayed exactly: re-run the same clients 50 times and judge every history
    keys = sorted({o["k"] for c in sc["clients"] for o in c["ops"]})
    bad = 0
    for i in range(50):
        s = dict(sc, id=i, _keys=keys)
        r = conclib.run_conc(obj["cluster"], [s])[i]
        per, b = to_events(s, r)
        if per is None:
            bad += 1
            continue
        v, _ = conclib.lin_eval("c01r", "register", [((i, k), None, e) for k, e in per.items() if e])
        bad += sum(1 for x in v.values() if x is False)
    print("non-linearizable histories in 50 re-runs: %d" % bad)
    if obj.get("history"):
        v, _ = conclib.lin_eval("c01h", "register", [(("rec", 0), None, obj["history"])])
        print("recorded history linearizable: %s" % list(v.values())[0])
        if list(v.values())[0] is False:
            bad += 1
    if bad:
        print("VIOLATION property=%s replay=%s" % (res.pid, path))
        return 1
    return 0
