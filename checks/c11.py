# C11 - the storage engine behaves as a map under compaction and table transfer (DESIGN.md section 9).
import json
import os

import storelib
import vlib

PID = "C11"


def nontrivial(sc, obs):
    """the sequence overwrote or deleted a key after a table boundary was crossed, or compacted with >= 2 tables"""
    tables = 1
    seen = set()
    hit = False
    for op, ob in zip(sc["ops"], obs):
        if op[0] in ("put", "putraw") and ob[:2] == ["code", "nil"]:
            if op[2] in seen and tables_grew(sc, obs):
                hit = True
            seen.add(op[2])
        if op[0] in ("compact", "compactall", "xfer") and tables_grew(sc, obs):
            hit = True
    return hit


def tables_grew(sc, obs):
    for op, ob in zip(sc["ops"], obs):
        if op[0] == "stats" and ob[0] == "stats" and ob[5] >= 2:
            return True
    return False


def corpus():
    out = []
    d = os.path.join(vlib.VERIF, "corpus", PID)
    if os.path.isdir(d):
        for f in sorted(os.listdir(d)):
            if f.endswith(".json"):
                sc = json.load(open(os.path.join(d, f)))
                sc["_file"] = f
                out.append(sc)
    return out


def scenarios(res):
    scs = corpus()
    sid = 0
    for s in scs:
        s["id"] = sid
        sid += 1
    ncorpus = len(scs)
    L = 3 if res.tier == "quick" else 5
    ex = storelib.gen_exhaustive(101, L, first_id=sid)
    scs += ex
    sid += len(ex)
    nrand = 400 if res.tier == "quick" else 6000
    for i in range(nrand):
        rng = vlib.rng_for(res.seed, PID, i)
        scs.append(storelib.gen_random(rng, sid))
        sid += 1
    for i in range(40 if res.tier == "quick" else 600):
        scs.append(storelib.gen_paged_scan(vlib.rng_for(res.seed, PID, "paged", i), sid))
        sid += 1
    return scs, ncorpus, len(ex), nrand


def classify(msg):
    """witness class of a minimised failure (known_findings matcher keys)"""
    return {"kind": "store", "what": msg.split(" (")[0][:60]}


def run(res, pid=PID, scs_fn=scenarios, nontrivial_fn=nontrivial, rule=None, extra_pred=None, shard=None):
    proofs_ok = vlib.common_obligations(res, pid)
    if getattr(res, "harness_error", None):
        res.violation({"kind": "harness-build", "failed": "correspondence: the harness no longer compiles against /repo",
                       "detail": res.harness_error[-3000:]}, no_input=True)
        res.coverage.update({"evaluations": 0, "distinct_nontrivial": 0})
        return
    scs, ncorpus, nex, nrand = scs_fn(res)
    results = storelib.run_impl(scs)
    byid = {s["id"]: s for s in scs}
    # 1. the property's predicate on the implementation's own observations
    pred_fail = []
    for s in scs:
        r = results.get(s["id"])
        if r is None:
            pred_fail.append((s, (0, "no result from the harness")))
            continue
        bad = storelib.refmap_check(s, r["obs"])
        if bad is None and extra_pred:
            bad = extra_pred(s, r["obs"])
        if bad is None and r.get("inv"):
            bad = (len(r["obs"]) - 1, "white-box invariant: " + r["inv"][0])
        if bad:
            pred_fail.append((s, bad))
    # 2. model vs implementation (inside Coq)
    mism, coq_secs = storelib.coq_compare(pid.lower(), scs, results, shard=shard or (80 if res.tier == "quick" else 400))
    mism_ids = {}
    for sid, step, mobs in mism:
        mism_ids.setdefault(sid, (step, mobs))

    reported = set()

    meta = {}

    def fails_pred(c):
        rr = storelib.run_impl([dict(c, id=0)]).get(0)
        if rr is None:
            return False
        return (storelib.refmap_check(c, rr["obs"]) is not None or bool(rr.get("inv"))
                or (extra_pred is not None and extra_pred(dict(c, **meta), rr["obs"]) is not None))

    for s, bad in pred_fail[:40]:
        # the generator's parameters of the scenario (entry size, bytes per round, ...) stay with the shrunk scenario:
        # the extra predicate is stated in terms of them
        meta = {k: v for k, v in s.items() if k.startswith("_")}
        small = storelib.shrink({k: v for k, v in s.items() if not k.startswith("_")}, fails_pred)
        rr = storelib.run_impl([dict(small, id=0)])[0]
        b2 = (storelib.refmap_check(small, rr["obs"]) or (extra_pred and extra_pred(dict(small, **meta), rr["obs"]))
              or (len(rr["obs"]) - 1, "white-box invariant: " + (rr.get("inv") or ["?"])[0]))
        key = json.dumps(small["ops"])
        if key in reported:
            continue
        reported.add(key)
        kf = vlib.match_known(pid, classify(b2[1]))
        if kf:
            res.known_finding(kf["description"])
            continue
        res.violation({"kind": "impl-violates-property", "scenario": dict(small, **meta), "impl_trace": rr["obs"],
                       "failed_step": b2[0], "predicate": {"name": "refmap", "verdict": b2[1]},
                       "original_scenario_id": s["id"], "seed": res.seed})
        if len(res.violations) >= 8:
            break
    only_model = [sid for sid in mism_ids if sid not in {s["id"] for s, _ in pred_fail}]
    if only_model and not res.violations:
        sid = only_model[0]
        s = byid[sid]

        def differs(c):
            rr = storelib.run_impl([dict(c, id=0)])
            mm, _ = storelib.coq_compare(pid.lower() + "s", [dict(c, id=0)], rr, jobs=1)
            return bool(mm)
        small = storelib.shrink({k: v for k, v in s.items() if not k.startswith("_")}, differs, max_rounds=40)
        rr = storelib.run_impl([dict(small, id=0)])
        mm, _ = storelib.coq_compare(pid.lower() + "s", [dict(small, id=0)], rr, jobs=1)
        res.violation({"kind": "model-vs-impl", "failed": "correspondence Model/StoreRun.v vs internal/kvstore: observation at step %s" % (mm[0][1] if mm else "?"),
                       "scenario": small, "impl_trace": rr[0]["obs"], "model_trace": storelib.model_trace(dict(small, _obs=rr[0]["obs"])),
                       "note": "the reference-map predicate holds on every explored implementation trace", "seed": res.seed},
                      no_input=True)
    if not proofs_ok and not res.violations:
        broken = [o for o in res.obligations if not o["ok"]]
        res.violation({"kind": "obligation-broken", "failed": [o["theorem"] for o in broken],
                       "detail": [o.get("detail", o.get("axioms")) for o in broken],
                       "note": "searched %d implementation traces with the reference-map predicate, none failed" % len(scs)},
                      no_input=True)
    # evidence
    nt = set()
    hist = {}
    codes = {}
    for s in scs:
        r = results.get(s["id"])
        if not r:
            continue
        if nontrivial_fn(s, r["obs"]):
            nt.add(json.dumps(s["ops"]))
        for op, ob in zip(s["ops"], r["obs"]):
            hist[op[0]] = hist.get(op[0], 0) + 1
            if ob[0] in ("code", "entry", "key", "ttl"):
                codes[str(ob[1])] = codes.get(str(ob[1]), 0) + 1
    sample = scs[ncorpus + nex] if len(scs) > ncorpus + nex else scs[-1]
    res.coverage.update({
        "evaluations": len(scs), "distinct_nontrivial": len(nt),
        "rule": rule or "corpus + all sequences of length <= L over a 10-op alphabet (2 hkeys x 2 sizes, delete, raw put, compaction step, table transfer) at table size 101 + seeded random sequences (8-60 ops, table sizes 67..1021, equal and mixed entry sizes); non-trivial = overwrote a key, compacted or transferred after the store had grown to >= 2 tables",
        "exhaustive": False, "exhaustive_part": {"cases": nex},
        "corpus_cases": ncorpus, "random_cases": nrand,
        "op_histogram": hist, "result_histogram": codes,
        "traces_validated_against_impl": len(results),
        "model_vs_impl_mismatches": len(mism_ids), "predicate_failures": len(pred_fail),
        "coq_eval_seconds": round(coq_secs, 1),
        "samples": [{"scenario": {k: v for k, v in sample.items() if not k.startswith("_")}, "impl_obs": results[sample["id"]]["obs"]}],
    })
    res.assumptions += [
        "hkeys are given (the 64-bit hash is an input)", "Go map iteration order in compaction/import is an oracle; byte accounting compared only for equal-size entries",
        "raw puts carry well-formed encoded entries"]


def replay(res, path, extra_pred=None):
    obj = json.load(open(path))
    sc = obj.get("scenario")
    if not sc:
        print("replay has no scenario (names a broken obligation): %s" % obj.get("failed"))
        return 1
    ok, out = vlib.harness_build()
    if not ok:
        raise vlib.CheckError(out)
    rr = storelib.run_impl([dict(sc, id=0)])[0]
    bad = storelib.refmap_check(sc, rr["obs"])
    if bad is None and extra_pred:
        bad = extra_pred(sc, rr["obs"])
    print(json.dumps({"impl_trace": rr["obs"], "predicate": bad, "inv": rr.get("inv")}, indent=1))
    if bad or rr.get("inv"):
        print("VIOLATION property=%s replay=%s" % (res.pid, path))
        return 1
    return 0
