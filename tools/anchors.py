#!/usr/bin/env python3
# tools/anchors.py [--update]: digests of the source files each property is anchored in (properties.jsonl anchors.files,
# plus the files the models mirror that the anchors do not name). anchors.json is rewritten with --update after every
# commit to /repo. A check whose anchored files differ from the recorded digests escalates (see /verif/check).
import hashlib, json, os, sys
HERE = os.path.dirname(os.path.dirname(os.path.abspath(__file__)))
sys.path.insert(0, os.path.join(HERE, "lib"))
import vlib

EXTRA = {
    "C02": ["internal/dmap/balance.go", "internal/dmap/fragment.go"],
    "C03": ["internal/dmap/put.go"],
    "C05": ["internal/dmap/dmap.go"],
    "C08": ["internal/dmap/delete.go", "internal/dmap/get.go"],
    "C10": ["internal/dmap/config.go"],
    "C13": ["internal/cluster/routingtable/events.go", "internal/cluster/routingtable/members.go", "internal/server/handler.go", "olric.go"],
    "C19": ["internal/dmap/put.go"],
}


def files_of(pid):
    for l in open(os.path.join(HERE, "properties.jsonl")):
        p = json.loads(l)
        if p["id"] == pid:
            return sorted(set(p["anchors"]["files"] + EXTRA.get(pid, [])))
    return []


def digest(path):
    try:
        return hashlib.sha256(open(path, "rb").read()).hexdigest()[:16]
    except OSError:
        return None


def current(pid, repo=None):
    repo = repo or vlib.REPO
    return {f: digest(os.path.join(repo, f)) for f in files_of(pid)}


if __name__ == "__main__":
    out = {"C%02d" % i: current("C%02d" % i) for i in range(1, 21)}
    if "--update" in sys.argv:
        json.dump(out, open(os.path.join(HERE, "anchors.json"), "w"), indent=1, sort_keys=True)
        print("anchors.json updated (%d files)" % sum(len(v) for v in out.values()))
    else:
        old = json.load(open(os.path.join(HERE, "anchors.json")))
        for pid in sorted(out):
            ch = [f for f in out[pid] if old.get(pid, {}).get(f) != out[pid][f]]
            if ch:
                print(pid, "changed:", ch)
