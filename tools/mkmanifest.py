#!/usr/bin/env python3
# Regenerates MANIFEST.json from the table below (one entry per claimed property).
import json
import os
import subprocess

HERE = os.path.dirname(os.path.dirname(os.path.abspath(__file__)))
TB = ("Trusted: Coq 8.16.1 kernel + vm_compute (no native_compute, no axioms); the hand-written Gallina model is tied to /repo only by "
      "the correspondence check (Go harness compiled into the working tree with -overlay, generators, printers, constants translator); ")

CLAIMS = {
 "C01": dict(
   text="Theorems: every execution in which each operation takes effect at one instant between invocation and response (the owner-side step under the fragment lock) is "
        "linearizable w.r.t. the register specification, for any number of clients and interleavings (C01_commit_points_linearize); the linearizability checker that judges "
        "recorded histories is sound (C01_checker_sound); the owner-side model Model/DMap.v implements the register specification key by key, for every routing and replica count, whatever happens to the other keys and DMaps (C01_dmap_step_refines, C01_dmap_refines_register), hence its executions with commit points have linearizable per-key histories (C01_dmap_executions_linearize). Executed: 2-5 concurrent clients over 6 entry paths on clusters (N,R) in {(3,2),(3,3),(2,1),(1,1)} with multi-table "
        "fragments, plus writers racing back-to-back janitor passes; every per-key history is judged by the checker inside Coq (conditional puts also with an expiry option). The sequential single-key semantics through "
        "every path (incl. overwrite-then-delete across tables) is C04/C15's differential.",
   note=TB + "that the Go fragment lock really makes the owner-side stretches atomic is not proved (runtime): it is what the concurrent histories attack; the checker's search is exhaustive below its fuel (= history length + 2).",
   ref="DESIGN.md 9 C01"),
 "C02": dict(
   text="Theorems over Model/DMap.v: after any operation sequence all copies of a key are identical (C02_copies); any F with |F| < number of distinct holders misses a holder; after the "
        "loss of F, under any later routing that reaches a surviving holder, a read returns exactly the last acknowledged content (never an older one) and deleted keys stay "
        "not-found (C02_survives, C02_deleted_stays_deleted). Executed: one real cluster per scenario (N 3..5, R 2..3, read-repair on/off), 1..R-1 members stopped gracefully or "
        "abruptly (coordinator or random), operations during detection, then every key read from every survivor and a fresh cluster client, then a post-failure workload; "
        "the partition owner stopped at fail points inside a Put (after its own write / after a backup write) and a Delete. Half of the scenarios dump every copy after every "
        "operation: Coq checks that Model/Balance.v's step explains each healthy transition, that each healthy state satisfies the invariant of the theorems, and that every "
        "state after a member loss satisfies the member-loss invariant of Model/BalanceCrash.v (C03_crash_at_any_step: no copy newer than the last acknowledged entry, the "
        "backup owners or the holders still have it, reads resolve to it). The balancer's decisions (Model/Balancer.v = primaryCopies/backupCopies): a rightful holder never gives data away (C02_owner_keeps_primary, C02_current_backup_keeps); exact differential of the real functions over recording fragments on every run.",
   note=TB + "D40 (both copies of a partition on one member during a hand-over) is an open known finding that also bounds C02 while members are joining; memberlist's failure detector and the coordinator's recomputation are the environment (that the new routing still reaches a surviving holder is C13's territory and is "
        "validated by execution here); an operation in flight during the failure may or may not take effect.",
   ref="DESIGN.md 9 C02"),
 "C03": dict(
   text="Theorems (Model/Balance.v: owners list = primary + previous owners, moves with the newer-timestamp merge, deletes that walk the previous owners): for every sequence of puts, "
        "deletes, joins, table moves and prunes the newest copy over the owners list is the last acknowledged entry, reads return it wherever it lives, deletes remove it "
        "everywhere, hand-over steps are invisible to readers, moves terminate and at quiescence each live key is stored exactly once on the primary (C03_resolve_invariant, "
        "C03_quiescent_once, ...; increasing timestamps are shown necessary by C03_resolve_without_fresh_refuted). Executed: real clusters grown by 1-4 joins with multi-table fragments, operations placed after the push / "
        "between single balancer runs / after stabilisation, optional graceful leave; every Get at every point, final white-box placement and scans. Members lost during the "
        "hand-over (Model/BalanceCrash.v: interrupted moves, loss of any holder or of the backup owner at any step): as long as the backup owner or every holder survives a read "
        "returns the last acknowledged entry (C03_crash_at_any_step), the bound is tight (C03_two_losses_refuted). Executed with fail points in fragment.Move / mergeFragments "
        "(sender lost before the send and between merge and Drop, receiver lost before, during and after the import). Every operation of half of the scenarios is followed by a "
        "white-box dump and compared inside Coq with the model's step function and invariants (~2500 transitions, ~6000 states per quick run). Payload of a move in flight (Model/BalanceFlight.v): Puts acknowledged between export and import are protected by the merge, a Delete of a key in flight is not (C03_inflight_safe; D43 = C03_delete_in_flight_refuted). The balancer's decisions (Model/Balancer.v): soundness and completeness of the planned moves, exact differential of primaryCopies/backupCopies (1500 cases per quick run).",
   note=TB + "D40 (primary and only backup copy of a partition on one member during a hand-over, so that the loss of that member loses acknowledged writes) is an open known "
        "finding, reproduced on every run by the directed harness op colocate; fail points are compiled in with the build tag verif (one guarded commit in /repo); a stopped member "
        "is emulated in-process (gossip stopped without leave, listener and connections closed); memberlist and the balancer's timing are driven explicitly by the harness.",
   ref="DESIGN.md 9 C03"),
 "C07": dict(
   text="Theorems: atomic commit points imply linearizability w.r.t. the counter/swap specification (C07_commit_points_linearize), checker soundness, and the sum formula (final = "
        "initial + sum of deltas in any order); the owner-side model Model/DMap.v implements, key by key and for every routing, the counter with fetch-and-add and swap over Go's wrapping int64 (C07_dmap_step_refines_counter; Itoa/ParseInt round trip C07_int_text_round_trip), hence its executions with commit points have linearizable per-key histories (C07_dmap_executions_linearize); the per-key mutex internal/locker gives mutual exclusion for every number of threads and every interleaving of its atomic stretches, the holder's Unlock never fails, no entry leaks (C07_locker_mutual_exclusion, C07_locker_holder_unlocks, C07_locker_no_leak, C07_locker_blocked_by_a_holder; read-then-write under that mutex is an atomic read-modify-write for every interleaving: C07_read_then_write_under_the_mutex_is_atomic, necessary: C07_lost_update_without_the_mutex_refuted; Model/Locker.v, tied by driving the real Locker with goroutines and comparing returned/blocked calls and its map after every call). Executed: 2-4 concurrent callers through 7 entry points (embedded owner/non-owner/backup, cluster client, raw RESP, pipeline) in "
        "Incr/Decr, GetPut and mixed modes; closed-form predicates (sum, single chain) and the linearizability checker inside Coq on every history. Incr on counters that cannot be read with ReadQuorum copies (quorum harness) must be refused (C07_incr_refused_when_unreadable). A fourth mode mixes Incr/Decr with IncrByFloat of integral amounts on one key (same sum rule, same checker).",
   note=TB + "sync.Mutex / atomic.AddInt32 are assumed (internal/locker on top of them is modelled and proved); that atomic.go takes the lock around Get;compute;Put is attacked by the concurrent runs; IncrByFloat runs concurrently with integral amounts only (float text is an oracle).",
   ref="DESIGN.md 9 C07"),
 "C08": dict(
   text="Theorems over Model/DMap.v: Lock succeeds iff the key is free or its holder's timeout elapsed and otherwise changes nothing; at most one token holds a key; Unlock/Lease with a "
        "token that is not the holder's fail and change nothing; a timed lock is held exactly until now+timeout through any path, an untimed one until unlocked; checker soundness for "
        "the lock specification; Model/DMap.v's Lock/Unlock implement the lock specification key by key for every routing (C08_dmap_step_refines_lock_spec), hence executions with commit points have linearizable lock histories (C08_dmap_executions_linearize); the known race D23 is proved as a _refuted witness. Executed: the holder's Unlock sent 2-4 times at once while competitors wait (exactly one succeeds), scripted token/timeout sequences through 6 paths + 3-6 competing lockers with a "
        "critical-section occupancy counter and the lock-spec linearizability checker. Locks whose entries sit in older tables after the fragment rolled over; a Lease that shortens a timed lock.",
   note=TB + "D23 (Unlock/Lease not atomic w.r.t. expiry + re-acquisition) is an open known finding; real time is compared with a 40 ms margin; the 10 ms retry timer of tryLock is not modelled.",
   ref="DESIGN.md 9 C08"),
 "C10": dict(
   text="Theorems (Model/LRU.v, victim = oracle constrained to be a key of the fragment): after ANY sequence of Puts a fragment holds at most max(1, MaxKeys/owned) keys and, with "
        "equally sized entries, at most MaxInuse/owned + one entry of bytes; Puts never fail, the key just written is present; n partitions within their share hold at most "
        "max(n, MaxKeys) keys; a background pass never removes a key accessed within the idle window and removes a sampled key idle past it; a read is an access (C10_read_keeps_alive). Executed: MaxKeys AND MaxInuse together with a share of one key / one entry (D51 fixed: the second limit was judged on stale numbers and the Put failed),  grid MaxKeys x LRUSamples x "
        "key streams and MaxInuse on 1- and 3-member clusters with per-partition Stats and key sets after EVERY Put (victims reconstructed and replayed by the model), idle scenario. Idle eviction also over fragments of several tables (keys in read-only tables kept alive by reads only).",
   note=TB + "'eventually disappears' is the sampler's fairness (an oracle in the model); D52 (the real sampler never reached older storage tables once the table being written held 19 keys) was exhibited by a directed scenario that runs on every run, and repaired; ownership is stable during a scenario.",
   ref="DESIGN.md 9 C10"),
 "C04": dict(
   text='Theorems over Model/DMap.v (owner-side semantics of every mutating operation with synchronous replication): for EVERY operation sequence, routing, replica count and clock readings, after each operation every backup copy equals the primary copy in value, expiry and timestamp, is absent exactly when the primary copy is absent, and no other member holds a copy (C04_mirror); hence single-copy reads agree. The model is executed against real clusters (N,R) in {(3,2),(3,3),(2,2)} on random sequences through 7 client paths with a white-box dump of all copies after every operation, on every run. Also: 2-4 clients overlapping on 1-2 keys (incl. a Lock that waits while the holder renews and drops its lease), copies compared at quiescence.',
   note=TB + "stable healthy cluster (all backups reachable; quorum decisions are C05's); write timestamps of acknowledged sequential operations increase; timing-ambiguous cases are discarded and counted.",
   ref='DESIGN.md 9 C04'),
 "C05": dict(
   text="Theorems (all R, W, RQ, reachable subsets, copy layouts): a sync Put is acknowledged iff 1+reachable >= W and exactly the reachable holders store it; "
        "Get returns a value only with >= RQ copies and ErrReadQuorum when the key exists on too few reachable holders; below MemberCountQuorum every "
        "non-exempt command and NewDMap answer the cluster-quorum error and change nothing. Executed on real 3-4 member clusters over the full (R,W,RQ) grid "
        "with every subset of unreachable backups (RESP gate) and below-quorum members on every run. Incr over the same copy layouts (the read half under the read quorum: an unreadable counter is refused, C07_incr_refused_when_unreadable). Reads with ReadRepair on over every layout: result and every copy afterwards equal Model/Quorum.v cluster_get (the subject of C06_read_repair).",
   note=TB + "INTERNAL.NODE.UPDATEROUTING is exempt from the member-count precondition by design (stated in the theorem); a Get of a key that exists nowhere "
        "returns ErrReadQuorum when RQ>=2 (pinned by an upstream test, stated in C05_read_iff).",
   ref="DESIGN.md 9 C05, docs/DESIGN-C05-C06.md"),
 "C06": dict(
   text="Theorems: sortVersions is a descending permutation whose head is the last maximal element; Get returns one of the copies with maximal timestamp; "
        "merging fragments in any permutation with any re-deliveries keeps per key a copy of maximal timestamp (exactly the newest one when timestamps are "
        "distinct); read-repair brings the owner's and every reachable stale backup copy - expired or not - to the winner; over the whole layout no copy of any reachable holder, expired or not, is newer than a value the read returns (C06_cluster_get_newest; D49 fixed: a holder used to hide its expired copy from the reader). Executed on real clusters over an exhaustive small "
        "space of copy layouts (ties, missing copies, RR on/off) and all merge orders of 3 fragments on every run. Layouts with an expired newest copy on the owner (only the read's result is judged there).",
   note=TB + "the read-repair/Delete race (D24) is an open known finding with a _refuted theorem and a deterministic witness; msgpack/roaring serialisation are oracles.",
   ref="DESIGN.md 9 C06, docs/DESIGN-C05-C06.md"),
 "C16": dict(
   text="Theorems: every parser of internal/protocol is total (never indexes past the argument vector, every option loop terminates within length+1 iterations) "
        "for every argument vector; mux+wrapper dispatch is total; handlers reject out-of-range partition ids before any dereference. Executed against the real "
        "parsers (in-process, recover+watchdog) on all vectors up to a bound over a 24-token alphabet and against a real member in a child process over TCP "
        "(command vectors, crafted payloads, random byte streams) on every run. Stateful sequences include an atomic operation that fails on the stored value first: the following commands on that key must be answered; keys of 255..65536 bytes are stored or refused, then read, counted, scanned and deleted.",
   note=TB + "strconv float parsing is an oracle; ASCII case folding only; redcon's RESP reader is a dependency (open known finding: multibulk-count spin).",
   ref="DESIGN.md 9 C16, docs/DESIGN-C16.md"),
 "C17": dict(
   text="Theorems: entry encode/decode round trip for every well-formed entry; every integer width/signedness reads back equal through the RESP text codec and "
        "out-of-range text is rejected; bool/duration/bytes identity; byte-level table: get-after-put and get-after-put_raw return the entry, other hkeys unchanged, "
        "too-long keys and too-large entries are rejected leaving the table unchanged. Executed: encoder/scan differential, typed round trips through 4 client "
        "paths with replication and after migration, boundary keys and entry sizes on every run. Batched pipelines (2-4 Put/GetPut per Exec), full iterations whose keys must be the stored keys byte for byte, and rejected writes under asynchronous replication (no copy anywhere). Reads with ReadRepair on over every layout of copies: the copy written to a holder is the entry that was read (compared with Model/Quorum.v cluster_get).",
   note=TB + "floats, time.Time and BinaryMarshaler are tested only (strconv/time are oracles).",
   ref="DESIGN.md 9 C17, docs/DESIGN-C17-C18.md"),
 "C18": dict(
   text="Theorems over a heap model (blocks and Go slice descriptors): for all runs mixing store operations and client writes, blocks reachable from returned "
        "handles and slab blocks are disjoint; a returned value never changes and writing into it never changes the store or other handles; Put arguments may be "
        "reused. Executed on the real engine and clusters (embedded owner/non-owner, cluster client, GetPut, iterator, compaction, table recycling, migration). Clusters with asynchronous replication and reads of the backup copy itself are included; kept GetResponse objects are read again after later calls on the same handle.",
   note=TB + "Go's memory model (copy semantics of make/copy) is assumed; FutureGet.Result() called twice is not exercised.",
   ref="DESIGN.md 9 C18, docs/DESIGN-C17-C18.md"),
 "C09": dict(
   text="Theorems over Model/DMap.v with the clock as input: an expired, not yet evicted entry is indistinguishable from an absent one for every operation (C09_expired_is_absent: a simulation between states that differ only in expired entries), background eviction passes placed anywhere change no result (C09_eviction_is_invisible), a key with relative expiry ms set at t is readable at every t'<t+ms and at no t'>=t+ms, and the ttl rules (plain Put/GetPut reset, Incr/Decr keep, Expire replaces and keeps the value). Executed on real clusters: every ttl source x probe x client path around a 240 ms deadline, with eviction forced or not. An expired newest copy on the owner next to older copies without a deadline elsewhere (copy layouts of the C06 harness).",
   note=TB + "real clocks are compared with a 40 ms margin (closer runs are discarded and counted); durations are multiples of 1 ms; MaxIdleDuration is C10's (no_idle hypothesis).",
   ref='DESIGN.md 9 C09'),
 "C19": dict(
   text="Theorems over Model/DMap.v (state keyed by member, kind, DMap name, key): Destroy leaves no primary or backup copy of the DMap on any member, every key reads not-found and the DMap accepts new writes (C19_destroy_complete); no operation on DMap A changes any copy of a DMap with a different name, whatever the keys (C19_frame); eviction only removes invisible entries. Executed on real clusters of 1-3 members: pairs of DMaps incl. name+key concatenation collisions and A vs 'dmap.'+A, interleaved operations, Destroy through 4 paths, eviction passes; B is read and dumped after every step on A. Destroy after a fail-over and through a cluster client created before a join: no copy of any kind may be left on any member. DMaps whose names differ by an inner or leading 'dmap.' across a join, the migration and a Destroy.",
   note=TB + '64-bit hash collisions between different keys of one DMap are outside the property; the janitor race D22 is not modelled.',
   ref='DESIGN.md 9 C19'),
 "C11": dict(
   text="Theorems over the Gallina model of internal/kvstore (record level): for every operation sequence, table size and map-iteration "
        "order the store refines a map (C11_refines_map), compaction is the identity and terminates within a stated bound, Stats.Length / "
        "Range enumerate exactly the present keys, Export/Drop remove exactly one table's records. The model is executed against the real "
        "kvstore on exhaustive (length<=3/5 over a 10-op alphabet) and seeded random sequences on every run, inside Coq (vm_compute). Iterations kept open page by page across deletes and compaction (every entry present and untouched throughout is handed out); stores forked from an engine instance of another table size.",
   note=TB + "hkeys are inputs (64-bit hash not modelled); Go map iteration order in compaction/import is an oracle reconstructed from the run; "
        "the byte layout of one record is Model/Codec.v (round trip proved), the slab is not modelled byte by byte here.",
   ref="DESIGN.md 9 C11"),
 "C12": dict(
   text="Theorems: the structural invariant swf3 (unique hkeys, accounting, distinct coefficients) is preserved by every operation; every "
        "SCAN page makes progress, a full iteration terminates within live+tables+1 pages and yields exactly the present matching records, "
        "each once, for every COUNT>=1, matcher and table layout (C12_store_complete). Client iterator (Model/Iter.v, the state machine of "
        "cluster_iterator.go with per-owner cursors, partitionKeys de-duplication, removeScannedOwner incl. its slice aliasing): for every "
        "page sequence the listed primary and replica owner answer, the iteration of a partition terminates and hands out exactly the keys "
        "found on either, each once, and the whole iteration yields exactly the keys of all partitions without repetition "
        "(C12_iterator_exactly_once). Executed against the real kvstore on shaped histories (holes, recycled tables) with COUNT in "
        "{1,2,3,10,1000}, and against real 1-3 member clusters (cluster client and embedded iterators, COUNT/MATCH variants) where the "
        "model has to reproduce the exact key sequence, on every run. Iterations kept open across compaction; stores forked from an engine instance of another table size (D47). Iterations between the routing update of a join and the migration it announces (membership harness, timers off).",
   note=TB + "the iterator theorem covers one primary and at most one replica owner per partition (stable cluster, ReplicaCount<=2); with two "
        "owners in one list the state machine as coded terminates only thanks to the periodic re-fetch of the routing table "
        "(C12_two_replica_owners_need_refetch), which is timing and not modelled: ReplicaCount 3 is judged by the predicate only; "
        "regexp matching is a parameter of the model (prefix patterns in the correspondence); network errors during an iteration are not modelled.",
   ref="DESIGN.md 9 C12"),
 "C13": dict(
   text="Theorems over the Gallina model of the routing-table computation (Model/Routing.v; every previous table without duplicate ids, every "
        "live set, every LengthOfPart answer function incl. failed calls, every partition count and every hash ring satisfying three ring "
        "facts): the pruning loop as coded is a filter; every recomputed partition has a live ring owner last, no duplicates, only live "
        "members with the listed identity, extra owners/backups only when they reported data or could not be asked, the last min(R,N)-1 "
        "backups = the ring's closest minus the owner (C13_distribute_valid / C13_valid_table); minimality and idempotence at the fixpoint; "
        "coordinator = oldest member independent of list order; push agreement; client and member map a key to the same partition and "
        "owner; balance from the ring's load fact. Tied to internal/cluster/routingtable by an exact differential of "
        "distributePrimaryCopies / distributeBackups / processLeftOverDataReports on thousands of generated cases per run and by "
        "end-to-end membership scripts (join, graceful stop, kill, re-join under the same address, crash+restart at once) on real "
        "clusters judged by the executable valid_table. Also with full members holding data and the members' own timers only (the harness watches): after the start-up coordinator has gone and a member has joined, the table settles by itself.",
   note=TB + "the hash ring (buraksezer/consistent) and memberlist are oracles (the three ring facts are re-validated on every ring used; "
        "membership is an input); member names unique, ids and birthdates collision free; 'eventually' is judged with timeouts (settle) "
        "on the real cluster; a coordinator recomputation blocked for >= 30 s is reported as a routing stall (D39, fixed).",
   ref="DESIGN.md 9 C13, docs/DESIGN-C13.md"),
 "C14": dict(
   text="Theorems over the Gallina model of internal/pubsub/pubsub.go + the publish fan-out (every glob matcher, number of members, operation "
        "sequence): refinement to a set-of-subscriptions specification, exactly-once delivery per matching subscription and to nobody else, "
        "PUBLISH count = deliveries, silence after unsubscribe/disconnect, exact CHANNELS/NUMSUB/NUMPAT. Executed against real 1-3 member "
        "clusters over raw RESP on exhaustive (13-op alphabet, length<=3/4) and random scripts on every run.",
   note=TB + "tidwall/match is an oracle (table per scenario); the btree's ordered iteration is modelled by the set it selects; ps.mu makes each "
        "operation atomic (Go runtime); concurrent publishers are judged by the python predicate only.",
   ref="DESIGN.md 9 C14, docs/DESIGN-C14.md"),
 "C15": dict(
   text='Theorems: for every Put configuration (at most one of EX/PX/EXAT/PXAT, at most one of NX/XX) and for Expire/PExpire, Lock EX|PX, Lease/PLease, Scan options, Get/GetPut RW, Destroy LC, GetEntry/DelEntry RC, the server parses the command the client-side builders produce into exactly the same configuration (C15_*_roundtrip over Model/Proto.v), and the owner-side semantics (Model/DMap.v) depends on the decoded configuration only. Executed: exhaustive grid of operations x options x prior state x 7 client paths (embedded owner/non-owner/backup, cluster client, raw RESP, pipeline) on real clusters, judged by one reference semantics for all paths and compared with the model. Several commands queued in one pipeline before Exec (pipebatch) are judged and modelled as individual operations.',
   note=TB + 'strconv float/int formatting enter the round-trip theorems as explicit hypotheses (oracles); durations are multiples of 1 ms; the float seconds->milliseconds conversion is an oracle.',
   ref='DESIGN.md 9 C15, docs/DESIGN-C16.md'),
 "C20": dict(
   text="Theorems: in every reachable state (any sequence of Put/PutRaw/Delete/UpdateTTL/Compaction) each table satisfies inuse+garbage=offset<=allocated "
        "with inuse = bytes of live records (superseded bytes are garbage on both write paths); Put allocates at most one table; compaction makes "
        "progress (a measure strictly decreases), terminates within 2*live+tables+3 calls and on completion no sealed table is above the threshold. "
        "Churn workloads on the real kvstore (Put and PutRaw paths, compaction once per 2T bytes) are compared with the model and with the closed-form "
        "bound on allocated memory on every run. After the repair of D44 a table qualifies also when it holds garbage and no live byte: once compaction reports done every other table that holds garbage holds live bytes (C20_no_dead_table_after_compaction); the compaction worker's loop on a fragment ends whenever the fragment is closed (C20_worker_terminates; D45 = C20_worker_spun_on_closed_fragment_refuted). Also executed: churn with entries of two sizes (tables sealed far from full), and on 2-member clusters with 2 copies the member's real triggerCompaction after every two tables written (primary and backup copies against the bound) and racing DM.DESTROY; and bursts of one-entry-per-table overwrites followed by silence with maxIdleTableTimeout 300 ms (every recycled table is released).",
   note=TB + "the closed-form bound on allocated memory is evaluated on the implementation (predicate), not yet proved; the bound length(tables)+1 on "
        "compaction calls is refuted by a witness (C20_compaction_terminates_refuted) and replaced by the weaker proved bound; cluster-level (backup) churn "
        "is covered through PutRaw at store level.",
   ref="DESIGN.md 9 C20"),
}

def main():
    checks = []
    for pid in sorted(CLAIMS):
        c = CLAIMS[pid]
        checks.append({
            "property_id": pid, "quick_cmd": "./check %s --tier quick" % pid, "thorough_cmd": "./check %s --tier thorough" % pid,
            "evidence_file": "evidence/%s.json" % pid, "replay_cmd_template": "./check %s --replay {path}" % pid,
            "engine": "coq-model+correspondence",
            "level_claimed": {"category": "proof", "text": c["text"], "design_ref": c["ref"]},
            "level_note": c["note"], "technique": "Rocq/Coq proof over a hand-written Gallina model + differential correspondence check (vm_compute)"})
    na = [{"property_id": "C%02d" % i, "reason": "check not merged yet in this session (work in progress, DESIGN.md 10.3); not a statement that the technique cannot apply"}
          for i in range(1, 21) if "C%02d" % i not in CLAIMS]
    man = {"version": 1, "setup_cmd": "./setup.sh",
           "hooks": {"guard": "verif",
                     "enable": "go build -tags verif -overlay /verif/build/overlay.json ./cmd/verifx (add-only files from /verif/harness/overlay + the fail points of internal/verifhook, which are empty functions without the tag)",
                     "baseline_off_cmd": "cd /repo && go test -vet=off -count=1 -timeout 25m ./...",
                     "source_commits": ["caf7c4a", "b020d2e", "583e137"], "add_only": True},
           "engines": [{"name": "coq-model+correspondence", "path": "/verif/coq, /verif/harness, /verif/check, /verif/lib, /verif/checks",
                        "serves_properties": sorted(CLAIMS),
                        "kind_free_text": "Gallina model + theorems (Coq 8.16.1), tied to /repo by a differential correspondence check evaluated with vm_compute"}],
           "checks": checks, "not_applicable": na,
           "notes": "See DESIGN.md; known_findings.json lists fixed/open findings; CONTRIBUTING.md the conventions."}
    json.dump(man, open(os.path.join(HERE, "MANIFEST.json"), "w"), indent=1)
    print("MANIFEST.json: %d checks, %d not_applicable" % (len(checks), len(na)))

if __name__ == "__main__":
    main()
