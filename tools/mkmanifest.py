#!/usr/bin/env python3
# Regenerates MANIFEST.json from the table below (one entry per claimed property).
import json
import os
import subprocess

HERE = os.path.dirname(os.path.dirname(os.path.abspath(__file__)))
TB = ("Trusted: Coq 8.16.1 kernel + vm_compute (no native_compute, no axioms); the hand-written Gallina model is tied to /repo only by "
      "the correspondence check (Go harness compiled into the working tree with -overlay, generators, printers, constants translator); ")

CLAIMS = {
 "C11": dict(
   text="Theorems over the Gallina model of internal/kvstore (record level): for every operation sequence, table size and map-iteration "
        "order the store refines a map (C11_refines_map), compaction is the identity and terminates within a stated bound, Stats.Length / "
        "Range enumerate exactly the present keys, Export/Drop remove exactly one table's records. The model is executed against the real "
        "kvstore on exhaustive (length<=3/5 over a 10-op alphabet) and seeded random sequences on every run, inside Coq (vm_compute).",
   note=TB + "hkeys are inputs (64-bit hash not modelled); Go map iteration order in compaction/import is an oracle reconstructed from the run; "
        "the byte layout of one record is Model/Codec.v (round trip proved), the slab is not modelled byte by byte here.",
   ref="DESIGN.md 9 C11"),
 "C12": dict(
   text="Theorems: the structural invariant swf3 (unique hkeys, accounting, distinct coefficients) is preserved by every operation; every "
        "SCAN page makes progress, a full iteration terminates within live+tables+1 pages and yields exactly the present matching records, "
        "each once, for every COUNT>=1, matcher and table layout (C12_store_complete). Executed against the real kvstore on shaped histories "
        "(holes, recycled tables) with COUNT in {1,2,3,10,1000} on every run.",
   note=TB + "store level only so far (kvstore cursors); the client iterator over several members is exercised by C15/C19 scans but has no theorem yet; "
        "regexp matching is a parameter of the model (prefix patterns in the correspondence).",
   ref="DESIGN.md 9 C12"),
 "C14": dict(
   text="Theorems over the Gallina model of internal/pubsub/pubsub.go + the publish fan-out (every glob matcher, number of members, operation "
        "sequence): refinement to a set-of-subscriptions specification, exactly-once delivery per matching subscription and to nobody else, "
        "PUBLISH count = deliveries, silence after unsubscribe/disconnect, exact CHANNELS/NUMSUB/NUMPAT. Executed against real 1-3 member "
        "clusters over raw RESP on exhaustive (13-op alphabet, length<=3/4) and random scripts on every run.",
   note=TB + "tidwall/match is an oracle (table per scenario); the btree's ordered iteration is modelled by the set it selects; ps.mu makes each "
        "operation atomic (Go runtime); concurrent publishers are judged by the python predicate only.",
   ref="DESIGN.md 9 C14, fixes/DESIGN-C14.md"),
 "C15": dict(
   text="Exhaustive differential of every operation x option combination x prior state x 7 client paths on real clusters against the reference "
        "semantics and the mirror predicate; theorems (options round trip through the command builders and parsers) are being added.",
   note=TB + "durations are multiples of 1 ms; timing-ambiguous cases are discarded and counted.",
   ref="DESIGN.md 9 C15"),
 "C20": dict(
   text="Theorems: in every reachable state (any sequence of Put/PutRaw/Delete/UpdateTTL/Compaction) each table satisfies inuse+garbage=offset<=allocated "
        "with inuse = bytes of live records (superseded bytes are garbage on both write paths); Put allocates at most one table; compaction makes "
        "progress (a measure strictly decreases), terminates within 2*live+tables+3 calls and on completion no sealed table is above the threshold. "
        "Churn workloads on the real kvstore (Put and PutRaw paths, compaction once per 2T bytes) are compared with the model and with the closed-form "
        "bound on allocated memory on every run.",
   note=TB + "the closed-form bound on allocated memory is evaluated on the implementation (predicate), not yet proved; the bound length(tables)+1 on "
        "compaction calls is refuted by a witness (C20_compaction_terminates_refuted) and replaced by the weaker proved bound; cluster-level (backup) churn "
        "is covered through PutRaw at store level.",
   ref="DESIGN.md 9 C20"),
}

def main():
    checks = []
    for pid in sorted(CLAIMS):
        c = CLAIMS[pid]
        checks.append({
            "property_id": pid, "quick_cmd": "./check %s --tier quick" % pid, "thorough_cmd": "./check %s --tier thorough" % pid,
            "evidence_file": "evidence/%s.json" % pid, "replay_cmd_template": "./check %s --replay {path}" % pid,
            "engine": "coq-model+correspondence",
            "level_claimed": {"category": "proof", "text": c["text"], "design_ref": c["ref"]},
            "level_note": c["note"], "technique": "Rocq/Coq proof over a hand-written Gallina model + differential correspondence check (vm_compute)"})
    na = [{"property_id": "C%02d" % i, "reason": "check not merged yet in this session (work in progress, DESIGN.md 10.3); not a statement that the technique cannot apply"}
          for i in range(1, 21) if "C%02d" % i not in CLAIMS]
    man = {"version": 1, "setup_cmd": "./setup.sh",
           "hooks": {"guard": "verif",
                     "enable": "go build -tags verif -overlay /verif/build/overlay.json ./cmd/verifx (add-only files from /verif/harness/overlay; nothing guarded is committed in /repo)",
                     "baseline_off_cmd": "cd /repo && go test -vet=off -count=1 -timeout 25m ./...",
                     "source_commits": [], "add_only": True},
           "engines": [{"name": "coq-model+correspondence", "path": "/verif/coq, /verif/harness, /verif/check, /verif/lib, /verif/checks",
                        "serves_properties": sorted(CLAIMS),
                        "kind_free_text": "Gallina model + theorems (Coq 8.16.1), tied to /repo by a differential correspondence check evaluated with vm_compute"}],
           "checks": checks, "not_applicable": na,
           "notes": "See DESIGN.md; known_findings.json lists fixed/open findings; CONTRIBUTING.md the conventions."}
    json.dump(man, open(os.path.join(HERE, "MANIFEST.json"), "w"), indent=1)
    print("MANIFEST.json: %d checks, %d not_applicable" % (len(checks), len(na)))

if __name__ == "__main__":
    main()
