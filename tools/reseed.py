#!/usr/bin/env python3
# tools/reseed.py <id>[,<id>...] [--checks C01,C02]: re-runs quick checks against /repo with the filed patch of a seeded change
# applied (seeded/<id>/patch.diff), undoes it, and updates meta.json. Default checks: the property the change breaks.
import argparse, json, os, re, shutil, subprocess, sys, time
VERIF = os.path.dirname(os.path.dirname(os.path.abspath(__file__)))
REPO = os.environ.get("VERIF_REPO", "/repo")      # the tree the patch is applied to (the checks read the same variable)


def sh(cmd, cwd=None, timeout=3600):
    p = subprocess.run(cmd, shell=True, cwd=cwd, stdout=subprocess.PIPE, stderr=subprocess.STDOUT, text=True, errors="replace", timeout=timeout)
    return p.returncode, p.stdout


def main():
    ap = argparse.ArgumentParser()
    ap.add_argument("ids")
    ap.add_argument("--checks", default="")
    a = ap.parse_args()
    for sid in a.ids.split(","):
        out = os.path.join(VERIF, "seeded", sid)
        meta = json.load(open(os.path.join(out, "meta.json")))
        checks = a.checks.split(",") if a.checks else [meta["breaks"]]
        rc, o = sh("git status --porcelain", cwd=REPO)
        if o.strip():
            print(REPO, "is not clean:", o)
            return 1
        rc, o = sh("git apply %s" % os.path.join(out, "patch.diff"), cwd=REPO)
        if rc != 0:
            print(sid, "patch does not apply:", o)
            continue
        try:
            for c in checks:
                t0 = time.time()
                rc, o = sh("./check %s --tier quick" % c, cwd=VERIF)
                viol = [l for l in o.splitlines() if l.startswith("VIOLATION")]
                meta.setdefault("checks", {})[c] = {"exit": rc, "violations": viol[:4], "seconds": round(time.time() - t0, 1)}
                if viol:
                    m = re.search(r"replay=(\S+)", viol[0])
                    if m and os.path.exists(m.group(1)):
                        shutil.copy(m.group(1), os.path.join(out, "detected_by_%s.json" % c))
                print(sid, c, "exit", rc, "violations", len(viol), "%.0fs" % (time.time() - t0))
        finally:
            sh("git checkout -- .", cwd=REPO)
        meta["caught_by"] = [c for c, r in meta["checks"].items() if r["violations"]]
        json.dump(meta, open(os.path.join(out, "meta.json"), "w"), indent=1)
    return 0


if __name__ == "__main__":
    sys.exit(main())
