#!/usr/bin/env python3
# tools/seed.py <id> <worktree> [--checks C01,C11,...] [--needs "..."]
# Confirms an independently written breaking change (a "seeded mutant"), files it under /verif/seeded/<id>/ and
# runs the given checks against /repo with the change applied (then undoes it).
import argparse
import glob
import json
import os
import re
import shutil
import subprocess
import sys
import time

VERIF = os.path.dirname(os.path.dirname(os.path.abspath(__file__)))
ENV = dict(os.environ, GOFLAGS="-mod=mod", GOPROXY="off", GOSUMDB="off", GOTOOLCHAIN="local")


def sh(cmd, cwd=None, timeout=1800):
    p = subprocess.run(cmd, shell=True, cwd=cwd, env=ENV, stdout=subprocess.PIPE, stderr=subprocess.STDOUT, text=True, errors="replace", timeout=timeout)
    return p.returncode, p.stdout


def main():
    ap = argparse.ArgumentParser()
    ap.add_argument("id")
    ap.add_argument("worktree")
    ap.add_argument("--checks", default="")
    ap.add_argument("--needs", default="")
    ap.add_argument("--skip-confirm", action="store_true")
    a = ap.parse_args()
    wt = a.worktree
    out = os.path.join(VERIF, "seeded", a.id)
    os.makedirs(out, exist_ok=True)
    # production change = tracked modifications except test files
    rc, names = sh("git diff --name-only", cwd=wt)
    prod = [n for n in names.split() if not n.endswith("_test.go")]
    rc, diff = sh("git diff -- " + " ".join(prod), cwd=wt)
    if not diff.strip():
        print("no production change in", wt)
        return 1
    open(os.path.join(out, "patch.diff"), "w").write(diff)
    rc, untracked = sh("git ls-files --others --exclude-standard", cwd=wt)
    demos = [u for u in untracked.split() if u.endswith(".go")]
    rc2, moddemo = sh("git diff --name-only", cwd=wt)
    for d in demos:
        dst = os.path.join(out, "demo", d)
        os.makedirs(os.path.dirname(dst), exist_ok=True)
        shutil.copy(os.path.join(wt, d), dst)
    if os.path.exists(os.path.join(wt, "MUTANT.md")):
        shutil.copy(os.path.join(wt, "MUTANT.md"), os.path.join(out, "MUTANT.md"))
    meta = {"id": a.id, "breaks": a.id.split("-")[0], "files_changed": prod, "demo_files": demos, "needs": a.needs, "ran": []}
    # confirm: demo fails with the change, passes without, repo builds, touched packages' tests pass
    if not a.skip_confirm:
        pkgs = sorted({"./" + os.path.dirname(d) if os.path.dirname(d) else "." for d in demos})
        run = " ".join(pkgs)
        rc, o = sh("go build ./...", cwd=wt)
        meta["ran"].append({"cmd": "go build ./...", "rc": rc})
        rc_with, o_with = sh("go test -vet=off -count=1 -run 'Mutant|mutant|MUTANT' %s" % run, cwd=wt, timeout=900)
        meta["ran"].append({"cmd": "demo with change", "rc": rc_with, "tail": o_with[-600:]})
        open(os.path.join(out, "patch.tmp"), "w").write(diff)
        rcr, o = sh("git apply -R %s" % os.path.join(out, "patch.tmp"), cwd=wt)
        rc_without, o_without = sh("go test -vet=off -count=1 -run 'Mutant|mutant|MUTANT' %s" % run, cwd=wt, timeout=900)
        meta["ran"].append({"cmd": "demo without change", "rc": rc_without, "tail": o_without[-300:]})
        sh("git apply %s" % os.path.join(out, "patch.tmp"), cwd=wt)
        os.remove(os.path.join(out, "patch.tmp"))
        tpk = sorted({"./" + os.path.dirname(n) + "/..." if os.path.dirname(n) else "." for n in prod})
        rc_suite, o_suite = sh("go test -vet=off -count=1 -skip 'Mutant|mutant' %s" % " ".join(tpk), cwd=wt, timeout=1500)
        meta["ran"].append({"cmd": "existing tests of touched packages with change: " + " ".join(tpk), "rc": rc_suite, "tail": o_suite[-400:]})
        meta["confirmed"] = (rc_with != 0 and rc_without == 0 and rc_suite == 0)
        print("confirm: demo with change rc=%d, without rc=%d, suite rc=%d -> %s" % (rc_with, rc_without, rc_suite, meta["confirmed"]))
    # run my checks against /repo with the change
    results = {}
    if a.checks:
        rc, o = sh("git status --porcelain", cwd="/repo")
        if o.strip():
            print("/repo is not clean:", o)
            return 1
        rc, o = sh("git apply %s" % os.path.join(out, "patch.diff"), cwd="/repo")
        if rc != 0:
            print("patch does not apply to /repo:", o)
            return 1
        try:
            for c in a.checks.split(","):
                t0 = time.time()
                rc, o = sh("./check %s --tier quick" % c, cwd=VERIF, timeout=1800)
                viol = [l for l in o.splitlines() if l.startswith("VIOLATION")]
                results[c] = {"exit": rc, "violations": viol[:4], "seconds": round(time.time() - t0, 1)}
                # keep the first replay as the recorded detection
                if viol:
                    m = re.search(r"replay=(\S+)", viol[0])
                    if m and os.path.exists(m.group(1)):
                        shutil.copy(m.group(1), os.path.join(out, "detected_by_%s.json" % c))
                print(c, results[c])
        finally:
            sh("git checkout -- .", cwd="/repo")
            sh("git clean -fdq -- . ':!*.md'", cwd="/repo") if False else None
    meta["checks"] = results
    meta["caught_by"] = [c for c, r in results.items() if r["violations"]]
    old = {}
    mp = os.path.join(out, "meta.json")
    if os.path.exists(mp):
        old = json.load(open(mp))
        for k in ("confirmed", "ran", "needs"):
            if k not in meta or not meta[k]:
                if k in old:
                    meta[k] = old[k]
        oc = old.get("checks", {})
        oc.update(results)
        meta["checks"] = oc
        meta["caught_by"] = [c for c, r in oc.items() if r["violations"]]
    json.dump(meta, open(mp, "w"), indent=1)
    return 0


if __name__ == "__main__":
    sys.exit(main())
