#!/usr/bin/env python3
# Regenerates the table of registered obligations in DESIGN.md (13.2) from coq/props/*.json.
import glob, json, os, re
HERE = os.path.dirname(os.path.dirname(os.path.abspath(__file__)))
rows = []
total = 0
for f in sorted(glob.glob(os.path.join(HERE, "coq", "props", "C*.json"))):
    pid = os.path.basename(f)[:-5]
    ths = json.load(open(f))["theorems"]
    total += len(ths)
    cells = []
    for t in ths:
        mod = t["module"].split(".")[-1]
        cells.append("`%s`" % t["name"] if mod == pid else "`%s` (%s)" % (t["name"], mod))
    rows.append("| %s | %s |" % (pid, ", ".join(cells)))
table = ("| property | theorems (module `Properties.Cnn` unless another module is named) |\n|----------|------|\n" + "\n".join(rows) +
         "\n\n%d registered obligations in total.\n" % total)
p = os.path.join(HERE, "DESIGN.md")
s = open(p).read()
a = s.index("Registered obligations:\n") + len("Registered obligations:\n")
b = s.index("What they say, in one line each")
s = s[:a] + "\n" + table + "\n" + s[b:]
nfiles = {d: len(glob.glob(os.path.join(HERE, "coq", d, "*.v"))) for d in ("Model", "Proofs", "Properties")}
lines = sum(len(open(x).readlines()) for d in nfiles for x in glob.glob(os.path.join(HERE, "coq", d, "*.v")))
s = re.sub(r"`coq/` holds about [\d ]+ lines: \d+ model files, \d+ proof files, one `Properties/Cnn.v` per property",
           "`coq/` holds about %d 000 lines: %d model files, %d proof files, %d statement files `Properties/Cnn*.v`" % (
               round(lines / 1000), nfiles["Model"], nfiles["Proofs"], nfiles["Properties"]), s)
open(p, "w").write(s)
print("table: %d properties, %d obligations; %d lines" % (len(rows), total, lines))
