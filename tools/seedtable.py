#!/usr/bin/env python3
# Regenerates the table of seeded changes in DESIGN.md (between the SEEDED markers) from seeded/*/meta.json.
import glob
import json
import os
import re

HERE = os.path.dirname(os.path.dirname(os.path.abspath(__file__)))
rows = []
for f in sorted(glob.glob(os.path.join(HERE, "seeded", "*", "meta.json"))):
    m = json.load(open(f))
    checks = m.get("checks", {})
    ran = ", ".join("%s:%s" % (c, "caught" if r["violations"] else "missed") for c, r in sorted(checks.items()))
    rows.append("| `seeded/%s` | %s | %s | %s | %s | %s |" % (
        m["id"], m.get("breaks", ""), ", ".join(m.get("files_changed", [])), m.get("needs", "").replace("|", "/"),
        "yes" if m.get("confirmed") else "no", ran))
table = ("| change | breaks | files | needs in order to manifest | confirmed (demo fails with / passes without, suite passes) | quick checks run against it |\n"
         "|---|---|---|---|---|---|\n" + "\n".join(rows))
p = os.path.join(HERE, "DESIGN.md")
s = open(p).read()
a, b = "<!-- SEEDED-BEGIN -->", "<!-- SEEDED-END -->"
if a in s:
    s = s[:s.index(a) + len(a)] + "\n" + table + "\n" + s[s.index(b):]
    open(p, "w").write(s)
print(table)
