#!/bin/sh
# tools/final.sh: what is done before a state of /verif is handed over. Run on a quiet machine, /repo clean.
#   anchors + manifest + tables, every quick check once with VERIF_SEED=1 (fresh evidence), schema validation.
cd "$(dirname "$0")/.." || exit 2
if [ -n "$(git -C "${VERIF_REPO:-/repo}" status --porcelain)" ]; then echo "the source tree is not clean"; exit 2; fi
python3 tools/anchors.py --update | tail -1
python3 tools/mkmanifest.py | tail -1
python3 tools/thmtable.py | tail -1
python3 tools/seedtable.py | tail -1
bad=0
for n in 01 02 03 04 05 06 07 08 09 10 11 12 13 14 15 16 17 18 19 20; do
  t0=$(date +%s)
  VERIF_SEED=1 ./check C$n --tier quick > build/final_C$n.log 2>&1
  rc=$?
  echo "C$n rc=$rc $(( $(date +%s) - t0 ))s viol=$(grep -c '^VIOLATION' build/final_C$n.log) known=$(grep -c '^KNOWN-FINDING' build/final_C$n.log)"
  [ $rc -ne 0 ] && bad=1
done
python3-vt - <<'PY' || bad=1
import json, glob, jsonschema
ms = json.load(open('/root/.vp/MANIFEST.schema.json')); es = json.load(open('/root/.vp/EVIDENCE.schema.json'))
jsonschema.validate(json.load(open('MANIFEST.json')), ms)
n = 0
for f in sorted(glob.glob('evidence/C*.json')):
    e = json.load(open(f)); jsonschema.validate(e, es); n += 1
    assert e['violations'] == 0, (f, e['violations'])
print("manifest and %d evidence files are valid; no violations" % n)
PY
exit $bad
