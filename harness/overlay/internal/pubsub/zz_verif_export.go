//go:build verif

package pubsub

// Verif-only white-box observer (add-only overlay file; never part of /repo).

// VerifConns is the number of connections the PubSub instance of this member has registered (detached
// connections whose bgrunner is alive). The harness uses it only as a barrier: "the server has noticed
// that the client went away".
func (s *Service) VerifConns() int {
	s.pubsub.mu.RLock()
	defer s.pubsub.mu.RUnlock()
	return len(s.pubsub.conns)
}
