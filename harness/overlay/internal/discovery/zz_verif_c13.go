//go:build verif

package discovery

// VerifAbruptShutdown stops the memberlist WITHOUT broadcasting a leave message (a crash as seen by the
// other members: they have to detect it by probing). A later Shutdown() is a no-op.
func (d *Discovery) VerifAbruptShutdown() error {
	select {
	case <-d.ctx.Done():
		return nil
	default:
	}
	var err error
	if d.memberlist != nil {
		err = d.memberlist.Shutdown()
	}
	d.cancel()
	d.wg.Wait()
	return err
}
