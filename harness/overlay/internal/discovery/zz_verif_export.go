//go:build verif

package discovery

// VerifAbruptStop stops memberlist without broadcasting a leave message (the member just disappears; the
// others find out through the failure detector). Verif-only, add-only overlay file.
func (d *Discovery) VerifAbruptStop() error {
	if d.memberlist != nil {
		return d.memberlist.Shutdown()
	}
	return nil
}
