//go:build verif

package locker

import "sort"

// VerifNames returns the names the Locker's map holds right now (sorted).
func (l *Locker) VerifNames() []string {
	l.mu.Lock()
	defer l.mu.Unlock()
	out := make([]string, 0, len(l.locks))
	for n := range l.locks {
		out = append(out, n)
	}
	sort.Strings(out)
	return out
}
