//go:build verif

package server

import "github.com/redis/go-redis/v9"

// VerifSetClient replaces the pooled connection for addr (nil removes it) and returns the previous one.
// Used by the C13 harness to make the LengthOfPart call to a chosen member fail.
func (c *Client) VerifSetClient(addr string, rc *redis.Client) *redis.Client {
	c.mu.Lock()
	defer c.mu.Unlock()
	old := c.clients[addr]
	if rc == nil {
		delete(c.clients, addr)
	} else {
		c.clients[addr] = rc
	}
	return old
}
