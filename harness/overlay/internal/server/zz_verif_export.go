//go:build verif

package server

import (
	"net"
	"sort"
	"sync"
	"time"

	"github.com/tidwall/redcon"
)

// Verif-only exports (add-only overlay file; never part of /repo).
//
// "Unreachable member that is still in the member list": the RESP listener of one member is put behind a
// gate. While the gate is shut every connection the listener accepts is closed at once (and every
// connection accepted earlier is closed), so peers get a network error (EOF / connection reset) for every
// command they send to this member, exactly as for a crashed or partitioned RESP port, while memberlist (its
// own port) keeps reporting the member alive. Opening the gate restores normal service.

type verifGate struct {
	net.Listener
	mu    sync.Mutex
	shut  bool
	conns map[net.Conn]struct{}
}

func (g *verifGate) Accept() (net.Conn, error) {
	for {
		c, err := g.Listener.Accept()
		if err != nil {
			return nil, err
		}
		g.mu.Lock()
		if g.shut {
			g.mu.Unlock()
			_ = c.Close()
			continue
		}
		// forget connections that are certainly dead to keep the set small
		if len(g.conns) > 4096 {
			g.conns = map[net.Conn]struct{}{}
		}
		g.conns[c] = struct{}{}
		g.mu.Unlock()
		return c, nil
	}
}

var verifGates sync.Map // *Server -> *verifGate

// VerifInstallGate puts the listener of a started server behind a gate (idempotent). The goroutine of redcon
// is blocked in Accept of the old listener value at this moment, so one throw-away connection is made to
// let it come back and pick up the gate.
func (s *Server) VerifInstallGate() {
	if _, ok := verifGates.Load(s); ok {
		return
	}
	<-s.StartedCtx.Done()
	for i := 0; i < 200 && s.listener == nil; i++ {
		time.Sleep(5 * time.Millisecond)
	}
	g := &verifGate{Listener: s.listener.Listener, conns: map[net.Conn]struct{}{}}
	s.listener.Listener = g
	verifGates.Store(s, g)
	for i := 0; i < 2; i++ {
		c, err := net.DialTimeout("tcp", g.Listener.Addr().String(), 2*time.Second)
		if err == nil {
			_ = c.Close()
		}
		time.Sleep(2 * time.Millisecond)
	}
}

// VerifSetUnreachable shuts (true) or opens (false) the gate. Shutting it also closes every connection the
// member accepted since the gate was installed.
func (s *Server) VerifSetUnreachable(down bool) {
	s.VerifInstallGate()
	v, _ := verifGates.Load(s)
	g := v.(*verifGate)
	g.mu.Lock()
	g.shut = down
	var cs []net.Conn
	if down {
		for c := range g.conns {
			cs = append(cs, c)
		}
		g.conns = map[net.Conn]struct{}{}
	}
	g.mu.Unlock()
	for _, c := range cs {
		_ = c.Close()
	}
}

func (s *Server) VerifUnreachable() bool {
	v, ok := verifGates.Load(s)
	if !ok {
		return false
	}
	g := v.(*verifGate)
	g.mu.Lock()
	defer g.mu.Unlock()
	return g.shut
}

// VerifCommands lists every command name registered on the mux (sorted).
func (s *Server) VerifCommands() []string {
	var out []string
	for k := range s.mux.handlers {
		out = append(out, k)
	}
	sort.Strings(out)
	return out
}

// VerifHoldCommand makes the handler of one registered command wait on the returned channel's close before it
// runs (used to build one deterministic schedule: a remote lookup that answers late). release() lets every
// held and every later call through. Must be called while no request for that command is in flight.
func (s *Server) VerifHoldCommand(command string) (arrived <-chan struct{}, release func()) {
	h, ok := s.mux.handlers[command]
	if !ok {
		panic("verif: no such command " + command)
	}
	arr := make(chan struct{}, 64)
	gate := make(chan struct{})
	var once sync.Once
	s.mux.handlers[command] = verifHeld{inner: h, arrived: arr, gate: gate}
	return arr, func() { once.Do(func() { close(gate) }) }
}

type verifHeld struct {
	inner   redcon.Handler
	arrived chan struct{}
	gate    chan struct{}
}

func (h verifHeld) ServeRESP(conn redcon.Conn, cmd redcon.Command) {
	select {
	case h.arrived <- struct{}{}:
	default:
	}
	<-h.gate
	h.inner.ServeRESP(conn, cmd)
}
