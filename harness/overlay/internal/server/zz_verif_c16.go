//go:build verif

package server

import (
	"github.com/tidwall/redcon"
)

// Verif-only accessors for the C16 dispatch correspondence (add-only overlay file; never part of /repo).

// VerifNewMux builds the real multiplexer and the real wrapper (the pair Server.New builds) without a listener.
func VerifNewMux(precond func(conn redcon.Conn, cmd redcon.Command) bool) (*ServeMux, *ServeMuxWrapper) {
	m := NewServeMux()
	return m, &ServeMuxWrapper{mux: m, precond: precond}
}
