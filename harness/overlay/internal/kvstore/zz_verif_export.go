//go:build verif

package kvstore

// Verif-only exports (add-only, injected with -overlay; never part of /repo).

const VerifMaxGarbageRatio = maxGarbageRatio
const VerifDefaultTableSize = defaultTableSize

// VerifTables returns, oldest first, (coefficient, state, stats) of each table.
type VerifTableInfo struct {
	Coefficient uint64
	State       uint8
	Allocated   uint64
	Inuse       uint64
	Garbage     uint64
	Length      int
	InByCoef    bool
}

func (k *KVStore) VerifTables() []VerifTableInfo {
	var out []VerifTableInfo
	for _, t := range k.tables {
		s := t.Stats()
		tt, ok := k.tablesByCoefficient[t.Coefficient()]
		out = append(out, VerifTableInfo{
			Coefficient: t.Coefficient(), State: uint8(t.State()),
			Allocated: s.Allocated, Inuse: s.Inuse, Garbage: s.Garbage, Length: s.Length,
			InByCoef: ok && tt == t,
		})
	}
	return out
}

// VerifPlacement maps every stored hkey to (position of its table in k.tables, coefficient, offset).
type VerifPlace struct {
	Index       int
	Coefficient uint64
	Offset      uint64
}

func (k *KVStore) VerifPlacement() map[uint64]VerifPlace {
	out := map[uint64]VerifPlace{}
	for i, t := range k.tables {
		for h, o := range t.VerifHKeys() {
			// the newest table wins, as in Get
			out[h] = VerifPlace{Index: i, Coefficient: t.Coefficient(), Offset: o}
		}
	}
	return out
}
