//go:build verif

package kvstore

// Verif-only exports (add-only, injected with -overlay; never part of /repo).

const VerifMaxGarbageRatio = maxGarbageRatio
const VerifDefaultTableSize = defaultTableSize

// VerifTables returns, oldest first, (coefficient, state, stats) of each table.
type VerifTableInfo struct {
	Coefficient uint64
	State       uint8
	Allocated   uint64
	Inuse       uint64
	Garbage     uint64
	Length      int
	InByCoef    bool
}

func (k *KVStore) VerifTables() []VerifTableInfo {
	var out []VerifTableInfo
	for _, t := range k.tables {
		s := t.Stats()
		tt, ok := k.tablesByCoefficient[t.Coefficient()]
		out = append(out, VerifTableInfo{
			Coefficient: t.Coefficient(), State: uint8(t.State()),
			Allocated: s.Allocated, Inuse: s.Inuse, Garbage: s.Garbage, Length: s.Length,
			InByCoef: ok && tt == t,
		})
	}
	return out
}
