//go:build verif

package table

// VerifHKeys returns a copy of the hkey -> offset index (verif-only, add-only overlay file).
func (t *Table) VerifHKeys() map[uint64]uint64 {
	out := make(map[uint64]uint64, len(t.hkeys))
	for h, o := range t.hkeys {
		out[h] = o
	}
	return out
}
