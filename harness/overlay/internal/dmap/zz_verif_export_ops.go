//go:build verif

package dmap

// Verif-only drivers for the background workers (add-only overlay file; never part of /repo).

// VerifEvictAll runs one eviction pass (scanFragmentForEviction) over every fragment of every primary
// partition of this member - what evictKeys does for one random partition per tick.
func (s *Service) VerifEvictAll() {
	for partID := uint64(0); partID < s.config.PartitionCount; partID++ {
		part := s.primary.PartitionByID(partID)
		part.Map().Range(func(name, tmp interface{}) bool {
			f := tmp.(*fragment)
			s.scanFragmentForEviction(partID, name.(string), f)
			return true
		})
	}
}

// VerifJanitor runs one pass of the empty-fragment janitor.
func (s *Service) VerifJanitor() {
	s.deleteEmptyFragments()
}
