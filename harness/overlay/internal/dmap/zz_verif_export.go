//go:build verif

package dmap

import (
	"time"

	"github.com/olric-data/olric/internal/cluster/partitions"
	"github.com/olric-data/olric/pkg/storage"
)

// Verif-only white-box observers (add-only overlay file; never part of /repo).

type VerifCopy struct {
	Found      bool
	Key        string
	Value      []byte
	TTL        int64
	Timestamp  int64
	LastAccess int64
}

func (s *Service) verifParts(kind partitions.Kind) *partitions.Partitions {
	if kind == partitions.BACKUP {
		return s.backup
	}
	return s.primary
}

// VerifCopy returns the entry the member holds for (dmap, hkey) in the given partition kind, without
// touching lastAccess more than a Get would (it uses GetRaw, which does not stamp).
func (s *Service) VerifCopy(kind partitions.Kind, name string, hkey uint64) VerifCopy {
	part := s.verifParts(kind).PartitionByHKey(hkey)
	tmp, ok := part.Map().Load(s.fragmentName(name))
	if !ok {
		return VerifCopy{}
	}
	f := tmp.(*fragment)
	f.RLock()
	defer f.RUnlock()
	raw, err := f.storage.GetRaw(hkey)
	if err != nil {
		return VerifCopy{}
	}
	e := f.storage.NewEntry()
	e.Decode(raw)
	v := make([]byte, len(e.Value()))
	copy(v, e.Value())
	return VerifCopy{Found: true, Key: e.Key(), Value: v, TTL: e.TTL(), Timestamp: e.Timestamp(), LastAccess: e.LastAccess()}
}

// VerifFragmentStats returns (exists, stats) of the fragment of dmap `name` in partition partID.
func (s *Service) VerifFragmentStats(kind partitions.Kind, name string, partID uint64) (bool, storage.Stats) {
	part := s.verifParts(kind).PartitionByID(partID)
	tmp, ok := part.Map().Load(s.fragmentName(name))
	if !ok {
		return false, storage.Stats{}
	}
	f := tmp.(*fragment)
	f.RLock()
	defer f.RUnlock()
	return true, f.storage.Stats()
}

// VerifFragmentNames lists the fragment names present in partition partID.
func (s *Service) VerifFragmentNames(kind partitions.Kind, partID uint64) []string {
	var out []string
	s.verifParts(kind).PartitionByID(partID).Map().Range(func(k, _ interface{}) bool {
		out = append(out, k.(string))
		return true
	})
	return out
}

// VerifFragmentName is the name of the fragments of DMap name (the key of a partition's fragment map).
func (s *Service) VerifFragmentName(name string) string { return s.fragmentName(name) }

// VerifFragmentKeys returns every (hkey, key) held by the fragment.
func (s *Service) VerifFragmentKeys(kind partitions.Kind, name string, partID uint64) map[uint64]string {
	out := map[uint64]string{}
	part := s.verifParts(kind).PartitionByID(partID)
	tmp, ok := part.Map().Load(s.fragmentName(name))
	if !ok {
		return out
	}
	f := tmp.(*fragment)
	f.RLock()
	defer f.RUnlock()
	f.storage.RangeHKey(func(h uint64) bool {
		k, err := f.storage.GetKey(h)
		if err == nil {
			out[h] = k
		}
		return true
	})
	return out
}

// VerifCompactFragment runs Compaction() to completion on one fragment (what compactionWorker does).
func (s *Service) VerifCompactFragment(kind partitions.Kind, name string, partID uint64) int {
	part := s.verifParts(kind).PartitionByID(partID)
	tmp, ok := part.Map().Load(s.fragmentName(name))
	if !ok {
		return 0
	}
	f := tmp.(*fragment)
	n := 0
	for n < 10000 {
		f.Lock()
		done, err := f.storage.Compaction()
		f.Unlock()
		n++
		if err != nil || done {
			break
		}
	}
	return n
}

// VerifTriggerCompaction runs the REAL compaction pass of this member (triggerCompaction: every partition, primary and
// backup fragments, what compactionWorker does on every tick) and reports whether it returned within the timeout.
func (s *Service) VerifTriggerCompaction(timeout time.Duration) bool {
	done := make(chan struct{})
	go func() {
		s.triggerCompaction()
		close(done)
	}()
	select {
	case <-done:
		return true
	case <-time.After(timeout):
		return false
	}
}
