//go:build verif

package dmap

import (
	"fmt"
	"sort"
	"strings"

	"github.com/olric-data/olric/internal/cluster/partitions"
)

// Verif-only white-box builders/observers for C05/C06 (add-only overlay file; never part of /repo).

// VerifPutCopy stores (key, value, ttl, timestamp) in THIS member's fragment of the given kind, whoever owns
// the partition: the way a copy is left behind on a previous owner, a stale backup or a not yet repaired
// primary. PRIMARY uses storage.Put (as putEntryOnFragment does), BACKUP uses PutRaw of the encoded entry (as
// putOnReplicaFragment does).
func (s *Service) VerifPutCopy(kind partitions.Kind, name, key string, value []byte, ttl, ts int64) error {
	dm, err := s.getOrCreateDMap(name)
	if err != nil {
		return err
	}
	hkey := partitions.HKey(name, key)
	part := dm.getPartitionByHKey(hkey, kind)
	f, err := dm.loadOrCreateFragment(part)
	if err != nil {
		return err
	}
	f.Lock()
	defer f.Unlock()
	e := f.storage.NewEntry()
	e.SetKey(key)
	e.SetValue(value)
	e.SetTTL(ttl)
	e.SetTimestamp(ts)
	if kind == partitions.BACKUP {
		return f.storage.PutRaw(hkey, e.Encode())
	}
	return f.storage.Put(hkey, e)
}

// VerifEncodeEntry returns the wire form of an entry of DMap `name` (what DM.PUTENTRY carries).
func (s *Service) VerifEncodeEntry(name, key string, value []byte, ttl, ts int64) ([]byte, error) {
	dm, err := s.getOrCreateDMap(name)
	if err != nil {
		return nil, err
	}
	e := dm.engine.NewEntry()
	e.SetKey(key)
	e.SetValue(value)
	e.SetTTL(ttl)
	e.SetTimestamp(ts)
	return e.Encode(), nil
}

// VerifDelCopy removes this member's copy of the key from its fragment of the given kind.
func (s *Service) VerifDelCopy(kind partitions.Kind, name, key string) {
	hkey := partitions.HKey(name, key)
	part := s.verifParts(kind).PartitionByHKey(hkey)
	tmp, ok := part.Map().Load(s.fragmentName(name))
	if !ok {
		return
	}
	f := tmp.(*fragment)
	f.Lock()
	defer f.Unlock()
	_ = f.storage.Delete(hkey)
}

type VerifItem struct {
	HKey  uint64
	Key   string
	Value []byte
	TTL   int64
	TS    int64
}

// VerifFragmentDump returns every entry of the fragment of DMap `name` in partition partID, sorted by hkey.
func (s *Service) VerifFragmentDump(kind partitions.Kind, name string, partID uint64) []VerifItem {
	var out []VerifItem
	part := s.verifParts(kind).PartitionByID(partID)
	tmp, ok := part.Map().Load(s.fragmentName(name))
	if !ok {
		return out
	}
	f := tmp.(*fragment)
	f.RLock()
	defer f.RUnlock()
	var hs []uint64
	f.storage.RangeHKey(func(h uint64) bool {
		hs = append(hs, h)
		return true
	})
	sort.Slice(hs, func(i, j int) bool { return hs[i] < hs[j] })
	for _, h := range hs {
		raw, err := f.storage.GetRaw(h)
		if err != nil {
			continue
		}
		e := f.storage.NewEntry()
		e.Decode(raw)
		v := make([]byte, len(e.Value()))
		copy(v, e.Value())
		out = append(out, VerifItem{HKey: h, Key: e.Key(), Value: v, TTL: e.TTL(), TS: e.Timestamp()})
	}
	return out
}

// VerifDMapNames lists the DMaps this member has instantiated.
func (s *Service) VerifDMapNames() []string {
	s.RLock()
	defer s.RUnlock()
	var out []string
	for n := range s.dmaps {
		out = append(out, n)
	}
	sort.Strings(out)
	return out
}

// VerifStateDump is a canonical text of everything the DMap service of this member stores: the DMap
// instances and, per partition and kind, every fragment with every entry (key, value, ttl, timestamp).
// lastAccess is left out on purpose (a read stamps it and a read is not a state change of the property).
func (s *Service) VerifStateDump(partitionCount uint64) string {
	var b strings.Builder
	fmt.Fprintf(&b, "dmaps=%v\n", s.VerifDMapNames())
	for _, kind := range []partitions.Kind{partitions.PRIMARY, partitions.BACKUP} {
		for p := uint64(0); p < partitionCount; p++ {
			names := s.VerifFragmentNames(kind, p)
			sort.Strings(names)
			for _, fn := range names {
				name := strings.TrimPrefix(fn, "dmap.")
				fmt.Fprintf(&b, "%s/%d/%s:", kind, p, fn)
				if !strings.HasPrefix(fn, "dmap.") {
					b.WriteString("?\n")
					continue
				}
				for _, it := range s.VerifFragmentDump(kind, name, p) {
					fmt.Fprintf(&b, " %d=%q/%x/%d/%d", it.HKey, it.Key, it.Value, it.TTL, it.TS)
				}
				b.WriteString("\n")
			}
		}
	}
	return b.String()
}
