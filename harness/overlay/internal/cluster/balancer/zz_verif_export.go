//go:build verif

package balancer

import (
	"context"
	"io"
	"log"
	"sort"

	"github.com/olric-data/olric/config"
	"github.com/olric-data/olric/internal/cluster/partitions"
	"github.com/olric-data/olric/internal/cluster/routingtable"
	"github.com/olric-data/olric/internal/discovery"
	"github.com/olric-data/olric/pkg/flog"
	"github.com/olric-data/olric/pkg/storage"
)

// Verif-only access to the balancer's decisions (add-only overlay file; never part of /repo): the REAL primaryCopies
// and backupCopies run over partitions filled with recording fragments.

type VerifFrag struct {
	Name   string `json:"name"` // DMap name (stored under "dmap."+Name)
	Length int    `json:"len"`
}

type VerifPart struct {
	Owners []discovery.Member
	Frags  []VerifFrag
}

type VerifMove struct {
	Kind   string   `json:"kind"`
	PartID uint64   `json:"part"`
	Name   string   `json:"name"`
	Owners []string `json:"owners"`
}

type verifFragment struct {
	name   string
	length int
	rec    *[]VerifMove
}

func (f *verifFragment) Name() string         { return "DMap" }
func (f *verifFragment) Stats() storage.Stats { return storage.Stats{Length: f.length} }
func (f *verifFragment) Move(part *partitions.Partition, name string, owners []discovery.Member) error {
	var os []string
	for _, o := range owners {
		os = append(os, o.Name)
	}
	*f.rec = append(*f.rec, VerifMove{Kind: part.Kind().String(), PartID: part.ID(), Name: name, Owners: os})
	return nil
}
func (f *verifFragment) Compaction() (bool, error) { return true, nil }
func (f *verifFragment) Destroy() error            { return nil }
func (f *verifFragment) Close() error              { return nil }

// VerifPlan returns the Move calls one balancer run makes on member `this`, in call order, with the moves of one
// partition sorted by DMap name (the order in which sync.Map ranges over the fragments is not specified).
func VerifPlan(this discovery.Member, replicaCount int, prim, back []VerifPart) []VerifMove {
	var rec []VerifMove
	count := uint64(len(prim))
	fill := func(kind partitions.Kind, parts []VerifPart) *partitions.Partitions {
		ps := partitions.New(count, kind)
		for id, p := range parts {
			part := ps.PartitionByID(uint64(id))
			if p.Owners != nil {
				part.SetOwners(p.Owners)
			}
			for _, f := range p.Frags {
				part.Map().Store("dmap."+f.Name, partitions.Fragment(&verifFragment{name: f.Name, length: f.Length, rec: &rec}))
			}
		}
		return ps
	}
	ctx, cancel := context.WithCancel(context.Background())
	defer cancel()
	fl := flog.New(log.New(io.Discard, "", 0))
	b := &Balancer{
		log:     fl,
		config:  &config.Config{PartitionCount: count, ReplicaCount: replicaCount},
		primary: fill(partitions.PRIMARY, prim),
		backup:  fill(partitions.BACKUP, back),
		rt:      routingtable.VerifWithThis(this),
		ctx:     ctx,
		cancel:  cancel,
	}
	// triggerBalancer without the bootstrap wait
	b.primaryCopies()
	if b.config.ReplicaCount > config.MinimumReplicaCount {
		b.backupCopies()
	}
	for i := 0; i < len(rec); {
		j := i
		for j < len(rec) && rec[j].Kind == rec[i].Kind && rec[j].PartID == rec[i].PartID {
			j++
		}
		run := rec[i:j]
		sort.Slice(run, func(a, b int) bool { return run[a].Name < run[b].Name })
		i = j
	}
	return rec
}
