//go:build verif

package routingtable

import (
	"fmt"
	"time"

	"github.com/buraksezer/consistent"
	"github.com/olric-data/olric/config"
	"github.com/olric-data/olric/internal/cluster/partitions"
	"github.com/olric-data/olric/internal/discovery"
	"github.com/olric-data/olric/internal/environment"
	"github.com/olric-data/olric/internal/server"
	"github.com/olric-data/olric/pkg/flog"
	"github.com/vmihailenco/msgpack/v5"
)

// Verif-only white-box access to the routing table service (add-only overlay file; never part of /repo).

// VerifNewBare builds a routing table service with its own RESP server, real discovery (memberlist), real
// hash ring and real partitions, but without the dmap/balancer services: what routingtable_test.go builds.
// The caller calls Join() and Start().
func VerifNewBare(c *config.Config) (*RoutingTable, *server.Server, error) {
	fl := flog.New(c.Logger)
	fl.SetLevel(c.LogVerbosity)
	srv := server.New(&server.Config{BindAddr: c.BindAddr, BindPort: c.BindPort, KeepAlivePeriod: time.Second}, fl)
	e := environment.New()
	e.Set("config", c)
	e.Set("logger", fl)
	e.Set("primary", partitions.New(c.PartitionCount, partitions.PRIMARY))
	e.Set("backup", partitions.New(c.PartitionCount, partitions.BACKUP))
	e.Set("client", server.NewClient(c.Client))
	e.Set("server", srv)
	rt := New(e)
	errc := make(chan error, 1)
	go func() {
		if err := srv.ListenAndServe(); err != nil {
			errc <- err
		}
	}()
	select {
	case <-srv.StartedCtx.Done():
	case err := <-errc:
		return nil, nil, err
	case <-time.After(10 * time.Second):
		return nil, nil, fmt.Errorf("server did not start")
	}
	return rt, srv, nil
}

func (r *RoutingTable) VerifPrimary() *partitions.Partitions { return r.primary }
func (r *RoutingTable) VerifBackup() *partitions.Partitions  { return r.backup }
func (r *RoutingTable) VerifClient() *server.Client          { return r.client }
func (r *RoutingTable) VerifConfig() *config.Config          { return r.config }

// VerifRing builds a hash ring exactly as New() does (same hasher, partition count, replication factor 20,
// load factor), over the given members.
func (r *RoutingTable) VerifRing(members []discovery.Member) *consistent.Consistent {
	cc := consistent.Config{
		Hasher:            r.config.Hasher,
		PartitionCount:    int(r.config.PartitionCount),
		ReplicationFactor: 20,
		Load:              r.config.LoadFactor,
	}
	ring := consistent.New(nil, cc)
	for _, m := range members {
		ring.Add(m)
	}
	return ring
}

// VerifOwnRing returns the service's own ring (maintained by processClusterEvent).
func (r *RoutingTable) VerifOwnRing() *consistent.Consistent { return r.consistent }

// VerifRingMembers: the members of the service's own ring and of its Members() map.
func (r *RoutingTable) VerifRingMembers() (ring []discovery.Member, members []discovery.Member) {
	for _, m := range r.consistent.GetMembers() {
		ring = append(ring, m.(discovery.Member))
	}
	r.Members().RLock()
	r.Members().Range(func(_ uint64, m discovery.Member) bool {
		members = append(members, m)
		return true
	})
	r.Members().RUnlock()
	return
}

// VerifDistributePrimary installs prev as the owners list of the primary partition partID, replaces the ring
// and runs the REAL distributePrimaryCopies. The previous state is restored afterwards.
func (r *RoutingTable) VerifDistributePrimary(partID uint64, ring *consistent.Consistent, prev []discovery.Member) []discovery.Member {
	r.Lock()
	defer r.Unlock()
	old := r.consistent
	r.consistent = ring
	part := r.primary.PartitionByID(partID)
	saved := part.Owners()
	cp := make([]discovery.Member, len(prev))
	copy(cp, prev)
	part.SetOwners(cp)
	defer func() {
		r.consistent = old
		part.SetOwners(saved)
	}()
	return r.distributePrimaryCopies(partID)
}

// VerifDistributeBackups: same for distributeBackups with the given ReplicaCount.
func (r *RoutingTable) VerifDistributeBackups(partID uint64, ring *consistent.Consistent, replicaCount int, prev []discovery.Member) []discovery.Member {
	r.Lock()
	defer r.Unlock()
	old := r.consistent
	oldR := r.config.ReplicaCount
	r.consistent = ring
	r.config.ReplicaCount = replicaCount
	part := r.backup.PartitionByID(partID)
	saved := part.Owners()
	cp := make([]discovery.Member, len(prev))
	copy(cp, prev)
	part.SetOwners(cp)
	defer func() {
		r.consistent = old
		r.config.ReplicaCount = oldR
		part.SetOwners(saved)
	}()
	return r.distributeBackups(partID)
}

// VerifFill runs the REAL fillRoutingTable on the current state (own ring, own partitions) and returns the
// table it computed, without pushing it.
func (r *RoutingTable) VerifFill() (owners [][]discovery.Member, backups [][]discovery.Member) {
	r.Lock()
	defer r.Unlock()
	saved := r.table
	r.fillRoutingTable()
	t := r.table
	r.table = saved
	for p := uint64(0); p < r.config.PartitionCount; p++ {
		owners = append(owners, t[p].Owners)
		backups = append(backups, t[p].Backups)
	}
	return
}

// VerifVerify runs the REAL verifyRoutingTable for a table with n entries claimed to come from member id.
func (r *RoutingTable) VerifVerify(id uint64, n int) error {
	t := make(map[uint64]*route)
	for i := 0; i < n; i++ {
		t[uint64(i)] = &route{}
	}
	return r.verifyRoutingTable(id, t)
}

// VerifReport is one left-over-data report (leftOverDataReport is unexported).
type VerifReport struct {
	Member     discovery.Member
	Partitions []uint64
	Backups    []uint64
}

// VerifProcessReports installs the given owners/backups lists, runs the REAL processLeftOverDataReports and
// returns the lists of the same partitions afterwards. The previous state is restored.
func (r *RoutingTable) VerifProcessReports(owners, backups map[uint64][]discovery.Member, reports []VerifReport) (map[uint64][]discovery.Member, map[uint64][]discovery.Member) {
	r.Lock()
	defer r.Unlock()
	savedO := map[uint64][]discovery.Member{}
	savedB := map[uint64][]discovery.Member{}
	for p, l := range owners {
		part := r.primary.PartitionByID(p)
		savedO[p] = part.Owners()
		part.SetOwners(append([]discovery.Member{}, l...))
	}
	for p, l := range backups {
		part := r.backup.PartitionByID(p)
		savedB[p] = part.Owners()
		part.SetOwners(append([]discovery.Member{}, l...))
	}
	m := map[discovery.Member]*leftOverDataReport{}
	for _, rep := range reports {
		m[rep.Member] = &leftOverDataReport{Partitions: rep.Partitions, Backups: rep.Backups}
	}
	r.processLeftOverDataReports(m)
	outO := map[uint64][]discovery.Member{}
	outB := map[uint64][]discovery.Member{}
	for p := range owners {
		outO[p] = r.primary.PartitionByID(p).Owners()
	}
	for p := range backups {
		outB[p] = r.backup.PartitionByID(p).Owners()
	}
	for p, l := range savedO {
		r.primary.PartitionByID(p).SetOwners(l)
	}
	for p, l := range savedB {
		r.backup.PartitionByID(p).SetOwners(l)
	}
	return outO, outB
}

// VerifPrepareReport runs the REAL prepareLeftOverDataReport and decodes it.
func (r *RoutingTable) VerifPrepareReport() (parts, backups []uint64, err error) {
	data, err := r.prepareLeftOverDataReport()
	if err != nil {
		return nil, nil, err
	}
	rep := leftOverDataReport{}
	if err := msgpack.Unmarshal(data, &rep); err != nil {
		return nil, nil, err
	}
	return rep.Partitions, rep.Backups, nil
}

// VerifWithThis returns a routing table that only knows who this member is (for the balancer's decision functions).
func VerifWithThis(this discovery.Member) *RoutingTable { return &RoutingTable{this: this} }
