//go:build verif

package main

import (
	"bufio"
	"context"
	"encoding/json"
	"errors"
	"fmt"
	"io"
	"sort"
	"strings"
	"time"

	"github.com/olric-data/olric/config"
	"github.com/olric-data/olric/internal/cluster/partitions"
	"github.com/olric-data/olric/internal/cluster/routingtable"
	"github.com/olric-data/olric/internal/protocol"
	"github.com/redis/go-redis/v9"
	"github.com/vmihailenco/msgpack/v5"
)

// quorum (C05): read/write quorums with unreachable backup owners, and the member-count quorum.
// One JSON scenario per input line, one JSON result per output line. A scenario owns one cluster.
//
//	{"id":1,"kind":"rw","members":4,"r":3,"w":2,"rq":2,"steps":[
//	   {"op":"put","key":"k1","klen":0,"vlen":8,"down":[0]},
//	   {"op":"get","key":"g1","local":5,"backups":[7,null],"down":[1]}]}
//	{"id":2,"kind":"mcq","members":3,"mcq":2,"r":2}
//
// "down" lists positions in the backup-owner list (the order syncPutOnCluster / lookupOnReplicas walk).
// get: "local" / "backups[i]" are the timestamps of the copies built white-box before the read (null = the
// holder has no copy); the value of a copy is "<role>@<ts>".

type qStep struct {
	Op      string   `json:"op"`
	Key     string   `json:"key"`
	KLen    int      `json:"klen"` // pad the key with 'x' up to this length (256+ => key too large)
	VLen    int      `json:"vlen"`
	Down    []int    `json:"down"`
	Local   *int64   `json:"local"`
	Backups []*int64 `json:"backups"`
	Expired []int    `json:"expired"` // get: holder positions (0 = local, 1+i = backup i) whose copy is expired (ttl in the past)
}

type qScenario struct {
	ID      int     `json:"id"`
	Kind    string  `json:"kind"`
	Members int     `json:"members"`
	R       int     `json:"r"`
	W       int     `json:"w"`
	RQ      int     `json:"rq"`
	MCQ     int     `json:"mcq"`
	Table   uint64  `json:"table"`
	Steps   []qStep `json:"steps"`
	// ReadRepair on: a successful Get writes the version it returns to the holders of older copies
	ReadRepair bool `json:"readrepair"`
}

type qStepObs struct {
	Res     string    `json:"res"`
	Err     string    `json:"err,omitempty"`
	Val     string    `json:"val,omitempty"`
	TS      int64     `json:"ts,omitempty"`
	P       copyObs   `json:"p"`       // the owner's primary copy after the step
	B       []copyObs `json:"b"`       // every backup owner's backup copy after the step
	Stray   []string  `json:"stray"`   // copies anywhere else ("member/kind")
	NBackup int       `json:"nbackup"` // number of backup owners of the key
	WantVal string    `json:"want,omitempty"`
}

type qCmdObs struct {
	Cmd   string `json:"cmd"`
	Name  string `json:"name"`  // first argument exactly as sent
	NArgs int    `json:"nargs"` // number of arguments after the name
	Arg1  string `json:"arg1"`  // the first of them when it is a short string ("" otherwise)
	Reply string `json:"reply"` // clusterquorum | ok | err:<first word> | neterr
	Text  string `json:"text,omitempty"`
}

type qResult struct {
	ID    int        `json:"id"`
	Env   string     `json:"env,omitempty"` // environment failure: not a verdict
	Steps []qStepObs `json:"steps,omitempty"`
	// mcq
	Seen       int       `json:"seen,omitempty"`    // members the survivor sees
	Above      []qCmdObs `json:"above,omitempty"`   // sanity: replies while the quorum was still met
	Cmds       []qCmdObs `json:"cmds,omitempty"`    // replies below the quorum
	NewDMap    []string  `json:"newdmap,omitempty"` // result enums of NewDMap(fresh), NewDMap(existing)
	StateEqual bool      `json:"state_equal"`
	StateDiff  string    `json:"state_diff,omitempty"`
	Registered []string  `json:"registered,omitempty"`
}

func init() {
	register("quorum", func(args []string, in *bufio.Reader, out *bufio.Writer) error {
		dec := json.NewDecoder(in)
		enc := json.NewEncoder(out)
		for {
			var sc qScenario
			if err := dec.Decode(&sc); err == io.EOF {
				return nil
			} else if err != nil {
				return err
			}
			var r qResult
			switch sc.Kind {
			case "rw":
				r = runRW(&sc)
			case "mcq":
				r = runMCQ(&sc)
			default:
				return fmt.Errorf("unknown scenario kind %q", sc.Kind)
			}
			r.ID = sc.ID
			if err := enc.Encode(r); err != nil {
				return err
			}
			out.Flush()
		}
	})
	extraConsts = append(extraConsts, func(out *bufio.Writer) {
		fmt.Fprintf(out, "(* C05: the one command ServeRESP lets through without the precondition, as bytes *)\n")
		fmt.Fprintf(out, "Definition update_routing_command : list N := %s.\n", coqBytes(protocol.Internal.UpdateRouting))
	})
}

func coqBytes(s string) string {
	var b strings.Builder
	b.WriteString("(")
	for i := 0; i < len(s); i++ {
		fmt.Fprintf(&b, "%d :: ", s[i])
	}
	b.WriteString("nil)%list")
	return b.String()
}

func padKey(k string, n int) string {
	for len(k) < n {
		k += "x"
	}
	return k
}

func runRW(sc *qScenario) (res qResult) {
	table := sc.Table
	if table == 0 {
		table = 4096
	}
	cl, err := startClusterCfg(ClusterOpts{Members: sc.Members, Replicas: sc.R, WQ: sc.W, RQ: sc.RQ, Partitions: 7,
		TableSize: table, PushMs: 3600000, ReadRepair: sc.ReadRepair}, quietTweak)
	if err != nil {
		res.Env = err.Error()
		return
	}
	defer cl.Shutdown()
	cl.installGates()
	ctx := context.Background()
	const name = "q"
	for _, st := range sc.Steps {
		key := padKey(st.Key, st.KLen)
		kr, err := cl.roles(name, key)
		if err != nil {
			res.Env = err.Error()
			return
		}
		wantB := sc.R - 1
		if sc.Members-1 < wantB {
			wantB = sc.Members - 1
		}
		if len(kr.Backups) != wantB || len(kr.Prev) != 0 {
			res.Env = fmt.Sprintf("key %q: %d backup owners (want %d), %d previous owners", st.Key, len(kr.Backups), wantB, len(kr.Prev))
			return
		}
		owner := cl.Members[kr.Owner]
		dm, err := owner.Emb.NewDMap(name)
		if err != nil {
			res.Env = "NewDMap: " + err.Error()
			return
		}
		ob := qStepObs{NBackup: len(kr.Backups)}
		expired := map[int]bool{}
		for _, x := range st.Expired {
			expired[x] = true
		}
		ttlOf := func(pos int) int64 {
			if expired[pos] {
				return 1 // 1 ms after the epoch: long gone
			}
			return 0
		}
		// the copies of a "get" step say who holds them ("p@<ts>", "b<i>@<ts>"); those of an "incr" step are integers
		// (100+ts on the owner, 200*(i+1)+ts on backup i)
		valOf := func(pos int, ts int64) []byte {
			if st.Op == "incr" {
				if pos == 0 {
					return []byte(fmt.Sprintf("%d", 100+ts))
				}
				return []byte(fmt.Sprintf("%d", int64(200*pos)+ts))
			}
			if pos == 0 {
				return []byte(fmt.Sprintf("p@%d", ts))
			}
			return []byte(fmt.Sprintf("b%d@%d", pos-1, ts))
		}
		if st.Op == "get" || st.Op == "incr" {
			if st.Local != nil {
				if err := owner.DB.VerifDMap().VerifPutCopy(partitions.PRIMARY, name, key, valOf(0, *st.Local), ttlOf(0), *st.Local); err != nil {
					res.Env = "building the local copy: " + err.Error()
					return
				}
			}
			for i, ts := range st.Backups {
				if ts == nil || i >= len(kr.Backups) {
					continue
				}
				if err := cl.Members[kr.Backups[i]].DB.VerifDMap().VerifPutCopy(partitions.BACKUP, name, key, valOf(1+i, *ts), ttlOf(1+i), *ts); err != nil {
					res.Env = "building a backup copy: " + err.Error()
					return
				}
			}
		}
		for _, d := range st.Down {
			if d < len(kr.Backups) {
				_ = cl.setUnreachable(kr.Backups[d], true)
			}
		}
		switch st.Op {
		case "put":
			val := strings.Repeat("v", st.VLen)
			if st.VLen == 0 {
				val = "val-" + st.Key
			}
			ob.WantVal = val
			if len(val) > 64 {
				ob.WantVal = fmt.Sprintf("%d bytes", len(val))
			}
			c, cancel := context.WithTimeout(ctx, 20*time.Second)
			err := dm.Put(c, key, val)
			cancel()
			ob.Res = errEnum(err)
			if err != nil {
				ob.Err = err.Error()
			}
		case "incr":
			c, cancel := context.WithTimeout(ctx, 20*time.Second)
			n, err := dm.Incr(c, key, 1)
			cancel()
			ob.Res = errEnum(err)
			if err != nil {
				ob.Err = err.Error()
			} else {
				ob.Val = fmt.Sprintf("%d", n)
			}
		case "get":
			c, cancel := context.WithTimeout(ctx, 20*time.Second)
			gr, err := dm.Get(c, key)
			cancel()
			ob.Res = errEnum(err)
			if err != nil {
				ob.Err = err.Error()
			} else {
				b, _ := gr.Byte()
				ob.Val = string(b)
				ob.TS = gr.Timestamp()
			}
		}
		for _, d := range st.Down {
			if d < len(kr.Backups) {
				if err := cl.setUnreachable(kr.Backups[d], false); err != nil {
					res.Env = err.Error()
					return
				}
			}
		}
		// copies after the step
		isB := map[int]int{}
		for i, b := range kr.Backups {
			isB[b] = i
		}
		ob.B = make([]copyObs, len(kr.Backups))
		for i := range cl.Members {
			pc := cl.copyOf(i, partitions.PRIMARY, name, kr.HKey)
			bc := cl.copyOf(i, partitions.BACKUP, name, kr.HKey)
			if i == kr.Owner {
				ob.P = pc
			} else if pc.Found {
				ob.Stray = append(ob.Stray, fmt.Sprintf("%d/primary", i))
			}
			if bi, ok := isB[i]; ok {
				ob.B[bi] = bc
			} else if bc.Found {
				ob.Stray = append(ob.Stray, fmt.Sprintf("%d/backup", i))
			}
		}
		if st.Op == "put" && len(ob.P.Val) > 64 {
			ob.P.Val = fmt.Sprintf("%d bytes", len(ob.P.Val))
		}
		for i := range ob.B {
			if st.Op == "put" && len(ob.B[i].Val) > 64 {
				ob.B[i].Val = fmt.Sprintf("%d bytes", len(ob.B[i].Val))
			}
		}
		res.Steps = append(res.Steps, ob)
	}
	return
}

// ---------------------------------------------------------------------------------------------------------
// member-count quorum
// ---------------------------------------------------------------------------------------------------------

type fragPack struct {
	PartID  uint64
	Kind    partitions.Kind
	Name    string
	Payload []byte
}

// wellFormed returns, for every command name the server registers, an argument vector that parses and that
// WOULD change or reveal state if the handler ran. Names not known here get a generic vector.
func wellFormed(ctx context.Context, enc []byte, movePayload []byte) map[string][]interface{} {
	m := map[string][]interface{}{}
	add := func(a []interface{}) { m[strings.ToLower(fmt.Sprint(a[0]))] = a }
	add(protocol.NewPing().Command(ctx).Args())
	add(protocol.NewStats().Command(ctx).Args())
	add(protocol.NewClusterRoutingTable().Command(ctx).Args())
	add(protocol.NewClusterMembers().Command(ctx).Args())
	add(protocol.NewPut("d", "newkey", []byte("v")).Command(ctx).Args())
	add(protocol.NewPutEntry("d", "k0", enc).Command(ctx).Args())
	add(protocol.NewGet("d", "k0").Command(ctx).Args())
	add(protocol.NewGetEntry("d", "k0").Command(ctx).Args())
	add(protocol.NewDel("d", "k0", "k1").Command(ctx).Args())
	add(protocol.NewDelEntry("d", "k0").Command(ctx).Args())
	add(protocol.NewPExpire("d", "k0", 50*time.Millisecond).Command(ctx).Args())
	add(protocol.NewExpire("d", "k0", time.Second).Command(ctx).Args())
	add(protocol.NewDestroy("d").Command(ctx).Args())
	add(protocol.NewScan(0, "d", 0).Command(ctx).Args())
	add(protocol.NewIncr("d", "ctr", 1).Command(ctx).Args())
	add(protocol.NewDecr("d", "ctr", 1).Command(ctx).Args())
	add(protocol.NewGetPut("d", "k0", []byte("w")).Command(ctx).Args())
	add(protocol.NewIncrByFloat("d", "flt", 1.5).Command(ctx).Args())
	add(protocol.NewLock("d", "lk", 1).Command(ctx).Args())
	add(protocol.NewUnlock("d", "lk", "00").Command(ctx).Args())
	add(protocol.NewLockLease("d", "lk", "00", 1).Command(ctx).Args())
	add(protocol.NewPLockLease("d", "lk", "00", 1000).Command(ctx).Args())
	add(protocol.NewPublish("ch", "msg").Command(ctx).Args())
	add(protocol.NewPublishInternal("ch", "msg").Command(ctx).Args())
	add(protocol.NewSubscribe("ch").Command(ctx).Args())
	add(protocol.NewPSubscribe("c*").Command(ctx).Args())
	add(protocol.NewPubSubChannels().Command(ctx).Args())
	add(protocol.NewPubSubNumpat().Command(ctx).Args())
	add(protocol.NewPubSubNumsub("ch").Command(ctx).Args())
	add(protocol.NewMoveFragment(movePayload).Command(ctx).Args())
	add(protocol.NewLengthOfPart(0).Command(ctx).Args())
	// the exempt command: a payload that does not decode (the handler answers with a decode error and
	// changes nothing) - three arguments, the parser indexes Args[2]
	add(protocol.NewUpdateRouting([]byte("x"), 0).Command(ctx).Args())
	return m
}

func classifyReply(v interface{}, err error) (string, string) {
	if err == nil || err == redis.Nil {
		return "ok", trunc(fmt.Sprint(v))
	}
	s := err.Error()
	// the cluster-quorum error as a client identifies it: the code's own mapping of the RESP error back to
	// an error value (protocol.ConvertError, what ClusterClient and the members themselves use)
	if errors.Is(protocol.ConvertError(err), routingtable.ErrClusterQuorum) {
		return "clusterquorum", s
	}
	if respEnum(s) == "neterr" {
		return "neterr", s
	}
	return "err:" + strings.SplitN(s, " ", 2)[0], trunc(s)
}

func trunc(s string) string {
	if len(s) > 120 {
		return s[:120] + "..."
	}
	return s
}

func sendRaw(addr string, args []interface{}) (string, string) {
	// a fresh connection per command: SUBSCRIBE would switch a pooled connection to push mode
	c := redis.NewClient(&redis.Options{Addr: addr, MaxRetries: -1, DialTimeout: 2 * time.Second,
		ReadTimeout: 3 * time.Second, WriteTimeout: 3 * time.Second, PoolSize: 1, Protocol: 2, DisableIndentity: true})
	defer c.Close()
	ctx, cancel := context.WithTimeout(context.Background(), 4*time.Second)
	defer cancel()
	v, err := c.Do(ctx, args...).Result()
	return classifyReply(v, err)
}

func runMCQ(sc *qScenario) (res qResult) {
	r := sc.R
	if r < 1 {
		r = 2
	}
	cl, err := startClusterTogether(ClusterOpts{Members: sc.Members, Replicas: r, WQ: 1, RQ: 1, MCQ: sc.MCQ, Partitions: 7,
		TableSize: 4096, FastGossip: true}, func(c *config.Config) { c.TriggerBalancerInterval = time.Hour })
	if err != nil {
		res.Env = err.Error()
		return
	}
	defer cl.Shutdown()
	ctx := context.Background()
	surv := cl.Members[0]
	dm, err := surv.Emb.NewDMap("d")
	if err != nil {
		res.Env = "NewDMap above the quorum: " + err.Error()
		return
	}
	for i := 0; i < 24; i++ {
		if err := dm.Put(ctx, fmt.Sprintf("k%d", i), fmt.Sprintf("v%d", i)); err != nil {
			res.Env = "Put above the quorum: " + err.Error()
			return
		}
	}
	enc, err := surv.DB.VerifDMap().VerifEncodeEntry("d", "k0", []byte("ZZ"), 0, time.Now().UnixNano())
	if err != nil {
		res.Env = err.Error()
		return
	}
	// a fragment pack that would add a key to a partition the survivor owns
	var ownPart uint64
	for p := uint64(0); p < 7; p++ {
		if surv.DB.VerifPrimary().PartitionByID(p).Owner().Name == surv.Addr {
			ownPart = p
			break
		}
	}
	tbl, err := buildTable(4096, []mergeEntry{{HKey: 424242, Key: "moved", Val: "m", TS: 5}})
	if err != nil {
		res.Env = err.Error()
		return
	}
	movePayload, _ := msgpack.Marshal(&fragPack{PartID: ownPart, Kind: partitions.PRIMARY, Name: "d", Payload: tbl})
	wf := wellFormed(ctx, enc, movePayload)
	registered := surv.DB.VerifServer().VerifCommands()
	res.Registered = registered

	// sanity while the quorum is met: harmless commands answer normally
	for _, a := range [][]interface{}{{"ping"}, {"dm.get", "d", "k0"}, {"DM.GET", "d", "k1"}} {
		cls, txt := sendRaw(surv.Addr, a)
		res.Above = append(res.Above, qCmdObs{Cmd: fmt.Sprint(a[0]), Reply: cls, Text: txt})
	}

	// a connection opened and used while the quorum is met and kept open: what it carries later is judged like anything else
	// (the member-count precondition is a property of the member at the time of the command, not of the connection)
	old := redis.NewClient(&redis.Options{Addr: surv.Addr, MaxRetries: -1, DialTimeout: 2 * time.Second,
		ReadTimeout: 3 * time.Second, WriteTimeout: 3 * time.Second, PoolSize: 1, Protocol: 2, DisableIndentity: true})
	defer old.Close()
	for _, a := range [][]interface{}{{"ping"}, {"dm.get", "d", "k2"}} {
		v, err := old.Do(ctx, a...).Result()
		cls, txt := classifyReply(v, err)
		res.Above = append(res.Above, qCmdObs{Cmd: fmt.Sprint(a[0]) + " (kept connection)", Reply: cls, Text: txt})
	}

	// stop members until the survivor is below the quorum
	for i := len(cl.Members) - 1; i >= 1 && len(cl.Live()) >= sc.MCQ; i-- {
		if err := cl.StopMember(i); err != nil {
			res.Env = "stopping a member: " + err.Error()
			return
		}
	}
	deadline := time.Now().Add(15 * time.Second)
	for time.Now().Before(deadline) {
		res.Seen = surv.DB.VerifRT().Discovery().NumMembers()
		if res.Seen < sc.MCQ {
			break
		}
		time.Sleep(20 * time.Millisecond)
	}
	if res.Seen >= sc.MCQ {
		res.Env = fmt.Sprintf("the survivor still sees %d members (quorum %d) 15 s after the others left", res.Seen, sc.MCQ)
		return
	}
	time.Sleep(150 * time.Millisecond) // let the leave events settle
	before := surv.DB.VerifDMap().VerifStateDump(7)

	for _, a := range [][]interface{}{{"ping"}, {"dm.put", "d", "kept-connection", "x"}, {"DM.GET", "d", "k2"}, {"dm.del", "d", "k3"}} {
		c2, cancel := context.WithTimeout(context.Background(), 4*time.Second)
		v, err := old.Do(c2, a...).Result()
		cancel()
		cls, txt := classifyReply(v, err)
		co := qCmdObs{Cmd: fmt.Sprint(a[0]) + " (on a connection opened while the quorum was met)", Name: fmt.Sprint(a[0]), NArgs: len(a) - 1, Reply: cls, Text: txt}
		if len(a) > 1 {
			co.Arg1 = fmt.Sprint(a[1])
		}
		res.Cmds = append(res.Cmds, co)
	}
	names := append([]string{}, registered...)
	sort.Strings(names)
	for _, n := range names {
		a, ok := wf[n]
		if !ok {
			a = []interface{}{n, "d", "k0", "1"}
		}
		variants := [][]interface{}{a}
		up := append([]interface{}{strings.ToUpper(fmt.Sprint(a[0]))}, a[1:]...)
		variants = append(variants, up)
		if strings.HasPrefix(n, "pubsub ") {
			// the two-word spelling a redis client uses
			w := strings.SplitN(n, " ", 2)
			variants = append(variants, append([]interface{}{"PUBSUB", w[1]}, a[1:]...))
		}
		for _, v := range variants {
			cls, txt := sendRaw(surv.Addr, v)
			label := fmt.Sprint(v[0])
			if strings.EqualFold(label, "pubsub") {
				label = "PUBSUB " + fmt.Sprint(v[1])
			}
			co := qCmdObs{Cmd: label, Name: fmt.Sprint(v[0]), NArgs: len(v) - 1, Reply: cls, Text: txt}
			if len(v) > 1 {
				if a, ok := v[1].(string); ok && len(a) < 64 {
					co.Arg1 = a
				} else {
					co.Arg1 = "?"
				}
			}
			res.Cmds = append(res.Cmds, co)
		}
	}
	for _, n := range []string{"fresh-dmap", "d"} {
		_, err := surv.Emb.NewDMap(n)
		res.NewDMap = append(res.NewDMap, errEnum(err))
	}
	// operations through an existing handle must not apply anything either (they go through NewDMap-free
	// paths locally; recorded for information only)
	after := surv.DB.VerifDMap().VerifStateDump(7)
	res.StateEqual = before == after
	if !res.StateEqual {
		res.StateDiff = firstDiff(before, after)
	}
	return
}

func firstDiff(a, b string) string {
	la, lb := strings.Split(a, "\n"), strings.Split(b, "\n")
	for i := 0; i < len(la) || i < len(lb); i++ {
		var x, y string
		if i < len(la) {
			x = la[i]
		}
		if i < len(lb) {
			y = lb[i]
		}
		if x != y {
			return trunc("before: "+x) + " | " + trunc("after: "+y)
		}
	}
	return ""
}
