//go:build verif

package main

import (
	"bufio"
	"context"
	"encoding/json"
	"fmt"
	"io"
	"log"
	"net"
	"os"
	"runtime"
	"sort"
	"strconv"
	"sync"
	"time"

	"github.com/olric-data/olric"
	"github.com/olric-data/olric/internal/cluster/partitions"
	"github.com/olric-data/olric/internal/discovery"
	"github.com/redis/go-redis/v9"
)

// membership: end-to-end membership scripts on real in-process clusters (property C13).
// One JSON scenario per input line, one JSON dump per output line.
//
// script ops:  ["join"]        start one more member
//              ["stop", i]     graceful shutdown of cl.Members[i] (leave broadcast)
//              ["kill", i]     memberlist shutdown WITHOUT leave, then the rest of the member
//              ["rejoin", i]   start a new member under the address of the stopped member i
//              ["restart", i]  kill member i and start it again at once under the same name and gossip address
//              ["put", n]      put n keys into DMap "d" through the first live member
//              ["wait"]        wait until the cluster has settled
//              ["sleep", ms]
// After the script: wait until settled, then dump every live member and a fresh cluster client.

func init() { register("membership13", membershipMain) }

type memScenario struct {
	ID         int             `json:"id"`
	P          uint64          `json:"p"`
	R          int             `json:"r"`
	Init       int             `json:"init"`
	Script     [][]interface{} `json:"script"`
	Keys       []string        `json:"keys"`
	TimeoutMs  int             `json:"timeout_ms"`
	SlowGossip bool            `json:"slow_gossip"`
}

type settleInfo struct {
	Kind          string `json:"kind"` // strict | weak | none | membership
	MembershipMs  int64  `json:"membership_ms"`
	WaitedMs      int64  `json:"waited_ms"`
	SinceChangeMs int64  `json:"since_change_ms"`
	MaxSyncMs     int64  `json:"max_sync_ms"` // longest single coordinator recomputation + balancer round
	Why           string `json:"why,omitempty"`
}

type keyView struct {
	Key   string `json:"key"`
	HKey  uint64 `json:"hkey"`
	Part  uint64 `json:"part"`
	Owner string `json:"owner"`
}

type routeDump struct {
	O []jmember `json:"o"`
	B []jmember `json:"b"`
}

type respRoute struct {
	Part uint64   `json:"part"`
	O    []string `json:"o"`
	B    []string `json:"b"`
}

type ringDump struct {
	Members []jmember     `json:"members"`
	MapIDs  []jmember     `json:"map_members"`
	Owners  []jmember     `json:"owners"`  // per partition
	Closest [][][]jmember `json:"closest"` // per partition, index n-1 (n = 1..R), null = insufficient
	Bound   int           `json:"bound"`
	MaxOwn  int           `json:"max_owned"`
	Facts   []string      `json:"problems"`
}

type memberDump struct {
	Idx           int           `json:"idx"`
	Self          jmember       `json:"self"`
	View          []jmember     `json:"view"`
	Coordinator   jmember       `json:"coordinator"`
	IsCoordinator bool          `json:"is_coordinator"`
	Table         []routeDump   `json:"table"`
	LenP          []int         `json:"lenp"`
	LenB          []int         `json:"lenb"`
	RespTable     []respRoute   `json:"resp_table"`
	RespTableErr  string        `json:"resp_table_err,omitempty"`
	RespMembers   [][]string    `json:"resp_members"` // name, birthdate, coordinator flag
	RespMembersErr string       `json:"resp_members_err,omitempty"`
	EmbTable      []respRoute   `json:"emb_table"`
	EmbTableErr   string        `json:"emb_table_err,omitempty"`
	Ring          ringDump      `json:"ring"`
	Keys          []keyView     `json:"keys"`
	VerifyFromCoordinator string `json:"verify_from_coordinator"` // result of verifyRoutingTable(coordinator id)
	VerifyFromOther       string `json:"verify_from_other"`       // ... for a live non-coordinator sender ("" when alone)
}

type clientKey struct {
	Key        string `json:"key"`
	PCount     uint64 `json:"pcount"`
	Part       uint64 `json:"part"`
	Addr       string `json:"addr"`
	AddrByPart string `json:"addr_by_part"`
	Err        string `json:"err,omitempty"`
}

type clientDump struct {
	Err     string      `json:"err,omitempty"`
	Table   []respRoute `json:"table"`
	Members []jmember   `json:"members"`
	Coord   []string    `json:"coordinators"`
	Keys    []clientKey `json:"keys"`
}

type memResult struct {
	ID       int          `json:"id"`
	EnvError string       `json:"env_error,omitempty"`
	Steps    []string     `json:"steps"`
	Settle   settleInfo   `json:"settle"`
	Load     float64      `json:"load"`
	Live     []int        `json:"live"`
	Members  []memberDump `json:"members"`
	Client   clientDump   `json:"client"`
	WallMs   int64        `json:"wall_ms"`
	MaxSyncMs int64       `json:"max_sync_ms"`
	DumpAttempts int      `json:"dump_attempts"`
	Addrs    []string     `json:"addrs"` // address of every member ever started, by index
}

// addMemberAt starts a member under a given name (host:port); the tail of Cluster.AddMember with a fixed port.
func addMemberAt(cl *Cluster, name string) (*Member, error) { return addMemberAtPort(cl, name, 0) }

// mlPort > 0: memberlist binds to that port too (a restarted process: same name, same gossip address)
func addMemberAtPort(cl *Cluster, name string, mlPort int) (*Member, error) {
	c := cl.newConfig()
	if mlPort > 0 {
		c.MemberlistConfig.BindPort = mlPort
		c.MemberlistConfig.AdvertisePort = mlPort
	}
	if name != "" {
		_, ps, err := net.SplitHostPort(name)
		if err != nil {
			return nil, err
		}
		port, _ := strconv.Atoi(ps)
		c.BindPort = port
		c.MemberlistConfig.Name = name
		if os.Getenv("VERIF_DEBUG") == "2" {
			c.Logger = log.New(os.Stderr, "[rejoined "+name+"] ", log.Lmicroseconds)
			c.LogOutput = os.Stderr
			c.LogVerbosity = 6
		}
	}
	for _, m := range cl.Members {
		if m.Alive {
			c.Peers = append(c.Peers, m.DB.VerifRT().Discovery().LocalNode().Address())
		}
	}
	if cl.Opts.FastGossip {
		// fast failure detection (a crash is noticed within a second or two), but less tight than cluster.go's
		// FastGossip so that a busy machine does not make memberlist suspect live members all the time
		mc := c.MemberlistConfig
		mc.ProbeInterval = 100 * time.Millisecond
		mc.ProbeTimeout = 80 * time.Millisecond
		mc.SuspicionMult = 3
		mc.GossipInterval = 30 * time.Millisecond
		mc.PushPullInterval = 2 * time.Second
	}
	if err := c.Sanitize(); err != nil {
		return nil, err
	}
	if err := c.Validate(); err != nil {
		return nil, err
	}
	ctx, cancel := context.WithCancel(context.Background())
	c.Started = func() { cancel() }
	db, err := olric.New(c)
	if err != nil {
		return nil, err
	}
	errc := make(chan error, 1)
	go func() {
		if err := db.Start(); err != nil {
			errc <- err
		}
	}()
	select {
	case <-ctx.Done():
	case err := <-errc:
		return nil, fmt.Errorf("member failed to start: %w", err)
	case <-time.After(15 * time.Second):
		return nil, fmt.Errorf("member did not start within 15s")
	}
	m := &Member{DB: db, Emb: db.NewEmbeddedClient(), Addr: c.MemberlistConfig.Name, Cfg: c, Alive: true}
	cl.mu.Lock()
	cl.Members = append(cl.Members, m)
	cl.mu.Unlock()
	return m, nil
}

func killMember(cl *Cluster, i int) error {
	m := cl.Members[i]
	if !m.Alive {
		return nil
	}
	m.Alive = false
	if c, ok := cl.raw[i]; ok {
		c.Close()
		delete(cl.raw, i)
	}
	err := m.DB.VerifRT().Discovery().VerifAbruptShutdown()
	ctx, cancel := context.WithTimeout(context.Background(), 5*time.Second)
	defer cancel()
	if e2 := m.DB.Shutdown(ctx); err == nil {
		err = e2
	}
	return err
}

func membershipAgreed(cl *Cluster) (bool, string) {
	ok, why, _ := membershipAgreed2(cl)
	return ok, why
}

// membershipAgreed2: the third result tells that memberlist's views do agree with the live members and only olric's
// own bookkeeping (hash ring, member map), which follows memberlist's events, differs.
func membershipAgreed2(cl *Cluster) (bool, string, bool) {
	live := cl.Live()
	want := map[uint64]string{}
	for _, m := range live {
		t := m.DB.VerifRT().This()
		want[t.ID] = t.Name
	}
	for _, m := range live {
		view := m.DB.VerifRT().Discovery().GetMembers()
		if len(view) != len(want) {
			names := ""
			for _, v := range view {
				names += v.Name + " "
			}
			return false, fmt.Sprintf("member %s sees %d members (%s), %d are alive", m.Addr, len(view), names, len(want)), false
		}
		for _, v := range view {
			if want[v.ID] != v.Name {
				return false, fmt.Sprintf("member %s sees %s#%d which is not alive", m.Addr, v.Name, v.ID), false
			}
		}
	}
	for _, m := range live {
		// the member's own ring and Members() map follow the events with a delay
		ring, mp := m.DB.VerifRT().VerifRingMembers()
		if len(ring) != len(want) || len(mp) != len(want) {
			return false, fmt.Sprintf("member %s: ring has %d members, map %d, %d are alive", m.Addr, len(ring), len(mp), len(want)), true
		}
		for _, v := range ring {
			if want[v.ID] != v.Name {
				return false, fmt.Sprintf("member %s has %s#%d in its ring which is not alive", m.Addr, v.Name, v.ID), true
			}
		}
	}
	return true, "", false
}

// settle waits until membership is agreed and the tables stop changing. "strict": one owner and min(R,N)-1
// backups everywhere; "weak": identical tables that did not change for quiet while the coordinator kept
// recomputing; "membership": the members never agreed on who is alive (environment, not the property);
// "none": membership agreed for a long time but the tables never became equal/steady; "ring": memberlist's views agreed
// with the live members for ringGrace but a member's own hash ring / member map still holds another identity.
func settle(cl *Cluster, timeout, quiet time.Duration) settleInfo {
	t0 := time.Now()
	deadline := t0.Add(timeout)
	var agreedAt, changedAt, ringSince time.Time
	lastSig := ""
	why := ""
	var maxSync int64
	for {
		now := time.Now()
		ok, w, ringOnly := membershipAgreed2(cl)
		if !ok && ringOnly {
			// memberlist's views have settled; olric's ring / member map must follow its events promptly
			if ringSince.IsZero() {
				ringSince = now
			} else if now.Sub(ringSince) > ringGrace {
				return settleInfo{Kind: "ring", WaitedMs: time.Since(t0).Milliseconds(), SinceChangeMs: now.Sub(ringSince).Milliseconds(), Why: w, MaxSyncMs: maxSync}
			}
		} else {
			ringSince = time.Time{}
		}
		if !ok {
			agreedAt = time.Time{}
			if w != why && os.Getenv("VERIF_DEBUG") != "" {
				fmt.Fprintf(os.Stderr, "[settle %dms] %s\n", time.Since(t0).Milliseconds(), w)
			}
			why = w
		} else {
			if agreedAt.IsZero() {
				agreedAt = now
				changedAt = now
			}
			// one recomputation + push by the coordinator (timed: it must not block), then one balancer round on
			// every member (not timed: BalanceEagerly itself waits up to BootstrapTimeout on a member that is not
			// bootstrapped yet)
			ts := time.Now()
			if c := cl.Coordinator(); c != nil {
				c.DB.VerifRT().UpdateEagerly()
			}
			d := time.Since(ts)
			var wg sync.WaitGroup
			for _, m := range cl.Live() {
				wg.Add(1)
				go func(m *Member) {
					defer wg.Done()
					m.DB.VerifBalancer().BalanceEagerly()
				}(m)
			}
			wg.Wait()
			if db := time.Since(ts) - d; db > 3*time.Second {
				deadline = deadline.Add(db)
			}
			if d.Milliseconds() > maxSync {
				maxSync = d.Milliseconds()
				if d > 3*time.Second {
					// a blocked recomputation is reported as such (max_sync_ms), it does not eat the budget
					deadline = deadline.Add(d)
				}
			}
			now = time.Now()
			strict, w2 := cl.stableExact()
			if strict {
				return settleInfo{Kind: "strict", MembershipMs: agreedAt.Sub(t0).Milliseconds(), WaitedMs: time.Since(t0).Milliseconds(), MaxSyncMs: maxSync}
			}
			why = w2
			sig := ""
			same := true
			for i, m := range cl.Live() {
				s := m.RoutingSignature()
				if i == 0 {
					sig = s
				} else if s != sig {
					same = false
				}
			}
			if !same {
				sig = "differ:" + fmt.Sprint(now.UnixNano())
			}
			if sig != lastSig {
				lastSig = sig
				changedAt = now
			}
			if same && now.Sub(changedAt) >= quiet {
				return settleInfo{Kind: "weak", MembershipMs: agreedAt.Sub(t0).Milliseconds(), WaitedMs: time.Since(t0).Milliseconds(),
					SinceChangeMs: now.Sub(changedAt).Milliseconds(), Why: why, MaxSyncMs: maxSync}
			}
		}
		if now.After(deadline) {
			if agreedAt.IsZero() || now.Sub(agreedAt) < timeout/2 {
				return settleInfo{Kind: "membership", WaitedMs: time.Since(t0).Milliseconds(), Why: why, MaxSyncMs: maxSync}
			}
			return settleInfo{Kind: "none", MembershipMs: agreedAt.Sub(t0).Milliseconds(), WaitedMs: time.Since(t0).Milliseconds(), Why: why, MaxSyncMs: maxSync}
		}
		time.Sleep(25 * time.Millisecond)
	}
}

// how long the hash ring / member map of a member may lag behind memberlist's (agreed and steady) view
const ringGrace = 10 * time.Second

func allSignatures(cl *Cluster) string {
	s := ""
	for _, m := range cl.Live() {
		s += m.RoutingSignature() + "\n"
	}
	return s
}

func toRespRoutes(rt olric.RoutingTable) []respRoute {
	var out []respRoute
	for p, r := range rt {
		out = append(out, respRoute{Part: p, O: r.PrimaryOwners, B: r.ReplicaOwners})
	}
	sort.Slice(out, func(i, j int) bool { return out[i].Part < out[j].Part })
	return out
}

func strs(x interface{}) []string {
	var out []string
	if l, ok := x.([]interface{}); ok {
		for _, e := range l {
			out = append(out, fmt.Sprint(e))
		}
	}
	return out
}

func dumpMember(cl *Cluster, i int, sc *memScenario) memberDump {
	m := cl.Members[i]
	rt := m.DB.VerifRT()
	d := memberDump{Idx: i, Self: jm(rt.This()), View: jms(rt.Discovery().GetMembers()),
		Coordinator: jm(rt.Discovery().GetCoordinator()), IsCoordinator: rt.Discovery().IsCoordinator()}
	P := m.Cfg.PartitionCount
	for p := uint64(0); p < P; p++ {
		pp := m.DB.VerifPrimary().PartitionByID(p)
		bp := m.DB.VerifBackup().PartitionByID(p)
		d.Table = append(d.Table, routeDump{O: jms(pp.Owners()), B: jms(bp.Owners())})
		d.LenP = append(d.LenP, pp.Length())
		d.LenB = append(d.LenB, bp.Length())
	}
	ctx, cancel := context.WithTimeout(context.Background(), 5*time.Second)
	defer cancel()
	// CLUSTER.ROUTINGTABLE over RESP
	if r, err := cl.Raw(i).Do(ctx, "cluster.routingtable").Result(); err != nil {
		d.RespTableErr = err.Error()
	} else if l, ok := r.([]interface{}); ok {
		for _, it := range l {
			item, ok := it.([]interface{})
			if !ok || len(item) != 3 {
				d.RespTableErr = "malformed reply"
				break
			}
			var pid uint64
			fmt.Sscan(fmt.Sprint(item[0]), &pid)
			d.RespTable = append(d.RespTable, respRoute{Part: pid, O: strs(item[1]), B: strs(item[2])})
		}
		sort.Slice(d.RespTable, func(a, b int) bool { return d.RespTable[a].Part < d.RespTable[b].Part })
	}
	if r, err := cl.Raw(i).Do(ctx, "cluster.members").Result(); err != nil {
		d.RespMembersErr = err.Error()
	} else if l, ok := r.([]interface{}); ok {
		for _, it := range l {
			d.RespMembers = append(d.RespMembers, strs(it))
		}
	}
	if t, err := m.Emb.RoutingTable(ctx); err != nil {
		d.EmbTableErr = err.Error()
	} else {
		d.EmbTable = toRespRoutes(t)
	}
	// the member's own ring
	ringMembers, mapMembers := rt.VerifRingMembers()
	sort.Slice(ringMembers, func(a, b int) bool { return ringMembers[a].Birthdate < ringMembers[b].Birthdate })
	sort.Slice(mapMembers, func(a, b int) bool { return mapMembers[a].Birthdate < mapMembers[b].Birthdate })
	d.Ring.Members, d.Ring.MapIDs = jms(ringMembers), jms(mapMembers)
	ring := rt.VerifOwnRing()
	for p := uint64(0); p < P; p++ {
		o, _ := ring.GetPartitionOwner(int(p)).(discovery.Member)
		d.Ring.Owners = append(d.Ring.Owners, jm(o))
		var per [][]jmember
		for n := 1; n <= sc.R; n++ {
			c, err := ring.GetClosestNForPartition(int(p), n)
			if err != nil {
				per = append(per, nil)
				continue
			}
			ms := make([]jmember, 0, n)
			for _, x := range c {
				ms = append(ms, jm(x.(discovery.Member)))
			}
			per = append(per, ms)
		}
		d.Ring.Closest = append(d.Ring.Closest, per)
	}
	d.Ring.Bound, d.Ring.MaxOwn, d.Ring.Facts = checkRingFacts(ring, ringMembers, P, m.Cfg.LoadFactor)
	for _, k := range sc.Keys {
		h := partitions.HKey("d", k)
		part := m.DB.VerifPrimary().PartitionByHKey(h)
		kv := keyView{Key: k, HKey: h, Part: m.DB.VerifPrimary().PartitionIDByHKey(h)}
		if part.OwnerCount() > 0 {
			kv.Owner = part.Owner().Name
		}
		d.Keys = append(d.Keys, kv)
	}
	// verifyRoutingTable: would this member accept a table from the coordinator / from somebody else?
	errStr := func(err error) string {
		if err == nil {
			return "ok"
		}
		return "rejected"
	}
	d.VerifyFromCoordinator = errStr(rt.VerifVerify(d.Coordinator.ID, int(P)))
	for _, v := range d.View {
		if v.ID != d.Coordinator.ID {
			d.VerifyFromOther = errStr(rt.VerifVerify(v.ID, int(P)))
			break
		}
	}
	return d
}

func dumpClient(cl *Cluster, sc *memScenario) clientDump {
	var d clientDump
	var addrs []string
	for _, m := range cl.Live() {
		addrs = append(addrs, m.Addr)
	}
	cc, err := olric.NewClusterClient(addrs, olric.WithLogger(log.New(io.Discard, "", 0)))
	if err != nil {
		d.Err = err.Error()
		return d
	}
	ctx, cancel := context.WithTimeout(context.Background(), 5*time.Second)
	defer cancel()
	defer cc.Close(ctx)
	t, err := cc.RoutingTable(ctx)
	if err != nil {
		d.Err = "routing table: " + err.Error()
		return d
	}
	d.Table = toRespRoutes(t)
	ms, err := cc.Members(ctx)
	if err != nil {
		d.Err = "members: " + err.Error()
		return d
	}
	for _, m := range ms {
		d.Members = append(d.Members, jmember{Name: m.Name, ID: m.ID, Birth: m.Birthdate})
		if m.Coordinator {
			d.Coord = append(d.Coord, m.Name)
		}
	}
	for _, k := range sc.Keys {
		pc, part, addr, addr2, err := cc.VerifSmartPick("d", k)
		ck := clientKey{Key: k, PCount: pc, Part: part, Addr: addr, AddrByPart: addr2}
		if err != nil {
			ck.Err = err.Error()
		}
		d.Keys = append(d.Keys, ck)
	}
	return d
}

func runMembership(sc *memScenario) (res memResult) {
	t0 := time.Now()
	res.ID = sc.ID
	var clp *Cluster
	defer func() {
		res.WallMs = time.Since(t0).Milliseconds()
		if clp != nil {
			for _, m := range clp.Members {
				res.Addrs = append(res.Addrs, m.Addr)
			}
		}
	}()
	timeout := time.Duration(sc.TimeoutMs) * time.Millisecond
	if timeout <= 0 {
		timeout = 30 * time.Second
	}
	quiet := 2500 * time.Millisecond
	opts := ClusterOpts{Members: sc.Init, Replicas: sc.R, Partitions: sc.P, TableSize: 65536, FastGossip: !sc.SlowGossip}
	// like StartCluster, but a cluster whose members agree on membership and still do not reach a steady table is
	// a matter for the property, not for the environment
	cl := &Cluster{Opts: opts, raw: map[int]*redis.Client{}}
	defer cl.Shutdown()
	clp = cl
	for i := 0; i < sc.Init || i < 1; i++ {
		if _, err := addMemberAt(cl, ""); err != nil {
			res.EnvError = "start: " + err.Error()
			return
		}
	}
	if si := settle(cl, timeout, quiet); si.Kind == "membership" {
		res.EnvError = "start: membership did not converge: " + si.Why
		return
	}
	res.Load = cl.Members[0].Cfg.LoadFactor
	nput := 0
	for _, op := range sc.Script {
		name, _ := op[0].(string)
		var err error
		ts := time.Now()
		switch name {
		case "join":
			_, err = addMemberAt(cl, "")
		case "stop":
			err = cl.StopMember(int(num(op[1])))
		case "kill":
			err = killMember(cl, int(num(op[1])))
		case "rejoin":
			i := int(num(op[1]))
			if cl.Members[i].Alive {
				err = fmt.Errorf("member %d is alive", i)
			} else {
				_, err = addMemberAt(cl, cl.Members[i].Addr)
			}
		case "restart":
			// a crash (no leave message) and an immediate restart under the same name and the same gossip address:
			// the other members see the new incarnation before the failure detector has declared the old one dead
			i := int(num(op[1]))
			m := cl.Members[i]
			if !m.Alive {
				err = fmt.Errorf("member %d is not alive", i)
				break
			}
			mlPort := int(m.DB.VerifRT().Discovery().LocalNode().Port)
			if err = killMember(cl, i); err == nil {
				_, err = addMemberAtPort(cl, m.Addr, mlPort)
			}
		case "put":
			live := cl.Live()
			if len(live) == 0 {
				err = fmt.Errorf("no live member")
				break
			}
			dm, e := live[0].Emb.NewDMap("d")
			if e != nil {
				err = e
				break
			}
			n := int(num(op[1]))
			ctx, cancel := context.WithTimeout(context.Background(), 10*time.Second)
			for j := 0; j < n; j++ {
				// failures (e.g. a write quorum that cannot be reached right after a kill) are not the subject here
				_ = dm.Put(ctx, fmt.Sprintf("key-%d", nput), "v")
				nput++
			}
			cancel()
		case "wait":
			si := settle(cl, timeout, quiet)
			if si.MaxSyncMs > res.MaxSyncMs {
				res.MaxSyncMs = si.MaxSyncMs
			}
			if si.Kind == "membership" {
				err = fmt.Errorf("membership did not converge: %s", si.Why)
			}
		case "probe": // diagnostics: does the address of member i still answer?
			i := int(num(op[1]))
			rc := redis.NewClient(&redis.Options{Addr: cl.Members[i].Addr, MaxRetries: -1, DialTimeout: time.Second, ReadTimeout: time.Second})
			ctx, cancel := context.WithTimeout(context.Background(), 2*time.Second)
			_, e := rc.Do(ctx, "internal.node.lengthofpart", 0).Result()
			cancel()
			rc.Close()
			err = fmt.Errorf("probe result: %v", e)
		case "sleep":
			time.Sleep(time.Duration(num(op[1])) * time.Millisecond)
		default:
			err = fmt.Errorf("unknown op %q", name)
		}
		if err != nil {
			res.Steps = append(res.Steps, fmt.Sprintf("%v: %v", op, err))
			if name == "join" || name == "rejoin" || name == "wait" {
				// a member that cannot start / a cluster that never agrees on membership: environment
				res.EnvError = fmt.Sprintf("%v: %v", op, err)
				return
			}
		} else {
			res.Steps = append(res.Steps, fmt.Sprintf("ok %dms", time.Since(ts).Milliseconds()))
		}
	}
	// The dump is only meaningful while membership is stable ("after membership stabilises"): memberlist may
	// suspect a live member at any time on a busy machine. Settle, dump, and check that membership was still agreed
	// after the dump; otherwise settle and dump again.
	for attempt := 1; attempt <= 4; attempt++ {
		res.DumpAttempts = attempt
		res.Settle = settle(cl, timeout, quiet)
		if res.Settle.MaxSyncMs > res.MaxSyncMs {
			res.MaxSyncMs = res.Settle.MaxSyncMs
		}
		if res.Settle.Kind == "membership" {
			res.EnvError = "membership did not converge: " + res.Settle.Why
			return
		}
		if res.Settle.Kind == "ring" {
			for i, m := range cl.Members {
				if m.Alive {
					res.Live = append(res.Live, i)
					res.Members = append(res.Members, dumpMember(cl, i, sc))
				}
			}
			res.Client = dumpClient(cl, sc)
			return
		}
		sigBefore := allSignatures(cl)
		res.Live, res.Members = nil, nil
		for i, m := range cl.Members {
			if m.Alive {
				res.Live = append(res.Live, i)
				res.Members = append(res.Members, dumpMember(cl, i, sc))
			}
		}
		res.Client = dumpClient(cl, sc)
		ok, why := membershipAgreed(cl)
		if ok && res.Settle.Kind != "none" && allSignatures(cl) != sigBefore {
			ok, why = false, "the routing tables changed while the cluster was dumped"
		}
		if ok {
			return
		} else if attempt == 4 {
			res.EnvError = "membership kept changing while the cluster was dumped: " + why
		}
	}
	return
}

func membershipMain(args []string, in *bufio.Reader, out *bufio.Writer) error {
	if len(args) > 0 && args[0] == "-stacks" {
		go func() {
			time.Sleep(12 * time.Second)
			buf := make([]byte, 1<<22)
			n := runtime.Stack(buf, true)
			os.Stderr.Write(buf[:n])
		}()
	}
	dec := json.NewDecoder(in)
	enc := json.NewEncoder(out)
	for {
		var sc memScenario
		if err := dec.Decode(&sc); err == io.EOF {
			return nil
		} else if err != nil {
			return err
		}
		res := runMembership(&sc)
		if err := enc.Encode(res); err != nil {
			return err
		}
		out.Flush()
	}
}

// stableExact is the strict criterion of the C13 scripts: cluster.go's stableNow, but with exactly min(R,N)-1
// backup owners per partition (stableNow accepts further backup owners, which is what the C02/C03 fail-over
// scenarios need: there a member that still holds backup data legitimately stays listed).
func (cl *Cluster) stableExact() (bool, string) {
	ok, why := cl.stableNow()
	if !ok {
		return ok, why
	}
	live := cl.Live()
	if len(live) == 0 {
		return true, ""
	}
	r := cl.Opts.Replicas
	if r < 1 {
		r = 1
	}
	nb := r - 1
	if len(live)-1 < nb {
		nb = len(live) - 1
	}
	m := live[0]
	for p := uint64(0); p < m.Cfg.PartitionCount; p++ {
		if c := m.DB.VerifBackup().PartitionByID(p).OwnerCount(); c != nb {
			return false, fmt.Sprintf("partition %d has %d backups, want %d", p, c, nb)
		}
	}
	return true, ""
}
